import PasskeyVerif.Model.Hid
