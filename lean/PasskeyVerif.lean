-- Root of the `PasskeyVerif` library: every property module.
import PasskeyVerif.Props.C16
import PasskeyVerif.Props.C10
import PasskeyVerif.Props.C01
import PasskeyVerif.Props.C12
import PasskeyVerif.Props.C13
import PasskeyVerif.Props.C04
import PasskeyVerif.Props.C05
import PasskeyVerif.Props.C08
import PasskeyVerif.Props.C11
import PasskeyVerif.Props.C02
import PasskeyVerif.Props.C03
import PasskeyVerif.Props.C09
import PasskeyVerif.Props.C07
import PasskeyVerif.Props.C06
import PasskeyVerif.Props.C17
import PasskeyVerif.Props.C18
import PasskeyVerif.Props.C19
