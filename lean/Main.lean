/- Line-protocol driver: stdin lines `op<TAB>implementation-observation`, stdout lines
`model-observation<TAB>spec-verdict`. Imports only Mathlib-free modules so that it links. -/
import PasskeyVerif.Driver.Hid
import PasskeyVerif.Driver.Psl
import PasskeyVerif.Driver.RpId
import PasskeyVerif.Driver.AuthData
import PasskeyVerif.Driver.Ctap
import PasskeyVerif.Driver.Auth
import PasskeyVerif.Driver.Client
import PasskeyVerif.Driver.Secrets
import PasskeyVerif.Driver.U2f
import PasskeyVerif.Driver.Concurrent
import PasskeyVerif.Driver.Decoders
import PasskeyVerif.Driver.WebJson
open PasskeyVerif

structure DriverState where
  hid : Driver.Hid.St := {}
  au : Driver.Auth.St := {}
  cc : Driver.Concurrent.St := {}
  js : Driver.WebJson.St := {}

def stepLine (st : DriverState) (line : String) : DriverState × String :=
  let (opS, impl) := match splitTab line with
    | [a] => (a, "")
    | a :: b :: _ => (a, b)
    | [] => ("", "")
  let op := splitSp opS
  match op with
  | tok :: _ =>
    if tok.startsWith "hid." then
      let (h, out) := Driver.Hid.step st.hid op impl
      ({ st with hid := h }, out)
    else if tok.startsWith "au." then
      let (a, out) := Driver.Auth.step st.au op impl
      ({ st with au := a }, out)
    else if tok.startsWith "cl." then
      let (a, out) := Driver.Client.step st.au op impl
      ({ st with au := a }, out)
    else if tok.startsWith "js." then
      let (j, out) := Driver.WebJson.step st.js op impl
      ({ st with js := j }, out)
    else if tok.startsWith "dec." then (st, Driver.Decoders.step op impl)
    else if tok.startsWith "cc." then
      let (a, c, out) := Driver.Concurrent.step st.au st.cc op impl
      ({ st with au := a, cc := c }, out)
    else if tok.startsWith "u2f." then
      let (a, out) := Driver.U2f.step st.au op impl
      ({ st with au := a }, out)
    else if tok = "sec.reset" || tok = "sec.end" then (st, "-\tna")
    else if tok.startsWith "sec." then (st, Driver.Secrets.step op impl)
    else if tok.startsWith "psl." then (st, Driver.Psl.step op impl)
    else if tok.startsWith "rp." then (st, Driver.RpId.step op impl)
    else if tok.startsWith "ad." then (st, Driver.AuthData.step op impl)
    else if tok.startsWith "st." || tok.startsWith "ctap." then (st, Driver.Ctap.step op impl)
    else (st, "bad-op\tna")
  | [] => (st, "bad-op\tna")

partial def loop (h : IO.FS.Stream) (out : IO.FS.Stream) (st : DriverState) : IO Unit := do
  let line ← h.getLine
  if line.isEmpty then return ()
  let line := (line.dropEndWhile (fun c => c == '\n' || c == '\r')).toString
  let (st', o) := stepLine st line
  out.putStrLn o
  loop h out st'

def main : IO Unit := do
  let stdin ← IO.getStdin
  let stdout ← IO.getStdout
  loop stdin stdout {}
