/- Driver command `sec.scan <label> <secret,secret,...> <blob>`: C06 scan of one returned value. -/
import PasskeyVerif.Spec.Secrets
import PasskeyVerif.Driver.AuthText
namespace PasskeyVerif.Driver.Secrets
open PasskeyVerif.Driver.AuthText

def step (op : List String) (_impl : String) : String :=
  match op with
  | ["sec.scan", label, secrets, blob] =>
    match (if secrets = "N" then some [] else (secrets.splitOn ",").mapM bytesOfHex), bytesOfHex blob with
    | some ss, some b =>
      -- `control-…` lines carry a planted secret: the scan must find it
      if label.startsWith "control-" then
        (match Spec.Secrets.scan ss b with
         | none => "-\tfail:planted-secret-not-found-by-the-scan"
         | some _ => "-\tok")
      else
      (match Spec.Secrets.scan ss b with
       | none => "-\tok"
       | some f => "-\tfail:" ++ f)
    | _, _ => "bad-op\tna"
  | _ => "bad-op\tna"

end PasskeyVerif.Driver.Secrets
