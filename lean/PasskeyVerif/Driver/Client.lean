/- Driver commands `cl.*`: client-level ceremonies (C02, C03, C06, C09, C11). Shares the world state of `au.*`. -/
import PasskeyVerif.Driver.Auth
import PasskeyVerif.Driver.RpId
import PasskeyVerif.Model.Client
import PasskeyVerif.Spec.Client
namespace PasskeyVerif.Driver.Client
open PasskeyVerif PasskeyVerif.Auth PasskeyVerif.Client PasskeyVerif.Driver.AuthText
open PasskeyVerif.AuthData (Bytes)

def strOfHexS (s : String) : Option String := (bytesOfHex s).bind (fun b => String.fromUTF8? (ByteArray.mk b.toArray))
def natStr (s : String) : Option Psl.Str := (bytesOfHex s).map (fun b => b.map UInt8.toNat)

structure OriginIn where
  origin : RpId.Origin
  allowLocalhost : Bool
  ascii : Option Psl.Str
  originStr : String

def parseOrigin : List String → Option OriginIn
  | [kind, scheme, domain, allow, ascii, ostr] =>
    let asc := if ascii = "ERR" then none else natStr ascii
    match strOfHexS ostr with
    | none => none
    | some os =>
      if kind = "web" then
        match natStr scheme, (if domain = "NONE" then some none else (natStr domain).map some) with
        | some sc, some dm => some ⟨.web sc dm, allow = "1", asc, os⟩
        | _, _ => none
      else if kind = "android" then (natStr domain).map (fun h => ⟨.android h, allow = "1", asc, os⟩)
      else none
  | _ => none

def verifierOf (o : OriginIn) (rp : Option Psl.Str) : RpId.Verifier :=
  let host : Option Psl.Str := match o.origin with | .web _ d => d | .android h => some h
  let eff := rp.orElse (fun _ => host)
  { allowLocalhost := o.allowLocalhost, provider := Driver.RpId.defaultProviderExec,
    toAscii := fun s => if some s = eff then o.ascii else none }

def parseCPrfV (s : String) : Option (Option PrfVals) :=
  if s = "N" then some none else
  match s.splitOn "+" with
  | [a, b] => match bytesOfHex a, parseOptHex b with
    | some f, some sec => some (some ⟨f, sec⟩)
    | _, _ => none
  | _ => none

def parseCPrfI (s : String) : Option (Option PrfInputs) :=
  if s = "N" then some none else
  match s.splitOn "~" with
  | [ev, bc] =>
    match parseCPrfV ev with
    | none => none
    | some ev =>
      let bcL : Option (Option (List (String × PrfVals))) :=
        if bc = "N" then some none
        else if bc = "E" then some (some [])
        else ((bc.splitOn "|").mapM (fun (e : String) => match e.splitOn "=" with
          | [k, v] => match strOfHexS k, parseCPrfV v with
            | some k, some (some v) => some (k, v)
            | _, _ => none
          | _ => none)).map some
      bcL.map (fun bc => some ⟨ev, bc⟩)
  | _ => none

def parseCExt (s : String) : Option (Option ExtIn) :=
  if s = "N" then some none else
  match s.splitOn "/" with
  | [cp, prf, pah] =>
    let cpV : Option (Option Bool) := if cp = "cp:N" then some none else if cp = "cp:0" then some (some false) else if cp = "cp:1" then some (some true) else none
    match cpV, (if prf.startsWith "prf:" then parseCPrfI (prf.drop 4).toString else none),
          (if pah.startsWith "pah:" then parseCPrfI (pah.drop 4).toString else none) with
    | some a, some b, some c => some (some ⟨a, b, c⟩)
    | _, _, _ => none
  | _ => none

def parseUvReq (c : Char) : Option UvReq := if c = 'r' then some .required else if c = 'p' then some .preferred else if c = 'd' then some .discouraged else none

def parseSel (s : String) : Option (Option Selection) :=
  if s = "N" then some none else
  match s.toList with
  | [rk, rrk, uv] =>
    let rkV : Option (Option ResidentKey) := if rk = 'N' then some none else if rk = 'd' then some (some .discouraged)
      else if rk = 'p' then some (some .preferred) else if rk = 'r' then some (some .required) else none
    match rkV, parseUvReq uv with
    | some r, some u => some (some ⟨r, rrk == '1', u⟩)
    | _, _ => none
  | _ => none

def parseCd (s : String) : Option ClientDataMode :=
  if s = "D" then some .default
  else if s.startsWith "H" then (bytesOfHex (s.drop 1).toString).map .customHash
  else if s.startsWith "X" then (strOfHexS (s.drop 1).toString).map .extra
  else none

def showWebErr : WebErr → String
  | .rp e => "rp." ++ Driver.RpId.errName e
  | .credentialNotFound => "CredentialNotFound"
  | .authenticatorError c => s!"AuthenticatorError({c})"
  | .notSupported => "NotSupportedError"
  | .syntaxError => "SyntaxError"
  | .validationError => "ValidationError"

def showPrfMake (p : Option PrfMakeOut) : String :=
  match p with
  | none => "N"
  | some o => s!"{bit o.enabled}+{match o.results with | none => "N" | some v => showPrfValues v}"

def showRegRes (r : Except WebErr RegisterResp) : String :=
  match r with
  | .error e => "err:" ++ showWebErr e
  | .ok x =>
    s!"ok:{hx x.id.toUTF8.toList}:{hx x.rawId}:{hx x.clientDataJson.toUTF8.toList}:{hx x.authenticatorData}:{hx x.publicKey}:{x.publicKeyAlgorithm}:{hx x.attestationObject}:{match x.credProps with | none => "N" | some b => bit b}:{showPrfMake x.prf}"

def showAuthRes (r : Except WebErr AuthResp) (sig : Bytes) : String :=
  match r with
  | .error e => "err:" ++ showWebErr e
  | .ok x =>
    s!"ok:{hx x.id.toUTF8.toList}:{hx x.rawId}:{hx x.clientDataJson.toUTF8.toList}:{hx x.authenticatorData}:{optHx x.userHandle}:{match x.prf with | none => "N" | some v => showPrfValues v}:{hx sig}"

def showTraceStore (trace : List Event) (s : Store) : String :=
  let ev := if trace.isEmpty then "-" else ";".intercalate ((trace.map evObsOf).map showEv)
  let st := storeObs s
  s!"ev={ev} store={if st.isEmpty then "EMPTY" else ";".intercalate (st.map showSnap)}"

/-- the signature field of an observed authentication result (last `:` field of `res=ok:…`) -/
def observedSig (impl : String) : Bytes :=
  match fieldOf impl "res" with
  | some r => if r.startsWith "ok:" then ((r.splitOn ":").getLast?.bind bytesOfHex).getD [] else []
  | none => []

def step (st : Driver.Auth.St) (op : List String) (impl : String) : Driver.Auth.St × String :=
  match op with
  | ["cl.idbits", len, orHex, andHex, distinct, badKeys] =>
    -- freshness of credential ids, statistically: over the registrations of one batch no byte position is constant
    -- zero or constant 0xFF, and no id repeats (a false alarm has probability below 2^-150)
    match len.toNat?, bytesOfHex orHex, bytesOfHex andHex with
    | some n, some o, some a =>
      let v := if o.length != n || a.length != n then "fail:credential-id-not-of-the-configured-length"
        else if o.any (· == 0) || a.any (· == 255) then "fail:credential-ids-have-a-constant-byte"
        else if distinct != "1" then "fail:credential-id-repeated"
        else if badKeys != "0" then "fail:attested-key-coordinates-not-32-bytes-or-without-a-der-form"
        else "ok"
      (st, impl ++ "\t" ++ v)
    | _, _, _ => (st, "bad-op\tna")
  | "cl.reg" :: k :: sc :: dm :: al :: asc :: os :: rp :: user :: chal :: algs :: excl :: sel :: ext :: cd :: uv :: faults :: draws :: _ =>
    match parseOrigin [k, sc, dm, al, asc, os], (if rp = "NONE" then some none else (natStr rp).map some), bytesOfHex user, bytesOfHex chal,
          parseAlgs algs, parseIds excl, parseSel sel, parseCExt ext, parseCd cd, parseUv uv, parseFaults faults, parseDraws draws with
    | some o, some rp, some user, some chal, some algs, some excl, some sel, some ext, some cd, some uv, some faults, some draws =>
      let s0 := { st.store with calls := 0, faults := faults }
      let req : RegisterReq := ⟨rp, user, chal, algs, excl, sel, ext⟩
      let out := register (verifierOf o rp) st.cfg uv s0 (draws.getD Driver.Auth.emptyDraws) o.origin o.originStr req cd
      let model := s!"res={showRegRes out.result} {showTraceStore out.trace out.store}"
      let verdict := Spec.Client.verdictReg st.prop st.cfg st.store.kind uv o.origin o.originStr req cd draws st.implStore impl
      let implStore := match fieldOf impl "store" with
        | some t => if t = "EMPTY" then some [] else (t.splitOn ";").mapM parseSnap
        | none => none
      ({ st with store := { out.store with faults := [] }, implStore := implStore.getD st.implStore }, model ++ "\t" ++ verdict)
    | _, _, _, _, _, _, _, _, _, _, _, _ => (st, "bad-op\tna")
  | "cl.auth" :: k :: sc :: dm :: al :: asc :: os :: rp :: chal :: allow :: uvr :: ext :: cd :: uv :: faults :: _ =>
    match parseOrigin [k, sc, dm, al, asc, os], (if rp = "NONE" then some none else (natStr rp).map some), bytesOfHex chal, parseIds allow,
          (uvr.toList.head?.bind parseUvReq), parseCExt ext, parseCd cd, parseUv uv, parseFaults faults with
    | some o, some rp, some chal, some allow, some uvr, some ext, some cd, some uv, some faults =>
      let s0 := { st.store with calls := 0, faults := faults }
      let req : AuthReq := ⟨rp, chal, allow, uvr, ext⟩
      let out := authenticate (verifierOf o rp) st.cfg uv s0 o.origin o.originStr req cd
      let model := s!"res={showAuthRes out.result (observedSig impl)} {showTraceStore out.trace out.store}"
      let verdict := Spec.Client.verdictAuth st.prop st.cfg st.store.kind uv o.origin o.originStr req cd st.implStore st.store.items impl
      let implStore := match fieldOf impl "store" with
        | some t => if t = "EMPTY" then some [] else (t.splitOn ";").mapM parseSnap
        | none => none
      ({ st with store := { out.store with faults := [] }, implStore := implStore.getD st.implStore }, model ++ "\t" ++ verdict)
    | _, _, _, _, _, _, _, _, _ => (st, "bad-op\tna")
  | _ => (st, "bad-op\tna")

end PasskeyVerif.Driver.Client
