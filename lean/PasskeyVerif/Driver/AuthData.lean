/- Driver commands for C12 (authenticator data). -/
import PasskeyVerif.Base.Hex
import PasskeyVerif.Base.Cbor
import PasskeyVerif.Model.AuthData
import PasskeyVerif.Model.AuthDataCbor
import PasskeyVerif.Spec.AuthData
namespace PasskeyVerif.Driver.AuthData
open PasskeyVerif PasskeyVerif.AuthData

def optBytes (s : String) : Option (Option Bytes) := if s = "NONE" then some none else (bytesOfHex s).map some

def parseAcd (s : String) : Option (Option (Bytes × Bytes × Bytes)) :=
  if s = "NONE" then some none else
  match s.splitOn ":" with
  | [a, c, k] =>
    match bytesOfHex a, bytesOfHex c, bytesOfHex k with
    | some a, some c, some k => some (some (a, c, k))
    | _, _, _ => none
  | _ => none

/-- named flags -> byte, with the regenerated constants (model) or the WebAuthn bit positions (Spec) -/
def flagByte (names : String) (spec : Bool) : Option UInt8 :=
  if names = "-" then some 0 else
  (names.splitOn "+").foldl (fun acc n =>
    match acc with
    | none => none
    | some b =>
      let v : Option UInt8 :=
        if n = "UP" then some (if spec then Spec.bitUP else Generated.Flags.UP)
        else if n = "UV" then some (if spec then Spec.bitUV else Generated.Flags.UV)
        else if n = "BE" then some (if spec then Spec.bitBE else Generated.Flags.BE)
        else if n = "BS" then some (if spec then Spec.bitBS else Generated.Flags.BS)
        else if n = "AT" then some (if spec then Spec.bitAT else Generated.Flags.AT)
        else if n = "ED" then some (if spec then Spec.bitED else Generated.Flags.ED)
        else none
      v.map (fun x => b ||| x)) (some 0)

def namesOf (b : UInt8) (spec : Bool) : String :=
  let tbl : List (String × UInt8) :=
    if spec then [("UP", Spec.bitUP), ("UV", Spec.bitUV), ("BE", Spec.bitBE), ("BS", Spec.bitBS), ("AT", Spec.bitAT), ("ED", Spec.bitED)]
    else [("UP", Generated.Flags.UP), ("UV", Generated.Flags.UV), ("BE", Generated.Flags.BE), ("BS", Generated.Flags.BS), ("AT", Generated.Flags.AT), ("ED", Generated.Flags.ED)]
  let ns := (tbl.filter (fun e => b &&& e.2 = e.2 && e.2 ≠ 0)).map (·.1)
  if ns.isEmpty then "-" else "+".intercalate ns

def showDec (r : Except DecErr AuthData) : String :=
  match r with
  | .error _ => "err"
  | .ok a =>
    let acd := match a.acd with
      | none => "NONE"
      | some c => s!"{hexField c.aaguid}:{hexField c.credId}:{hexField c.key}"
    let ext := match a.ext with | none => "NONE" | some e => hexField e
    s!"{hexField a.rpIdHash}/{a.flags.toNat}:{namesOf a.flags false}/{(a.counter.getD 0)}/{acd}/{ext}"

/-- for an accepted decode: the flag names reported must be those of the WebAuthn bit positions of byte 32 -/
def namesOk (v : Bytes) (impl : String) : Bool :=
  match impl.splitOn "/" with
  | _ :: fl :: _ =>
    match fl.splitOn ":" with
    | [_, names] => names == namesOf (v.getD 32 0) true
    | _ => false
  | _ => false

def decVerdict (v : Bytes) (impl : String) : String :=
  if impl = "panic" then "fail:panic"
  else if Spec.mustReject v then (if impl = "err" then "ok" else "fail:must-reject-input-accepted")
  else if impl = "err" then "na"
  else if namesOk v impl then "ok" else "fail:decoded-flag-names-differ-from-webauthn-bit-positions"

def step (op : List String) (impl : String) : String :=
  match op with
  | ["ad.flags", b] =>
    match b.toNat? with
    | none => "bad-op\tna"
    | some n =>
      let model := if (fromBits (UInt8.ofNat n)).isSome then "ok" else "none"
      let want := if (UInt8.ofNat n) &&& Spec.reserved = 0 then "ok" else "none"
      model ++ "\t" ++ (if impl = want then "ok" else "fail:flag-byte-acceptance-differs-from-webauthn-bits")
  | ["ad.rt", rp, ctr, u, acd, ext] =>
    match bytesOfHex rp, (if ctr = "NONE" then some none else ctr.toNat?.map some), flagByte u false, flagByte u true, parseAcd acd, optBytes ext with
    | some rp, some ctr, some um, some us, some acd, some ext =>
      let a0 := (AuthData.new rp ctr).setFlags um
      let built : Option AuthData := match acd with
        | none => some (a0.setExt ext)
        | some (ag, cid, key) => (Acd.new ag cid key).map (fun c => (a0.setAcd c).setExt ext)
      let model := match built with
        | none => "iderr"
        | some a => match a.toVec with
          | none => "panic"
          | some bs => s!"enc={hexField bs} dec={showDec (AuthData.fromSlice skip validKey bs)}"
      -- Spec: layout and round trip (absent counter reads back as zero); ids above 65535 refused
      let tooLong := match acd with | some (_, cid, _) => decide (cid.length > 65535) | none => false
      let userFlags := us ||| Spec.bitBE ||| Spec.bitBS   -- the constructor's default is BE|BS
      let specEnc := Spec.layout rp userFlags ctr acd ext
      let flagsByte := specEnc.getD 32 0
      let acdS := match acd with | none => "NONE" | some (ag, cid, key) => s!"{hexField ag}:{hexField cid}:{hexField key}"
      let extS := match ext with | none => "NONE" | some e => hexField e
      let specObs := s!"enc={hexField specEnc} dec={hexField (Sha256.sha256 rp)}/{flagsByte.toNat}:{namesOf flagsByte true}/{ctr.getD 0}/{acdS}/{extS}"
      let verdict :=
        if tooLong then (if impl = "iderr" then "ok" else "fail:credential-id-over-65535-not-refused")
        else if impl = specObs then "ok" else "fail:encoding-or-roundtrip-differs-from-webauthn-layout"
      model ++ "\t" ++ verdict
    | _, _, _, _, _, _ => "bad-op\tna"
  | ["ad.dec", h] =>
    match bytesOfHex h with
    | none => "bad-op\tna"
    | some v =>
      let model := showDec (AuthData.fromSlice skip validKey v)
      model ++ "\t" ++ decVerdict v impl
  | ["ad.decx", h] =>
    -- corrupted encodings: judged by the Spec only (what third-party CBOR code makes of a corrupted but
    -- complete item is outside the property); the model column echoes the implementation
    match bytesOfHex h with
    | none => "bad-op\tna"
    | some v =>
      impl ++ "\t" ++ decVerdict v impl
  | _ => "bad-op\tna"

end PasskeyVerif.Driver.AuthData
