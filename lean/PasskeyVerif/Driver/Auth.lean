/- Driver commands `au.*`: authenticator-level ceremonies (C04, C05, C07, C08, C11, CTAP halves of C02/C03/C09). -/
import PasskeyVerif.Driver.AuthText
import PasskeyVerif.Spec.Auth
import PasskeyVerif.Model.AuthCancel
namespace PasskeyVerif.Driver.Auth
open PasskeyVerif PasskeyVerif.Auth PasskeyVerif.Driver.AuthText
open PasskeyVerif.AuthData (Bytes)

/-- the AAGUID the harness configures (harness/src/util.rs `AAGUID`) -/
def harnessAaguid : Bytes := [0xA1, 0xA2, 0xA3, 0xA4, 0xB1, 0xB2, 0xC1, 0xC2, 0xD1, 0xD2, 0xE1, 0xE2, 0xE3, 0xE4, 0xE5, 0xE6]

structure St where
  prop : String := ""
  cfg : Cfg := ⟨harnessAaguid, [-7], false, 16, none⟩
  store : Store := ⟨.memoryMap, [], 0, []⟩
  /-- the implementation's store as last observed (the Spec's "store before") -/
  implStore : List PkSnap := []
  /-- C04: outcome of the twin case (same row, other store content), keyed by the row -/
  twins : List (String × String) := []

def emptyDraws : Draws := ⟨[], ⟨[], [], []⟩, [], []⟩

/-- Spec verdict for one ceremony, by property -/
def verdict (st : St) (env : Spec.Env) (op : Spec.OpReq) (o : Obs) (twinKey : Option String) : String × List (String × String) :=
  if st.prop = "C04" then
    let fails :=
      (if Spec.c04_effect_after_consent env op o then [] else ["effect-or-result-without-consent"])
      ++ (if Spec.c04_flags_truthful env o then [] else ["up-uv-flags-not-what-was-reported"])
      ++ (if Spec.c04_errors env op o then [] else ["consent-error-wrong-or-store-touched"])
      ++ (if Spec.c04_shown_is_used o then [] else ["credential-shown-is-not-the-one-that-signs"])
    -- no disclosure while consent is missing: same outcome with and without a matching credential
    let (twinFail, twins) : List String × List (String × String) :=
      match twinKey with
      | some k =>
        if Spec.consentMissing env op then
          match st.twins.find? (fun e => e.1 == k) with
          | some (_, other) => (if other == Spec.outcomeKey o then [] else ["outcome-depends-on-store-content-while-consent-missing"], st.twins)
          | none => ([], (k, Spec.outcomeKey o) :: st.twins)
        else ([], st.twins)
      | none => ([], st.twins)
    match fails ++ twinFail with
    | [] => ("ok", twins)
    | f :: _ => ("fail:" ++ f, twins)
  else if st.prop = "C05" then
    let kindName := match env.kind with | .memoryMap => "map" | .singleSlot => "slot" | .reference _ => "reference"
    let fails :=
      (match Spec.c05_store_contract env.pre o.trace with
        | .none => []
        | .foundOtherRp => [s!"store-contract:{kindName}:returned-a-listed-credential-bound-to-another-rp"]
        | .foundOtherRpNoList => [s!"store-contract:{kindName}:returned-a-credential-bound-to-another-rp-without-an-id-list"]
        | .foundUnlisted => [s!"store-contract:{kindName}:returned-a-credential-not-in-the-id-list"]
        | .nothingWithoutList => [s!"store-contract:{kindName}:nothing-returned-without-an-id-list-although-the-rp-has-credentials"]
        | .missedListed => [s!"store-contract:{kindName}:listed-credential-of-the-rp-not-returned"])
      ++ (match op with
        | .get r =>
          (if Spec.c05_assert_uses_lookup r o then [] else ["assertion-not-with-first-credential-of-the-lookup-for-rp-and-allow-list"])
          ++ (if Spec.c05_assert_bound env.pre r o then [] else ["assertion-with-credential-of-another-rp-or-outside-allow-list"])
          ++ (if Spec.c05_assert_selects env r o then [] else ["absent-or-empty-allow-list-does-not-select-the-first-credential-of-the-rp"])
        | .make r => (if Spec.c05_excluded_iff env r o then [] else ["credential-excluded-not-exactly-when-listed-credential-held-for-rp"])
          -- a store other than the single slot keeps what it held when it accepts a new credential (or later
          -- lookups by id and RP could not be answered as the contract says)
          ++ (if kindName != "slot" && Spec.isOk o.res && !(env.pre.all (fun p => o.store.any (fun q => q.credId == p.credId && q.rpId == p.rpId))) then
                [s!"store-contract:{kindName}:saving-a-credential-dropped-one-held-before"] else []))
    match fails with
    | [] => ("ok", st.twins)
    | f :: _ => ("fail:" ++ f, st.twins)
  else if st.prop = "C08" then
    let ok := match op with
      | .make _ => Spec.c08_register env o
      | .get _ => Spec.c08_assert env o
    (if ok then "ok" else "fail:signature-counter-not-previous-plus-one-or-not-what-the-store-holds", st.twins)
  else if st.prop = "C11" then
    let ok := match op with
      | .make r => Spec.c11_make env r o
      | .get _ => Spec.c11_get env o
    (if ok then "ok" else "fail:user-handle-stored-or-returned-not-iff-discoverable-under-store-capability", st.twins)
  else if st.prop = "C18" then
    -- the trait call must return what the direct method returns (the model, compared line by line) and return at all
    ((match o.res with
      | .panic => "fail:trait-call-panicked"
      | _ => "ok"), st.twins)
  else if st.prop = "C07" then
    let r := match op with
      | .make r => Spec.c07_make env r o
      | .get _ => Spec.c07_get env o
    ((match r with | none => "ok" | some f => "fail:" ++ f), st.twins)
  else if st.prop = "C09" then
    let r := match op with
      | .make r => Spec.c09_make env r o
      | .get r => Spec.c09_get env r st.store.items o
    ((match r with | none => "ok" | some f => "fail:" ++ f), st.twins)
  else ("na", st.twins)

def step (st : St) (op : List String) (impl : String) : St × String :=
  match op with
  | ["au.reset", prop, kind, ctr, idlen, hm] =>
    match parseKind kind, parseBit ctr, idlen.toNat?, parseHm hm with
    | some k, some c, some n, some h =>
      ({ prop := prop, cfg := ⟨harnessAaguid, [-7], c, clampIdLen n, h⟩, store := ⟨k, [], 0, []⟩, implStore := [], twins := st.twins }, "-\tna")
    | _, _, _, _ => (st, "bad-op\tna")
  | "au.load" :: f =>
    match parsePasskey f with
    | some p =>
      let items := saveRaw st.store.kind st.store.items p
      ({ st with store := { st.store with items := items }, implStore := sortSnaps (items.map snapOf) }, "-\tna")
    | none => (st, "bad-op\tna")
  | "au.make" :: f =>
    -- an optional trailing `tw=<key>` field pairs the case with its twin (C04)
    let (f, tw) := match f.reverse with
      | last :: rest => if last.startsWith "tw=" then (rest.reverse, some (last.drop 3).toString) else (f, none)
      | [] => (f, none)
    match parseMake f with
    | none => (st, "bad-op\tna")
    | some (req, uv, faults, draws, cancel) =>
      let s0 := { st.store with calls := 0, faults := faults }
      let out := makeCredential st.cfg uv s0 (draws.getD emptyDraws) req
      let mo := obsOfMake out
      match cancel.filter (fun k => k - 1 < out.trace.length) with
      | some k =>
        -- dropped after k polls: the first k-1 suspension points were passed
        let co := obsCancelled st.store.kind st.store.items out.trace (k - 1)
        let env : Spec.Env := ⟨st.cfg, st.store.kind, uv, st.implStore, faults.any Option.isSome⟩
        let items' := applyEvents st.store.kind st.store.items (out.trace.take (k - 1))
        match parseObs true impl with
        | none => ({ st with store := { st.store with items := items' } }, showObs co ++ "\tfail:unparsable-or-crashed")
        | some io =>
          let (v, tw') := verdict st env (.make req) io tw
          ({ st with store := { st.store with items := items' }, implStore := io.store, twins := tw' }, showObs co ++ "\t" ++ v)
      | none =>
        let model := showObs mo
        let env : Spec.Env := ⟨st.cfg, st.store.kind, uv, st.implStore, faults.any Option.isSome⟩
        match parseObs true impl with
        | none => ({ st with store := { out.store with faults := [] } }, model ++ "\tfail:unparsable-or-crashed")
        | some io =>
          let (v, tw') := verdict st env (.make req) io tw
          -- C18: the call went through the trait; the model is the direct method
          let v := if st.prop = "C18" && v == "ok" && impl != model then "fail:trait-call-differs-from-the-direct-method" else v
          ({ st with store := { out.store with faults := [] }, implStore := io.store, twins := tw' }, model ++ "\t" ++ v)
  | "au.get" :: f =>
    let (f, tw) := match f.reverse with
      | last :: rest => if last.startsWith "tw=" then (rest.reverse, some (last.drop 3).toString) else (f, none)
      | [] => (f, none)
    match parseGet f with
    | none => (st, "bad-op\tna")
    | some (req, uv, faults, cancel) =>
      let s0 := { st.store with calls := 0, faults := faults }
      let out := getAssertion st.cfg uv s0 req
      match cancel.filter (fun k => k - 1 < out.trace.length) with
      | some k =>
        let co := obsCancelled st.store.kind st.store.items out.trace (k - 1)
        let env : Spec.Env := ⟨st.cfg, st.store.kind, uv, st.implStore, faults.any Option.isSome⟩
        let items' := applyEvents st.store.kind st.store.items (out.trace.take (k - 1))
        match parseObs false impl with
        | none => ({ st with store := { st.store with items := items' } }, showObs co ++ "\tfail:unparsable-or-crashed")
        | some io =>
          let (v, tw') := verdict st env (.get req) io tw
          ({ st with store := { st.store with items := items' }, implStore := io.store, twins := tw' }, showObs co ++ "\t" ++ v)
      | none =>
        let env : Spec.Env := ⟨st.cfg, st.store.kind, uv, st.implStore, faults.any Option.isSome⟩
        match parseObs false impl with
        | none => ({ st with store := { out.store with faults := [] } }, showObs (obsOfGet out []) ++ "\tfail:unparsable-or-crashed")
        | some io =>
          -- the signature bytes are observed, not computed
          let sig := match io.res with | .getOk _ _ _ _ s => s | _ => []
          let model := showObs (obsOfGet out sig)
          let (v, tw') := verdict st env (.get req) io tw
          let v := if st.prop = "C18" && v == "ok" && impl != model then "fail:trait-call-differs-from-the-direct-method" else v
          ({ st with store := { out.store with faults := [] }, implStore := io.store, twins := tw' }, model ++ "\t" ++ v)
  | ["au.info", uvs] =>
    match parseUv uvs with
    | none => (st, "bad-op\tna")
    | some uv =>
      let s0 := { st.store with calls := 0, faults := [] }
      let (info, s1) := getInfo st.cfg uv s0
      let uvc := match info.2.2.1 with | none => "n" | some false => "f" | some true => "t"
      let storeS := let so := storeObs s1; if so.isEmpty then "EMPTY" else ";".intercalate (so.map showSnap)
      let model := s!"res=ok:{bit info.1}:{bit info.2.1}:{uvc}:{bit info.2.2.2}:{hx st.cfg.aaguid} ev=info store={storeS}"
      -- C18: through the trait the result must be the direct method's (= the model's); anything else, a crash included, fails
      let verdict := if st.prop = "C18" then (if impl = model then "ok" else "fail:trait-get-info-differs-from-the-direct-method-or-does-not-return") else "na"
      ({ st with store := { s1 with faults := [] } }, model ++ "\t" ++ verdict)
  | ["au.end"] => (st, "-\tna")
  | ["au.twin", _] =>
    -- C18: the case run through the trait and through the inherent methods on identically prepared authenticators
    (st, "same\t" ++ (if impl = "same" then "ok" else "fail:trait-call-and-inherent-method-differ-in-what-the-store-or-the-user-validation-is-handed-or-in-a-result"))
  | _ => (st, "bad-op\tna")

end PasskeyVerif.Driver.Auth
