/- Driver commands `cc.*` (C19): threads of one concurrent scenario, then the schedule. Shares the store of `au.*`. -/
import PasskeyVerif.Driver.Auth
import PasskeyVerif.Model.Concurrent
namespace PasskeyVerif.Driver.Concurrent
open PasskeyVerif PasskeyVerif.Auth PasskeyVerif.Conc PasskeyVerif.Driver.AuthText
open PasskeyVerif.AuthData (Bytes)

structure St where
  threads : List Thread := []
  /-- credential ids drawn for the registrations, by thread index -/
  regIds : List (Nat × Bytes) := []

def summary (t : Thread) : String :=
  match t with
  | .doneGet (.ok r) => s!"ok:{hx r.credId}:{r.authData.counter.getD 0}"
  | .doneGet (.error e) => s!"err:{e}"
  | .doneMake (.ok r) => s!"ok:{match r.authData.acd with | some a => hx a.credId | none => "N"}"
  | .doneMake (.error e) => s!"err:{e}"
  | _ => "stuck"

/-- the statement's clauses on what was observed: results per thread and the final store -/
def verdict (results : List String) (regIds : List (Nat × Bytes)) (post : List PkSnap) (sched : Option (List Nat)) : String :=
  if results.any (fun r => r == "stuck" || r.startsWith "extra-rounds") then "fail:a-ceremony-did-not-finish-under-this-schedule" else
  -- every successful registration's credential is present afterwards
  let lost := regIds.any (fun (i, id) => (results.getD i "").startsWith "ok:" && !post.any (fun p => p.credId == id))
  if lost then "fail:a-registered-credential-is-missing-from-the-shared-store" else
  -- successful assertions with the same credential: pairwise distinct counters, the largest of which is stored
  let asserts : List (Nat × String × Nat) := (results.zipIdx).filterMap (fun (r, i) => match r.splitOn ":" with
    | ["ok", c, n] => n.toNat?.map (fun k => (i, c, k))
    | _ => none)
  -- two ceremonies do not overlap under a call-by-call schedule when every step of one precedes every step of the other
  let serial (i j : Nat) : Bool := match sched with
    | none => false
    | some sc =>
      let pos (t : Nat) : List Nat := (sc.zipIdx).filterMap (fun (x, k) => if x == t then some k else none)
      match (pos i).getLast?, (pos j).head?, (pos j).getLast?, (pos i).head? with
      | some li, some fj, some lj, some fi => li < fj || lj < fi
      | _, _, _, _ => false
  let creds := (asserts.map (·.2.1)).eraseDups
  let bad := creds.findSome? (fun c =>
    let mine := asserts.filter (·.2.1 == c)
    let ks := mine.map (·.2.2)
    -- at the 32-bit maximum the counter stays (C08): the clause is about counters below it
    -- ... and about credentials that have a counter: one without reports zero every time (C08)
    let stored := (post.find? (fun p => hx p.credId == c)).bind (·.counter)
    if stored.isNone then none
    else if ks.any (· ≥ 4294967295) then
      -- ... the largest reported value is still the stored one (a counter that wraps around starts again below it)
      (if some (ks.foldl max 0) != stored then some "fail:stored-counter-is-not-the-largest-reported-counter" else none)
    else if ks.eraseDups.length != ks.length then
      -- which pair shares a counter: one whose ceremonies overlapped (lookups before write-backs), or not even that
      let serialDup := mine.any (fun a => mine.any (fun b => a.1 < b.1 && a.2.2 == b.2.2 && serial a.1 b.1))
      some (if serialDup then "fail:assertions-that-do-not-overlap-report-the-same-counter"
            else "fail:overlapping-assertions-with-one-credential-report-the-same-counter")
    else match (post.find? (fun p => hx p.credId == c)).bind (·.counter) with
      | some stored => if ks.foldl max 0 != stored then some "fail:stored-counter-is-not-the-largest-reported-counter" else none
      | none => none)
  bad.getD "ok"

def step (au : Driver.Auth.St) (st : St) (op : List String) (impl : String) : Driver.Auth.St × St × String :=
  match op with
  | "cc.thread" :: "G" :: f =>
    match parseGet (f ++ ["-"]) with
    | some (req, uv, _, _) => (au, { st with threads := st.threads ++ [startGet req uv] }, "-\tna")
    | none => (au, st, "bad-op\tna")
  | "cc.thread" :: "M" :: f =>
    -- fields: cdh rp user algs excl ext opts uv draws  →  parseMake wants the fault schedule before the draws
    let f' := f.take 8 ++ ["-"] ++ f.drop 8
    match parseMake f' with
    | some (req, uv, _, draws, _) =>
      let dr := draws.getD Driver.Auth.emptyDraws
      (au, { threads := st.threads ++ [startMake req uv dr], regIds := st.regIds ++ [(st.threads.length, dr.credId)] }, "-\tna")
    | none => (au, st, "bad-op\tna")
  | ["cc.thread", "U", h] =>
    -- a U2F registration under the key handle `h` (judged by the statement's clauses only: `cc.spec`)
    match bytesOfHex h with
    | some handle => (au, { threads := st.threads ++ [.doneMake (.error 1)], regIds := st.regIds ++ [(st.threads.length, handle)] }, "-\tna")
    | none => (au, st, "bad-op\tna")
  | ["cc.run", sched] =>
    match (sched.splitOn ",").mapM String.toNat? with
    | none => (au, {}, "bad-op\tna")
    | some sc =>
      let s0 := { au.store with calls := 0, faults := [] }
      let out := runSched au.cfg s0 st.threads sc
      let so := storeObs out.1
      let model := s!"res={"|".intercalate (out.2.map summary)} store={if so.isEmpty then "EMPTY" else ";".intercalate (so.map showSnap)}"
      let v := match fieldOf impl "res", fieldOf impl "store" with
        | some r, some t =>
          (match (if t = "EMPTY" then some [] else (t.splitOn ";").mapM parseSnap) with
           | some post => verdict (r.splitOn "|") st.regIds post (some sc)
           | none => "fail:unparsable-or-crashed")
        | _, _ => "fail:unparsable-or-crashed"
      ({ au with store := { out.1 with faults := [] } }, {}, model ++ "\t" ++ v)
  | ["cc.spec", _label, sched] =>
    -- call-by-call schedules of scenarios the interleaving model does not cover (a store call that fails in one
    -- ceremony only; validators reporting no presence): the statement's clauses on what the implementation did
    let v := match fieldOf impl "res", fieldOf impl "store", (sched.splitOn ",").mapM String.toNat? with
      | some r, some t, some sc =>
        (match (if t = "EMPTY" then some [] else (t.splitOn ";").mapM parseSnap) with
         | some post => verdict (r.splitOn "|") st.regIds post (some sc)
         | none => "fail:unparsable-or-crashed")
      | _, _, _ => "fail:unparsable-or-crashed"
    (au, {}, impl ++ "\t" ++ v)
  | ["cc.slow", _label, _sched] =>
    -- a slow backend behind the wrapper: polls are not call-by-call steps; the statement's clauses are evaluated on
    -- what the implementation did (search), the model is not consulted
    let v := match fieldOf impl "res", fieldOf impl "store" with
      | some r, some t =>
        (match (if t = "EMPTY" then some [] else (t.splitOn ";").mapM parseSnap) with
         | some post => verdict (r.splitOn "|") st.regIds post none
         | none => "fail:unparsable-or-crashed")
      | _, _ => "fail:unparsable-or-crashed"
    (au, {}, impl ++ "\t" ++ v)
  | _ => (au, st, "bad-op\tna")

end PasskeyVerif.Driver.Concurrent
