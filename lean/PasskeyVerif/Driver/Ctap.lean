/- Driver commands for C13 (CTAP2 messages and status bytes). -/
import PasskeyVerif.Base.Hex
import PasskeyVerif.Model.CtapMsg
import PasskeyVerif.Model.Status
import PasskeyVerif.Spec.Ctap
namespace PasskeyVerif.Driver.Ctap
open PasskeyVerif PasskeyVerif.CtapMsg PasskeyVerif.Generated PasskeyVerif.Cbor

def schemaOf (name : String) : Option (List Ctap.Field × Ctap.Spec.Table) :=
  if name = "makeCredentialRequest" then some (Ctap.makeCredentialRequest, Ctap.Spec.makeCredentialRequest)
  else if name = "makeCredentialResponse" then some (Ctap.makeCredentialResponse, Ctap.Spec.makeCredentialResponse)
  else if name = "getAssertionRequest" then some (Ctap.getAssertionRequest, Ctap.Spec.getAssertionRequest)
  else if name = "getAssertionResponse" then some (Ctap.getAssertionResponse, Ctap.Spec.getAssertionResponse)
  else if name = "getInfoResponse" then some (Ctap.getInfoResponse, Ctap.Spec.getInfoResponse)
  else if name = "hmacSecretHmacGetSecretInput" then some (Ctap.hmacSecretHmacGetSecretInput, Ctap.Spec.hmacSecretInput)
  else none

/-- default of a `default` member that is not an `Option`: the options map -/
def dfltOf (schema : List Ctap.Field) (key : Nat) : Option Item :=
  match schema.find? (fun f => f.key == key) with
  | some f => if f.hasDefault && !f.skipIfNone then some defaultOptionsItem else none
  | none => none

def showStatus (s : Status.Status) : String :=
  match s with
  | .ctap2Known i => s!"Ctap2(Known({(Ctap.ctap2Error.getD i ("?", 0)).1}))"
  | .ctap2Other b => s!"Ctap2(Other(UnknownSpecError({b})))"
  | .ctap2Extension b => s!"Ctap2(Extension(ExtensionError({b})))"
  | .ctap2Vendor b => s!"Ctap2(Vendor(VendorError({b})))"
  | .ctap1 i => s!"Ctap1({(Ctap.u2FError.getD i ("?", 0)).1})"
  | .crash => "panic"

def showWeb : Status.WebErr → String
  | .credentialNotFound => "CredentialNotFound"
  | .authenticatorError b => s!"AuthenticatorError({b})"

/-- model: decode, run the macro model, serialise again -/
def modelReser (schema : List Ctap.Field) (bs : Bytes) : String :=
  match decode1 bs with
  | some (item, []) =>
    match deserialize schema (fun _ _ => true) (dfltOf schema) item with
    | .ok vals => "ok " ++ hexOfBytes (encode (serialize schema vals))
    | .error _ => "err"
  | _ => "err"

def step (op : List String) (impl : String) : String :=
  match op with
  | ["st.byte", b] =>
    match b.toNat? with
    | none => "bad-op\tna"
    | some n =>
      let s := Status.ofByte n
      let model := if s == .crash then "panic" else s!"{showStatus s} {Status.toByte s} {showWeb (Status.toWebauthn s)}"
      -- Spec: back to the same byte; 0x2E reported as credential-not-found, every other byte passed through
      let want := if n = 0x2E then "CredentialNotFound" else s!"AuthenticatorError({n})"
      let verdict := match splitSp impl with
        | [_, back, w] => if back = toString n && w = want then "ok" else "fail:status-byte-roundtrip-or-client-mapping"
        | _ => "fail:status-conversion-crashed"
      model ++ "\t" ++ verdict
  | ["st.val", fam, b] =>
    match b.toNat? with
    | none => "bad-op\tna"
    | some n =>
      let v : Option Status.Status :=
        if fam = "ctap2" then Status.tryFamily 0 n else if fam = "ext" then Status.tryFamily 1 n
        else if fam = "vendor" then Status.tryFamily 2 n else if fam = "other" then Status.tryFamily 3 n
        else if fam = "u2f" then Status.tryFamily 11 n else none
      let model := match v with
        | none => "no-such-value"
        | some v => s!"{showStatus v} {Status.toByte v} {showStatus (Status.ofByte (Status.toByte v))}"
      -- Spec: converting a status value to its byte and back gives the same value (the documented clash of
      -- the two success codes 0x00 aside): each byte stands for exactly one status value
      let verdict := match splitSp impl with
        | [dbg, _, back] => if dbg = back || (fam = "u2f" && n = 0) then "ok" else "fail:two-status-values-share-a-byte"
        | _ => "fail:status-conversion-crashed"
      model ++ "\t" ++ verdict
  | ["ctap.opts", h] =>
    match bytesOfHex h with
    | none => "bad-op\tna"
    | some bs =>
      let item := (decode1 bs).map (·.1)
      let model := match item.bind optionsOf with
        | some (rk, up, uv) => s!"{rk},{up},{uv}"
        | none => "err"
      -- Spec: absent members take rk=false, up=true, uv=false
      let verdict := match item with
        | some (.map es) =>
          let get (k : Bytes) (d : Bool) : Bool := match mapGetText es k with | some (.simple 21) => true | some (.simple 20) => false | _ => d
          let (drk, dup, duv) := Ctap.Spec.defaultOptions
          if impl = s!"{get kRk drk},{get kUp dup},{get kUv duv}" then "ok" else "fail:option-defaults"
        | _ => "na"
      model ++ "\t" ++ verdict
  | ["ctap.msg", name, kind, h, orig] =>
    match schemaOf name, bytesOfHex h, bytesOfHex orig with
    | some (schema, spec), some bs, some ob =>
      let model := modelReser schema bs
      let verdict :=
        if impl = "panic" then "fail:panic"
        else if kind = "plain" then
          -- the real serialisation: keys are CTAP's, strictly ascending, required members present, and it round-trips
          match decode1 bs with
          | some (.map es, []) =>
            let keys := keysOf es
            let specKeys := spec.map (·.2.1)
            let required := (spec.filter (·.2.2)).map (·.2.1)
            if keys.length ≠ es.length then "fail:non-integer-top-level-key"
            else if !(keys.all (fun k => specKeys.contains k)) then "fail:key-not-assigned-by-ctap"
            else if !(keys.zip (keys.drop 1)).all (fun p => p.1 < p.2) then "fail:keys-not-ascending"
            else if !(required.all (fun k => keys.contains k)) then "fail:required-member-missing"
            else if impl ≠ "ok " ++ hexOfBytes bs then "fail:does-not-round-trip"
            else "ok"
          | _ => "fail:not-a-cbor-map"
        else if kind = "unknown" then (if impl = "ok " ++ hexOfBytes ob then "ok" else "fail:unknown-key-not-ignored")
        else if kind = "dup" then (if impl = "err" then "ok" else "fail:duplicate-member-accepted")
        else if kind.startsWith "remove:" then
          let k := ((kind.drop 7).toString.toNat?).getD 999
          let required := (spec.filter (·.2.2)).map (·.2.1)
          if required.contains k then (if impl = "err" then "ok" else "fail:missing-required-member-accepted")
          else
            -- an absent optional member takes its default: the rest is unchanged; the always-emitted
            -- `options` of the two requests comes back as the default map (rk=false, up=true, uv=false)
            match decode1 ob with
            | some (.map es, []) =>
              let isOptions := (name = "makeCredentialRequest" && k = 7) || (name = "getAssertionRequest" && k = 5)
              let es' := es.filterMap (fun e => match e.1 with
                | .uint n => if n = k then (if isOptions then some (e.1, defaultOptionsItem) else none) else some e
                | _ => some e)
              if impl = "ok " ++ hexOfBytes (encode (.map es')) then "ok" else "fail:absent-optional-member-not-defaulted"
            | _ => "na"
        else "na"
      model ++ "\t" ++ verdict
    | _, _, _ => "bad-op\tna"
  | _ => "bad-op\tna"

end PasskeyVerif.Driver.Ctap
