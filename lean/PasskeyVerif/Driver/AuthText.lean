/- Text encoding of authenticator-level operations and observations (shared by all `au.*` properties). -/
import PasskeyVerif.Base.Hex
import PasskeyVerif.Model.AuthObs
namespace PasskeyVerif.Driver.AuthText
open PasskeyVerif PasskeyVerif.Auth
open PasskeyVerif.AuthData (Bytes)

def hx (b : Bytes) : String := hexField b
def optHx : Option Bytes → String
  | none => "N"
  | some b => hx b
def optNum : Option Nat → String
  | none => "N"
  | some n => toString n

def parseOptHex (s : String) : Option (Option Bytes) := if s = "N" then some none else (bytesOfHex s).map some
def parseOptNum (s : String) : Option (Option Nat) := if s = "N" then some none else s.toNat?.map some

/-- `N` = absent, `E` = present and empty, else comma separated -/
def parseIds (s : String) : Option (Option (List Bytes)) :=
  if s = "N" then some none
  else if s = "E" then some (some [])
  else ((s.splitOn ",").mapM (fun (e : String) => bytesOfHex (if e.startsWith "u" then (e.drop 1).toString else e))).map some

def showIds : Option (List Bytes) → String
  | none => "N"
  | some [] => "E"
  | some l => ",".intercalate (l.map hx)

def bit (b : Bool) : String := if b then "1" else "0"
def parseBit (s : String) : Option Bool := if s = "1" then some true else if s = "0" then some false else none

/-! ### rendering observations -/

def showHmac : Option HmacSecret → String
  | none => "N"
  | some h => s!"{hx h.withUv}+{optHx h.withoutUv}"

def showPrfValues (v : PrfValues) : String := s!"{hx v.first}+{optHx v.second}"

def showEv : EvObs → String
  | .uv c up uv => s!"uv:{optHx c}:{bit up}:{bit uv}"
  | .find ids rp r =>
    let rs := match r with
      | .ok l => "ok:" ++ (if l.isEmpty then "E" else ",".intercalate (l.map hx))
      | .error e => s!"err:{e}"
    s!"find:{showIds ids}:{hx rp}:{rs}"
  | .save id rp uh ctr user rk up uv f =>
    s!"save:{hx id}:{hx rp}:{optHx uh}:{optNum ctr}:{hx user}:{bit rk}{bit up}{bit uv}:{match f with | none => "ok" | some e => toString e}"
  | .update id ctr f => s!"update:{hx id}:{optNum ctr}:{match f with | none => "ok" | some e => toString e}"
  | .info => "info"

def showSnap (p : PkSnap) : String :=
  s!"{hx p.credId},{hx p.rpId},{optHx p.userHandle},{optNum p.counter},{hx p.x},{showHmac p.hmac}"

def showRes : ResObs → String
  | .makeOk ad prf =>
    let p := match prf with
      | none => "N"
      | some o => s!"{bit o.enabled}+{match o.results with | none => "N" | some v => showPrfValues v}"
    s!"ok:{hx ad}:{p}"
  | .getOk cred ad uh prf sig =>
    s!"ok:{hx cred}:{hx ad}:{optHx uh}:{match prf with | none => "N" | some v => showPrfValues v}:{hx sig}"
  | .err c => s!"err:{c}"
  | .cancelled => "cancelled"
  | .panic => "panic"

def showObs (o : Obs) : String :=
  let ev := if o.trace.isEmpty then "-" else ";".intercalate (o.trace.map showEv)
  let st := if o.store.isEmpty then "EMPTY" else ";".intercalate (o.store.map showSnap)
  s!"res={showRes o.res} ev={ev} store={st}"

/-! ### parsing observations -/

def parsePrfValues (a b : String) : Option PrfValues :=
  match bytesOfHex a, parseOptHex b with
  | some f, some s => some ⟨f, s⟩
  | _, _ => none

def parseHmac (s : String) : Option (Option HmacSecret) :=
  if s = "N" then some none else
  match s.splitOn "+" with
  | [a, b] => match bytesOfHex a, parseOptHex b with
    | some x, some y => some (some ⟨x, y⟩)
    | _, _ => none
  | _ => none

def parseFault (s : String) : Option (Option Nat) := if s = "ok" then some none else s.toNat?.map some

def parseEv (s : String) : Option EvObs :=
  match s.splitOn ":" with
  | ["uv", c, up, uv] =>
    match parseOptHex c, parseBit up, parseBit uv with
    | some c, some up, some uv => some (.uv c up uv)
    | _, _, _ => none
  | ["find", ids, rp, "ok", l] =>
    match parseIds ids, bytesOfHex rp, (if l = "E" then some [] else (l.splitOn ",").mapM bytesOfHex) with
    | some ids, some rp, some l => some (.find ids rp (.ok l))
    | _, _, _ => none
  | ["find", ids, rp, "err", e] =>
    match parseIds ids, bytesOfHex rp, e.toNat? with
    | some ids, some rp, some e => some (.find ids rp (.error e))
    | _, _, _ => none
  | ["save", id, rp, uh, ctr, user, opts, f] =>
    match bytesOfHex id, bytesOfHex rp, parseOptHex uh, parseOptNum ctr, bytesOfHex user, opts.toList, parseFault f with
    | some id, some rp, some uh, some ctr, some user, [a, b, c], some f =>
      some (.save id rp uh ctr user (a == '1') (b == '1') (c == '1') f)
    | _, _, _, _, _, _, _ => none
  | ["update", id, ctr, f] =>
    match bytesOfHex id, parseOptNum ctr, parseFault f with
    | some id, some ctr, some f => some (.update id ctr f)
    | _, _, _ => none
  | ["info"] => some .info
  | _ => none

def parseSnap (s : String) : Option PkSnap :=
  match s.splitOn "," with
  | [id, rp, uh, ctr, x, hm] =>
    match bytesOfHex id, bytesOfHex rp, parseOptHex uh, parseOptNum ctr, bytesOfHex x, parseHmac hm with
    | some id, some rp, some uh, some ctr, some x, some hm => some ⟨id, rp, uh, ctr, x, hm⟩
    | _, _, _, _, _, _ => none
  | _ => none

/-- `isMake` tells which ok-shape to expect -/
def parseRes (isMake : Bool) (s : String) : Option ResObs :=
  if s = "cancelled" then some .cancelled
  else if s = "panic" then some .panic
  else match s.splitOn ":" with
    | ["err", c] => c.toNat?.map .err
    | ["ok", ad, prf] =>
      if !isMake then none else
      match bytesOfHex ad with
      | none => none
      | some ad =>
        if prf = "N" then some (.makeOk ad none) else
        match prf.splitOn "+" with
        | [e, "N"] => (parseBit e).map (fun e => .makeOk ad (some ⟨e, none⟩))
        | [e, a, b] => match parseBit e, parsePrfValues a b with
          | some e, some v => some (.makeOk ad (some ⟨e, some v⟩))
          | _, _ => none
        | _ => none
    | ["ok", cred, ad, uh, prf, sig] =>
      if isMake then none else
      match bytesOfHex cred, bytesOfHex ad, parseOptHex uh, bytesOfHex sig with
      | some cred, some ad, some uh, some sig =>
        if prf = "N" then some (.getOk cred ad uh none sig) else
        match prf.splitOn "+" with
        | [a, b] => (parsePrfValues a b).map (fun v => .getOk cred ad uh (some v) sig)
        | _ => none
      | _, _, _, _ => none
    | _ => none

def fieldOf (obs key : String) : Option String :=
  match (splitSp obs).filter (fun t => t.startsWith (key ++ "=")) with
  | t :: _ => some (t.drop (key.length + 1)).toString
  | [] => none

def parseObs (isMake : Bool) (s : String) : Option Obs :=
  match fieldOf s "res", fieldOf s "ev", fieldOf s "store" with
  | some r, some ev, some st =>
    match parseRes isMake r, (if ev = "-" then some [] else (ev.splitOn ";").mapM parseEv),
          (if st = "EMPTY" then some [] else (st.splitOn ";").mapM parseSnap) with
    | some r, some ev, some st => some ⟨r, ev, st⟩
    | _, _, _ => none
  | _, _, _ => none

/-! ### parsing operations -/

def parsePrfV (s : String) : Option (Option PrfValues) :=
  if s = "N" then some none else
  match s.splitOn "+" with
  | [a, b] => (parsePrfValues a b).map some
  | _ => none

def parsePrfIn (s : String) : Option (Option PrfIn) :=
  if s = "N" then some none else
  match s.splitOn "~" with
  | [ev, bc] =>
    match parsePrfV ev with
    | none => none
    | some ev =>
      let bcL : Option (Option (List (Bytes × PrfValues))) :=
        if bc = "N" then some none
        else if bc = "E" then some (some [])
        else ((bc.splitOn "|").mapM (fun (e : String) => match e.splitOn "=" with
          | [id, v] => match bytesOfHex id, parsePrfV v with
            | some id, some (some v) => some (id, v)
            | _, _ => none
          | _ => none)).map some
      bcL.map (fun bc => some ⟨ev, bc⟩)
  | _ => none

def parseMakeExt (s : String) : Option (Option MakeExtIn) :=
  if s = "N" then some none else
  match s.splitOn "/" with
  | [hs, mc, prf] =>
    let hsV : Option (Option Bool) := if hs = "hs:N" then some none else if hs = "hs:0" then some (some false) else if hs = "hs:1" then some (some true) else none
    let mcV : Option Bool := if mc = "mc:0" then some false else if mc = "mc:1" then some true else none
    let prfV := if prf.startsWith "prf:" then parsePrfIn (prf.drop 4).toString else none
    match hsV, mcV, prfV with
    | some a, some b, some c => some (some ⟨a, b, c⟩)
    | _, _, _ => none
  | _ => none

def parseGetExt (s : String) : Option (Option GetExtIn) :=
  if s = "N" then some none else
  match s.splitOn "/" with
  | [hs, prf] =>
    let hsV : Option Bool := if hs = "hs:0" then some false else if hs = "hs:1" then some true else none
    let prfV := if prf.startsWith "prf:" then parsePrfIn (prf.drop 4).toString else none
    match hsV, prfV with
    | some a, some c => some (some ⟨a, c⟩)
    | _, _ => none
  | _ => none

def parseOpts (s : String) : Option (Bool × Bool × Bool × Bool) :=
  match s.toList with
  | [a, b, c, d] => some (a == '1', b == '1', c == '1', d == '1')
  | _ => none

def parseAlgs (s : String) : Option (List Int) := if s = "-" then some [] else (s.splitOn ",").mapM String.toInt?

def parseUv (s : String) : Option UvCfg :=
  match s.splitOn ":" with
  | [cfg, ans] =>
    match cfg.toList with
    | [p, v] =>
      let ver : Option (Option Bool) := if v = 'n' then some none else if v = 'f' then some (some false) else if v = 't' then some (some true) else none
      let a : Option (Except Nat (Bool × Bool)) :=
        if ans.startsWith "E" then ((ans.drop 1).toString.toNat?).map .error
        else match ans.toList with
          | [x, y] => some (.ok (x == '1', y == '1'))
          | _ => none
      match ver, a with
      | some ver, some a => some ⟨p == '1', ver, a⟩
      | _, _ => none
    | _ => none
  | _ => none

/-- `-` or `idx=code,...` -> a list indexed by call number -/
def parseFaults (s : String) : Option (List (Option Nat)) :=
  if s = "-" then some [] else
  match (s.splitOn ",").mapM (fun (e : String) => match e.splitOn "=" with
      | [i, c] => match i.toNat?, c.toNat? with
        | some i, some c => some (i, c)
        | _, _ => none
      | _ => none) with
  | none => none
  | some l =>
    let n := (l.map (·.1)).foldl max 0 + 1
    some ((List.range n).map (fun i => (l.find? (fun e => e.1 == i)).map (·.2)))

def parseDraws (s : String) : Option (Option Draws) :=
  if s = "N" then some none else
  match s.splitOn ":" with
  | [id, d, x, y, s1, s2] =>
    match bytesOfHex id, bytesOfHex d, bytesOfHex x, bytesOfHex y, parseOptHex s1, parseOptHex s2 with
    | some id, some d, some x, some y, some s1, some s2 => some (some ⟨id, ⟨d, x, y⟩, s1.getD [], s2.getD []⟩)
    | _, _, _, _, _, _ => none
  | _ => none

def parsePasskey (f : List String) : Option Passkey :=
  match f with
  | [id, rp, uh, ctr, d, x, y, hm] =>
    match bytesOfHex id, bytesOfHex rp, parseOptHex uh, parseOptNum ctr, bytesOfHex d, bytesOfHex x, bytesOfHex y, parseHmac hm with
    | some id, some rp, some uh, some ctr, some d, some x, some y, some hm => some ⟨id, rp, uh, ctr, ⟨d, x, y⟩, hm⟩
    | _, _, _, _, _, _, _, _ => none
  | _ => none

def parseKind (s : String) : Option StoreKind :=
  if s = "map" then some .memoryMap else if s = "slot" then some .singleSlot
  else if s = "ref:full" then some (.reference .full) else if s = "ref:nondisc" then some (.reference .onlyNonDiscoverable)
  else if s = "ref:forced" then some (.reference .forcedDiscoverable) else none

def parseHm (s : String) : Option (Option HmacCfg) :=
  if s = "none" then some none else if s = "uvonly" then some (some ⟨false, false⟩) else if s = "nouv" then some (some ⟨true, false⟩)
  else if s = "uvonly+mc" then some (some ⟨false, true⟩) else if s = "nouv+mc" then some (some ⟨true, true⟩) else none

def parseMake (f : List String) : Option (MakeReq × UvCfg × List (Option Nat) × Option Draws × Option Nat) :=
  match f with
  | cdh :: rp :: user :: algs :: excl :: ext :: opts :: uv :: faults :: draws :: rest =>
    match bytesOfHex cdh, bytesOfHex rp, bytesOfHex user, parseAlgs algs, parseIds excl, parseMakeExt ext, parseOpts opts, parseUv uv,
          parseFaults faults, parseDraws draws with
    | some cdh, some rp, some user, some algs, some excl, some ext, some (rk, up, uvo, pin), some uv, some faults, some draws =>
      let cancel := match rest with
        | [c] => if c.startsWith "cancel=" then (c.drop 7).toString.toNat? else none
        | _ => none
      some (⟨cdh, rp, user, algs, excl, ext, rk, up, uvo, pin⟩, uv, faults, draws, cancel)
    | _, _, _, _, _, _, _, _, _, _ => none
  | _ => none

def parseGet (f : List String) : Option (GetReq × UvCfg × List (Option Nat) × Option Nat) :=
  match f with
  | rp :: cdh :: allow :: ext :: opts :: uv :: faults :: rest =>
    match bytesOfHex rp, bytesOfHex cdh, parseIds allow, parseGetExt ext, parseOpts opts, parseUv uv, parseFaults faults with
    | some rp, some cdh, some allow, some ext, some (rk, up, uvo, pin), some uv, some faults =>
      let cancel := match rest with
        | [c] => if c.startsWith "cancel=" then (c.drop 7).toString.toNat? else none
        | _ => none
      some (⟨rp, cdh, allow, ext, rk, up, uvo, pin⟩, uv, faults, cancel)
    | _, _, _, _, _, _, _ => none
  | _ => none

end PasskeyVerif.Driver.AuthText
