/- Driver commands for C01 (RP ID verification). -/
import PasskeyVerif.Base.Hex
import PasskeyVerif.Base.Sha256
import PasskeyVerif.Spec.RpId
import PasskeyVerif.Model.PslDefault
namespace PasskeyVerif.Driver.RpId
open PasskeyVerif PasskeyVerif.RpId
open PasskeyVerif.Psl (Str)

def strOfHex (s : String) : Option Str := (bytesOfHex s).map (fun bs => bs.map UInt8.toNat)
def hexOfStr (s : Str) : String := hexField (s.map UInt8.ofNat)

def optStr (s : String) : Option (Option Str) :=
  if s = "NONE" then some none else (strOfHex s).map some

def errName : WErr → String
  | .originMissingDomain => "OriginMissingDomain"
  | .originRpMissmatch => "OriginRpMissmatch"
  | .unprotectedOrigin => "UnprotectedOrigin"
  | .insecureLocalhostNotAllowed => "InsecureLocalhostNotAllowed"
  | .invalidRpId => "InvalidRpId"

def isRpError (s : String) : Bool :=
  s = "err:OriginMissingDomain" || s = "err:OriginRpMissmatch" || s = "err:UnprotectedOrigin"
    || s = "err:InsecureLocalhostNotAllowed" || s = "err:InvalidRpId"

/-- the executable default provider of the model: `effective_tld_plus_one(a).is_ok()` over `TABLE` -/
def defaultProviderExec (a : Str) : Bool :=
  match Psl.effectiveTldPlusOne Psl.TABLE a with
  | some (.ok _) => true
  | _ => false

structure Case where
  origin : Origin
  rp : Option Str
  allow : Bool
  prov : String
  ascii : Option Str      -- idna::domain_to_ascii of the effective RP ID, as observed

def parseCase : List String → Option Case
  | kind :: scheme :: domain :: rp :: allow :: prov :: ascii :: _ =>
    match optStr domain, optStr rp with
    | some dm, some rp =>
      let asc := if ascii = "ERR" then none else strOfHex ascii
      let al := allow = "1"
      if kind = "web" then
        (strOfHex scheme).map (fun sc => ⟨.web sc dm, rp, al, prov, asc⟩)
      else if kind = "android" then
        dm.map (fun h => ⟨.android h, rp, al, prov, asc⟩)
      else none
    | _, _ => none
  | _ => none

def Case.host (c : Case) : Option Str :=
  match c.origin with
  | .web _ d => d
  | .android h => some h

def Case.effective (c : Case) : Option Str := c.rp.orElse (fun _ => c.host)

/-- the model's verifier: the provider as configured, IDNA as observed on the effective RP ID -/
def Case.verifier (c : Case) : Verifier where
  allowLocalhost := c.allow
  provider := if c.prov = "default" then defaultProviderExec else if c.prov = "always" then (fun _ => true) else (fun _ => false)
  toAscii := fun s => if some s = c.effective then c.ascii else none

/-- what "registrable" means for the Spec under the configured provider -/
def Case.specReg (c : Case) (d : Str) : Bool :=
  match (if some d = c.effective then c.ascii else none) with
  | none => false
  | some a =>
    if c.prov = "default" then Spec.registrableUnder Psl.RULES a
    else c.prov = "always"

def field (obs key : String) : String :=
  match (splitSp obs).filter (fun t => t.startsWith (key ++ "=")) with
  | t :: _ => (t.drop (key.length + 1)).toString
  | [] => "?"

def step (op : List String) (impl : String) : String :=
  match op with
  | "rp.check" :: rest =>
    match parseCase rest with
    | none => "bad-op\tna"
    | some c =>
      let model := match assertDomain c.verifier c.origin c.rp with
        | .ok d => "ok " ++ hexOfStr d
        | .error e => "err:" ++ errName e
      let verdict := match splitSp impl with
        | ["ok", h] =>
          match strOfHex h with
          | some d => if decide (Spec.Accepted c.allow c.specReg c.origin c.rp d) then "ok" else "fail:accepted-pair-violates-rp-id-rules"
          | none => "fail:unparsable"
        | _ => if impl = "panic" then "fail:panic" else "na"
      model ++ "\t" ++ verdict
  | "rp.e2e" :: mode :: rest =>
    match parseCase rest with
    | none => "bad-op\tna"
    | some c =>
      let model := match assertDomain c.verifier c.origin c.rp with
        | .ok d =>
          if mode = "reg" then
            s!"res=ok find=NONE save={hexOfStr d} uv=1 hash={hexOfBytes (Sha256.sha256 (d.map UInt8.ofNat))}"
          else s!"res=err:CredentialNotFound find={hexOfStr d} save=NONE uv=1 hash=NONE"
        | .error e => s!"res=err:{errName e} find=NONE save=NONE uv=0 hash=NONE"
      -- Spec: the authenticator is reached only with the RP ID of an accepted pair; the hash is over it
      let find := field impl "find"
      let save := field impl "save"
      let uv := field impl "uv"
      let hash := field impl "hash"
      let seen := if save ≠ "NONE" then save else find
      let verdict :=
        if impl = "panic" then "fail:panic"
        else if seen = "NONE" then
          (if uv = "0" then "ok" else "fail:user-validation-without-accepted-rp-id")
        else match strOfHex seen with
          | none => "fail:unparsable"
          | some d =>
            if !decide (Spec.Accepted c.allow c.specReg c.origin c.rp d) then "fail:rejected-pair-reached-authenticator"
            else if find ≠ "NONE" && save ≠ "NONE" && find ≠ save then "fail:two-rp-ids-in-one-ceremony"
            else if hash ≠ "NONE" && hash ≠ hexOfBytes (Sha256.sha256 (d.map UInt8.ofNat)) then "fail:rp-id-hash-not-of-effective-rp-id"
            else "ok"
      model ++ "\t" ++ verdict
  | _ => "bad-op\tna"

end PasskeyVerif.Driver.RpId
