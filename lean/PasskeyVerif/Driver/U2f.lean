/- Driver commands `u2f.*` (C17, and the request frames of C15). Ceremonies share the store of `au.*`. -/
import PasskeyVerif.Driver.Auth
import PasskeyVerif.Spec.U2f
namespace PasskeyVerif.Driver.U2f
open PasskeyVerif PasskeyVerif.Auth PasskeyVerif.Driver.AuthText
open PasskeyVerif.AuthData (Bytes)

def showParsed : U2f.Parsed → String
  | .register c a => s!"ok:reg:{hx c}:{hx a}"
  | .authenticate p c a h => s!"ok:auth:{p.toNat}:{hx c}:{hx a}:{hx h}"
  | .version => "ok:version"
  | .err sw => s!"err:{sw}"
  | .panic => "panic"

def storeStr (s : Store) : String :=
  let st := storeObs s
  if st.isEmpty then "EMPTY" else ";".intercalate (st.map showSnap)

def parseKey (s : String) : Option (Option Key) :=
  if s = "N" then some none else
  match s.splitOn ":" with
  | [d, x, y] => match bytesOfHex d, bytesOfHex x, bytesOfHex y with
    | some d, some x, some y => some (some ⟨d, x, y⟩)
    | _, _, _ => none
  | _ => none

def implSnaps (impl : String) : List PkSnap :=
  match fieldOf impl "store" with
  | some t => if t = "EMPTY" then [] else ((t.splitOn ";").mapM parseSnap).getD []
  | none => []

def step (st : Driver.Auth.St) (op : List String) (impl : String) : Driver.Auth.St × String :=
  match op with
  | ["u2f.reset"] => (st, "-\tna")
  | ["u2f.end"] => (st, "-\tna")
  | ["u2f.ver"] => (st, hx U2f.encodeVersion ++ "\t" ++ (if impl = hx ([0x55, 0x32, 0x46, 0x5f, 0x56, 0x32, 0x90, 0x00] : Bytes) then "ok" else "fail:version-response-is-not-U2F_V2-and-the-success-status"))
  | ["u2f.encreg", x, y, handle, cert, sig] =>
    match bytesOfHex x, bytesOfHex y, bytesOfHex handle, bytesOfHex cert, bytesOfHex sig with
    | some x, some y, some handle, some cert, some sig =>
      -- FIDO U2F raw message formats §4.3, written out independently of the model
      let want : Bytes := [0x05, 0x04] ++ x ++ y ++ [UInt8.ofNat (handle.length % 256)] ++ handle ++ cert ++ sig ++ [0x90, 0x00]
      (st, hx (U2f.encodeRegister ⟨[], x, y⟩ handle cert sig) ++ "\t" ++ (if impl = hx want then "ok" else "fail:registration-response-is-not-reserved-byte-key-handle-length-handle-certificate-signature-status"))
    | _, _, _, _, _ => (st, "bad-op\tna")
  | ["u2f.encauth", presence, counter, sig] =>
    match presence.toNat?, counter.toNat?, bytesOfHex sig with
    | some p, some c, some sig =>
      let want : Bytes := [UInt8.ofNat p, UInt8.ofNat (c / 16777216), UInt8.ofNat (c / 65536 % 256), UInt8.ofNat (c / 256 % 256), UInt8.ofNat (c % 256)] ++ sig ++ [0x90, 0x00]
      (st, hx (U2f.encodeAuth (UInt8.ofNat p) c sig) ++ "\t" ++ (if impl = hx want then "ok" else "fail:authentication-response-is-not-presence-byte-big-endian-counter-signature-status"))
    | _, _, _ => (st, "bad-op\tna")
  | ["u2f.parse", f] =>
    match bytesOfHex f with
    | none => (st, "bad-op\tna")
    | some fr =>
      let model := showParsed (U2f.parseRequest fr)
      let verdict := match Spec.U2f.meaning fr with
        | some m => if impl = showParsed m then "ok" else "fail:well-formed-request-frame-not-parsed-to-the-request-it-encodes"
        | none => "na"
      (st, model ++ "\t" ++ verdict)
  | ["u2f.reg", app, chal, handle, key, faults] =>
    match bytesOfHex app, bytesOfHex chal, bytesOfHex handle, parseKey key, parseFaults faults with
    | some app, some chal, some handle, some key, some faults =>
      let k := key.getD ⟨[], [], []⟩
      let s0 := { st.store with calls := 0, faults := faults }
      let out := U2f.register s0 k app chal handle
      -- the signature bytes are observed, not computed
      let rfield := (fieldOf impl "res").getD ""
      let parts := rfield.splitOn ":"
      -- the verdict judges the implementation's observation alone
      let verdict : String := match parts with
        | ["ok", x, y, h, c, s, e] =>
          (match bytesOfHex x, bytesOfHex y, bytesOfHex h, bytesOfHex c, bytesOfHex s, bytesOfHex e with
           | some x, some y, some h, some c, some s, some e =>
             if faults.any Option.isSome then "fail:store-refused-the-credential-but-the-registration-succeeded" else
             (match Spec.U2f.c17_register app chal handle key (implSnaps impl) ⟨x, y, h, c, s, e⟩ with
              | none => "ok"
              | some f => "fail:" ++ f)
           | _, _, _, _, _, _ => "fail:unparsable-or-crashed")
        | _ => if rfield = "panic" then "fail:panic" else "na"
      let model : String :=
        match out.1 with
        | .error _ => s!"res=err:Other store={storeStr out.2.1}"
        | .ok r =>
          let sigHex := parts.getD 5 "-"
          let sig := (bytesOfHex sigHex).getD []
          let enc := U2f.encodeRegister r.key r.keyHandle r.certificate sig
          s!"res=ok:{hx r.key.x}:{hx r.key.y}:{hx r.keyHandle}:{hx r.certificate}:{hx sig}:{hx enc} store={storeStr out.2.1}"
      ({ st with store := { out.2.1 with faults := [] }, implStore := (if (fieldOf impl "store").isSome then implSnaps impl else st.implStore) }, model ++ "\t" ++ verdict)
    | _, _, _, _, _ => (st, "bad-op\tna")
  | ["u2f.auth", app, chal, handle, counter, presence, _param, faults] =>
    match bytesOfHex app, bytesOfHex chal, bytesOfHex handle, counter.toNat?, presence.toNat?, parseFaults faults with
    | some app, some chal, some handle, some counter, some presence, some faults =>
      let s0 := { st.store with calls := 0, faults := faults }
      let pb : UInt8 := UInt8.ofNat presence
      let out := U2f.authenticate s0 app chal handle counter pb
      let rfield := (fieldOf impl "res").getD ""
      let parts := rfield.splitOn ":"
      let obs : Option (Option Spec.U2f.AuthObs) := match parts with
        | ["ok", p, c, s, e] => (match p.toNat?, c.toNat?, bytesOfHex s, bytesOfHex e with
            | some p, some c, some s, some e => some (some ⟨p, c, s, e⟩)
            | _, _, _, _ => none)
        | "err" :: _ => some none
        | _ => none
      let model := match out.1 with
        | .error _ => s!"res=err:Other store={storeStr out.2.1}"
        | .ok r =>
          let sig := match obs with | some (some o) => o.sig | _ => []
          s!"res=ok:{r.presence.toNat}:{r.counter}:{hx sig}:{hx (U2f.encodeAuth r.presence r.counter sig)} store={storeStr out.2.1}"
      let verdict := match obs with
        | none => "fail:unparsable-or-crashed"
        | some o =>
          if faults.any Option.isSome then
            (match o with | some _ => "fail:store-error-during-lookup-but-the-authentication-succeeded" | none => "ok")
          else (match Spec.U2f.c17_authenticate app chal handle counter presence st.store.items o with
            | none => "ok"
            | some f => "fail:" ++ f)
      ({ st with store := { out.2.1 with faults := [] }, implStore := (if (fieldOf impl "store").isSome then implSnaps impl else st.implStore) }, model ++ "\t" ++ verdict)
    | _, _, _, _, _, _ => (st, "bad-op\tna")
  | _ => (st, "bad-op\tna")

end PasskeyVerif.Driver.U2f
