/- Driver commands for C10 (public suffix lookups). -/
import PasskeyVerif.Base.Hex
import PasskeyVerif.Model.PslDefault
namespace PasskeyVerif.Driver.Psl
open PasskeyVerif PasskeyVerif.Psl

def strOfHex (s : String) : Option Str := (bytesOfHex s).map (fun bs => bs.map UInt8.toNat)
def hexOfStr (s : Str) : String := hexField (s.map UInt8.ofNat)

def errName : Error → String
  | .cannotDeriveETldPlus1 => "CannotDeriveETldPlus1"
  | .emptyLabel => "EmptyLabel"
  | .invalidPublicSuffix => "InvalidPublicSuffix"

def parseEtld (s : String) : Option (Except Error Str) :=
  match splitSp s with
  | ["ok", h] => (strOfHex h).map .ok
  | ["err:CannotDeriveETldPlus1"] => some (.error .cannotDeriveETldPlus1)
  | ["err:EmptyLabel"] => some (.error .emptyLabel)
  | ["err:InvalidPublicSuffix"] => some (.error .invalidPublicSuffix)
  | _ => none

def natOfDec (s : String) : Option Nat := s.toNat?

/-- does the chunked packing hold exactly these bytes? -/
def sameBytes (chunks : List Nat) (bs : ByteList) : Bool :=
  (Spec.unpack chunks bs.length) == bs.map UInt8.toNat && chunks.length == (bs.length + chunkBytes - 1) / chunkBytes

def step (op : List String) (impl : String) : String :=
  match op with
  | ["psl.suffix", h] =>
    match strOfHex h with
    | none => "bad-op\tna"
    | some d =>
      let model := match publicSuffix TABLE d with
        | none => "panic"
        | some r => hexOfStr r
      let spec := hexOfStr (Spec.publicSuffix RULES d)
      model ++ "\t" ++ (if impl = spec then "ok" else "fail:public-suffix-differs-from-psl-algorithm")
  | ["psl.etld1", h] =>
    match strOfHex h with
    | none => "bad-op\tna"
    | some d =>
      let model := match effectiveTldPlusOne TABLE d with
        | none => "panic"
        | some (.ok r) => "ok " ++ hexOfStr r
        | some (.error e) => "err:" ++ errName e
      let verdict := match parseEtld impl with
        | none => "fail:etld1-crash-or-unparsable"
        | some r => if Spec.etldPlusOneOk RULES d r then "ok" else "fail:etld1-differs-from-psl-algorithm"
      model ++ "\t" ++ verdict
  | ["psl.istld", h] =>
    match strOfHex h with
    | none => "bad-op\tna"
    | some d =>
      let model := match isEffectiveTld TABLE d with
        | none => "panic"
        | some b => toString b
      let want := !Spec.hasEmptyLabel d && Spec.publicSuffix RULES d == d
      -- the empty string is its own (degenerate) suffix in the code; the statement does not speak about it
      let verdict := if d.isEmpty then "na" else if impl = toString want then "ok" else "fail:is-effective-tld-differs"
      model ++ "\t" ++ verdict
  | "psl.table" :: consts =>
    -- constants and arrays dumped from the compiled crate must equal what the translator read from the source text
    match consts with
    | [a, b, c, d, e, f, g, h, i, j, k, text, nodes, children] =>
      match [a, b, c, d, e, f, g, h, i, j, k].mapM natOfDec, bytesOfHex text, bytesOfHex nodes, bytesOfHex children with
      | some [a, b, c, d, e, f, g, h, i, j, k], some tx, some nd, some ch =>
        let t := TABLE
        let same := a == t.bitsChildren && b == t.bitsIcann && c == t.bitsTextOffset && d == t.bitsTextLength
          && e == t.bitsWildcard && f == t.bitsNodeType && g == t.bitsHi && h == t.bitsLo
          && i == t.typeNormal && j == t.typeException && k == t.numTld
          && tx.length == t.textLen && nd.length == 4 * t.nodesLen && ch.length == 4 * t.childrenLen
          && sameBytes t.text tx && sameBytes t.nodes nd && sameBytes t.children ch
        (if same then "same" else "differs") ++ "\tna"
      | _, _, _, _ => "bad-op\tna"
    | _ => "bad-op\tna"
  | ["psl.rules", n] =>
    -- number of rules the translator read; the model side reports what the blob decodes to
    match RULES? with
    | none => "blob-malformed\tna"
    | some rs => (if toString rs.length = n then "same" else s!"differs:{rs.length}") ++ "\tna"
  | _ => "bad-op\tna"

end PasskeyVerif.Driver.Psl
