/- Driver commands `dec.*` (C15): outcome class of a decoder on one input, where a model of the decoder exists. -/
import PasskeyVerif.Driver.AuthData
import PasskeyVerif.Driver.AuthText
import PasskeyVerif.Model.U2f
import PasskeyVerif.Model.Hid
import PasskeyVerif.Model.Decoders
import PasskeyVerif.Base.Base64
namespace PasskeyVerif.Driver.Decoders
open PasskeyVerif PasskeyVerif.Driver.AuthText
abbrev Bytes := List UInt8

/-- the input of `hid.packets`: one length byte (0 = 64), then that many bytes, repeated -/
def splitPackets : Nat → Bytes → List Bytes
  | 0, _ => []
  | _, [] => []
  | fuel + 1, n :: rest =>
    let k := if n == 0 then 64 else n.toNat
    rest.take k :: splitPackets fuel (rest.drop k)

mutual
  /-- constructs on which ciborium's `Value` / coset's `CoseKey::from_cbor_value` have rules of their own that the
  CBOR reader of the model does not reproduce: text that is not UTF-8, simple values other than false / true /
  null, tags -/
  partial def exotic : Cbor.Item → Bool
    | .text b => (String.fromUTF8? (ByteArray.mk b.toArray)).isNone
    | .simple v => !(v == 20 || v == 21 || v == 22)
    | .tag _ _ => true
    | .array xs => xs.any exotic
    | .map kvs => kvs.any (fun kv => exotic kv.1 || exotic kv.2)
    | _ => false
end

/-- COSE algorithm identifiers coset 0.3.8 knows (`iana::Algorithm::from_i64`); unregistered ones are accepted
only in the private-use range below -65536 -/
def cosetAlgs : List Int :=
  [-65535, -260, -259, -258, -257, -47, -46, -45, -44, -43, -42, -41, -40, -39, -38, -37, -36, -35, -34, -33, -32, -31, -30, -29, -28, -27,
   -26, -25, -18, -17, -16, -15, -14, -13, -12, -11, -10, -8, -7, -6, -5, -4, -3, 0, 1, 2, 3, 4, 5, 6, 7, 10, 11, 12, 13, 14, 15, 24, 25, 26, 30, 31, 32, 33, 34]

def itemInt? : Cbor.Item → Option Int
  | .uint n => some (Int.ofNat n)
  | .nint n => some (-1 - Int.ofNat n)
  | _ => none

/-- a COSE key in the plain shape the model's `validKey` stands for: distinct integer labels, scalar values, and
the common parameters as `CoseKey::from_cbor_value` requires them (key type 1 a registered key type, key id 2
and base IV 5 byte strings, algorithm 3 registered or private-use; key operations 4 are outside the region) -/
def plainKey (x : Cbor.Item) : Bool :=
  match x with
  | .map kvs => kvs.all (fun kv => (match kv.1 with | .uint _ => true | .nint _ => true | _ => false)
      && (match kv.2 with | .uint _ => true | .nint _ => true | .bytes _ => true | _ => false)
      && (match kv.1 with
          | .uint 1 => (match kv.2 with | .uint t => 1 ≤ t && t ≤ 6 | _ => false)
          | .uint 2 => (match kv.2 with | .bytes _ => true | _ => false)
          | .uint 3 => (match itemInt? kv.2 with | some a => cosetAlgs.contains a || a < -65536 | none => false)
          | .uint 4 => false
          | .uint 5 => (match kv.2 with | .bytes _ => true | _ => false)
          | _ => true))
      && (kvs.map (·.1)).eraseDups.length == kvs.length
  | _ => false

/-- is the authenticator-data input inside the region where the third-party CBOR / COSE rules are modelled? -/
def authDataModelled (input : Bytes) (modelOk : Bool) : Bool :=
  let body := input.drop 37
  if !modelOk then
    -- indefinite-length heads are accepted by ciborium and refused by the model's reader
    !body.any (fun b => b == 0x5f || b == 0x7f || b == 0x9f || b == 0xbf)
  else
    let flags := input.getD 32 0
    let (keyOk, rest) : Bool × Bytes :=
      if flags &&& 0x40 != 0 then
        let l := (body.getD 16 0).toNat * 256 + (body.getD 17 0).toNat
        match Cbor.decode1 (body.drop (18 + l)) with
        | some (k, r) => (plainKey k, r)
        | none => (false, [])
      else (true, body)
    keyOk && (if flags &&& 0x80 != 0 then (match Cbor.decode1 rest with | some (x, _) => !exotic x | none => false) else true)

/-- model outcome class, if the decoder is modelled: "ok" | "err" | "panic" -/
def modelClass (name : String) (input : Bytes) : Option String :=
  if name = "u2f.request" then
    some (match U2f.parseRequest input with
      | .err _ => "err"
      | .panic => "panic"
      | _ => "ok")
  else if name = "authData" then
    let ok := match PasskeyVerif.AuthData.AuthData.fromSlice PasskeyVerif.AuthData.skip PasskeyVerif.AuthData.validKey input with
      | Except.ok _ => true
      | Except.error _ => false
    if authDataModelled input ok then some (if ok then "ok" else "err") else none
  else if name = "hid.packets" then
    let outs := (Hid.feed Hid.Table.empty (splitPackets (input.length + 1) input)).2
    some (if outs.any Option.isSome then "ok" else "err")
  else if name = "base64" then
    some (match String.fromUTF8? (ByteArray.mk input.toArray) with
      | some s => if (Base64.decodeLenient s).isSome then "ok" else "err"
      | none => "err")
  else if name = "fingerprint" then
    some (match String.fromUTF8? (ByteArray.mk input.toArray) with
      | some s => if Decoders.validFingerprint s then "ok" else "err"
      | none => "err")
  else none

def natField (s key : String) : Option Nat := (fieldOf s key).bind String.toNat?

/-- the statement's clauses on one decoding: a value or an error, an allocation in proportion to the input
(a fixed slack covers the decoders' constant-size reservations), and a time in proportion -/
def verdict (inputLen : Nat) (impl : String) : String :=
  match fieldOf impl "res", natField impl "alloc", natField impl "us" with
  | some r, some a, some us =>
    if r = "panic" then "fail:decoder-panicked"
    else if r = "crash" then "fail:decoder-killed-the-process"
    else if r = "timeout" then "fail:decoder-did-not-return-in-time"
    else if r != "ok" && r != "err" then "fail:unparsable-or-crashed"
    else if a > 64 * inputLen + 2097152 then "fail:allocation-out-of-proportion-to-the-input"
    else if us > 1000000 + 50 * inputLen then "fail:time-out-of-proportion-to-the-input"
    else "ok"
  | _, _, _ => "fail:unparsable-or-crashed"

def step (op : List String) (impl : String) : String :=
  match op with
  | ["dec.reset"] => "-\tna"
  | ["dec.end"] => "-\tna"
  | ["dec.run", name, hexIn] =>
    match bytesOfHex hexIn with
    | none => "bad-op\tna"
    | some input =>
      let model := match modelClass name input with
        | some c => s!"res={c} alloc={(fieldOf impl "alloc").getD "0"} us={(fieldOf impl "us").getD "0"}"
        | none => impl          -- library decoders (ciborium, serde_json, coset, url, idna) are not modelled
      model ++ "\t" ++ verdict input.length impl
  | _ => "bad-op\tna"

end PasskeyVerif.Driver.Decoders
