/- Driver commands `js.*` (C14). -/
import PasskeyVerif.Model.WebauthnJson
import PasskeyVerif.Model.ClientDataJson
import PasskeyVerif.Model.SerdeStruct
import PasskeyVerif.Model.SerdeSer
import PasskeyVerif.Generated.WebauthnSchema
import PasskeyVerif.Driver.AuthText
namespace PasskeyVerif.Driver.WebJson
open PasskeyVerif PasskeyVerif.Json PasskeyVerif.WJson PasskeyVerif.Driver.AuthText

structure St where
  /-- rendering of the first presentation of the current group -/
  first : Option String := none

/-- COSE algorithm identifiers known to coset 0.3.8 (`iana::Algorithm::from_i64`): third-party table, a parameter here -/
def knownAlgs : List Int :=
  [-65535, -260, -259, -258, -257, -47, -46, -45, -44, -43, -42, -41, -40, -39, -38, -37, -36, -35, -34, -33, -32, -31, -30, -29, -28, -27,
   -26, -25, -18, -17, -16, -15, -14, -13, -12, -11, -10, -8, -7, -6, -5, -4, -3, 0, 1, 2, 3, 4, 5, 6, 7, 10, 11, 12, 13, 14, 15, 24, 25, 26, 30, 31, 32, 33, 34]

def textOfHex (h : String) : Option String := (bytesOfHex h).bind (fun b => String.fromUTF8? (ByteArray.mk b.toArray))

/-- JSON number grammar (the reader of Base/Json.lean is more liberal than RFC 8259 on number tokens) -/
def validNumber (s : String) : Bool :=
  let cs := s.toList
  let cs := match cs with | '-' :: r => r | r => r
  let ip := cs.takeWhile WJson.isDigit
  let r1 := cs.drop ip.length
  let okInt := !ip.isEmpty && (ip.length == 1 || ip.head? != some '0')
  let (r2, okFrac) := match r1 with
    | '.' :: r => let f := r.takeWhile WJson.isDigit; (r.drop f.length, !f.isEmpty)
    | r => (r, true)
  let okExp := match r2 with
    | [] => true
    | e :: r => (e = 'e' || e = 'E') &&
        (let r' := match r with | '-' :: x => x | '+' :: x => x | x => x
         !r'.isEmpty && r'.all WJson.isDigit)
  okInt && okFrac && okExp

partial def numbersValid : Json → Bool
  | .num s => validNumber s
  | .arr l => l.all numbersValid
  | .obj l => l.all (fun kv => numbersValid kv.2)
  | _ => true

def parseStrict (t : String) : Option Json := (Json.parse t).filter numbersValid

/-- canonical rendering of a parsed value (the harness renders the Rust value the same way: c14.rs `canon`) -/
def hx0 (b : List UInt8) : String := if b.isEmpty then "" else hx b

partial def showVal : Serde.Val → String
  | .bytes b => "h" ++ hx0 b
  | .str s => "s" ++ hx0 s.toUTF8.toList
  | .bool b => if b then "t" else "f"
  | .int i => toString i
  | .none => "N"
  | .some v => "S(" ++ showVal v ++ ")"
  | .list l => "[" ++ ",".intercalate (l.map showVal) ++ "]"
  | .record _ fs => "{" ++ ";".intercalate (fs.map (fun kv => kv.1 ++ "=" ++ showVal kv.2)) ++ "}"
  | .enumv s => "e:" ++ s
  | .map l => "m{" ++ ";".intercalate (l.map (fun kv => hx0 kv.1.toUTF8.toList ++ "=" ++ showVal kv.2)) ++ "}"

def keysOf (j : Json) : List String := match j with | .obj l => l.map (·.1) | _ => []

def step (st : St) (op : List String) (impl : String) : St × String :=
  match op with
  | ["js.reset"] => ({}, "-\tna")
  | ["js.end"] => ({}, "-\tna")
  | ["js.group", _] => ({}, "-\tna")
  | ["js.bytes", h, value] =>
    match textOfHex h with
    | none => (st, "bad-op\tna")
    | some t =>
      let model := match (parseStrict t).bind bytesOf with | some b => s!"ok:{hx b}" | none => "err"
      -- the statement: every presentation of a byte string parses, and to that byte string
      let verdict := if impl = "panic" then "fail:panic"
        else if value.startsWith "is:" && impl != "ok:" ++ (value.drop 3).toString then "fail:binary-member-presentation-did-not-parse-to-its-value"
        else "ok"
      (st, model ++ "\t" ++ verdict)
  | ["js.u32", h] =>
    match textOfHex h with
    | none => (st, "bad-op\tna")
    | some t =>
      match parseStrict t with
      | none => (st, "err\tok")
      | some j =>
        let model : Option String := (u32Of j).map (fun (r : Option Int) => match r with | some v => s!"ok:{v}" | none => "err")
        (st, (model.getD impl) ++ "\t" ++ (if impl = "panic" then "fail:panic" else if model.isNone then "na" else "ok"))
  | ["js.alg", h] =>
    match textOfHex h with
    | none => (st, "bad-op\tna")
    | some t =>
      match parseStrict t with
      | none => (st, "err\tok")
      | some j =>
        let model : Option String := (i64Of j).map (fun (r : Option Int) => match r with | some v => if knownAlgs.contains v then s!"ok:{v}" else "err" | none => "err")
        (st, (model.getD impl) ++ "\t" ++ (if impl = "panic" then "fail:panic" else if model.isNone then "na" else "ok"))
  | ["js.parse", _kind, _doc] =>
    -- every presentation of one value must parse, and to the same value as the first one of its group
    if !impl.startsWith "ok:" then (st, impl ++ "\tfail:a-presentation-of-the-options-does-not-parse")
    else match st.first with
      | none => ({ first := some impl }, impl ++ "\tok")
      | some f => (st, impl ++ "\t" ++ (if f = impl then "ok" else "fail:presentations-of-one-value-parse-to-different-values"))
  | ["js.opts", root, doc] =>
    -- the regenerated schema interpreted by the serde model against the real derived parser
    match textOfHex doc with
    | none => (st, "bad-op\tna")
    | some t =>
      if (parseStrict t).isNone && (Json.parse t).isSome then (st, impl ++ "\tna") else
      match Serde.parseRoot Generated.Webauthn.schema (fun v => knownAlgs.contains v) root t with
      | .ok v => (st, "ok:" ++ showVal v ++ "\t" ++ (if impl = "panic" then "fail:panic" else "ok"))
      | .err => (st, "err\t" ++ (if impl = "panic" then "fail:panic" else "ok"))
      | .unmodelled => (st, impl ++ "\t" ++ (if impl = "panic" then "fail:panic" else "na"))
  | ["js.ser", root, doc] =>
    -- the emitted text against the serialiser model applied to the value the parser model reads from it
    match textOfHex doc with
    | none => (st, "bad-op\tna")
    | some t =>
      match Serde.parseRoot Generated.Webauthn.schema (fun v => knownAlgs.contains v) root t with
      | .ok v =>
        -- binary members are arrays of numbers unless the crate was built with `serialize_bytes_as_base64_string`
        let b64 := (t.splitOn "\"rawId\":\"").length > 1
        (match Serde.serTy Generated.Webauthn.schema b64 64 (.struct root) v with
         | some j => (st, hx (Serde.render j).toUTF8.toList ++ "\tok")
         | none => (st, impl ++ "\tna"))
      | .err => (st, "err\tfail:an-emitted-credential-does-not-parse")
      | .unmodelled => (st, impl ++ "\tna")
  | ["js.emit", _kind, _doc] =>
    (st, impl ++ "\t" ++ (if impl = "same" then "ok" else "fail:emitted-credential-does-not-re-parse-to-an-equal-value"))
  | ["js.b64", h] =>
    match bytesOfHex h with
    | none => (st, "bad-op\tna")
    | some b =>
      let enc := Base64.encodeUrl b
      let model := s!"{hx enc.toUTF8.toList} {match Base64.decodeLenient enc with | some v => hx v | none => "err"}"
      let back := (impl.splitOn " ").getD 1 ""
      (st, model ++ "\t" ++ (if back = hx b then "ok" else "fail:base64url-encoding-followed-by-decoding-is-not-the-identity"))
  | ["js.cdorder", h] =>
    match textOfHex h with
    | none => (st, "bad-op\tna")
    | some t =>
      match parseStrict t with
      | none => (st, impl ++ "\tna")
      | some j =>
        -- model: the value-level parse / re-serialise cycle (Model/ClientDataJson.lean); Spec: the statement on the
        -- implementation's own output (the four first, once, with the document's values; the rest as they came)
        let ms : ClientDataJson.Members := match j with | .obj l => l | _ => []
        let got : Option ClientDataJson.Members :=
          if impl.startsWith "ok:" then ((textOfHex (impl.drop 3).toString).bind parseStrict).map (fun g => match g with | .obj l => l | _ => []) else none
        let show_ (l : ClientDataJson.Members) : String := "ok:model:" ++ ",".intercalate (l.map (·.1))
        match ClientDataJson.reser ms, got with
        | none, none => (st, (if impl = "err" then impl else "err") ++ "\tna")
        | none, some _ => (st, "err\tna")
        | some want, none => (st, show_ want ++ "\t" ++ (if impl.startsWith "ok:" then "fail:client-data-does-not-round-trip" else "na"))
        | some want, some g =>
          let names := ms.map (·.1)
          let distinct := names.eraseDups.length == names.length
          let others := ms.filter (fun p => !ClientDataJson.isFixed p.1)
          let firstOk := (g.take 4).map (·.1) == ClientDataJson.fixedKeys
            && (g.drop 4).all (fun p => !ClientDataJson.isFixed p.1)
            && ["type", "challenge", "origin"].all (fun k => match ClientDataJson.lookup ms k, ClientDataJson.lookup g k with
                | some a, some b => ClientDataJson.jsonBeq a b | _, _ => false)
            && (match ClientDataJson.lookup g "crossOrigin" with
                | some (.bool b) => b == (match ClientDataJson.lookup ms "crossOrigin" with | some (.bool true) => true | _ => false)
                | _ => false)
          let restOk := if distinct then ClientDataJson.membersBeq (g.drop 4) others
            else ((g.drop 4).map (·.1)).all (fun k => others.any (fun p => p.1 == k))
          let verdict := if !firstOk then "fail:client-data-members-not-in-the-specified-order"
            else if !restOk then "fail:client-data-other-members-not-kept-in-their-original-order"
            else "ok"
          (st, (if ClientDataJson.membersBeq g want then impl else show_ want) ++ "\t" ++ verdict)
  | _ => (st, "bad-op\tna")

end PasskeyVerif.Driver.WebJson
