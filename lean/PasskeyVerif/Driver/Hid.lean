/- Driver commands for C16/C15 (CTAPHID): model observation + Spec verdict on the implementation's observation. -/
import PasskeyVerif.Base.Hex
import PasskeyVerif.Spec.Hid
namespace PasskeyVerif.Driver.Hid
open PasskeyVerif PasskeyVerif.Hid

structure St where
  table : Table := Table.empty
  pkts : List Bytes := []            -- reversed
  implOuts : List (Option (Chan × Command × Bytes)) := []   -- reversed
  implBad : Bool := false            -- some impl observation was unparsable / a panic
  expect : List (Chan × List (Command × Bytes)) := []

def chanOfHex (s : String) : Option Chan :=
  match bytesOfHex s with
  | some [a, b, c, d] => some ⟨a, b, c, d⟩
  | _ => none

def showMsg (c : Chan) (cmd : Command) (p : Bytes) : String :=
  s!"msg {hexOfBytes c.bytes} {hexOfBytes [cmd.toByte]} {hexField p}"

def parseObs (s : String) : Option (Option (Chan × Command × Bytes)) :=
  match splitSp s with
  | ["none"] => some none
  | ["msg", c, cmd, p] =>
    match chanOfHex c, bytesOfHex cmd, bytesOfHex p with
    | some c, some [b], some p =>
      match Command.ofByte b with
      | some cmd => some (some (c, cmd, p))
      | none => none
    | _, _, _ => none
  | _ => none

def addExpect (e : List (Chan × List (Command × Bytes))) (c : Chan) (x : Command × Bytes) :
    List (Chan × List (Command × Bytes)) :=
  match e with
  | [] => [(c, [x])]
  | (c', xs) :: rest => if c' = c then (c', xs ++ [x]) :: rest else (c', xs) :: addExpect rest c x

/-- Spec verdict at the end of a receive scenario: for every declared channel whose sub-stream ends with
exactly the packets of its declared messages (whatever the channel carried before: a receiver in any
state), the implementation's answers to those packets must be the expected ones. -/
def endVerdict (st : St) : String :=
  let pkts := st.pkts.reverse
  let outs := st.implOuts.reverse
  let rec outsOfV (c : Chan) : List Bytes → List (Option (Chan × Command × Bytes)) → List (Option (Chan × Command × Bytes))
    | p :: ps, o :: os => if Spec.chanOf p = some c then o :: outsOfV c ps os else outsOfV c ps os
    | _, _ => []
  -- a declared channel is judged when its whole sub-stream is its declared messages, each possibly followed by stray
  -- continuation packets (position 0), or else when it ends with exactly the packets of its declared messages
  -- (whatever it carried before; `i` is the last position from which it reads that way)
  let findStart (c : Chan) (msgs : List (Command × Bytes)) : Option (Nat × List (Option (Chan × Command × Bytes))) :=
    let s := Spec.sub c pkts
    match Spec.expectedWithStrays true c msgs s with
    | some e => if msgs.isEmpty then none else some (0, e)
    | none =>
      let e := Spec.streamOf c msgs
      if !msgs.isEmpty && e.length ≤ s.length && s.drop (s.length - e.length) == e then some (s.length - e.length, Spec.expectedOuts c msgs) else none
  let applicable := st.expect.filterMap (fun (c, msgs) =>
    if msgs.all (fun x => x.2.length ≤ 7608) then (findStart c msgs).map (fun r => (c, r)) else none)
  let bad := applicable.filter (fun (c, (i, e)) =>
    let o := outsOfV c pkts outs
    !(o.drop i == e))
  if st.implBad && !applicable.isEmpty then "fail:receiver-crashed-while-channels-were-transmitting"
  else match bad with
    | [] => s!"ok\tchecked={applicable.length}"
    | (c, _) :: _ => s!"fail:channel-{hexOfBytes c.bytes}-deliveries"

/-- returns new state and "modelobs\tspec" -/
def step (st : St) (op : List String) (impl : String) : St × String :=
  match op with
  | ["hid.new", c, cmd, p] =>
    match chanOfHex c, bytesOfHex cmd, bytesOfHex p with
    | some c, some [b], some p =>
      match Command.ofByte b with
      | none => (st, "bad-op\tna")
      | some cmd =>
        let model := match Msg.new c cmd p with
          | none => "refused"
          | some m => match m.send with
            | none => "panic"
            | some ws => "ok " ++ ",".intercalate (ws.map hexOfBytes)
        -- Spec on the implementation: accepted ⇒ exactly the specified packets; above 7609 ⇒ refused
        let specPk := "ok " ++ ",".intercalate ((Spec.packets c cmd p).map hexOfBytes)
        let verdict :=
          if impl = "refused" then (if p.length ≤ 7608 then "fail:accepted-size-refused" else "ok")
          else if p.length > Spec.maxPayload then "fail:too-big-not-refused"
          else if impl = specPk then "ok" else "fail:packets-differ-from-spec"
        (st, model ++ "\t" ++ verdict)
    | _, _, _ => (st, "bad-op\tna")
  | ["hid.reset"] => ({}, "-\tna")
  | ["hid.expect", c, cmd, p] =>
    match chanOfHex c, bytesOfHex cmd, bytesOfHex p with
    | some c, some [b], some p =>
      match Command.ofByte b with
      | some cmd => ({ st with expect := addExpect st.expect c (cmd, p) }, "-\tna")
      | none => (st, "bad-op\tna")
    | _, _, _ => (st, "bad-op\tna")
  | ["hid.pkt", p] =>
    match bytesOfHex p with
    | none => (st, "bad-op\tna")
    | some pkt =>
      let (t', o) := handlePacket st.table pkt
      let model := match o with
        | none => "none"
        | some m => showMsg m.channel m.command m.payload
      let (io, bad) := match parseObs impl with
        | some o => (o, false)
        | none => (none, true)
      ({ st with table := t', pkts := pkt :: st.pkts, implOuts := io :: st.implOuts,
                 implBad := st.implBad || bad }, model ++ "\tna")
  | ["hid.end"] => (st, "-\t" ++ endVerdict st)
  | _ => (st, "bad-op\tna")

end PasskeyVerif.Driver.Hid
