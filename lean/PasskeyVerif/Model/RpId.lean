/-
Model of passkey-client/src/lib.rs `RpIdVerifier::{assert_domain, assert_web_rp_id, assert_valid_rp_id,
is_valid_rp_id, assert_android_rp_id}`, `host_to_ascii`, `is_equal_or_label_suffix`, `has_empty_label`
(as repaired by the two `fix:` commits).  Strings are byte lists.  Outside the model and passed in as
observed values / parameters: `Url::{scheme, domain}` (the `url` crate), `idna::domain_to_ascii`
(`toAscii`), and the suffix provider (`provider a` = `effective_tld_plus_one(a).is_ok()`).
-/
import PasskeyVerif.Model.Psl
namespace PasskeyVerif.RpId
open PasskeyVerif.Psl (Str dot)

inductive WErr where
  | originMissingDomain | originRpMissmatch | unprotectedOrigin | insecureLocalhostNotAllowed | invalidRpId
  deriving DecidableEq, Repr

inductive Origin where
  /-- `Origin::Web(url)`: `url.scheme()`, `url.domain()` -/
  | web (scheme : Str) (domain : Option Str)
  /-- `Origin::Android(link)`: `link.host()` -/
  | android (host : Str)
  deriving DecidableEq, Repr

structure Verifier where
  allowLocalhost : Bool
  /-- `self.tld_provider.effective_tld_plus_one(a).is_ok()` -/
  provider : Str → Bool
  /-- `idna::domain_to_ascii(s).ok()` -/
  toAscii : Str → Option Str

/-- `str::split('.')` -/
def splitDot : Str → List Str
  | [] => [[]]
  | c :: cs =>
    if c = dot then [] :: splitDot cs
    else match splitDot cs with
      | l :: ls => (c :: l) :: ls
      | [] => [[c]]

/-- `has_empty_label`: `domain.split('.').any(str::is_empty)` -/
def hasEmptyLabel (d : Str) : Bool := (splitDot d).any (fun l => l.isEmpty)

/-- `str::strip_suffix` -/
def stripSuffix (s suf : Str) : Option Str :=
  if suf.length ≤ s.length ∧ s.drop (s.length - suf.length) = suf then some (s.take (s.length - suf.length))
  else none

/-- `is_equal_or_label_suffix` -/
def isEqualOrLabelSuffix (host rp : Str) : Bool :=
  match stripSuffix host rp with
  | some rest => rest.isEmpty || rest.getLast? = some dot
  | none => false

def localhost : Str := [108, 111, 99, 97, 108, 104, 111, 115, 116]
def https : Str := [104, 116, 116, 112, 115]

def lowerAscii (c : Nat) : Nat := if 65 ≤ c ∧ c ≤ 90 then c + 32 else c
/-- `str::eq_ignore_ascii_case` -/
def eqIgnoreAsciiCase (a b : Str) : Bool := a.map lowerAscii == b.map lowerAscii

/-- `host_to_ascii(..).and_then(|s| provider.effective_tld_plus_one(s).ok()).is_none()` negated -/
def registrable (v : Verifier) (d : Str) : Bool :=
  match v.toAscii d with
  | some a => v.provider a
  | none => false

/-- `assert_valid_rp_id`: `some r` = `ControlFlow::Break(r)`, `none` = `Continue(())` -/
def assertValidRpId (v : Verifier) (rp : Str) : Option (Except WErr Str) :=
  if rp = localhost then
    if v.allowLocalhost then some (.ok rp) else some (.error .insecureLocalhostNotAllowed)
  else if !registrable v rp then some (.error .invalidRpId)
  else none

/-- `is_valid_rp_id` -/
def isValidRpId (v : Verifier) (rp : Str) : Bool :=
  match assertValidRpId v rp with
  | none => true
  | some (.ok _) => true
  | some (.error _) => false

/-- `assert_web_rp_id` -/
def assertWebRpId (v : Verifier) (scheme : Str) (domain : Option Str) (rp : Option Str) : Except WErr Str :=
  match domain with
  | none => .error .originMissingDomain
  | some host =>
    let step (effective : Str) : Except WErr Str :=
      match assertValidRpId v effective with
      | some r => r
      | none =>
        if !eqIgnoreAsciiCase scheme https then .error .unprotectedOrigin
        else .ok effective
    match rp with
    | some rp =>
      if hasEmptyLabel rp then .error .invalidRpId
      else if !isEqualOrLabelSuffix host rp then .error .originRpMissmatch
      else step rp
    | none => step host

/-- `assert_android_rp_id` -/
def assertAndroidRpId (v : Verifier) (host : Str) (rp : Option Str) : Except WErr Str :=
  let step (effective : Str) : Except WErr Str :=
    if !registrable v effective then .error .invalidRpId else .ok effective
  match rp with
  | some rp =>
    if hasEmptyLabel rp then .error .invalidRpId
    else if !isEqualOrLabelSuffix host rp then .error .originRpMissmatch
    else step rp
  | none => step host

/-- `assert_domain` -/
def assertDomain (v : Verifier) (o : Origin) (rp : Option Str) : Except WErr Str :=
  match o with
  | .web scheme domain => assertWebRpId v scheme domain rp
  | .android host => assertAndroidRpId v host rp

end PasskeyVerif.RpId
