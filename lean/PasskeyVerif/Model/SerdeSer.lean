/-
The serialiser side of the serde model: what `#[derive(Serialize)]` writes for a value of a struct described by
a `Schema` (members in declaration order, `None` left out under `skip_serializing_if = "Option::is_none"`, binary
members as an array of numbers or — under the crate feature — base64url text, enumerations as the variant's name, numbers as decimal tokens), what it means for a
generic value to be a value of a member type (`wt`), and the shape of schema the round trip is proved for
(`SchemaOk`: helpers used on the types they are written for, skipped members optional with a default, member
names distinct).  Maps (`HashMap`) are outside: none occurs in what the client emits.
-/
import PasskeyVerif.Model.SerdeStruct
namespace PasskeyVerif.Serde

open PasskeyVerif.Json

/-! ## the serialiser side: `#[derive(Serialize)]` for the same schemas -/

def Val.isNone : Val → Bool
  | .none => true
  | _ => false

theorem Val.isNone_iff (v : Val) : v.isNone = true ↔ v = .none := by cases v <;> simp [Val.isNone]

/-- members of a struct value in declaration order; a `None` under `skip_serializing_if = "Option::is_none"` is left out -/
def serFields (ser : Ty → Val → Option Json) : List Field → List (String × Val) → Option (List (String × Json))
  | [], [] => some []
  | fd :: fds, (k, v) :: vs =>
    if k != fd.rust then none
    else if fd.skipNone && v.isNone then serFields ser fds vs
    else
      match ser fd.ty v, serFields ser fds vs with
      | some j, some rest => some ((fd.json, j) :: rest)
      | _, _ => none
  | _, _ => none

def serList (ser : Val → Option Json) : List Val → Option (List Json)
  | [] => some []
  | v :: vs =>
    match ser v, serList ser vs with
    | some j, some js => some (j :: js)
    | _, _ => none

/-- `Bytes::serialize`: an array of numbers, or base64url text when the crate is built with the feature
`serialize_bytes_as_base64_string` -/
def serBytes (b64 : Bool) (b : List UInt8) : Json :=
  if b64 then .str (Base64.encodeUrl b) else .arr (b.map (fun x => .num (toString x.toNat)))

/-- `T::serialize` into a JSON value (binary members as `serBytes`, enumerations as their variant's name,
numbers as decimal tokens, `None` as `null`) -/
def serTy (S : Schema) (b64 : Bool) : Nat → Ty → Val → Option Json
  | 0, _, _ => none
  | f + 1, ty, v =>
    match ty, v with
    | .bytes, .bytes b => some (serBytes b64 b)
    | .str, .str s => some (.str s)
    | .bool, .bool b => some (.bool b)
    | .i64, .int i => some (.num (toString i))
    | .u32, .int i => some (.num (toString i))
    | .alg, .int i => some (.num (toString i))
    | .enum _, .enumv s => some (.str s)
    | .opt _, .none => some .null
    | .opt t, .some x => serTy S b64 f t x
    | .vec t, .list l => (serList (serTy S b64 f t) l).map .arr
    | .struct n, .record n' fs =>
      if n == n' then (S.struct? n).bind (fun sd => (serFields (serTy S b64 f) sd.fields fs).map .obj) else none
    | _, _ => none

/-! ### values of a type -/

def wtFields (w : Ty → Val → Bool) : List Field → List (String × Val) → Bool
  | [], [] => true
  | fd :: fds, (k, v) :: vs => k == fd.rust && w fd.ty v && wtFields w fds vs
  | _, _ => false

def notOpt : Ty → Bool
  | .opt _ => false
  | _ => true

/-- `v` is a value of type `ty`: integers in range (algorithm identifiers known to the COSE table), enumeration
values the canonical name of a variant, records with exactly the struct's members in order -/
def wt (S : Schema) (knownAlg : Int → Bool) : Nat → Ty → Val → Bool
  | 0, _, _ => false
  | f + 1, ty, v =>
    match ty, v with
    | .bytes, .bytes _ => true
    | .str, .str _ => true
    | .bool, .bool _ => true
    | .i64, .int i => decide (WJson.i64Min ≤ i ∧ i ≤ WJson.i64Max)
    | .u32, .int i => decide (0 ≤ i ∧ i ≤ 4294967295)
    | .alg, .int i => knownAlg i && decide (WJson.i64Min ≤ i ∧ i ≤ WJson.i64Max)
    | .enum n, .enumv s => (match S.enum? n with | some e => e.variantOf s == some s | none => false)
    | .opt _, .none => true
    | .opt t, .some x => notOpt t && wt S knownAlg f t x
    | .vec t, .list l => l.all (wt S knownAlg f t)
    | .struct n, .record n' fs =>
      n == n' && (match S.struct? n with | some sd => wtFields (wt S knownAlg f) sd.fields fs | none => false)
    | _, _ => false



/-! ### which schemas the round trip is proved for -/

/-- member types that are read without a helper -/
def plainTy : Ty → Bool
  | .bytes => true
  | .str => true
  | .bool => true
  | .i64 => true
  | .enum _ => true
  | .struct _ => true
  | .opt t => notOpt t && plainTy t
  | .vec t => plainTy t
  | .u32 => false
  | .alg => false
  | .mapStr _ => false

def fieldOk (f : Field) : Bool :=
  (match f.wrap with
   | .plain => plainTy f.ty
   | .ignoreUnknown => plainTy f.ty
   | .maybeStringified => f.ty == .opt .u32 && f.skipNone
   | .i64ToIana => f.ty == .alg
   | .ignoreUnknownOptVec => (match f.ty with | .opt (.vec t) => plainTy t | _ => false) && f.skipNone
   | .ignoreUnknownVec => (match f.ty with | .vec t => plainTy t | _ => false))
  && (!f.skipNone || (isOpt f.ty && (f.dflt || f.wrap == .plain)))

def structOk (sd : StructDef) : Bool :=
  sd.fields.all fieldOk
    && decide ((sd.fields.map (·.rust)).Nodup)
    && decide ((sd.fields.flatMap (fun f => f.json :: f.aliases)).Nodup)

def SchemaOk (S : Schema) : Bool := S.structs.all structOk


/-- compact JSON text as serde_json writes it -/
def escapeChar (c : Char) : String :=
  if c = '"' then "\\\"" else if c = '\\' then "\\\\" else if c = '\n' then "\\n" else if c = '\r' then "\\r" else if c = '\t' then "\\t"
  else if c.toNat = 8 then "\\b" else if c.toNat = 12 then "\\f"
  else if c.toNat < 32 then "\\u00" ++ String.singleton (Nat.digitChar (c.toNat / 16)) ++ String.singleton (Nat.digitChar (c.toNat % 16))
  else String.singleton c

def renderStr (s : String) : String := "\"" ++ String.join (s.toList.map escapeChar) ++ "\""

partial def render : Json → String
  | .null => "null"
  | .bool b => if b then "true" else "false"
  | .num s => s
  | .str s => renderStr s
  | .arr l => "[" ++ ",".intercalate (l.map render) ++ "]"
  | .obj l => "{" ++ ",".intercalate (l.map (fun kv => renderStr kv.1 ++ ":" ++ render kv.2)) ++ "}"

end PasskeyVerif.Serde
