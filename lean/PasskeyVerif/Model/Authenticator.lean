/-
Model of the CTAP2 software authenticator: passkey-authenticator/src/authenticator.rs (`check_user`,
`choose_algorithm`, `CredentialIdLength`), authenticator/make_credential.rs, authenticator/get_assertion.rs,
authenticator/get_info.rs, authenticator/extensions.rs + extensions/hmac_secret.rs, credential_store.rs
(the shipped stores and the documented contract).

Each `async fn` is written as its sequence of effects: every `.await` on the store or on user validation
appends an event to the trace, so the order of consent, lookup, save, update and return is part of the
observable result.  Environment as parameters: the store (kind + content + per-call fault schedule),
the user-validation configuration and answer, the random draws (credential id, key pair, hmac secrets).
Cryptography is a parameter-free oracle here only in the sense that signing is *not* computed: the model
yields the message that is signed and the key that signs it (`Signed`), the signature bytes are observed.
-/
import PasskeyVerif.Model.AuthData
import PasskeyVerif.Base.Cbor
namespace PasskeyVerif.Auth
open PasskeyVerif.AuthData (Bytes AuthData Acd)

/-! ### status codes used by the authenticator (CTAP2 values) -/
def eInvalidOption : Nat := 0x2C
def eUnsupportedOption : Nat := 0x2B
def eOperationDenied : Nat := 0x27
def eCredentialExcluded : Nat := 0x19
def eUnsupportedAlgorithm : Nat := 0x26
def eNoCredentials : Nat := 0x2E
def ePinAuthInvalid : Nat := 0x33
def eUserVerificationBlocked : Nat := 0x3C
def eInvalidCredential : Nat := 0x22
def eU2fInvalidParameter : Nat := 0x02

structure Key where
  d : Bytes     -- private scalar
  x : Bytes
  y : Bytes
  deriving DecidableEq, Repr

structure HmacSecret where
  withUv : Bytes
  withoutUv : Option Bytes
  deriving DecidableEq, Repr

structure Passkey where
  credId : Bytes
  rpId : Bytes
  userHandle : Option Bytes
  counter : Option Nat
  key : Key
  hmac : Option HmacSecret
  deriving DecidableEq, Repr

inductive Disc where
  | full | onlyNonDiscoverable | forcedDiscoverable
  deriving DecidableEq, Repr

/-- `DiscoverabilitySupport::is_passkey_discoverable` -/
def Disc.isDiscoverable : Disc → Bool → Bool
  | .full, rk => rk
  | .onlyNonDiscoverable, _ => false
  | .forcedDiscoverable, _ => true

inductive StoreKind where
  | memoryMap                 -- `HashMap<Vec<u8>, Passkey>`
  | singleSlot                -- `Option<Passkey>`
  | reference (d : Disc)      -- the documented contract (harness `RefStore`)
  deriving DecidableEq, Repr

structure Store where
  kind : StoreKind
  items : List Passkey
  /-- number of store calls made so far (find / save / update / get_info) -/
  calls : Nat
  /-- fault schedule: the status byte the n-th call fails with (find / save / update only) -/
  faults : List (Option Nat)
  deriving Repr

def Store.fault? (s : Store) : Option Nat := (s.faults.getD s.calls none)
def Store.tick (s : Store) : Store := { s with calls := s.calls + 1 }

/-- what `find_credentials` of the three stores collects (before the "empty means NoCredentials" step) -/
def foundRaw (kind : StoreKind) (items : List Passkey) (ids : Option (List Bytes)) (rp : Bytes) : List Passkey :=
  match kind with
  | .memoryMap =>
    match ids with
    | none => []
    | some l => l.filterMap (fun id => items.find? (fun p => p.credId == id))
  | .singleSlot =>
    match ids with
    | some l =>
      match l.findSome? (fun id => (items.head?).filter (fun p => p.credId == id && p.rpId == rp)) with
      | some p => [p]
      | none => []
    | none => ((items.head?).filter (fun p => p.rpId == rp)).toList
  | .reference _ =>
    items.filter (fun p => p.rpId == rp && (match ids with | none => true | some l => l.any (· == p.credId)))

/-- `find_credentials` of the three stores, without faults -/
def findRaw (kind : StoreKind) (items : List Passkey) (ids : Option (List Bytes)) (rp : Bytes) : Except Nat (List Passkey) :=
  if (foundRaw kind items ids rp).isEmpty then .error eNoCredentials else .ok (foundRaw kind items ids rp)

def saveRaw (kind : StoreKind) (items : List Passkey) (p : Passkey) : List Passkey :=
  match kind with
  | .memoryMap => items.filter (fun q => q.credId != p.credId) ++ [p]
  | .singleSlot => [p]
  | .reference _ => items.filter (fun q => q.credId != p.credId) ++ [p]

def updateRaw (kind : StoreKind) (items : List Passkey) (p : Passkey) : Except Nat (List Passkey) :=
  match kind with
  | .memoryMap => .ok (items.filter (fun q => q.credId != p.credId) ++ [p])
  | .singleSlot => .ok [p]
  | .reference _ =>
    if items.any (fun q => q.credId == p.credId) then .ok (items.map (fun q => if q.credId == p.credId then p else q))
    else .error eNoCredentials

def discOf : StoreKind → Disc
  | .memoryMap => .forcedDiscoverable
  | .singleSlot => .forcedDiscoverable
  | .reference d => d

inductive Event where
  | uv (cred : Option Bytes) (up uv : Bool)
  | find (ids : Option (List Bytes)) (rp : Bytes) (result : Except Nat (List Bytes))
  | save (p : Passkey) (userId : Bytes) (rk up uv : Bool) (fault : Option Nat)
  | update (credId : Bytes) (counter : Option Nat) (fault : Option Nat)
  | info
  deriving Repr

def Store.find (s : Store) (ids : Option (List Bytes)) (rp : Bytes) : Except Nat (List Passkey) × Store × Event :=
  let r := match s.fault? with
    | some e => .error e
    | none => findRaw s.kind s.items ids rp
  (r, s.tick, .find ids rp (r.map (fun l => l.map (·.credId))))

def Store.save (s : Store) (p : Passkey) (userId : Bytes) (rk up uv : Bool) : Except Nat Unit × Store × Event :=
  match s.fault? with
  | some e => (.error e, s.tick, .save p userId rk up uv (some e))
  | none => (.ok (), { s.tick with items := saveRaw s.kind s.items p }, .save p userId rk up uv none)

def Store.update (s : Store) (p : Passkey) : Except Nat Unit × Store × Event :=
  match s.fault? with
  | some e => (.error e, s.tick, .update p.credId p.counter (some e))
  | none =>
    match updateRaw s.kind s.items p with
    | .ok items => (.ok (), { s.tick with items := items }, .update p.credId p.counter none)
    | .error e => (.error e, s.tick, .update p.credId p.counter (some e))

def Store.info (s : Store) : Disc × Store × Event := (discOf s.kind, s.tick, .info)

/-! ### user validation -/

structure UvCfg where
  presenceEnabled : Bool
  verification : Option Bool          -- `is_verification_enabled()`
  answer : Except Nat (Bool × Bool)   -- what `check_user` returns: (presence, verification) or an error code
  deriving Repr

open PasskeyVerif.Generated in
/-- `Authenticator::check_user`: flags or error, and the user-validation event if the method was called -/
def checkUser (u : UvCfg) (up uv : Bool) (cred : Option Bytes) : Except Nat UInt8 × List Event :=
  if uv && u.verification != some true then (.error eUnsupportedOption, [])
  else
    let ev := [Event.uv cred up uv]
    match u.answer with
    | .error e => (.error e, ev)
    | .ok (presence, verification) =>
      if up && !presence then (.error eOperationDenied, ev)
      else if uv && !verification then (.error eOperationDenied, ev)
      else (.ok ((if presence then Flags.UP else 0) ||| (if verification then Flags.UV else 0)), ev)

/-! ### configuration, requests -/

structure HmacCfg where
  withoutUv : Bool        -- `HmacSecretCredentialSupport::WithoutUv`
  onMake : Bool           -- `on_make_credential_support`
  deriving Repr

structure Cfg where
  aaguid : Bytes
  algs : List Int               -- supported COSE algorithms ([-7])
  counterOn : Bool
  credIdLen : Nat               -- after `CredentialIdLength::from`
  hmac : Option HmacCfg
  deriving Repr

/-- `CredentialIdLength::from(u8)` -/
def clampIdLen (n : Nat) : Nat := max 16 (min 64 n)

structure PrfValues where
  first : Bytes
  second : Option Bytes
  deriving DecidableEq, Repr

structure PrfIn where
  eval : Option PrfValues
  evalByCred : Option (List (Bytes × PrfValues))
  deriving Repr

structure MakeExtIn where
  hmacSecret : Option Bool
  hmacSecretMc : Bool           -- present or not (its content is not used by the authenticator)
  prf : Option PrfIn
  deriving Repr

structure MakeReq where
  cdh : Bytes
  rpId : Bytes
  userId : Bytes
  algs : List Int               -- `pub_key_cred_params[..].alg`
  excludeList : Option (List Bytes)
  ext : Option MakeExtIn
  rk : Bool
  up : Bool
  uv : Bool
  pinAuth : Bool
  deriving Repr

structure GetExtIn where
  hmacSecret : Bool
  prf : Option PrfIn
  deriving Repr

structure GetReq where
  rpId : Bytes
  cdh : Bytes
  allowList : Option (List Bytes)
  ext : Option GetExtIn
  rk : Bool
  up : Bool
  uv : Bool
  pinAuth : Bool
  deriving Repr

/-- the random draws of one registration -/
structure Draws where
  credId : Bytes
  key : Key
  secretUv : Bytes
  secretNoUv : Bytes
  deriving Repr

structure PrfMakeOut where
  enabled : Bool
  results : Option PrfValues
  deriving DecidableEq, Repr

structure MakeResp where
  authData : AuthData
  unsignedPrf : Option PrfMakeOut
  deriving Repr

/-- what was signed and by which stored key (the signature bytes themselves are observed, not computed) -/
structure Signed where
  key : Key
  message : Bytes
  deriving DecidableEq, Repr

structure GetResp where
  credId : Bytes
  authData : AuthData
  signed : Signed
  userHandle : Option Bytes
  unsignedPrf : Option PrfValues
  deriving Repr

/-! ### extensions -/

/-- `calculate_hmac_secret` -/
def calculateHmacSecret (creds : HmacSecret) (salts : PrfValues) (h : HmacCfg) (uv : Bool) : Except Nat PrfValues :=
  let credRandom : Except Nat Bytes :=
    if uv then .ok creds.withUv
    else match creds.withoutUv with
      | some s => .ok s
      | none => .error eUserVerificationBlocked
  match credRandom with
  | .error e => .error e
  | .ok r =>
    .ok { first := Sha256.hmac r salts.first,
          second := match salts.second with
            | some s2 => if h.withoutUv then some (Sha256.hmac r s2) else none
            | none => none }

/-- `make_hmac_secret` -/
def makeHmacSecret (cfg : Cfg) (dr : Draws) (request : Option Bool) : Option HmacSecret :=
  match cfg.hmac with
  | none => none
  | some h =>
    if request != some true then none
    else some { withUv := dr.secretUv, withoutUv := if h.withoutUv then some dr.secretNoUv else none }

/-- `make_extensions`: (unsigned prf output, credential extension) or an error -/
def makeExtensions (cfg : Cfg) (dr : Draws) (request : Option MakeExtIn) (uv : Bool) :
    Except Nat (Option PrfMakeOut × Option HmacSecret) :=
  -- `zip_contents`: a request with no member is no request
  let request := match request with
    | some r => if r.hmacSecret.isSome || r.hmacSecretMc || r.prf.isSome then some r else none
    | none => none
  let shouldBuild : Option Bool := match request with
    | some r => (match r.hmacSecret with | some b => some b | none => some r.prf.isSome)
    | none => none
  let stored := makeHmacSecret cfg dr shouldBuild
  let prf : Except Nat (Option PrfMakeOut) :=
    match request with
    | none => .ok none
    | some r =>
      match r.prf with
      | none => .ok none
      | some input =>
        -- `make_prf`
        match cfg.hmac with
        | none => .ok none
        | some h =>
          match stored with
          | none => .ok (some { enabled := false, results := none })
          | some creds =>
            if h.onMake then
              match input.eval with
              | none => .ok (some { enabled := true, results := none })
              | some eval =>
                match calculateHmacSecret creds eval h uv with
                | .ok v => .ok (some { enabled := true, results := some v })
                | .error e => .error e
            else .ok (some { enabled := true, results := none })
  match prf with
  | .error e => .error e
  | .ok p => .ok (p, stored)

/-- `select_salts` -/
def selectSalts (credId : Bytes) (request : PrfIn) : Option PrfValues :=
  match (request.evalByCred.bind (fun l => l.find? (fun e => e.1 == credId))) with
  | some (_, v) => some v
  | none => request.eval

/-- `get_extensions` -/
def getExtensions (cfg : Cfg) (p : Passkey) (request : Option GetExtIn) (uv : Bool) : Except Nat (Option PrfValues) :=
  let request := match request with
    | some r => if r.hmacSecret || r.prf.isSome then some r else none
    | none => none
  match request with
  | none => .ok none
  | some r =>
    match r.prf with
    | none => .ok none
    | some salts =>
      -- `get_prf`
      match cfg.hmac with
      | none => .ok none
      | some h =>
        match p.hmac with
        | none => .error eU2fInvalidParameter
        | some creds =>
          match selectSalts p.credId salts with
          | none => .ok none
          | some req =>
            match calculateHmacSecret creds req h uv with
            | .ok v => .ok (some v)
            | .error e => .error e

/-! ### the two ceremonies -/

/-- COSE_Key of an ES256 public key: {1: 2, 3: -7, -1: 1, -2: x, -3: y}, canonical CBOR -/
def coseKeyBytes (k : Key) : Bytes :=
  Cbor.encode (.map [(.uint 1, .uint 2), (.uint 3, .nint 6), (.nint 0, .uint 1), (.nint 1, .bytes k.x), (.nint 2, .bytes k.y)])

/-- `choose_algorithm` -/
def chooseAlgorithm (cfg : Cfg) (params : List Int) : Except Nat Int :=
  match params.find? (fun a => cfg.algs.contains a) with
  | some a => .ok a
  | none => .error eUnsupportedAlgorithm

structure Outcome (α : Type) where
  result : Except Nat α
  store : Store
  trace : List Event

def Outcome.prepend {α : Type} (ev : List Event) (o : Outcome α) : Outcome α := { o with trace := ev ++ o.trace }

/-- exclude list: only a non-empty list is looked up; lookup errors and empty results are ignored.
Returns (a listed credential is present, store, events). -/
def excludePhase (s : Store) (req : MakeReq) : Bool × Store × List Event :=
  match req.excludeList with
  | some l =>
    if l.isEmpty then (false, s, []) else
    (match (s.find (some l) req.rpId).1 with
      | .ok creds => !creds.isEmpty
      | .error _ => false,
     (s.find (some l) req.rpId).2.1, [(s.find (some l) req.rpId).2.2])
  | none => (false, s, [])

/-- "rk" needs the capability (`get_info` asks the store); only consulted when rk is requested.
Returns (refused, store, events). -/
def rkPhase (s : Store) (req : MakeReq) : Bool × Store × List Event :=
  if req.rk then (s.info.1 == .onlyNonDiscoverable, s.info.2.1, [s.info.2.2]) else (false, s, [])

/-- the passkey that is created -/
def newPasskey (cfg : Cfg) (d : Disc) (dr : Draws) (req : MakeReq) (stored : Option HmacSecret) : Passkey :=
  { credId := dr.credId, rpId := req.rpId, userHandle := if d.isDiscoverable req.rk then some req.userId else none,
    counter := if cfg.counterOn then some 0 else none, key := dr.key, hmac := stored }

/-- store capability query, build the passkey and the response, save -/
def finishMake (cfg : Cfg) (s : Store) (dr : Draws) (req : MakeReq) (flags : UInt8)
    (prfOut : Option PrfMakeOut) (stored : Option HmacSecret) : Outcome MakeResp :=
  let passkey := newPasskey cfg s.info.1 dr req stored
  let authData := ((AuthData.new req.rpId passkey.counter).setFlags flags).setAcd
    ⟨cfg.aaguid, dr.credId, coseKeyBytes dr.key⟩
  let sv := s.info.2.1.save passkey req.userId req.rk req.up req.uv
  match sv.1 with
  | .error e => ⟨.error e, sv.2.1, [s.info.2.2, sv.2.2]⟩
  | .ok () => ⟨.ok { authData, unsignedPrf := prfOut }, sv.2.1, [s.info.2.2, sv.2.2]⟩

/-- `make_credential` after the user-validation step returned `flags` -/
def makeAfterConsent (cfg : Cfg) (s : Store) (dr : Draws) (req : MakeReq) (flags : UInt8) : Outcome MakeResp :=
  let ex := excludePhase s req
  if ex.1 then ⟨.error eCredentialExcluded, ex.2.1, ex.2.2⟩ else
  match chooseAlgorithm cfg req.algs with
  | .error e => ⟨.error e, ex.2.1, ex.2.2⟩
  | .ok _alg =>
    let rk := rkPhase ex.2.1 req
    if rk.1 then ⟨.error eUnsupportedOption, rk.2.1, ex.2.2 ++ rk.2.2⟩ else
    if req.pinAuth then ⟨.error eUnsupportedOption, rk.2.1, ex.2.2 ++ rk.2.2⟩ else
    match makeExtensions cfg dr req.ext req.uv with
    | .error e => ⟨.error e, rk.2.1, ex.2.2 ++ rk.2.2⟩
    | .ok (prfOut, stored) => (finishMake cfg rk.2.1 dr req flags prfOut stored).prepend (ex.2.2 ++ rk.2.2)

/-- `Authenticator::make_credential` -/
def makeCredential (cfg : Cfg) (u : UvCfg) (s : Store) (dr : Draws) (req : MakeReq) : Outcome MakeResp :=
  if !req.up then ⟨.error eInvalidOption, s, []⟩ else
  match checkUser u req.up req.uv none with
  | (.error e, ev) => ⟨.error e, s, ev⟩
  | (.ok flags, ev) => (makeAfterConsent cfg s dr req flags).prepend ev

/-- extensions, authenticator data, signature, response -/
def signPhase (cfg : Cfg) (s : Store) (req : GetReq) (flags : UInt8) (cred : Passkey) : Outcome GetResp :=
  match getExtensions cfg cred req.ext (flags &&& PasskeyVerif.Generated.Flags.UV != 0) with
  | .error e => ⟨.error e, s, []⟩
  | .ok prf =>
    match ((AuthData.new req.rpId cred.counter).setFlags flags).toVec with
    | none => ⟨.error eInvalidCredential, s, []⟩
    | some adBytes =>
      ⟨.ok { credId := cred.credId, authData := (AuthData.new req.rpId cred.counter).setFlags flags,
             signed := ⟨cred.key, adBytes ++ req.cdh⟩, userHandle := cred.userHandle, unsignedPrf := prf }, s, []⟩

/-- the saturating counter increment of the repaired code -/
def bump (c : Nat) : Nat := min (c + 1) 4294967295

/-- `get_assertion` after the user-validation step returned `flags`, for the credential located:
a credential with a counter is first written back with the incremented counter -/
def getAfterConsent (cfg : Cfg) (s : Store) (req : GetReq) (flags : UInt8) (cred : Passkey) : Outcome GetResp :=
  match cred.counter with
  | some c =>
    let cred' := { cred with counter := some (bump c) }
    let up := s.update cred'
    match up.1 with
    | .error e => ⟨.error e, up.2.1, [up.2.2]⟩
    | .ok () => (signPhase cfg up.2.1 req flags cred').prepend [up.2.2]
  | none => signPhase cfg s req flags cred

/-- the allow list as handed to the store: an empty list counts as absent -/
def allowIds (req : GetReq) : Option (List Bytes) :=
  match req.allowList with
  | some l => if l.isEmpty then none else some l
  | none => none

/-- first credential of the lookup result -/
def firstCred (found : Except Nat (List Passkey)) : Except Nat Passkey :=
  match found with
  | .ok (p :: _) => .ok p
  | .ok [] => .error eNoCredentials
  | .error e => .error e

/-- the credential handed to the user-validation step: the located one, if any -/
def shownOf (m : Except Nat Passkey) : Option Bytes :=
  match m with
  | .ok p => some p.credId
  | .error _ => none

/-- `Authenticator::get_assertion` -/
def getAssertion (cfg : Cfg) (u : UvCfg) (s : Store) (req : GetReq) : Outcome GetResp :=
  let f := s.find (allowIds req) req.rpId
  let maybe := firstCred f.1
  if req.pinAuth then ⟨.error ePinAuthInvalid, f.2.1, [f.2.2]⟩ else
  if req.rk then ⟨.error eUnsupportedOption, f.2.1, [f.2.2]⟩ else
  match checkUser u req.up req.uv (shownOf maybe) with
  | (.error c, ev2) => ⟨.error c, f.2.1, f.2.2 :: ev2⟩
  | (.ok flags, ev2) =>
    match maybe with
    | .error c => ⟨.error c, f.2.1, f.2.2 :: ev2⟩
    | .ok cred => (getAfterConsent cfg f.2.1 req flags cred).prepend (f.2.2 :: ev2)

/-- `Authenticator::get_info`: (extensions contains "prf", options.rk, options.uv, options.up) -/
def getInfo (cfg : Cfg) (u : UvCfg) (s : Store) : (Bool × Bool × Option Bool × Bool) × Store :=
  let (d, s, _) := s.info
  ((cfg.hmac.isSome, d != .onlyNonDiscoverable, u.verification, u.presenceEnabled), s)

end PasskeyVerif.Auth
