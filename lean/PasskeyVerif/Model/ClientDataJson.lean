/-
Value-level model of `serde_json::from_str::<CollectedClientData<()>>(doc)` followed by `serde_json::to_string`
(passkey-types/src/webauthn/attestation.rs): the derived parser of a struct with two `#[serde(flatten)]` members
(`extra_data : ()` consumes nothing, `unknown_keys : IndexMap<String, Value>` receives every member that is not one
of the four named ones, in arrival order, a repeated name keeping its first position and its last value — that is
`IndexMap::insert`), the derived serialiser (the four named members in declaration order, `crossOrigin` always
written, `true` only for `Some(true)` — `truthiness` —, then the flattened map in its own order).
`Model/WebauthnJson.lean clientDataOrder` is the name-only projection of this (theorem `reser_keys`, Lemmas below in
Props/C14.lean).  Nested values are kept as they are (`serde_json::Value` without `preserve_order` would sort the
members of nested objects; the stream only sends nested objects whose members are already sorted).
-/
import PasskeyVerif.Base.Json
namespace PasskeyVerif.ClientDataJson
open PasskeyVerif.Json

def fixedKeys : List String := ["type", "challenge", "origin", "crossOrigin"]
def clientDataTypes : List String := ["webauthn.create", "webauthn.get", "payment.get"]

abbrev Members := List (String × Json)

def isFixed (k : String) : Bool := fixedKeys.contains k

/-- `IndexMap::insert`: a new name is appended, a present one keeps its place and takes the new value -/
def indexInsert (m : Members) (k : String) (v : Json) : Members :=
  if m.any (fun p => p.1 == k) then m.map (fun p => if p.1 == k then (k, v) else p) else m ++ [(k, v)]

def collectUnknown (ms : Members) : Members :=
  (ms.filter (fun p => !isFixed p.1)).foldl (fun m p => indexInsert m p.1 p.2) []

def countKey (ms : Members) (k : String) : Nat := (ms.filter (fun p => p.1 == k)).length

def lookup (ms : Members) (k : String) : Option Json := (ms.find? (fun p => p.1 == k)).map (·.2)

/-- the parsed value: type, challenge, origin, crossOrigin (`Option<bool>`), unknown members -/
structure Parsed where
  ty : String
  challenge : String
  origin : String
  crossOrigin : Option Bool
  unknown : Members

/-- the derived `Deserialize`: a named member given twice is `duplicate field`; `type`, `challenge`, `origin` are
required strings (`type` one of the three renamed variants); `crossOrigin` is `#[serde(default)] Option<bool>`:
absent or `null` is `None`, anything but a boolean is an error -/
def parseClientData (ms : Members) : Option Parsed :=
  if fixedKeys.any (fun k => countKey ms k > 1) then none else
  match lookup ms "type", lookup ms "challenge", lookup ms "origin" with
  | some (.str ty), some (.str ch), some (.str orig) =>
    if !clientDataTypes.contains ty then none else
    let co : Option (Option Bool) :=
      match lookup ms "crossOrigin" with
      | none => some none
      | some .null => some none
      | some (.bool b) => some (some b)
      | _ => none
    match co with
    | none => none
    | some co => some { ty := ty, challenge := ch, origin := orig, crossOrigin := co, unknown := collectUnknown ms }
  | _, _, _ => none

/-- the derived `Serialize` -/
def serialiseClientData (p : Parsed) : Members :=
  [("type", .str p.ty), ("challenge", .str p.challenge), ("origin", .str p.origin),
   ("crossOrigin", .bool (p.crossOrigin == some true))] ++ p.unknown

/-- parse, then re-serialise -/
def reser (ms : Members) : Option Members := (parseClientData ms).map serialiseClientData

/-! structural equality of JSON values (number tokens compared as text) -/
mutual
def jsonBeq : Json → Json → Bool
  | .null, .null => true
  | .bool a, .bool b => a == b
  | .num a, .num b => a == b
  | .str a, .str b => a == b
  | .arr a, .arr b => listBeq a b
  | .obj a, .obj b => membersBeq a b
  | _, _ => false
def listBeq : List Json → List Json → Bool
  | [], [] => true
  | x :: xs, y :: ys => jsonBeq x y && listBeq xs ys
  | _, _ => false
def membersBeq : List (String × Json) → List (String × Json) → Bool
  | [], [] => true
  | (k, x) :: xs, (l, y) :: ys => k == l && jsonBeq x y && membersBeq xs ys
  | _, _ => false
end

end PasskeyVerif.ClientDataJson
