/-
Model of the U2F side: passkey-authenticator/src/u2f.rs (`U2fApi::{register, authenticate}`),
passkey-types/src/u2f/{register,authenticate,version,commands}.rs (response encodings, request framing)
and `Passkey::wrap_u2f_registration_request`.  Signing is outside the model: a response names what is
signed and with which key (`Signed`).  `Parsed.panic` is kept as a possible result of the model type so that a parser that can panic is
expressible; the parser as repaired never produces it (Props/C15).
-/
import PasskeyVerif.Model.Authenticator
import PasskeyVerif.Base.Base64
namespace PasskeyVerif.U2f
open PasskeyVerif.Auth
open PasskeyVerif.AuthData (Bytes)

/-- `String::from(Bytes)` of the application parameter: its base64url text, as the RP ID of the stored passkey -/
def rpOfApplication (app : Bytes) : Bytes := (Base64.encodeUrl app).toUTF8.toList

/-- `PublicKey::encode` -/
def publicKeyBytes (k : Key) : Bytes := [0x04] ++ k.x ++ k.y

structure RegisterResp where
  key : Key                 -- only x and y are returned
  keyHandle : Bytes
  certificate : Bytes
  signed : Signed
  deriving Repr

/-- what the registration signature covers -/
def registerTarget (app chal handle : Bytes) (k : Key) : Bytes := [0x00] ++ app ++ chal ++ handle ++ publicKeyBytes k

/-- the passkey a U2F registration stores (`Passkey::from_u2f_register_response`) -/
def u2fPasskey (app handle : Bytes) (k : Key) : Passkey :=
  { credId := handle, rpId := rpOfApplication app, userHandle := none, counter := some 0, key := k, hmac := none }

inductive U2fErr where
  | other
  deriving DecidableEq, Repr

/-- `U2fApi::register` -/
def register (s : Store) (k : Key) (app chal handle : Bytes) : Except U2fErr RegisterResp × Store × List Event :=
  let sv := s.save (u2fPasskey app handle k) handle false false false
  match sv.1 with
  | .ok () => (.ok ⟨k, handle, [], ⟨k, registerTarget app chal handle k⟩⟩, sv.2.1, [sv.2.2])
  | .error _ => (.error .other, sv.2.1, [sv.2.2])

structure AuthResp where
  presence : UInt8
  counter : Nat
  signed : Signed
  deriving Repr

def be32 (n : Nat) : Bytes := [UInt8.ofNat (n / 16777216), UInt8.ofNat (n / 65536 % 256), UInt8.ofNat (n / 256 % 256), UInt8.ofNat (n % 256)]

/-- what the authentication signature covers -/
def authTarget (app : Bytes) (presence : UInt8) (counter : Nat) (chal : Bytes) : Bytes := app ++ [presence] ++ be32 counter ++ chal

/-- `U2fApi::authenticate`: the credential is looked up by key handle and application; counter and
presence byte are the caller's -/
def authenticate (s : Store) (app chal handle : Bytes) (counter : Nat) (presence : UInt8) : Except U2fErr AuthResp × Store × List Event :=
  let f := s.find (some [handle]) (rpOfApplication app)
  match f.1 with
  | .ok (p :: _) => (.ok ⟨presence, counter, ⟨p.key, authTarget app presence counter chal⟩⟩, f.2.1, [f.2.2])
  | _ => (.error .other, f.2.1, [f.2.2])

/-! ### encodings of the raw message formats -/

def swNoError : Bytes := [0x90, 0x00]

/-- `RegisterResponse::encode` (the key-handle length byte is the length truncated to 8 bits) -/
def encodeRegister (k : Key) (handle cert sig : Bytes) : Bytes :=
  [0x05] ++ publicKeyBytes k ++ [UInt8.ofNat handle.length] ++ handle ++ cert ++ sig ++ swNoError

/-- `AuthenticationResponse::encode` -/
def encodeAuth (presence : UInt8) (counter : Nat) (sig : Bytes) : Bytes := [presence] ++ be32 counter ++ sig ++ swNoError

/-- `Version::encode`: "U2F_V2" -/
def encodeVersion : Bytes := [0x55, 0x32, 0x46, 0x5f, 0x56, 0x32] ++ swNoError

/-! ### request framing (`Request::try_from(&[u8])`) -/

inductive Parsed where
  | register (chal app : Bytes)
  | authenticate (param : UInt8) (chal app handle : Bytes)
  | version
  | err (sw : Nat)
  | panic
  deriving DecidableEq, Repr

def swWrongLength : Nat := 0x6700
def swWrongData : Nat := 0x6A80
def swInsNotSupported : Nat := 0x6D00

def ofBe32 (b : Bytes) : Nat := b.foldl (fun acc x => acc * 256 + x.toNat) 0

/-- `AuthenticationRequest::try_from(payload, p1)` for a control byte of the specification: any slice that
is too short is the slice-conversion error, which the framing maps to "wrong length" -/
def parseAuthPayload (payload : Bytes) (p1 : UInt8) : Parsed :=
  if payload.length < 65 then .err swWrongLength
  else
    let hl := (payload.getD 64 0).toNat
    if payload.length - 65 < hl then .err swWrongLength
    else .authenticate p1 (payload.take 32) ((payload.drop 32).take 32) ((payload.drop 65).take hl)

def parseRequest (v : Bytes) : Parsed :=
  if v.length < 7 then .err swWrongLength                      -- header and the extended length bytes
  else if v.getD 0 0 != 0 then .err swWrongData
  else
    let dataLen := ofBe32 ((v.drop 3).take 4)
    if v.length < 7 + dataLen then .err swWrongLength          -- declared length beyond the frame
    else
      let payload := (v.drop 7).take dataLen
      let ins := v.getD 1 0
      let p1 := v.getD 2 0
      if ins == 0x01 then
        (if payload.length != 64 then .err swWrongLength
         else .register (payload.take 32) (payload.drop 32))
      else if ins == 0x02 then
        (if !(p1 == 0x07 || p1 == 0x03 || p1 == 0x08) then .err swWrongData   -- only the specification's control bytes
         else parseAuthPayload payload p1)
      else if ins == 0x03 then .version
      else .err swInsNotSupported

/-- the extended-length request frame of the U2F raw message format: CLA INS P1 P2, then 0x00 and a
two-byte length, the data, and optionally two Le bytes -/
def frame (ins p1 : UInt8) (data le : Bytes) : Bytes :=
  [0x00, ins, p1, 0x00, 0x00, UInt8.ofNat (data.length / 256), UInt8.ofNat (data.length % 256)] ++ data ++ le

end PasskeyVerif.U2f
