/-
Small decoders of untrusted text that have no other home: the Android certificate-fingerprint parser
(passkey-client/src/android.rs `valid_fingerprint`).
-/
namespace PasskeyVerif.Decoders

def isUpperHex (c : Char) : Bool := ('0' ≤ c ∧ c ≤ '9') || ('A' ≤ c ∧ c ≤ 'F')

/-- nom's `separated_list1(tag(":"), two upper-case hex digits)` consumes the longest prefix of the form
`HH(:HH)*`; the fingerprint is valid when that prefix is the whole text and has 32 groups -/
def groups : List Char → Option Nat
  | [a, b] => if isUpperHex a && isUpperHex b then some 1 else none
  | a :: b :: ':' :: rest => if isUpperHex a && isUpperHex b then (groups rest).map (· + 1) else none
  | _ => none

def validFingerprint (s : String) : Bool := groups s.toList == some 32

end PasskeyVerif.Decoders
