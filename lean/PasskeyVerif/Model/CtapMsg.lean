/-
Model of passkey-types/src/utils/serde_workaround.rs: what the `serde_workaround!` macro generates for a
struct whose fields are renamed to integer keys — `Serialize` (a CBOR map of the present members in
declaration order, length prefixed) and `Deserialize` (`FieldVisitor` + `Visitor::visit_map`).
A message value is, per field of the regenerated schema, the CBOR item of its value or `none` for an
`Option` field that is `None`.  Deserialisation of a member's own type is a parameter (`validVal`).
-/
import PasskeyVerif.Generated.Ctap
import PasskeyVerif.Base.Cbor
namespace PasskeyVerif.CtapMsg
open PasskeyVerif.Generated.Ctap PasskeyVerif.Cbor

abbrev Vals := List (Option Item)

/-- `Serialize`: members in declaration order; `skip_serializing_if = Option::is_none` members omitted -/
def entriesOf : List Field → Vals → List (Item × Item)
  | f :: fs, v :: vs =>
    match v with
    | some i => (.uint f.key, i) :: entriesOf fs vs
    | none => entriesOf fs vs
  | _, _ => []

def serialize (schema : List Field) (vals : Vals) : Item := .map (entriesOf schema vals)

/-- the unsigned-integer keys of a map's entries, in order -/
def keysOf : List (Item × Item) → List Nat
  | [] => []
  | (.uint n, _) :: rest => n :: keysOf rest
  | _ :: rest => keysOf rest

/-- strum `serialize_all = "camelCase"` of a snake_case field name -/
def camel (s : String) : String :=
  let rec go : List Char → Bool → List Char
    | [], _ => []
    | c :: cs, up => if c = '_' then go cs true else (if up then c.toUpper else c) :: go cs false
  String.ofList (go s.toList false)

inductive Ident where
  | field (key : Nat)
  | unknown
  deriving DecidableEq, Repr

/-- `FieldVisitor`: unsigned integers up to 255 and strings/byte strings name a member or are unknown;
larger integers and every other key type are errors (`none`) -/
def identOf (schema : List Field) (k : Item) : Option Ident :=
  match k with
  | .uint n =>
    if n ≤ 255 then (if schema.any (fun f => f.key == n) then some (.field n) else some .unknown) else none
  | .text t =>
    match schema.find? (fun f => (camel f.name).toUTF8.toList == t) with
    | some f => some (.field f.key)
    | none => some .unknown
  | .bytes t =>
    match schema.find? (fun f => (camel f.name).toUTF8.toList == t) with
    | some f => some (.field f.key)
    | none => some .unknown
  | _ => none

inductive DeErr where
  | badKey | duplicate (key : Nat) | missing (key : Nat) | badValue (key : Nat) | notMap
  deriving DecidableEq, Repr

/-- the members seen so far: key ↦ value (the `let mut $field: Option<$ty> = None` variables) -/
abbrev Acc := Nat → Option Item

def Acc.empty : Acc := fun _ => none
def Acc.set (a : Acc) (key : Nat) (v : Item) : Acc := fun k => if k = key then some v else a k

/-- the `while let Some(key) = map.next_key()` loop -/
def collect (schema : List Field) (validVal : Nat → Item → Bool) :
    List (Item × Item) → Acc → Except DeErr Acc
  | [], acc => .ok acc
  | (k, v) :: rest, acc =>
    match identOf schema k with
    | none => .error .badKey
    | some .unknown => collect schema validVal rest acc
    | some (.field key) =>
      if (acc key).isSome then .error (.duplicate key)
      else if !validVal key v then .error (.badValue key)
      else collect schema validVal rest (acc.set key v)

/-- after the loop: `unwrap_or_default()` for `default` members, `missing_field` otherwise.
`dflt key` is the item of the member type's `Default` (`none` for an `Option` member). -/
def finish (dflt : Nat → Option Item) : List Field → Acc → Except DeErr Vals
  | [], _ => .ok []
  | f :: fs, acc =>
    let v : Except DeErr (Option Item) :=
      match acc f.key with
      | some i => .ok (some i)
      | none => if f.hasDefault then .ok (dflt f.key) else .error (.missing f.key)
    match v, finish dflt fs acc with
    | .ok v, .ok vs => .ok (v :: vs)
    | .error e, _ => .error e
    | _, .error e => .error e

/-- `Deserialize` (`deserialize_map` + `Visitor::visit_map`) -/
def deserialize (schema : List Field) (validVal : Nat → Item → Bool) (dflt : Nat → Option Item) (i : Item) : Except DeErr Vals :=
  match i with
  | .map es =>
    match collect schema validVal es Acc.empty with
    | .ok acc => finish dflt schema acc
    | .error e => .error e
  | _ => .error .notMap

/-! ### `Options` of make_credential / get_assertion (derived `Deserialize` with per-field defaults) -/

def kRk : Bytes := [114, 107]   -- "rk"
def kUp : Bytes := [117, 112]   -- "up"
def kUv : Bytes := [117, 118]   -- "uv"

/-- `Options { rk, up, uv }` from a map with optional text keys; defaults `rk = false`, `up = true`, `uv = false` -/
def optionsOf (i : Item) : Option (Bool × Bool × Bool) :=
  match i with
  | .map es =>
    let get (name : Bytes) (d : Bool) : Option Bool :=
      match mapGetText es name with
      | none => some d
      | some (.simple 20) => some false
      | some (.simple 21) => some true
      | some _ => none
    match get kRk false, get kUp true, get kUv false with
    | some rk, some up, some uv => some (rk, up, uv)
    | _, _, _ => none
  | _ => none

/-- `Options::default()` serialised -/
def defaultOptionsItem : Item :=
  .map [(.text kRk, .simple 20), (.text kUp, .simple 21), (.text kUv, .simple 20)]

end PasskeyVerif.CtapMsg
