/-
Model of passkey-types/src/ctap2/error.rs: `StatusCode::from(u8)`, `Ctap2Code::try_from`, the `repr_enum!`
conversions and the range-matched newtype errors, `u8::from(StatusCode)`; and `WebauthnError::from(StatusCode)`
of passkey-client/src/lib.rs.  The code tables, ranges and cascade orders are regenerated from error.rs.
-/
import PasskeyVerif.Generated.Ctap
namespace PasskeyVerif.Status
open PasskeyVerif.Generated

inductive Status where
  | ctap2Known (idx : Nat)      -- index into `Ctap.ctap2Error`
  | ctap2Other (b : Nat)        -- `UnknownSpecError(b)`
  | ctap2Extension (b : Nat)
  | ctap2Vendor (b : Nat)
  | ctap1 (idx : Nat)           -- index into `Ctap.u2FError`
  | crash                       -- the `unwrap()` in `StatusCode::from`
  deriving DecidableEq, Repr

def findIdx (tbl : List (String × Nat)) (b : Nat) : Option Nat := tbl.findIdx? (fun e => e.2 == b)
def inRanges (rs : List (Nat × Nat)) (b : Nat) : Bool := rs.any (fun r => r.1 ≤ b && b ≤ r.2)

/-- one family's `try_from` -/
def tryFamily (code b : Nat) : Option Status :=
  match code with
  | 0 => (findIdx Ctap.ctap2Error b).map .ctap2Known
  | 1 => if inRanges Ctap.extensionErrorRanges b then some (.ctap2Extension b) else none
  | 2 => if inRanges Ctap.vendorErrorRanges b then some (.ctap2Vendor b) else none
  | 3 => if inRanges Ctap.unknownSpecErrorRanges b then some (.ctap2Other b) else none
  | 11 => (findIdx Ctap.u2FError b).map .ctap1
  | _ => none

def firstOf (codes : List Nat) (b : Nat) : Option Status :=
  match codes with
  | [] => none
  | c :: cs => match tryFamily c b with
    | some s => some s
    | none => firstOf cs b

/-- `StatusCode::from(u8)` -/
def ofByte (b : Nat) : Status :=
  let rec go : List Nat → Option Status
    | [] => none
    | 10 :: cs => (match firstOf Ctap.ctap2CascadeCodes b with | some s => some s | none => go cs)
    | c :: cs => (match tryFamily c b with | some s => some s | none => go cs)
  (go Ctap.statusCascadeCodes).getD .crash

/-- `u8::from(StatusCode)` -/
def toByte : Status → Nat
  | .ctap2Known i => (Ctap.ctap2Error.getD i ("", 0)).2
  | .ctap2Other b => b
  | .ctap2Extension b => b
  | .ctap2Vendor b => b
  | .ctap1 i => (Ctap.u2FError.getD i ("", 0)).2
  | .crash => 0

inductive WebErr where
  | credentialNotFound
  | authenticatorError (b : Nat)
  deriving DecidableEq, Repr

/-- index of `NoCredentials` in the regenerated table (by its CTAP value 0x2E) -/
def noCredentialsIdx : Option Nat := findIdx Ctap.ctap2Error 0x2E

/-- `impl From<StatusCode> for WebauthnError` -/
def toWebauthn (s : Status) : WebErr :=
  match s with
  | .ctap1 _ => .authenticatorError (toByte s)
  | .ctap2Known i => if some i = noCredentialsIdx then .credentialNotFound else .authenticatorError (toByte s)
  | _ => .authenticatorError (toByte s)

end PasskeyVerif.Status
