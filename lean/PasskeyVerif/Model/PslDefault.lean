/- The table and rule list regenerated from /repo, as model/spec values. -/
import PasskeyVerif.Spec.Psl
import PasskeyVerif.Generated.PslTable
import PasskeyVerif.Generated.PslRules
namespace PasskeyVerif.Psl
open PasskeyVerif.Generated

def TABLE : Table where
  bitsChildren := PslTable.nodesBitsChildren
  bitsIcann := PslTable.nodesBitsIcann
  bitsTextOffset := PslTable.nodesBitsTextOffset
  bitsTextLength := PslTable.nodesBitsTextLength
  bitsWildcard := PslTable.childrenBitsWildcard
  bitsNodeType := PslTable.childrenBitsNodeType
  bitsHi := PslTable.childrenBitsHi
  bitsLo := PslTable.childrenBitsLo
  typeNormal := PslTable.nodeTypeNormal
  typeException := PslTable.nodeTypeException
  numTld := PslTable.numTld
  textLen := PslTable.textLen
  nodesLen := PslTable.nodesLen
  childrenLen := PslTable.childrenLen
  text := PslTable.TEXT
  nodes := PslTable.NODES
  children := PslTable.CHILDREN

/-- the rules of public_suffix_list.dat (`none` if the blob is malformed) -/
def RULES? : Option (List Spec.Rule) := Spec.readRules PslRules.rulesCount (Spec.unpack PslRules.BLOB PslRules.blobLen)

def RULES : List Spec.Rule := RULES?.getD []

end PasskeyVerif.Psl
