/-
The two places where attestation_fmt.rs calls third-party CBOR code, as executable functions over
Base/Cbor.lean's reader: `ciborium::de::from_reader` used to find the end of the COSE key and of the
extension map, and `CoseKey::from_cbor_value`.  The driver runs exactly these, and Props/C12
instantiates its CBOR interface with them.
-/
import PasskeyVerif.Base.Cbor
import PasskeyVerif.Model.AuthData
namespace PasskeyVerif.AuthData

/-- `ciborium::de::from_reader` on the remaining bytes: length of the first item; ciborium's recursion
limit refuses an item nested deeper than 256 containers -/
def skip (bs : Bytes) : Option Nat :=
  match Cbor.decode1 bs with
  | some (x, r) => if x.depth > 256 then none else some (bs.length - r.length)
  | none => none

/-- `CoseKey::from_cbor_value`: a map with a key type (label 1) -/
def validKey (bs : Bytes) : Bool :=
  match Cbor.decode1 bs with
  | some (.map kvs, _) => (Cbor.mapGetInt kvs 1).isSome
  | _ => false

end PasskeyVerif.AuthData
