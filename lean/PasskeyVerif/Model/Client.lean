/-
Model of the WebAuthn client: passkey-client/src/lib.rs `Client::{register, authenticate, map_rk}`,
`impl Display for Origin`, passkey-client/src/extensions.rs (credProps, PRF output plumbing) and
passkey-client/src/extensions/prf.rs (PRF input conversion), composed with the RP-ID verifier model
(Model/RpId.lean) and the authenticator model (Model/Authenticator.lean).

Outside the model, passed in as observed values: `Url` parsing (scheme, domain and the origin string
`url.as_str().trim_end_matches('/')`), `idna::domain_to_ascii`, the JSON text of the caller's extra client
data (spliced in as given), P-256 point validity.  Import-free except other models.
-/
import PasskeyVerif.Model.RpId
import PasskeyVerif.Model.Authenticator
import PasskeyVerif.Base.Base64
namespace PasskeyVerif.Client
open PasskeyVerif.Auth
open PasskeyVerif.AuthData (Bytes AuthData)

inductive ResidentKey where
  | discouraged | preferred | required
  deriving DecidableEq, Repr

inductive UvReq where
  | required | preferred | discouraged
  deriving DecidableEq, Repr

/-- `AuthenticatorSelectionCriteria` (the members the client reads) -/
structure Selection where
  residentKey : Option ResidentKey
  requireResidentKey : Bool
  userVerification : UvReq
  deriving DecidableEq, Repr

structure PrfVals where
  first : Bytes
  second : Option Bytes
  deriving DecidableEq, Repr

/-- `AuthenticationExtensionsPrfInputs`; the keys of `evalByCredential` are the strings as given -/
structure PrfInputs where
  eval : Option PrfVals
  evalByCred : Option (List (String × PrfVals))
  deriving Repr

/-- `AuthenticationExtensionsClientInputs` -/
structure ExtIn where
  credProps : Option Bool
  prf : Option PrfInputs
  prfAlreadyHashed : Option PrfInputs
  deriving Repr

inductive ClientDataMode where
  | default
  /-- extra client data: the text of its members, `"k":v,...` without the braces, as serde_json prints them -/
  | extra (members : String)
  | customHash (h : Bytes)
  deriving Repr

inductive WebErr where
  | rp (e : RpId.WErr)
  | credentialNotFound
  | authenticatorError (code : Nat)
  | notSupported
  | syntaxError
  | validationError
  deriving DecidableEq, Repr

structure RegisterReq where
  rpId : Option Psl.Str
  userId : Bytes
  challenge : Bytes
  algs : List Int
  exclude : Option (List Bytes)
  selection : Option Selection
  ext : Option ExtIn
  deriving Repr

structure AuthReq where
  rpId : Option Psl.Str
  challenge : Bytes
  allow : Option (List Bytes)
  userVerification : UvReq
  ext : Option ExtIn
  deriving Repr

/-! ### map_rk -/

/-- `Client::map_rk`: the resident-key option sent to the authenticator -/
def mapRk (sel : Option Selection) (supportsRk : Bool) : Bool :=
  match sel with
  | none => false                                -- `Default::default()`: residentKey None, requireResidentKey false
  | some s =>
    match s.residentKey with
    | some .required => true
    | some .preferred => supportsRk
    | some .discouraged => false
    | none => s.requireResidentKey

/-! ### client data -/

def hexDigitLower (n : Nat) : Char := if n < 10 then Char.ofNat (48 + n) else Char.ofNat (87 + n)

/-- serde_json string escaping -/
def jsonEscape (s : String) : String :=
  String.ofList (s.toList.flatMap (fun c =>
    if c = '"' then ['\\', '"']
    else if c = '\\' then ['\\', '\\']
    else if c = '\n' then ['\\', 'n']
    else if c = '\r' then ['\\', 'r']
    else if c = '\t' then ['\\', 't']
    else if c.toNat = 8 then ['\\', 'b']
    else if c.toNat = 12 then ['\\', 'f']
    else if c.toNat < 32 then ['\\', 'u', '0', '0', hexDigitLower (c.toNat / 16), hexDigitLower (c.toNat % 16)]
    else [c]))

/-- `serde_json::to_string(&CollectedClientData { .. })`: type, challenge, origin, crossOrigin (always
printed, `false` when absent), then the flattened extra members -/
def clientDataJson (ty : String) (challenge : Bytes) (origin : String) (mode : ClientDataMode) : String :=
  let base := "{\"type\":\"" ++ ty ++ "\",\"challenge\":\"" ++ Base64.encodeUrl challenge ++ "\",\"origin\":\""
    ++ jsonEscape origin ++ "\",\"crossOrigin\":false"
  match mode with
  | .extra members => if members.isEmpty then base ++ "}" else base ++ "," ++ members ++ "}"
  | _ => base ++ "}"

def clientDataHash (json : String) (mode : ClientDataMode) : Bytes :=
  match mode with
  | .customHash h => h
  | _ => Sha256.sha256 json.toUTF8.toList

/-! ### PRF input conversion (extensions/prf.rs) -/

def prfSaltPrefix : Bytes := [87, 101, 98, 65, 117, 116, 104, 110, 32, 80, 82, 70, 0]   -- "WebAuthn PRF" ‖ 0x00

/-- `make_salt` -/
def makeSalt (v : Bytes) : Bytes := Sha256.sha256 (prfSaltPrefix ++ v)

/-- `convert_eval_to_ctap` -/
def convertEval (v : PrfVals) (shouldHash : Bool) : Except WebErr PrfValues :=
  if shouldHash then .ok ⟨makeSalt v.first, v.second.map makeSalt⟩
  else
    if v.first.length ≠ 32 then .error .validationError
    else match v.second with
      | none => .ok ⟨v.first, none⟩
      | some s => if s.length ≠ 32 then .error .validationError else .ok ⟨v.first, some s⟩

/-- `make_ctap_extension` (registration); `prfSupported` / `hmacSupported`: the authenticator lists the extension -/
def makeCtapExtension (prf : Option PrfInputs) (prfSupported hmacSupported shouldHash : Bool) : Except WebErr (Option MakeExtIn) :=
  match prf with
  | none => .ok none
  | some p =>
    if p.evalByCred.isSome then .error .notSupported else
    let hmacSecret : Option Bool := if hmacSupported then some true else none
    let prfIn : Except WebErr (Option PrfIn) :=
      if prfSupported then
        match p.eval with
        | none => .ok (some ⟨none, none⟩)
        | some v => match convertEval v shouldHash with
          | .ok c => .ok (some ⟨some c, none⟩)
          | .error e => .error e
      else .ok none
    match prfIn with
    | .error e => .error e
    | .ok pi => if hmacSecret.isSome || pi.isSome then .ok (some ⟨hmacSecret, false, pi⟩) else .ok none

/-- `registration_prf_to_ctap2_input` -/
def registrationPrfInput (ext : Option ExtIn) (prfSupported hmacSupported : Bool) : Except WebErr (Option MakeExtIn) :=
  match makeCtapExtension (ext.bind (·.prf)) prfSupported hmacSupported true with
  | .error e => .error e
  | .ok (some x) => .ok (some x)
  | .ok none => makeCtapExtension (ext.bind (·.prfAlreadyHashed)) prfSupported hmacSupported false

def mapMExcept {α β ε : Type} (f : α → Except ε β) : List α → Except ε (List β)
  | [] => .ok []
  | a :: as => match f a with
    | .error e => .error e
    | .ok b => match mapMExcept f as with
      | .error e => .error e
      | .ok bs => .ok (b :: bs)

/-- `get_ctap_extension` (authentication) -/
def getCtapExtension (allow : Option (List Bytes)) (prf : Option PrfInputs) (prfSupported shouldHash : Bool) :
    Except WebErr (Option GetExtIn) :=
  if !prfSupported then .ok none else
  let ebc := prf.bind (·.evalByCred)
  let allowEmpty := match allow with | none => true | some l => l.isEmpty
  if (match ebc with | some r => !r.isEmpty | none => false) && allowEmpty then .error .notSupported else
  -- keys: lenient base64 decoding
  let decoded : Except WebErr (Option (List (Bytes × PrfVals))) :=
    match ebc with
    | none => .ok none
    | some r => match mapMExcept (fun (kv : String × PrfVals) => match Base64.decodeLenient kv.1 with
          | some k => Except.ok (k, kv.2)
          | none => Except.error WebErr.syntaxError) r with
      | .ok l => .ok (some l)
      | .error e => .error e
  match decoded with
  | .error e => .error e
  | .ok dec =>
    let badKey := match dec with
      | some r => r.any (fun kv => kv.1.isEmpty || (match allow with | some l => !l.any (· == kv.1) | none => false))
      | none => false
    if badKey then .error .syntaxError else
    let newEbc : Except WebErr (Option (List (Bytes × PrfValues))) :=
      match dec with
      | none => .ok none
      | some r => match mapMExcept (fun (kv : Bytes × PrfVals) => match convertEval kv.2 shouldHash with
            | .ok v => Except.ok (kv.1, v)
            | .error e => Except.error e) r with
        | .ok l => .ok (some l)
        | .error e => .error e
    match newEbc with
    | .error e => .error e
    | .ok nebc =>
      let eval : Except WebErr (Option PrfValues) :=
        match prf.bind (·.eval) with
        | none => .ok none
        | some v => match convertEval v shouldHash with
          | .ok c => .ok (some c)
          | .error e => .error e
      match eval with
      | .error e => .error e
      | .ok ev =>
        match prf with
        | none => .ok none
        | some _ => .ok (some ⟨false, some ⟨ev, nebc⟩⟩)

/-- `auth_prf_to_ctap2_input` -/
def authPrfInput (allow : Option (List Bytes)) (ext : Option ExtIn) (prfSupported : Bool) : Except WebErr (Option GetExtIn) :=
  match getCtapExtension allow (ext.bind (·.prf)) prfSupported true with
  | .error e => .error e
  | .ok (some x) => .ok (some x)
  | .ok none => getCtapExtension allow (ext.bind (·.prfAlreadyHashed)) prfSupported false

/-! ### responses -/

/-- DER SubjectPublicKeyInfo of an uncompressed P-256 point: the fixed 26-byte prefix, then `04 ‖ x ‖ y` -/
def spkiPrefix : Bytes :=
  [0x30, 0x59, 0x30, 0x13, 0x06, 0x07, 0x2a, 0x86, 0x48, 0xce, 0x3d, 0x02, 0x01, 0x06, 0x08, 0x2a, 0x86, 0x48,
   0xce, 0x3d, 0x03, 0x01, 0x07, 0x03, 0x42, 0x00]

def publicKeyDer (k : Key) : Bytes := spkiPrefix ++ [0x04] ++ k.x ++ k.y

def utf8 (s : String) : Bytes := s.toUTF8.toList

/-- the member names of the attestation object as bytes (written out: string literals do not reduce in the kernel) -/
def kFmt : Bytes := [0x66, 0x6d, 0x74]                                   -- "fmt"
def kNone : Bytes := [0x6e, 0x6f, 0x6e, 0x65]                            -- "none"
def kAttStmt : Bytes := [0x61, 0x74, 0x74, 0x53, 0x74, 0x6d, 0x74]       -- "attStmt"
def kAuthData : Bytes := [0x61, 0x75, 0x74, 0x68, 0x44, 0x61, 0x74, 0x61] -- "authData"

def attestationItem (authData : Bytes) : Cbor.Item :=
  .map [(.text kFmt, .text kNone), (.text kAttStmt, .map []), (.text kAuthData, .bytes authData)]

/-- the "none" attestation object: `{"fmt": "none", "attStmt": {}, "authData": h'…'}` -/
def attestationObject (authData : Bytes) : Bytes :=
  Cbor.encode (attestationItem authData)

structure RegisterResp where
  id : String
  rawId : Bytes
  clientDataJson : String
  authenticatorData : Bytes
  publicKey : Bytes
  publicKeyAlgorithm : Int
  attestationObject : Bytes
  credProps : Option Bool
  prf : Option PrfMakeOut
  deriving Repr

structure AuthResp where
  id : String
  rawId : Bytes
  clientDataJson : String
  authenticatorData : Bytes
  signed : Signed
  userHandle : Option Bytes
  prf : Option PrfValues
  deriving Repr

structure ClientOutcome (α : Type) where
  result : Except WebErr α
  store : Store
  trace : List Event

/-- `AuthenticationExtensionsClientInputs::zip_contents`: an extensions object with no member is no object -/
def zipContents (ext : Option ExtIn) : Option ExtIn :=
  match ext with
  | some e => if e.credProps.isSome || e.prf.isSome || e.prfAlreadyHashed.isSome then some e else none
  | none => none

/-- `Client::register` -/
def register (v : RpId.Verifier) (cfg : Cfg) (u : UvCfg) (s : Store) (dr : Draws)
    (origin : RpId.Origin) (originStr : String) (req : RegisterReq) (mode : ClientDataMode) : ClientOutcome RegisterResp :=
  -- `self.authenticator.get_info().await` asks the store for its capability
  let info := getInfo cfg u s
  let s := info.2
  let ev0 := [Event.info]
  let supportsRk := info.1.2.1
  let prfSupported := info.1.1
  let algs := if req.algs.isEmpty then [-7, -257] else req.algs
  match RpId.assertDomain v origin req.rpId with
  | .error e => ⟨.error (.rp e), s, ev0⟩
  | .ok rp =>
    let json := clientDataJson "webauthn.create" req.challenge originStr mode
    let hash := clientDataHash json mode
    let ext := zipContents req.ext
    match registrationPrfInput ext prfSupported false with
    | .error e => ⟨.error e, s, ev0⟩
    | .ok ctapExt =>
      let rk := mapRk req.selection supportsRk
      let uvo := (req.selection.map (·.userVerification)) != some .discouraged
      let out := makeCredential cfg u s dr
        { cdh := hash, rpId := rp.map UInt8.ofNat, userId := req.userId, algs := algs, excludeList := req.exclude,
          ext := ctapExt, rk := rk, up := true, uv := uvo, pinAuth := false }
      match out.result with
      | .error e => ⟨.error (.authenticatorError e), out.store, ev0 ++ out.trace⟩
      | .ok r =>
        match r.authData.toVec with
        | none => ⟨.error (.authenticatorError eInvalidCredential), out.store, ev0 ++ out.trace⟩
        | some ad =>
          -- `self.authenticator.store().get_info().await` for credProps
          let d := out.store.info
          let credProps := if (ext.bind (·.credProps)) == some true then some (d.1.isDiscoverable rk) else none
          ⟨.ok { id := Base64.encodeUrl dr.credId, rawId := dr.credId, clientDataJson := json, authenticatorData := ad,
                 publicKey := publicKeyDer dr.key, publicKeyAlgorithm := -7, attestationObject := attestationObject ad,
                 credProps := credProps, prf := r.unsignedPrf },
           d.2.1, ev0 ++ out.trace ++ [d.2.2]⟩

/-- `From<ctap2::StatusCode> for WebauthnError` on the authentication path -/
def statusToWeb (e : Nat) : WebErr := if e = eNoCredentials then .credentialNotFound else .authenticatorError e

/-- `Client::authenticate` -/
def authenticate (v : RpId.Verifier) (cfg : Cfg) (u : UvCfg) (s : Store)
    (origin : RpId.Origin) (originStr : String) (req : AuthReq) (mode : ClientDataMode) : ClientOutcome AuthResp :=
  let info := getInfo cfg u s
  let s := info.2
  let ev0 := [Event.info]
  let prfSupported := info.1.1
  match RpId.assertDomain v origin req.rpId with
  | .error e => ⟨.error (.rp e), s, ev0⟩
  | .ok rp =>
    let json := clientDataJson "webauthn.get" req.challenge originStr mode
    let hash := clientDataHash json mode
    match authPrfInput req.allow req.ext prfSupported with
    | .error e => ⟨.error e, s, ev0⟩
    | .ok ctapExt =>
      let uvo := req.userVerification != .discouraged
      let out := getAssertion cfg u s
        { rpId := rp.map UInt8.ofNat, cdh := hash, allowList := req.allow, ext := ctapExt, rk := false, up := true, uv := uvo, pinAuth := false }
      match out.result with
      | .error e => ⟨.error (statusToWeb e), out.store, ev0 ++ out.trace⟩
      | .ok r =>
        match r.authData.toVec with
        | none => ⟨.error (.authenticatorError eInvalidCredential), out.store, ev0 ++ out.trace⟩
        | some ad =>
          ⟨.ok { id := Base64.encodeUrl r.credId, rawId := r.credId, clientDataJson := json, authenticatorData := ad,
                 signed := r.signed, userHandle := r.userHandle, prf := r.unsignedPrf }, out.store, ev0 ++ out.trace⟩

end PasskeyVerif.Client
