/-
Cancellation of a ceremony: the caller drops the operation at a suspension point.  Every `.await` of the
authenticator is on the store or on user validation, and each such call is an event of the model's
trace; dropping the future after `j` of them have run leaves the store in the state reached by the first
`j` events.  `applyEvents` replays the store effects of a trace prefix; `Lemmas/AuthCancel.lean` proves that
replaying the whole trace of a ceremony gives exactly the store the ceremony ends with.
-/
import PasskeyVerif.Model.AuthObs
namespace PasskeyVerif.Auth
open PasskeyVerif.AuthData (Bytes)

/-- the effect of one event on the store content (only accepted saves and updates have one) -/
def applyEvent (kind : StoreKind) (items : List Passkey) : Event → List Passkey
  | .save p _ _ _ _ none => saveRaw kind items p
  | .update id ctr none =>
    (match items.find? (fun q => q.credId == id) with
     | some q => (match updateRaw kind items { q with counter := ctr } with | .ok l => l | .error _ => items)
     | none => items)
  | _ => items

def applyEvents (kind : StoreKind) (items : List Passkey) (evs : List Event) : List Passkey :=
  evs.foldl (applyEvent kind) items

/-- observation of a ceremony dropped after `j` suspension points were passed -/
def obsCancelled (kind : StoreKind) (items : List Passkey) (trace : List Event) (j : Nat) : Obs :=
  { res := .cancelled, trace := (trace.take j).map evObsOf,
    store := sortSnaps ((applyEvents kind items (trace.take j)).map snapOf) }

end PasskeyVerif.Auth
