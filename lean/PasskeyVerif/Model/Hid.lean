/-
Model of passkey-transports/src/hid.rs (CTAPHID framing): `Command`, `InitHeader`, `ContHeader`,
`PacketHeader::{try_from, encode}`, `Message::{new, send, to_packets, init, extend}`,
`ChannelHandler::handle_packet`.

One Lean function per Rust function, same case order.  Import-free so that the driver links.
Mutation through `&mut` becomes returning the new value; the `HashMap<u32, Message>` becomes a
function `Chan → Option Msg` (only `get_mut`, `insert`, `remove` are used by the code).
The channel id is kept as the four bytes that are on the wire (`to_ne_bytes`/`from_ne_bytes`); the
harness prints the same four bytes.
-/
namespace PasskeyVerif.Hid

abbrev Bytes := List UInt8

/-- `enum Command` with its discriminants. -/
inductive Command where
  | msg | cbor | init | ping | cancel | err | keepAlive | wink | lock
  deriving DecidableEq, Repr

def Command.toByte : Command → UInt8
  | .msg => 0x03 | .cbor => 0x10 | .init => 0x06 | .ping => 0x01 | .cancel => 0x11
  | .err => 0x3F | .keepAlive => 0x3B | .wink => 0x08 | .lock => 0x04

/-- `impl TryFrom<u8> for Command`. -/
def Command.ofByte (b : UInt8) : Option Command :=
  if b = 0x03 then some .msg else if b = 0x10 then some .cbor else if b = 0x06 then some .init
  else if b = 0x01 then some .ping else if b = 0x11 then some .cancel else if b = 0x3F then some .err
  else if b = 0x3B then some .keepAlive else if b = 0x08 then some .wink
  else if b = 0x04 then some .lock else none

def Command.all : List Command :=
  [.msg, .cbor, .init, .ping, .cancel, .err, .keepAlive, .wink, .lock]

/-- `PACKET_DISCRIPTOR_BIT` -/
def descBit : UInt8 := 0x80
/-- `Command::encode` -/
def Command.encode (c : Command) : UInt8 := descBit ||| c.toByte

def maxPacket : Nat := 64
def initHdr : Nat := 7
def contHdr : Nat := 5
def initMax : Nat := maxPacket - initHdr   -- 57
def contMax : Nat := maxPacket - contHdr   -- 59

/-- The channel identifier as it is on the wire (native-endian bytes of the `u32`). -/
structure Chan where
  b0 : UInt8
  b1 : UInt8
  b2 : UInt8
  b3 : UInt8
  deriving DecidableEq, Repr

def Chan.bytes (c : Chan) : Bytes := [c.b0, c.b1, c.b2, c.b3]

structure InitHeader where
  channel : Chan
  command : Command
  payloadLen : Nat
  deriving DecidableEq, Repr

structure ContHeader where
  channel : Chan
  seq : UInt8
  deriving DecidableEq, Repr

inductive PacketHeader where
  | initialization (h : InitHeader)
  | continuation (h : ContHeader)
  deriving DecidableEq, Repr

/-- `struct Message`. `sequence` is a `u8` in Rust; it never exceeds 128 (see `Lemmas`). -/
structure Msg where
  channel : Chan
  command : Command
  sequence : Nat
  payloadLen : Nat
  payload : Bytes
  deriving DecidableEq, Repr

/-- big-endian `u16` -/
def u16be (n : Nat) : Bytes := [UInt8.ofNat (n / 256), UInt8.ofNat (n % 256)]
def u16ofBe (hi lo : UInt8) : Nat := hi.toNat * 256 + lo.toNat

/-! ### sending -/

/-- `Message::new`: `none` is `CreationError::PayloadTooBig`. -/
def Msg.new (ch : Chan) (cmd : Command) (data : Bytes) : Option Msg :=
  if data.length > 65535 then none
  else
    let rest := data.length - initMax
    if rest > 0 ∧ rest / contMax + 1 > 128 then none
    else some { channel := ch, command := cmd, sequence := 0, payloadLen := data.length, payload := data }

set_option linter.unusedVariables false in
/-- `slice::chunks(n)` (for `n > 0`; fuel-free structural version on `take`/`drop`). -/
def chunks (n : Nat) (l : Bytes) : List Bytes :=
  if h : l = [] ∨ n = 0 then [] else
    l.take n :: chunks n (l.drop n)
termination_by l.length
decreasing_by
  have : l ≠ [] := fun e => h (Or.inl e)
  have : 0 < l.length := List.length_pos_iff.mpr this
  simp only [List.length_drop]; omega

/-- enumerate continuation packets from sequence number `i` -/
def contPackets (ch : Chan) : Nat → List Bytes → List (PacketHeader × Bytes)
  | _, [] => []
  | i, c :: cs => (.continuation { channel := ch, seq := UInt8.ofNat i }, c) :: contPackets ch (i + 1) cs

/-- `Message::to_packets` -/
def Msg.toPackets (m : Msg) : List (PacketHeader × Bytes) :=
  let ih := PacketHeader.initialization
    { channel := m.channel, command := m.command, payloadLen := m.payloadLen }
  if m.payloadLen ≤ initMax then [(ih, m.payload)]
  else (ih, m.payload.take initMax) :: contPackets m.channel 0 (chunks contMax (m.payload.drop initMax))

/-- `buf[off .. off+bytes.len()].copy_from_slice(bytes)`; `none` where Rust would panic. -/
def writeAt (buf : Bytes) (off : Nat) (bytes : Bytes) : Option Bytes :=
  if off + bytes.length ≤ buf.length then
    some (buf.take off ++ bytes ++ buf.drop (off + bytes.length))
  else none

def PacketHeader.len : PacketHeader → Nat
  | .initialization _ => initHdr
  | .continuation _ => contHdr

/-- `PacketHeader::encode` into the re-used buffer; `none` where a slice operation would panic
(`copy_from_slice` with unequal lengths, `u16::try_from(..).unwrap()`). -/
def PacketHeader.encode (h : PacketHeader) (data : Bytes) (buf : Bytes) : Option Bytes :=
  match h with
  | .initialization ih =>
    if ih.payloadLen > 65535 then none else
    match writeAt buf 0 (ih.channel.bytes ++ [ih.command.encode] ++ u16be ih.payloadLen) with
    | none => none
    | some buf =>
      let dataLen := (if data.length < initMax then data.length else initMax) + initHdr
      if dataLen - initHdr ≠ data.length then none else writeAt buf initHdr data
  | .continuation ch =>
    match writeAt buf 0 (ch.channel.bytes ++ [ch.seq]) with
    | none => none
    | some buf =>
      let dataLen := (if data.length < contMax then data.length else contMax) + contHdr
      if dataLen - contHdr ≠ data.length then none else writeAt buf contHdr data

/-- zero `buf[n..]` -/
def zeroFrom (buf : Bytes) (n : Nat) : Bytes := buf.take n ++ List.replicate (buf.length - n) 0

/-- the loop of `Message::send`: `i` is the index, `last` is `packets.len() - 1`; returns the list of
64-byte writes, `none` where Rust would panic. -/
def sendLoop (last : Nat) : Nat → Bytes → List (PacketHeader × Bytes) → Option (List Bytes)
  | _, _, [] => some []
  | i, buf, (h, d) :: rest =>
    let buf := if i = last then zeroFrom buf (h.len + d.length) else buf
    match h.encode d buf with
    | none => none
    | some buf =>
      match sendLoop last (i + 1) buf rest with
      | none => none
      | some ws => some (buf :: ws)

/-- `Message::send` with a writer that accepts every write whole. -/
def Msg.send (m : Msg) : Option (List Bytes) :=
  let ps := m.toPackets
  sendLoop (ps.length - 1) 0 (List.replicate maxPacket 0) ps

/-! ### receiving -/

/-- `InitHeader::try_from(channel, data)` where `data` starts at the command byte.
`none` is `Err(())`. Mirrors the repaired code: a declared length the packet cannot hold is an error. -/
def InitHeader.tryFrom (ch : Chan) (data : Bytes) : Option (InitHeader × Bytes) :=
  match data with
  | cmdByte :: hi :: lo :: rest =>
    match Command.ofByte (cmdByte &&& ~~~descBit) with
    | none => none
    | some cmd =>
      let plen := u16ofBe hi lo
      if plen > initMax then some ({ channel := ch, command := cmd, payloadLen := plen }, rest)
      else if plen ≤ rest.length then
        some ({ channel := ch, command := cmd, payloadLen := plen }, rest.take plen)
      else none
  | _ => none

/-- `PacketHeader::try_from`: `none` is `Err(())`. Mirrors the repaired code: packets longer than
`MAX_PACKET_SIZE` are refused. -/
def PacketHeader.tryFrom (pkt : Bytes) : Option (PacketHeader × Bytes) :=
  if pkt.length < contHdr ∨ pkt.length > maxPacket then none else
  match pkt with
  | b0 :: b1 :: b2 :: b3 :: cs :: rest =>
    let ch : Chan := ⟨b0, b1, b2, b3⟩
    if cs &&& descBit = descBit then
      match InitHeader.tryFrom ch (cs :: rest) with
      | none => none
      | some (h, d) => some (.initialization h, d)
    else some (.continuation { channel := ch, seq := cs }, rest)
  | _ => none

/-- `Message::init` -/
def Msg.init (h : InitHeader) (data : Bytes) : Msg :=
  { channel := h.channel, command := h.command, sequence := 0, payloadLen := h.payloadLen, payload := data }

def Msg.isComplete (m : Msg) : Bool := m.payloadLen == m.payload.length

inductive ExtErr where
  | outOfSequence | wrongChannel | shortPacket
  deriving DecidableEq, Repr

/-- `Message::extend`: returns the updated message and the result. Mirrors the repaired code: a
final packet that is shorter than the bytes still missing is an error and leaves the message as is. -/
def Msg.extend (m : Msg) (h : ContHeader) (data : Bytes) : Msg × Except ExtErr Bool :=
  if m.channel ≠ h.channel then (m, .error .wrongChannel)
  else if h.seq.toNat = m.sequence then
    let remaining := m.payloadLen - m.payload.length
    if remaining ≤ contMax then
      if remaining ≤ data.length then
        ({ m with sequence := m.sequence + 1, payload := m.payload ++ data.take remaining }, .ok true)
      else (m, .error .shortPacket)
    else ({ m with sequence := m.sequence + 1, payload := m.payload ++ data }, .ok false)
  else (m, .error .outOfSequence)

/-- `ChannelHandler.channels` -/
abbrev Table := Chan → Option Msg

def Table.empty : Table := fun _ => none
def Table.insert (t : Table) (c : Chan) (m : Msg) : Table := fun c' => if c' = c then some m else t c'
def Table.remove (t : Table) (c : Chan) : Table := fun c' => if c' = c then none else t c'

/-- `ChannelHandler::handle_packet` -/
def handlePacket (t : Table) (pkt : Bytes) : Table × Option Msg :=
  match PacketHeader.tryFrom pkt with
  | none => (t, none)
  | some (.initialization ih, payload) =>
    let m := Msg.init ih payload
    if m.isComplete then (t, some m) else (t.insert ih.channel m, none)
  | some (.continuation chd, payload) =>
    match t chd.channel with
    | none => (t, none)
    | some m =>
      match m.extend chd payload with
      | (m', .ok true) => (t.remove chd.channel, some m')
      | (m', .ok false) => (t.insert chd.channel m', none)
      | (m', .error _) => (t.insert chd.channel m', none)

/-- feed a stream of packets; collect what `handle_packet` returned for each. -/
def feed (t : Table) : List Bytes → Table × List (Option Msg)
  | [] => (t, [])
  | p :: ps =>
    let (t1, o) := handlePacket t p
    let (t2, os) := feed t1 ps
    (t2, o :: os)

end PasskeyVerif.Hid
