/-
Shapes of serde-derived deserialisers as data: what translate/webauthn.py regenerates from the struct and
enum definitions of passkey-types/src/webauthn (Generated/WebauthnSchema.lean) and what
Model/SerdeStruct.lean interprets.
-/
namespace PasskeyVerif.Serde

/-- member types that occur in the WebAuthn option structs -/
inductive Ty where
  | bytes                    -- `Bytes`
  | str                      -- `String`
  | bool
  | u32                      -- only behind `maybe_stringified`
  | alg                      -- `iana::Algorithm`, only behind `i64_to_iana`
  | i64                      -- a plain `i64` (a JSON integer token)
  | enum (name : String)     -- a unit-variant enum read from a JSON string
  | struct (name : String)
  | opt (t : Ty)
  | vec (t : Ty)
  | mapStr (t : Ty)          -- `HashMap<String, T>`
  deriving Repr, DecidableEq, Inhabited

/-- `deserialize_with` / `with` helpers of passkey-types/src/utils/serde.rs -/
inductive Wrap where
  | plain
  | maybeStringified
  | ignoreUnknown
  | ignoreUnknownOptVec
  | ignoreUnknownVec
  | i64ToIana
  deriving Repr, DecidableEq, Inhabited

structure Field where
  rust : String
  json : String
  aliases : List String
  ty : Ty
  /-- `#[serde(default)]` -/
  dflt : Bool
  wrap : Wrap
  /-- `#[serde(skip_serializing_if = "Option::is_none")]` -/
  skipNone : Bool := false
  deriving Repr, Inhabited, DecidableEq

structure StructDef where
  name : String
  derivesDefault : Bool
  fields : List Field
  deriving Repr, Inhabited, DecidableEq

structure EnumDef where
  name : String
  /-- JSON name and aliases of each variant -/
  variants : List (String × List String)
  /-- JSON name of the `#[default]` variant -/
  dflt : Option String
  deriving Repr, Inhabited, DecidableEq

structure Schema where
  structs : List StructDef
  enums : List EnumDef
  deriving Repr, Inhabited

/-- parsed values, generically -/
inductive Val where
  | bytes (b : List UInt8)
  | str (s : String)
  | bool (b : Bool)
  | int (i : Int)
  | none
  | some (v : Val)
  | list (l : List Val)
  | record (name : String) (fields : List (String × Val))
  | enumv (s : String)
  | map (l : List (String × Val))
  deriving Repr, Inhabited

/-- outcome of a deserialiser: a value, an error, or an input shape this model does not cover -/
inductive R (α : Type) where
  | ok (a : α)
  | err
  | unmodelled
  deriving Repr, Inhabited

def R.map {α β} (f : α → β) : R α → R β
  | .ok a => .ok (f a)
  | .err => .err
  | .unmodelled => .unmodelled

def R.bind {α β} (r : R α) (f : α → R β) : R β :=
  match r with
  | .ok a => f a
  | .err => .err
  | .unmodelled => .unmodelled

/-- left to right, stopping at the first element that is not a value -/
def R.mapM {α β} (f : α → R β) : List α → R (List β)
  | [] => .ok []
  | a :: as =>
    match f a with
    | .ok b => (R.mapM f as).map (b :: ·)
    | .err => .err
    | .unmodelled => .unmodelled

end PasskeyVerif.Serde
