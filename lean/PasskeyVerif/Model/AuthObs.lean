/-
Observations of an authenticator ceremony: what the result, the store afterwards and the event trace
look like from outside.  The same type is produced from the model's `Outcome` (`obsOfMake`, `obsOfGet`)
and parsed from what the instrumented implementation reported, so a specification predicate over `Obs`
serves both as the statement of the theorems and as the run-time oracle.
-/
import PasskeyVerif.Model.Authenticator
namespace PasskeyVerif.Auth
open PasskeyVerif.AuthData (Bytes)

structure PkSnap where
  credId : Bytes
  rpId : Bytes
  userHandle : Option Bytes
  counter : Option Nat
  x : Bytes
  hmac : Option HmacSecret
  deriving DecidableEq, Repr

inductive EvObs where
  | uv (cred : Option Bytes) (up uv : Bool)
  | find (ids : Option (List Bytes)) (rp : Bytes) (result : Except Nat (List Bytes))
  | save (credId rpId : Bytes) (userHandle : Option Bytes) (counter : Option Nat) (userId : Bytes) (rk up uv : Bool) (fault : Option Nat)
  | update (credId : Bytes) (counter : Option Nat) (fault : Option Nat)
  | info
  deriving Repr

instance : BEq (Except Nat (List Bytes)) where
  beq a b := match a, b with
    | .ok x, .ok y => x == y
    | .error x, .error y => x == y
    | _, _ => false

def EvObs.beq : EvObs → EvObs → Bool
  | .uv a b c, .uv a' b' c' => a == a' && b == b' && c == c'
  | .find a b c, .find a' b' c' => a == a' && b == b' && c == c'
  | .save a b c d e f g h i, .save a' b' c' d' e' f' g' h' i' =>
    a == a' && b == b' && c == c' && d == d' && e == e' && f == f' && g == g' && h == h' && i == i'
  | .update a b c, .update a' b' c' => a == a' && b == b' && c == c'
  | .info, .info => true
  | _, _ => false
instance : BEq EvObs := ⟨EvObs.beq⟩

inductive ResObs where
  | makeOk (authData : Bytes) (prf : Option PrfMakeOut)
  | getOk (credId : Bytes) (authData : Bytes) (userHandle : Option Bytes) (prf : Option PrfValues) (signature : Bytes)
  | err (code : Nat)
  | cancelled
  | panic
  deriving Repr

structure Obs where
  res : ResObs
  trace : List EvObs
  store : List PkSnap
  deriving Repr

def snapOf (p : Passkey) : PkSnap :=
  { credId := p.credId, rpId := p.rpId, userHandle := p.userHandle, counter := p.counter, x := p.key.x, hmac := p.hmac }

def evObsOf : Event → EvObs
  | .uv c a b => .uv c a b
  | .find i r x => .find i r x
  | .save p u rk up uv f => .save p.credId p.rpId p.userHandle p.counter u rk up uv f
  | .update c n f => .update c n f
  | .info => .info

/-- lexicographic order on byte strings, to list the store canonically -/
def bytesLt : Bytes → Bytes → Bool
  | [], [] => false
  | [], _ :: _ => true
  | _ :: _, [] => false
  | a :: as, b :: bs => if a < b then true else if b < a then false else bytesLt as bs

def insertSorted (p : PkSnap) : List PkSnap → List PkSnap
  | [] => [p]
  | q :: qs => if bytesLt p.credId q.credId then p :: q :: qs else q :: insertSorted p qs

def sortSnaps (l : List PkSnap) : List PkSnap := l.foldr insertSorted []

def storeObs (s : Store) : List PkSnap := sortSnaps (s.items.map snapOf)

def obsOfMake (o : Outcome MakeResp) : Obs :=
  { res := match o.result with
      | .ok r => (match r.authData.toVec with | some b => .makeOk b r.unsignedPrf | none => .panic)
      | .error e => .err e,
    trace := o.trace.map evObsOf, store := storeObs o.store }

/-- the signature bytes are not computed by the model; `sig` is what was observed -/
def obsOfGet (o : Outcome GetResp) (sig : Bytes) : Obs :=
  { res := match o.result with
      | .ok r => (match r.authData.toVec with | some b => .getOk r.credId b r.userHandle r.unsignedPrf sig | none => .panic)
      | .error e => .err e,
    trace := o.trace.map evObsOf, store := storeObs o.store }

end PasskeyVerif.Auth
