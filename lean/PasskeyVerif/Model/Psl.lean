/-
Model of public-suffix/src/lib.rs: `ListProvider::{public_suffix, find, node_label, is_effective_tld}`,
`effective_tld_plus_one`, `after_or_all`, over a packed table as in `tld_list.rs`.

Strings are lists of byte values (`Nat`); every slice the Rust code takes is adjacent to an ASCII dot or
an end of the string, so byte positions are valid `str` boundaries.  Indexing is checked: `none` is where
the Rust code would panic (array index out of range, slice out of range).  Loops take fuel; running
out of fuel is also `none` (proved never to happen, `Lemmas/Psl*.lean`).  Import-free.
-/
namespace PasskeyVerif.Psl

abbrev Str := List Nat

/-- `impl Table`: the associated constants; the arrays are packed little-endian into lists of 2048-byte `Nat` chunks. -/
structure Table where
  bitsChildren : Nat
  bitsIcann : Nat
  bitsTextOffset : Nat
  bitsTextLength : Nat
  bitsWildcard : Nat
  bitsNodeType : Nat
  bitsHi : Nat
  bitsLo : Nat
  typeNormal : Nat
  typeException : Nat
  numTld : Nat
  textLen : Nat
  nodesLen : Nat
  childrenLen : Nat
  text : List Nat
  nodes : List Nat
  children : List Nat

/-- bytes per packed chunk (fixed by the translator) -/
def chunkBytes : Nat := 2048

/-- byte `i` of a chunked little-endian packing -/
def packedByte (chunks : List Nat) (i : Nat) : Nat :=
  match chunks[i / chunkBytes]? with
  | some c => (c >>> (8 * (i % chunkBytes))) &&& 255
  | none => 0

/-- `u32` word `i` of a chunked little-endian packing -/
def packedWord (chunks : List Nat) (i : Nat) : Nat :=
  match chunks[i / (chunkBytes / 4)]? with
  | some c => (c >>> (32 * (i % (chunkBytes / 4)))) &&& 0xffffffff
  | none => 0

/-- `T::NODES[i]` -/
def Table.node? (t : Table) (i : Nat) : Option Nat :=
  if i < t.nodesLen then some (packedWord t.nodes i) else none

/-- `T::CHILDREN[i]` -/
def Table.child? (t : Table) (i : Nat) : Option Nat :=
  if i < t.childrenLen then some (packedWord t.children i) else none

def Table.textByte (t : Table) (i : Nat) : Nat := packedByte t.text i

/-- `&T::TEXT[offset..][..length]` -/
def Table.textSlice? (t : Table) (offset length : Nat) : Option Str :=
  if offset ≤ t.textLen ∧ length ≤ t.textLen - offset then
    some ((List.range length).map (fun j => t.textByte (offset + j)))
  else none

def mask (bits : Nat) : Nat := 2 ^ bits - 1

/-- `node_label` -/
def nodeLabel? (t : Table) (i : Nat) : Option Str :=
  match t.node? i with
  | none => none
  | some x =>
    let length := x &&& mask t.bitsTextLength
    let x := x >>> t.bitsTextLength
    let offset := x &&& mask t.bitsTextOffset
    t.textSlice? offset length

/-- `str < str`: bytewise lexicographic, a proper prefix is smaller -/
def strLt : Str → Str → Bool
  | [], [] => false
  | [], _ :: _ => true
  | _ :: _, [] => false
  | a :: as, b :: bs => if a < b then true else if b < a then false else strLt as bs

/-- `find`: outer `none` = panic / out of fuel, inner = the `Option<usize>` -/
def find (t : Table) (label : Str) : Nat → Nat → Nat → Option (Option Nat)
  | 0, _, _ => none
  | fuel + 1, lo, hi =>
    if lo < hi then
      let mid := lo + (hi - lo) / 2
      match nodeLabel? t mid with
      | none => none
      | some s =>
        if strLt s label then find t label fuel (mid + 1) hi
        else if s = label then some (some mid)
        else find t label fuel lo mid
    else some none

def dot : Nat := 46

/-- `s.rfind('.')` -/
def rfindDot : Str → Option Nat
  | [] => none
  | c :: cs =>
    match rfindDot cs with
    | some i => some (i + 1)
    | none => if c = dot then some 0 else none

/-- `after_or_all(dot).start` -/
def afterOrAll : Option Nat → Nat
  | some d => d + 1
  | none => 0

/-- the bit-field block in the middle of the loop: from the node index `f` to
`(lo, hi, node type, wildcard)` of its children entry -/
def childInfo? (t : Table) (f : Nat) : Option (Nat × Nat × Nat × Bool) :=
  match t.node? f with
  | none => none
  | some nf =>
    let u := nf >>> (t.bitsTextOffset + t.bitsTextLength)
    let u := u >>> t.bitsIcann
    match t.child? (u &&& mask t.bitsChildren) with
    | none => none
    | some u =>
      let lo := u &&& mask t.bitsLo
      let u := u >>> t.bitsLo
      let hi := u &&& mask t.bitsHi
      let u := u >>> t.bitsHi
      let ty := u &&& mask t.bitsNodeType
      let u := u >>> t.bitsNodeType
      let wildcard := (u &&& mask t.bitsWildcard) != 0
      some (lo, hi, ty, wildcard)

/-- the `'start: loop` of `public_suffix`; returns `suffix.start` -/
def walk (t : Table) : Nat → Str → Nat → Nat → Nat → Bool → Option Nat
  | 0, _, _, _, _, _ => none
  | fuel + 1, s, lo, hi, suffix, wildcard =>
    let d := rfindDot s
    let suffix := if wildcard then afterOrAll d else suffix
    if lo = hi then some suffix else
    match find t (s.drop (afterOrAll d)) (hi - lo + 1) lo hi with
    | none => none
    | some none => some suffix
    | some (some f) =>
      match childInfo? t f with
      | none => none
      | some (lo, hi, ty, wildcard) =>
        if ty = t.typeNormal then
          match d with
          | some d' => walk t fuel (s.take d') lo hi (afterOrAll d) wildcard
          | none => some (afterOrAll d)
        else if ty = t.typeException then some (1 + s.length)
        else
          match d with
          | some d' => walk t fuel (s.take d') lo hi suffix wildcard
          | none => some suffix

/-- `public_suffix`: the start of the returned slice of `domain` -/
def publicSuffixStart (t : Table) (domain : Str) : Option Nat :=
  match walk t (domain.length + 2) domain 0 t.numTld domain.length false with
  | none => none
  | some suffix =>
    let suffix := if suffix = domain.length then afterOrAll (rfindDot domain) else suffix
    if suffix ≤ domain.length then some suffix else none

def publicSuffix (t : Table) (domain : Str) : Option Str :=
  (publicSuffixStart t domain).map domain.drop

inductive Error where
  | cannotDeriveETldPlus1 | emptyLabel | invalidPublicSuffix
  deriving DecidableEq, Repr

def containsDotDot : Str → Bool
  | a :: b :: rest => (a = dot && b = dot) || containsDotDot (b :: rest)
  | _ => false

/-- `domain.starts_with('.') || domain.ends_with('.') || domain.contains("..")` -/
def hasEmptyLabel (d : Str) : Bool :=
  d.head? = some dot || d.getLast? = some dot || containsDotDot d

/-- `effective_tld_plus_one`; outer `none` = panic -/
def effectiveTldPlusOne (t : Table) (domain : Str) : Option (Except Error Str) :=
  if hasEmptyLabel domain then some (.error .emptyLabel) else
  match publicSuffixStart t domain with
  | none => none
  | some st =>
    let respLen := domain.length - st
    if domain.length ≤ respLen then some (.error .cannotDeriveETldPlus1) else
    let i := domain.length - respLen - 1
    match domain[i]? with
    | none => none
    | some c =>
      if c ≠ dot then some (.error .invalidPublicSuffix)
      else some (.ok (domain.drop (afterOrAll (rfindDot (domain.take i)))))

/-- `is_effective_tld` -/
def isEffectiveTld (t : Table) (domain : Str) : Option Bool :=
  if hasEmptyLabel domain then some false else
  (publicSuffix t domain).map (fun r => r = domain)

end PasskeyVerif.Psl
