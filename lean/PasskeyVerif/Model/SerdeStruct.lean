/-
A model of what `#[derive(Deserialize)]` generates for the structs and enums described by a `Schema`, read
from a JSON value by serde_json, with the helpers of passkey-types/src/utils/serde.rs:

* an object is read member by member in the order of the text; a member whose name is no field (nor alias) is
  skipped whatever its value; a second member for a field already seen is an error; an error in a member is
  the error of the struct;
* afterwards a field not seen takes `Default::default()` if it is `#[serde(default)]`, `None` if it is an
  `Option` without a helper, and is an error otherwise;
* `ignore_unknown` returns the default when the value does not parse.  Reading from a token stream
  (`buffered = false`) this leaves the stream where the inner error occurred: the model covers the case the
  WebAuthn text is about — a string that names no variant of an enumeration (the string has been consumed) —
  says `err` for any other JSON value in an enumeration's place (nothing or half of it has been consumed, the
  enclosing object then fails), and `unmodelled` for a struct that fails to parse.  Inside an element of an
  `ignore_unknown_opt_vec` list (`buffered = true`: `PossiblyUnknown` is an untagged enum, so the element
  has been buffered) every failure gives the default;
* `ignore_unknown_opt_vec` / `ignore_unknown_vec`: an array whose elements that do not parse are dropped.
-/
import PasskeyVerif.Model.SerdeTypes
import PasskeyVerif.Model.WebauthnJson
namespace PasskeyVerif.Serde
open PasskeyVerif.Json

/-- the variant a JSON string names (its canonical JSON name) -/
def EnumDef.variantOf (e : EnumDef) (s : String) : Option String :=
  (e.variants.find? (fun v => v.1 == s || v.2.contains s)).map (·.1)

def Schema.enum? (S : Schema) (n : String) : Option EnumDef := S.enums.find? (·.name == n)
def Schema.struct? (S : Schema) (n : String) : Option StructDef := S.structs.find? (·.name == n)

def StructDef.fieldFor (sd : StructDef) (key : String) : Option Field :=
  sd.fields.find? (fun f => f.json == key || f.aliases.contains key)

/-- `Default::default()` of a member type -/
def defaultOf (S : Schema) : Nat → Ty → Val
  | 0, _ => .none
  | _ + 1, .bytes => .bytes []
  | _ + 1, .str => .str ""
  | _ + 1, .bool => .bool false
  | _ + 1, .u32 => .int 0
  | _ + 1, .alg => .int 0
  | _ + 1, .i64 => .int 0
  | _ + 1, .enum n => .enumv (((S.enum? n).bind (·.dflt)).getD "?")
  | fuel + 1, .struct n =>
    match S.struct? n with
    | some sd => .record n (sd.fields.map (fun f => (f.rust, defaultOf S fuel f.ty)))
    | none => .none
  | _ + 1, .opt _ => .none
  | _ + 1, .vec _ => .list []
  | _ + 1, .mapStr _ => .map []

def isEnumish : Ty → Bool
  | .enum _ => true
  | .opt (.enum _) => true
  | _ => false

def isOpt : Ty → Bool
  | .opt _ => true
  | _ => false

/-- a `HashMap` keeps the last value given for a key and has no order: sorted by key -/
def canonMap (l : List (String × Val)) : List (String × Val) :=
  let dedup := l.foldl (fun acc kv => acc.filter (·.1 != kv.1) ++ [kv]) []
  dedup.mergeSort (fun a b => a.1 ≤ b.1)

def elemTy : Ty → Option Ty
  | .opt (.vec t) => some t
  | .vec t => some t
  | _ => none

/-- one field of the finished struct: what was seen for it, else its default, else an error -/
def assembleField (S : Schema) (seen : List (String × Val)) (f : Field) : R (String × Val) :=
  match seen.find? (·.1 == f.rust) with
  | some kv => R.ok (f.rust, kv.2)
  | none =>
    if f.dflt then R.ok (f.rust, defaultOf S 8 f.ty)
    else if isOpt f.ty && f.wrap == .plain then R.ok (f.rust, Val.none)
    else R.err

/-- fields in declaration order, from what was seen -/
def assemble (S : Schema) (sd : StructDef) (seen : List (String × Val)) : R Val :=
  (R.mapM (assembleField S seen) sd.fields).map (Val.record sd.name)

/-! ### what happens along a list, whatever the element parser is -/

/-- elements of an `ignore_unknown_opt_vec` list: each is tried as `T`, dropped if that fails -/
def lenientList (p : Json → R Val) : List Json → R (List Val)
  | [] => .ok []
  | j :: js =>
    match p j with
    | .ok v => (lenientList p js).map (v :: ·)
    | .err => lenientList p js
    | .unmodelled => .unmodelled

/-- the entries of a JSON object read as a map -/
def entryList (p : Json → R Val) : List (String × Json) → R (List (String × Val))
  | [] => .ok []
  | (k, j) :: js =>
    match p j with
    | .ok v => (entryList p js).map ((k, v) :: ·)
    | .err => .err
    | .unmodelled => .unmodelled

/-- the members of an object, in the order of the text: a member that is no field is skipped, a second
member for a field is an error, an error in a member is the error of the struct -/
def memberList (sd : StructDef) (p : Field → Json → R Val) : List (String × Json) → List (String × Val) → R (List (String × Val))
  | [], seen => .ok seen
  | (k, j) :: rest, seen =>
    match sd.fieldFor k with
    | none => memberList sd p rest seen
    | some f =>
      if seen.any (·.1 == f.rust) then .err
      else match p f j with
        | .ok v => memberList sd p rest (seen ++ [(f.rust, v)])
        | .err => .err
        | .unmodelled => .unmodelled

mutual
  /-- `T::deserialize` -/
  def parseTy (S : Schema) (knownAlg : Int → Bool) : Nat → Bool → Ty → Json → R Val
    | 0, _, _, _ => .unmodelled
    | fuel + 1, buffered, ty, j =>
      match ty with
      | .bytes => (match WJson.bytesOf j with | some b => .ok (.bytes b) | none => .err)
      | .str => (match j with | .str s => .ok (.str s) | _ => .err)
      | .bool => (match j with | .bool b => .ok (.bool b) | _ => .err)
      | .u32 => .unmodelled
      | .alg => .unmodelled
      | .i64 =>
        (match j with
         | .num s => (match WJson.ofToken s with
            | .int v => if WJson.i64Min ≤ v ∧ v ≤ WJson.i64Max then .ok (.int v) else .err
            | .unmodelled => .unmodelled
            | _ => .err)
         | _ => .err)
      | .enum n =>
        (match j with
         | .str s => (match (S.enum? n).bind (·.variantOf s) with | some v => .ok (.enumv v) | none => .err)
         | _ => .err)
      | .struct n =>
        (match j with
         | .obj l => parseStruct S knownAlg fuel buffered n l
         | .arr _ => .unmodelled          -- serde also accepts the positional form
         | _ => .err)
      | .opt t => (match j with | .null => .ok .none | _ => (parseTy S knownAlg fuel buffered t j).map .some)
      | .vec t => (match j with | .arr l => (R.mapM (parseTy S knownAlg fuel buffered t) l).map .list | _ => .err)
      | .mapStr t => (match j with | .obj l => (entryList (parseTy S knownAlg fuel buffered t) l).map (fun es => .map (canonMap es)) | _ => .err)
  /-- one member value, through the member's helper -/
  def parseMember (S : Schema) (knownAlg : Int → Bool) : Nat → Bool → Field → Json → R Val
    | 0, _, _, _ => .unmodelled
    | fuel + 1, buffered, f, j =>
      match f.wrap with
      | .plain => parseTy S knownAlg fuel buffered f.ty j
      | .maybeStringified =>
        (match WJson.u32Of j with
         | some (some v) => .ok (.some (.int v))
         | some none => .err
         | none => .unmodelled)
      | .i64ToIana =>
        (match WJson.i64Of j with
         | some (some v) => if knownAlg v then .ok (.int v) else .err
         | some none => .err
         | none => .unmodelled)
      | .ignoreUnknown =>
        (match parseTy S knownAlg fuel buffered f.ty j with
         | .ok v => .ok v
         | .unmodelled => .unmodelled
         | .err =>
           if buffered then .ok (defaultOf S 8 f.ty)
           else if isEnumish f.ty then (match j with | .str _ => .ok (defaultOf S 8 f.ty) | _ => .err)
           else .unmodelled)
      | .ignoreUnknownOptVec =>
        (match j, elemTy f.ty with
         | .arr l, some t => (lenientList (parseTy S knownAlg fuel true t) l).map (fun vs => .some (.list vs))
         | _, none => .unmodelled
         | _, _ => .err)
      | .ignoreUnknownVec =>
        (match j, elemTy f.ty with
         | .arr l, some t => (lenientList (parseTy S knownAlg fuel true t) l).map .list
         | _, none => .unmodelled
         | _, _ => .err)
  def parseStruct (S : Schema) (knownAlg : Int → Bool) : Nat → Bool → String → List (String × Json) → R Val
    | 0, _, _, _ => .unmodelled
    | fuel + 1, buffered, n, l =>
      match S.struct? n with
      | none => .unmodelled
      | some sd =>
        match memberList sd (parseMember S knownAlg fuel buffered) l [] with
        | .ok seen => assemble S sd seen
        | .err => .err
        | .unmodelled => .unmodelled
end

/-- enough fuel for any text: every level of nesting of the value costs at most three units -/
def fuelFor (text : String) : Nat := 3 * text.length + 64

/-- `serde_json::from_str::<Root>(text)` -/
def parseRoot (S : Schema) (knownAlg : Int → Bool) (root : String) (text : String) : R Val :=
  match Json.parse text with
  | none => .err
  | some j => parseTy S knownAlg (fuelFor text) false (.struct root) j

end PasskeyVerif.Serde
