/-
Model of passkey-types/src/ctap2/attestation_fmt.rs: `AuthenticatorData::{new, set_attested_credential_data,
set_flags, set_*_extensions, to_vec, from_slice}`, `AttestedCredentialData::{new, into_iter, from_reader}`,
and `Flags::from_bits` (flag constants regenerated from flags.rs).

The COSE key and the extension value are carried as their CBOR bytes; third-party code is a parameter:
`skip bs` is the length of the first CBOR item of `bs` (what `ciborium::de::from_reader` consumes) and
`validKey item` says whether `CoseKey::from_cbor_value` accepts it.  Import-free except generated constants.
-/
import PasskeyVerif.Generated.Flags
import PasskeyVerif.Base.Sha256
namespace PasskeyVerif.AuthData
open PasskeyVerif.Generated

abbrev Bytes := List UInt8

/-- `Flags::from_bits`: `None` if a bit outside the declared flags is set -/
def fromBits (b : UInt8) : Option UInt8 := if b &&& ~~~Flags.ALL = 0 then some b else none

structure Acd where
  aaguid : Bytes          -- 16 bytes
  credId : Bytes
  key : Bytes             -- CBOR bytes of the COSE key
  deriving DecidableEq, Repr

structure AuthData where
  rpIdHash : Bytes        -- 32 bytes
  flags : UInt8
  counter : Option Nat    -- u32
  acd : Option Acd
  ext : Option Bytes      -- CBOR bytes of the extension value
  deriving DecidableEq, Repr

/-- `AttestedCredentialData::new`: `none` = `TryFromIntError` -/
def Acd.new (aaguid credId key : Bytes) : Option Acd :=
  if credId.length ≤ 65535 then some ⟨aaguid, credId, key⟩ else none

/-- `AuthenticatorData::new` -/
def AuthData.new (rpId : Bytes) (counter : Option Nat) : AuthData :=
  { rpIdHash := Sha256.sha256 rpId, flags := Flags.DEFAULT, counter := counter, acd := none, ext := none }

/-- `set_flags` -/
def AuthData.setFlags (a : AuthData) (f : UInt8) : AuthData := { a with flags := a.flags ||| f }

/-- `set_attested_credential_data` -/
def AuthData.setAcd (a : AuthData) (acd : Acd) : AuthData := ({ a with acd := some acd }).setFlags Flags.AT

/-- `set_make_credential_extensions` / `set_assertion_extensions`, given the serialised zipped
contents (`none` = no extension output) -/
def AuthData.setExt (a : AuthData) (ext : Option Bytes) : AuthData :=
  match ext with
  | none => a
  | some e => ({ a with ext := some e }).setFlags Flags.ED

def be16 (n : Nat) : Bytes := [UInt8.ofNat (n / 256), UInt8.ofNat (n % 256)]
def be32 (n : Nat) : Bytes :=
  [UInt8.ofNat (n / 16777216), UInt8.ofNat (n / 65536 % 256), UInt8.ofNat (n / 256 % 256), UInt8.ofNat (n % 256)]
def ofBe16 (a b : UInt8) : Nat := a.toNat * 256 + b.toNat
def ofBe32 (a b c d : UInt8) : Nat := a.toNat * 16777216 + b.toNat * 65536 + c.toNat * 256 + d.toNat

/-- `AttestedCredentialData::into_iter`; `none` = the `u16::try_from(..).unwrap()` panic -/
def Acd.toBytes (c : Acd) : Option Bytes :=
  if c.credId.length ≤ 65535 then some (c.aaguid ++ be16 c.credId.length ++ c.credId ++ c.key) else none

/-- `to_vec` -/
def AuthData.toVec (a : AuthData) : Option Bytes :=
  let flags := if a.acd.isSome then a.flags ||| Flags.AT else a.flags
  let acdBytes := match a.acd with
    | none => some []
    | some c => c.toBytes
  match acdBytes with
  | none => none
  | some ab => some (a.rpIdHash ++ [flags] ++ be32 (a.counter.getD 0) ++ ab ++ a.ext.getD [])

inductive DecErr where
  | tooShort | badFlags | acdTruncated | keyInvalid | extInvalid
  deriving DecidableEq, Repr

/-- `AttestedCredentialData::from_reader` -/
def Acd.fromReader (skip : Bytes → Option Nat) (validKey : Bytes → Bool) (v : Bytes) : Except DecErr (Acd × Bytes) :=
  if v.length < 16 then .error .acdTruncated else
  let aaguid := v.take 16
  let v := v.drop 16
  match v with
  | l0 :: l1 :: v =>
    let len := ofBe16 l0 l1
    if v.length < len then .error .acdTruncated else
    let credId := v.take len
    let v := v.drop len
    match skip v with
    | none => .error .acdTruncated
    | some n =>
      if validKey (v.take n) then .ok (⟨aaguid, credId, v.take n⟩, v.drop n) else .error .keyInvalid
  | _ => .error .acdTruncated

/-- `from_slice` -/
def AuthData.fromSlice (skip : Bytes → Option Nat) (validKey : Bytes → Bool) (v : Bytes) : Except DecErr AuthData :=
  if v.length < 37 then .error .tooShort else
  let rpIdHash := v.take 32
  match v.drop 32 with
  | fb :: c0 :: c1 :: c2 :: c3 :: rest =>
    match fromBits fb with
    | none => .error .badFlags
    | some flags =>
      let acdR : Except DecErr (Option Acd × Bytes) :=
        if flags &&& Flags.AT = Flags.AT then
          match Acd.fromReader skip validKey rest with
          | .ok (c, r) => .ok (some c, r)
          | .error e => .error e
        else .ok (none, rest)
      match acdR with
      | .error e => .error e
      | .ok (acd, rest) =>
        if flags &&& Flags.ED = Flags.ED then
          match skip rest with
          | none => .error .extInvalid
          | some n => .ok { rpIdHash, flags, counter := some (ofBe32 c0 c1 c2 c3), acd, ext := some (rest.take n) }
        else .ok { rpIdHash, flags, counter := some (ofBe32 c0 c1 c2 c3), acd, ext := none }
  | _ => .error .tooShort

end PasskeyVerif.AuthData
