/-
Several ceremonies sharing one credential store (C19).  The lock wrappers of the library take the lock
per store call, so a ceremony is a sequence of atomic store / user-validation calls and a concurrent
execution is an interleaving of such calls.  A thread is a ceremony parked before its next call; `step`
performs that call on the shared store and runs the ceremony up to its next call (or to its end).
Running a thread's steps back to back is the big-step ceremony of Model/Authenticator.lean
(`Lemmas/Concurrent.lean`).
-/
import PasskeyVerif.Model.Authenticator
namespace PasskeyVerif.Conc
open PasskeyVerif.Auth
open PasskeyVerif.AuthData (Bytes AuthData)

inductive Thread where
  /-- get_assertion parked before the lookup -/
  | getFind (req : GetReq) (u : UvCfg)
  /-- ... before user validation, holding the lookup's first credential (a snapshot) or its error -/
  | getUv (req : GetReq) (u : UvCfg) (maybe : Except Nat Passkey)
  /-- ... before the counter write-back -/
  | getUpdate (req : GetReq) (flags : UInt8) (cred : Passkey)
  /-- make_credential parked before user validation -/
  | mkUv (req : MakeReq) (u : UvCfg) (dr : Draws)
  | mkExclude (req : MakeReq) (dr : Draws) (flags : UInt8)
  | mkRkInfo (req : MakeReq) (dr : Draws) (flags : UInt8)
  | mkInfo (req : MakeReq) (dr : Draws) (flags : UInt8) (prfOut : Option PrfMakeOut) (stored : Option HmacSecret)
  | mkSave (req : MakeReq) (dr : Draws) (flags : UInt8) (prfOut : Option PrfMakeOut) (pk : Passkey)
  | doneGet (r : Except Nat GetResp)
  | doneMake (r : Except Nat MakeResp)

def Thread.done : Thread → Bool
  | .doneGet _ => true
  | .doneMake _ => true
  | _ => false

/-- make_credential after the rk capability question: pinAuth, extensions, then the capability query -/
def mkAfterRk (cfg : Cfg) (req : MakeReq) (dr : Draws) (flags : UInt8) : Thread :=
  if req.pinAuth then .doneMake (.error eUnsupportedOption) else
  match makeExtensions cfg dr req.ext req.uv with
  | .error e => .doneMake (.error e)
  | .ok (prfOut, stored) => .mkInfo req dr flags prfOut stored

/-- ... after the exclude list: algorithm, then the rk capability question if rk was asked for -/
def mkAfterExclude (cfg : Cfg) (req : MakeReq) (dr : Draws) (flags : UInt8) : Thread :=
  match chooseAlgorithm cfg req.algs with
  | .error e => .doneMake (.error e)
  | .ok _ => if req.rk then .mkRkInfo req dr flags else mkAfterRk cfg req dr flags

def hasExclude (req : MakeReq) : Bool := match req.excludeList with | some l => !l.isEmpty | none => false

/-- one call of one ceremony on the shared store -/
def step (cfg : Cfg) (s : Store) (t : Thread) : Store × Thread :=
  match t with
  | .getFind req u =>
    let f := s.find (allowIds req) req.rpId
    let maybe := firstCred f.1
    if req.pinAuth then (f.2.1, .doneGet (.error ePinAuthInvalid))
    else if req.rk then (f.2.1, .doneGet (.error eUnsupportedOption))
    else if req.uv && u.verification != some true then (f.2.1, .doneGet (.error eUnsupportedOption))   -- check_user returns without asking
    else (f.2.1, .getUv req u maybe)
  | .getUv req u maybe =>
    match checkUser u req.up req.uv (shownOf maybe) with
    | (.error c, _) => (s, .doneGet (.error c))
    | (.ok flags, _) =>
      match maybe with
      | .error c => (s, .doneGet (.error c))
      | .ok cred =>
        match cred.counter with
        | none => (s, .doneGet (signPhase cfg s req flags cred).result)
        | some _ => (s, .getUpdate req flags cred)
  | .getUpdate req flags cred =>
    let o := getAfterConsent cfg s req flags cred
    (o.store, .doneGet o.result)
  | .mkUv req u dr =>
    match checkUser u req.up req.uv none with
    | (.error e, _) => (s, .doneMake (.error e))
    | (.ok flags, _) => if hasExclude req then (s, .mkExclude req dr flags) else (s, mkAfterExclude cfg req dr flags)
  | .mkExclude req dr flags =>
    let ex := excludePhase s req
    if ex.1 then (ex.2.1, .doneMake (.error eCredentialExcluded)) else (ex.2.1, mkAfterExclude cfg req dr flags)
  | .mkRkInfo req dr flags =>
    let rk := rkPhase s req
    if rk.1 then (rk.2.1, .doneMake (.error eUnsupportedOption)) else (rk.2.1, mkAfterRk cfg req dr flags)
  | .mkInfo req dr flags prfOut stored =>
    (s.info.2.1, .mkSave req dr flags prfOut (newPasskey cfg s.info.1 dr req stored))
  | .mkSave req dr flags prfOut pk =>
    let sv := s.save pk req.userId req.rk req.up req.uv
    match sv.1 with
    | .error e => (sv.2.1, .doneMake (.error e))
    | .ok () => (sv.2.1, .doneMake (.ok { authData := ((AuthData.new req.rpId pk.counter).setFlags flags).setAcd ⟨cfg.aaguid, dr.credId, coseKeyBytes dr.key⟩, unsignedPrf := prfOut }))
  | t => (s, t)

/-- a ceremony started and parked before its first call (`make_credential` without `up` ends at once) -/
def startGet (req : GetReq) (u : UvCfg) : Thread := .getFind req u
def startMake (req : MakeReq) (u : UvCfg) (dr : Draws) : Thread :=
  if !req.up then .doneMake (.error eInvalidOption)
  else if req.uv && u.verification != some true then .doneMake (.error eUnsupportedOption)
  else .mkUv req u dr

def setAt {α : Type} (l : List α) (i : Nat) (x : α) : List α := l.set i x

/-- run a schedule: each entry names the thread that performs its next call (a finished thread does nothing) -/
def runSched (cfg : Cfg) (s : Store) (ts : List Thread) : List Nat → Store × List Thread
  | [] => (s, ts)
  | i :: rest =>
    match ts[i]? with
    | none => runSched cfg s ts rest
    | some t =>
      let r := step cfg s t
      runSched cfg r.1 (ts.set i r.2) rest

end PasskeyVerif.Conc
