/-
Model of the lenient leaf deserialisers of passkey-types/src/utils: `Bytes` (bytes.rs: sequence of u8,
base64url then base64 text), `StringOrNum` / `maybe_stringified` / `i64_to_iana` (serde.rs: numbers,
numeric strings, floats with an integer representation), over JSON values (Base/Json.lean keeps number
tokens as text), and of the member order of a re-serialised `CollectedClientData`.
Decimal texts with more than 15 significant digits are outside the model (`Num.unmodelled`): there the
f64 rounding of the real parser would have to be reproduced.
-/
import PasskeyVerif.Base.Json
import PasskeyVerif.Base.Base64
namespace PasskeyVerif.WJson
open PasskeyVerif.Json
abbrev Bytes := List UInt8

def isDigit (c : Char) : Bool := '0' ≤ c ∧ c ≤ '9'
def digitsVal (cs : List Char) : Nat := cs.foldl (fun acc c => acc * 10 + (c.toNat - 48)) 0

/-- outcome of reading a number text -/
inductive Num where
  | int (v : Int)        -- an integer token / text: handed to visit_u64 / visit_i64 / FromStr
  | float (v : Int)      -- a float whose value, truncated toward zero (`as i64`, 0 if not normal), is `v`
  | bad                  -- not a number
  | unmodelled
  deriving DecidableEq, Repr

def i64Max : Int := 9223372036854775807
def i64Min : Int := -9223372036854775808
def u64Max : Nat := 18446744073709551615

def clampI64 (v : Int) : Int := if v > i64Max then i64Max else if v < i64Min then i64Min else v

/-- decimal text `[+-]digits[.digits][(e|E)[+-]digits]` (at least one digit in the mantissa) -/
def parseDecimal (cs : List Char) (allowPlus : Bool) : Num :=
  let (neg, rest) := match cs with
    | '-' :: r => (true, r)
    | '+' :: r => if allowPlus then (false, r) else (false, '+' :: r)
    | r => (false, r)
  let ip := rest.takeWhile isDigit
  let r1 := rest.drop ip.length
  let (fp, r2, hasDot) := match r1 with
    | '.' :: r => let f := r.takeWhile isDigit; (f, r.drop f.length, true)
    | r => ([], r, false)
  let (ex, r3, hasExp, okExp) : Int × List Char × Bool × Bool := match r2 with
    | e :: r =>
      if e = 'e' || e = 'E' then
        let (eneg, r') := match r with | '-' :: x => (true, x) | '+' :: x => (false, x) | x => (false, x)
        let ed := r'.takeWhile isDigit
        ((if eneg then -(Int.ofNat (digitsVal ed)) else Int.ofNat (digitsVal ed)), r'.drop ed.length, true, !ed.isEmpty)
      else (0, e :: r, false, true)
    | [] => (0, [], false, true)
  if !r3.isEmpty || !okExp || (ip.isEmpty && fp.isEmpty) then .bad
  else if !hasDot && !hasExp then
    (if ip.isEmpty then .bad else .int (if neg then -(Int.ofNat (digitsVal ip)) else Int.ofNat (digitsVal ip)))
  else
    let sig := (ip ++ fp).dropWhile (· = '0')
    if sig.length > 15 || ex.natAbs > 25 then .unmodelled else
    -- value = mant × 10^(ex − |fp|), truncated toward zero
    let mant := digitsVal (ip ++ fp)
    let e10 : Int := ex - Int.ofNat fp.length
    let mag : Nat := if e10 ≥ 0 then mant * 10 ^ e10.toNat else mant / 10 ^ (-e10).toNat
    .float (clampI64 (if neg then -(Int.ofNat mag) else Int.ofNat mag))

/-- `f64::from_str` also reads these spellings; none of them is a normal number: the visitor yields 0 -/
def isInfNan (s : String) : Bool :=
  let l := s.toLower
  let l := if l.startsWith "+" || l.startsWith "-" then (l.drop 1).toString else l
  l = "inf" || l = "infinity" || l = "nan"

/-- a JSON number token as serde_json hands it to the visitor -/
def ofToken (s : String) : Num :=
  match parseDecimal s.toList false with
  | .int v => if v ≥ 0 then (if v.toNat ≤ u64Max then .int v else .unmodelled) else (if v ≥ i64Min then .int v else .unmodelled)
  | n => n

/-- `StringOrNum::visit_str` for a target parsed by `FromStr` first (`u32` / `i64`): an integer text
(optionally signed) within the target's range, else whatever `f64::from_str` reads -/
def ofText (s : String) (lo hi : Int) : Num :=
  match parseDecimal s.toList true with
  | .int v => if lo ≤ v ∧ v ≤ hi then .int v
      -- out of the target's range: `f64::from_str` reads it next
      else if ((s.toList.filter isDigit).dropWhile (· = '0')).length > 15 then .unmodelled else .float (clampI64 v)
  | .bad => if isInfNan s then .float 0 else .bad
  | n => n

/-- the visitor's result for a target range `lo..hi` (`u32`: 0..2^32−1, `i64`: all) -/
def finish (n : Num) (lo hi : Int) : Option (Option Int) :=
  match n with
  | .int v => some (if lo ≤ v ∧ v ≤ hi then some v else none)
  | .float v => some (if lo ≤ v ∧ v ≤ hi then some v else none)
  | .bad => some none
  | .unmodelled => none

/-- `maybe_stringified` (timeouts) / `StringOrNum<i64>` (algorithm identifiers) on a JSON value:
`some (some v)` = parsed, `some none` = error, `none` = outside the model -/
def numOf (j : Json) (lo hi : Int) : Option (Option Int) :=
  match j with
  | .num s => finish (ofToken s) lo hi
  | .str s => finish (ofText s lo hi) lo hi
  | _ => some none

def u32Of (j : Json) : Option (Option Int) := numOf j 0 4294967295
def i64Of (j : Json) : Option (Option Int) := numOf j i64Min i64Max

/-- `Bytes::deserialize` on a JSON value: an array of integers 0..255, or base64url / base64 text -/
def bytesOf (j : Json) : Option Bytes :=
  match j with
  | .arr l => l.mapM (fun x => match x with
      | .num s => (match parseDecimal s.toList false with
          | .int v => if 0 ≤ v ∧ v ≤ 255 then some (UInt8.ofNat v.toNat) else none
          | _ => none)
      | _ => none)
  | .str s => Base64.decodeLenient s
  | _ => none

/-- member names of a re-serialised `CollectedClientData`: the four fixed members first, then every other
member of the input in its original order -/
def clientDataOrder (inputKeys : List String) : List String :=
  ["type", "challenge", "origin", "crossOrigin"] ++ inputKeys.filter (fun k => !["type", "challenge", "origin", "crossOrigin"].contains k)

end PasskeyVerif.WJson
