/-
C12 — Authenticator data binary encoding follows the WebAuthn layout and round-trips.
Property theorems only. Model: Model/AuthData.lean (attestation_fmt.rs, tied to the code by the
correspondence stream; flag constants regenerated from flags.rs). Third-party CBOR code (ciborium,
coset) enters as the interface `CborIface`: a reader that consumes exactly one item and accepts no
proper prefix of an item — the theorems hold for every such reader.  `C12_cbor_reader` proves that the
RFC 8949 reader the driver runs in ciborium's place (Base/Cbor.lean, Model/AuthDataCbor.lean) is such a
reader, and the `…_cbor` theorems are the same statements with that reader filled in.
-/
import PasskeyVerif.Lemmas.AuthDataFlags
import PasskeyVerif.Lemmas.AuthDataCbor
namespace PasskeyVerif.C12
open PasskeyVerif.AuthData PasskeyVerif.Generated

/-- the regenerated flag constants are the WebAuthn bit positions (UP 0, UV 2, BE 3, BS 4, AT 6, ED 7),
bits 1 and 5 are reserved, and the default is BE|BS as in the code -/
theorem C12_flag_bits :
    Flags.UP = 1 ∧ Flags.UV = 4 ∧ Flags.BE = 8 ∧ Flags.BS = 16 ∧ Flags.AT = 64 ∧ Flags.ED = 128
      ∧ Flags.ALL = 221 := by decide

/-- **Layout**: `rpIdHash(32) ‖ flags(1) ‖ counter(4, big endian) ‖ [aaguid(16) ‖ idLen(2, big endian) ‖
id ‖ COSE key] ‖ [extensions]`, the AT bit forced on when the attested section is present; encoding
never panics for values built through `AttestedCredentialData::new`. -/
theorem C12_layout (a : AuthData) (hid : ∀ c, a.acd = some c → c.credId.length ≤ 65535) :
    a.toVec = some (a.rpIdHash ++ [if a.acd.isSome then a.flags ||| Flags.AT else a.flags]
      ++ be32 (a.counter.getD 0)
      ++ (match a.acd with
          | some c => c.aaguid ++ be16 c.credId.length ++ c.credId ++ c.key
          | none => [])
      ++ a.ext.getD []) := by
  unfold AuthData.toVec
  cases hacd : a.acd with
  | none => rfl
  | some c =>
    have := hid c hacd
    simp only [Acd.toBytes, this, if_true]

/-- **AT and ED are set exactly when the section is present**, for every value built with the provided
constructor and setters: `new`, `set_flags` with any of UP/UV/BE/BS, optionally
`set_attested_credential_data`, optionally extension outputs. -/
theorem C12_at_ed_iff_present (rp : Bytes) (counter : Option Nat) (acd : Option Acd) (ext : Option Bytes) :
    ∀ (u : UInt8), u &&& ~~~(Flags.UP ||| Flags.UV ||| Flags.BE ||| Flags.BS) = 0 →
    let a0 := (AuthData.new rp counter).setFlags u
    let a1 := match acd with | some c => a0.setAcd c | none => a0
    let a := a1.setExt ext
    let fb := if a.acd.isSome then a.flags ||| Flags.AT else a.flags
    (fb &&& Flags.AT = Flags.AT ↔ a.acd.isSome = true) ∧ (fb &&& Flags.ED = Flags.ED ↔ a.ext.isSome = true)
      ∧ a.acd = acd ∧ a.ext = ext ∧ fromBits fb = some fb := by
  intro u hu
  cases acd with
  | none =>
    cases ext with
    | none =>
      have h := flag_calc_ff u hu
      exact ⟨⟨fun x => absurd x h.1, fun x => by cases x⟩, ⟨fun x => absurd x h.2.1, fun x => by cases x⟩, rfl, rfl, h.2.2⟩
    | some e =>
      have h := flag_calc_ft u hu
      exact ⟨⟨fun x => absurd x h.1, fun x => by cases x⟩, ⟨fun _ => rfl, fun _ => h.2.1⟩, rfl, rfl, h.2.2⟩
  | some c =>
    cases ext with
    | none =>
      have h := flag_calc_tf u hu
      exact ⟨⟨fun _ => rfl, fun _ => h.1⟩, ⟨fun x => absurd x h.2.1, fun x => by cases x⟩, rfl, rfl, h.2.2⟩
    | some e =>
      have h := flag_calc_tt u hu
      exact ⟨⟨fun _ => rfl, fun _ => h.1⟩, ⟨fun _ => rfl, fun _ => h.2.1⟩, rfl, rfl, h.2.2⟩

/-- **Round trip**: decoding the encoding of a well-formed value returns it, with an absent counter
read back as zero and the AT bit as encoded. -/
theorem C12_roundtrip (I : CborIface) (a : AuthData) (h : WF I a) :
    ∃ bs, a.toVec = some bs ∧
      AuthData.fromSlice I.skip I.validKey bs
        = .ok { a with counter := some (a.counter.getD 0),
                       flags := if a.acd.isSome then a.flags ||| Flags.AT else a.flags } := by
  have hlay := C12_layout a (fun c hc => (h.acdOk c hc).2.1)
  refine ⟨_, hlay, ?_⟩
  unfold AuthData.fromSlice
  have h32 := h.hash
  have hlen : ¬ (a.rpIdHash ++ [if a.acd.isSome then a.flags ||| Flags.AT else a.flags]
      ++ be32 (a.counter.getD 0)
      ++ (match a.acd with
          | some c => c.aaguid ++ be16 c.credId.length ++ c.credId ++ c.key
          | none => [])
      ++ a.ext.getD []).length < 37 := by
    simp [h32, be32]; omega
  rw [if_neg hlen]
  dsimp only
  have e1 : a.rpIdHash ++ [if a.acd.isSome then a.flags ||| Flags.AT else a.flags]
      ++ be32 (a.counter.getD 0)
      ++ (match a.acd with
          | some c => c.aaguid ++ be16 c.credId.length ++ c.credId ++ c.key
          | none => [])
      ++ a.ext.getD []
      = a.rpIdHash ++ ((if a.acd.isSome then a.flags ||| Flags.AT else a.flags)
          :: (be32 (a.counter.getD 0) ++ ((match a.acd with
          | some c => c.aaguid ++ be16 c.credId.length ++ c.credId ++ c.key
          | none => []) ++ a.ext.getD []))) := by simp [List.append_assoc]
  rw [e1, take_append_len _ _ 32 h32, drop_append_len _ _ 32 h32]
  simp only [be32, List.cons_append, List.nil_append]
  rw [be32_roundtrip _ h.counter]
  cases hacd : a.acd with
  | none =>
    have hflags : a.flags &&& Flags.AT ≠ Flags.AT := by
      rcases h.atIff with h1 | h1
      · rw [hacd] at h1; cases h1
      · exact h1
    simp only [Option.isSome, Bool.false_eq_true, if_false, h.flagsOk, if_neg hflags]
    rcases h.edIff with ⟨he1, he2⟩ | ⟨he1, he2⟩
    · cases hext : a.ext with
      | none => rw [hext] at he1; cases he1
      | some e =>
        have hi := h.extOk e hext
        have := I.skip_item e [] hi
        rw [List.append_nil] at this
        simp only [he2, if_true, Option.getD_some, this, List.take_length]
        try (first | rfl | (cases a; simp_all))
    · simp only [he2, if_false, he1, Option.getD_none]
      try (first | rfl | (cases a; simp_all))
  | some c =>
    obtain ⟨c1, c2, c3, c4⟩ := h.acdOk c hacd
    have hfb := fromBits_or_AT a.flags h.flagsOk
    simp only [Option.isSome, if_true, hfb, or_AT_has_AT]
    have hor : ∀ f : UInt8, (f ||| Flags.AT) &&& Flags.ED = f &&& Flags.ED := by
      apply forall_uint8; decide +kernel
    rcases h.edIff with ⟨he1, he2⟩ | ⟨he1, he2⟩
    · cases hext : a.ext with
      | none => rw [hext] at he1; cases he1
      | some e =>
        have hi := h.extOk e hext
        simp only [Option.getD_some]
        rw [acd_roundtrip I c e c1 c2 c3 c4]
        have := I.skip_item e [] hi
        rw [List.append_nil] at this
        simp only [hor, he2, if_true, this, List.take_length]
        try (first | rfl | (cases a; simp_all))
    · simp only [he1, Option.getD_none]
      have := acd_roundtrip I c [] c1 c2 c3 c4
      rw [List.append_nil] at this
      rw [List.append_nil, this]
      simp only [hor, he2, if_false]
      try (first | rfl | (cases a; simp_all))

/-- **Rejected**: inputs shorter than 37 bytes. -/
theorem C12_rejects_short (skip : Bytes → Option Nat) (validKey : Bytes → Bool) (v : Bytes) (h : v.length < 37) :
    AuthData.fromSlice skip validKey v = .error .tooShort := by
  unfold AuthData.fromSlice; rw [if_pos h]

/-- **Rejected**: a flag byte with a reserved bit (bit 1 or bit 5). -/
theorem C12_rejects_reserved_bits (skip : Bytes → Option Nat) (validKey : Bytes → Bool)
    (hash : Bytes) (fb c0 c1 c2 c3 : UInt8) (rest : Bytes) (hh : hash.length = 32)
    (hres : fb &&& 34 ≠ 0) :
    ∃ e, AuthData.fromSlice skip validKey (hash ++ fb :: c0 :: c1 :: c2 :: c3 :: rest) = .error e := by
  unfold AuthData.fromSlice
  have hl : ¬ (hash ++ fb :: c0 :: c1 :: c2 :: c3 :: rest).length < 37 := by simp [hh]; omega
  rw [if_neg hl]
  dsimp only
  rw [drop_append_len _ _ 32 hh]
  have : fromBits fb = none := reserved_rejected fb hres
  dsimp only
  rw [this]
  exact ⟨_, rfl⟩

/-- **Rejected**: the AT flag with the attested section missing or cut anywhere inside it. -/
theorem C12_rejects_truncated_acd (I : CborIface) (hash : Bytes) (fb c0 c1 c2 c3 : UInt8)
    (hh : hash.length = 32) (hat : fb &&& Flags.AT = Flags.AT)
    (c : Acd) (c1' : c.aaguid.length = 16) (c2' : c.credId.length ≤ 65535) (c3' : I.IsItem c.key)
    (p q : Bytes) (hpq : c.aaguid ++ be16 c.credId.length ++ c.credId ++ c.key = p ++ q) (hq : q ≠ []) :
    ∃ e, AuthData.fromSlice I.skip I.validKey (hash ++ fb :: c0 :: c1 :: c2 :: c3 :: p) = .error e := by
  unfold AuthData.fromSlice
  have hl : ¬ (hash ++ fb :: c0 :: c1 :: c2 :: c3 :: p).length < 37 := by simp [hh]; omega
  rw [if_neg hl]
  dsimp only
  rw [drop_append_len _ _ 32 hh]
  dsimp only
  cases hfb : fromBits fb with
  | none => exact ⟨_, rfl⟩
  | some flags =>
    have hff : flags = fb := by
      unfold fromBits at hfb; split at hfb <;> cases hfb; rfl
    subst hff
    simp only [hat, if_true]
    suffices hs : ∃ e, Acd.fromReader I.skip I.validKey p = .error e by
      obtain ⟨e, he⟩ := hs
      rw [he]; exact ⟨_, rfl⟩
    -- where does the cut fall?
    unfold Acd.fromReader
    by_cases h16 : p.length < 16
    · rw [if_pos h16]; exact ⟨_, rfl⟩
    · rw [if_neg h16]
      dsimp only
      have hlenEq := congrArg List.length hpq
      simp only [List.length_append, be16, List.length_cons, List.length_nil] at hlenEq
      have hp16 : p.take 16 = c.aaguid := by
        have l1 : List.take 16 (p ++ q) = p.take 16 := List.take_append_of_le_length (by omega)
        have l2 : List.take 16 (c.aaguid ++ be16 c.credId.length ++ c.credId ++ c.key) = c.aaguid := by
          simp [List.append_assoc, take_append_len _ _ 16 c1']
        rw [← l1, ← hpq, l2]
      have hdrop : p.drop 16 ++ q = be16 c.credId.length ++ c.credId ++ c.key := by
        have l1 : List.drop 16 (p ++ q) = p.drop 16 ++ q := List.drop_append_of_le_length (by omega)
        have l2 : List.drop 16 (c.aaguid ++ be16 c.credId.length ++ c.credId ++ c.key)
            = be16 c.credId.length ++ c.credId ++ c.key := by
          simp [List.append_assoc, drop_append_len _ _ 16 c1']
        rw [← l1, ← hpq, l2]
      generalize p.drop 16 = p1 at hdrop
      match p1, hdrop with
      | [], _ => exact ⟨_, rfl⟩
      | [_], _ => exact ⟨_, rfl⟩
      | l0 :: l1 :: p2, hdrop =>
        simp only [be16, List.cons_append, List.nil_append, List.cons.injEq] at hdrop
        obtain ⟨e0, e1, hrest⟩ := hdrop
        subst e0 e1
        dsimp only
        rw [be16_roundtrip _ c2']
        by_cases hcl : p2.length < c.credId.length
        · rw [if_pos hcl]; exact ⟨_, rfl⟩
        · rw [if_neg hcl]
          have hk : p2.drop c.credId.length ++ q = c.key := by
            have l1 : List.drop c.credId.length (p2 ++ q) = p2.drop c.credId.length ++ q :=
              List.drop_append_of_le_length (by omega)
            rw [← l1, hrest, drop_append_len _ _ _ rfl]
          rw [I.skip_prefix c.key (p2.drop c.credId.length) q c3' hk.symm hq]
          exact ⟨_, rfl⟩

/-- **Rejected**: the ED flag with the extension section missing or cut inside it (here without an
attested section; with one, the reader is positioned after it by `C12_roundtrip`'s lemma). -/
theorem C12_rejects_truncated_ext (I : CborIface) (hash : Bytes) (fb c0 c1 c2 c3 : UInt8)
    (hh : hash.length = 32) (hnat : fb &&& Flags.AT ≠ Flags.AT) (hed : fb &&& Flags.ED = Flags.ED)
    (e p q : Bytes) (hi : I.IsItem e) (hpq : e = p ++ q) (hq : q ≠ []) :
    ∃ err, AuthData.fromSlice I.skip I.validKey (hash ++ fb :: c0 :: c1 :: c2 :: c3 :: p) = .error err := by
  unfold AuthData.fromSlice
  have hl : ¬ (hash ++ fb :: c0 :: c1 :: c2 :: c3 :: p).length < 37 := by simp [hh]; omega
  rw [if_neg hl]
  dsimp only
  rw [drop_append_len _ _ 32 hh]
  dsimp only
  cases hfb : fromBits fb with
  | none => exact ⟨_, rfl⟩
  | some flags =>
    have hff : flags = fb := by
      unfold fromBits at hfb; split at hfb <;> cases hfb; rfl
    subst hff
    simp only [hnat, if_false, hed, if_true, I.skip_prefix e p q hi hpq hq]
    exact ⟨_, rfl⟩

/-- **Refused at construction**: credential ids longer than 65535 bytes. -/
theorem C12_id_too_long (aaguid credId key : Bytes) (h : credId.length > 65535) :
    Acd.new aaguid credId key = none := by
  unfold Acd.new; rw [if_neg (by omega)]

theorem C12_id_accepted (aaguid credId key : Bytes) (h : credId.length ≤ 65535) :
    Acd.new aaguid credId key = some ⟨aaguid, credId, key⟩ := by
  unfold Acd.new; rw [if_pos h]

/-! ### the interface filled in with the RFC 8949 reader the driver runs -/

/-- **The CBOR reader meets the interface**: for every well-formed item `x` (definite lengths, shortest
heads, arguments below 2^64) nested at most 256 deep, the reader run on `encode x` followed by any bytes
consumes exactly `encode x`, and run on any proper prefix of `encode x` it fails. -/
theorem C12_cbor_reader (x : Cbor.Item) (hwf : x.WF = true) (hd : x.depth ≤ 256) :
    (∀ rest, AuthData.skip (Cbor.encode x ++ rest) = some (Cbor.encode x).length)
    ∧ (∀ p q, Cbor.encode x = p ++ q → q ≠ [] → AuthData.skip p = none)
    ∧ (∀ rest, Cbor.decode1 (Cbor.encode x ++ rest) = some (x, rest)) :=
  ⟨fun rest => skip_item _ rest ⟨x, hwf, hd, rfl⟩,
   fun p q he hq => skip_prefix _ p q ⟨x, hwf, hd, rfl⟩ he hq,
   fun rest => Cbor.decode1_encode x hwf rest⟩

/-- `C12_roundtrip` with the reader filled in -/
theorem C12_roundtrip_cbor (a : AuthData) (h : WF cborIface a) :
    ∃ bs, a.toVec = some bs ∧
      AuthData.fromSlice AuthData.skip AuthData.validKey bs
        = .ok { a with counter := some (a.counter.getD 0),
                       flags := if a.acd.isSome then a.flags ||| Flags.AT else a.flags } :=
  C12_roundtrip cborIface a h

/-- `C12_rejects_truncated_acd` with the reader filled in: the COSE key is any well-formed item -/
theorem C12_rejects_truncated_acd_cbor (hash : Bytes) (fb c0 c1 c2 c3 : UInt8)
    (hh : hash.length = 32) (hat : fb &&& Flags.AT = Flags.AT)
    (aaguid credId : Bytes) (key : Cbor.Item) (c1' : aaguid.length = 16) (c2' : credId.length ≤ 65535)
    (hwf : key.WF = true) (hd : key.depth ≤ 256)
    (p q : Bytes) (hpq : aaguid ++ be16 credId.length ++ credId ++ Cbor.encode key = p ++ q) (hq : q ≠ []) :
    ∃ e, AuthData.fromSlice AuthData.skip AuthData.validKey (hash ++ fb :: c0 :: c1 :: c2 :: c3 :: p) = .error e :=
  C12_rejects_truncated_acd cborIface hash fb c0 c1 c2 c3 hh hat ⟨aaguid, credId, Cbor.encode key⟩ c1' c2'
    ⟨key, hwf, hd, rfl⟩ p q hpq hq

/-- `C12_rejects_truncated_ext` with the reader filled in -/
theorem C12_rejects_truncated_ext_cbor (hash : Bytes) (fb c0 c1 c2 c3 : UInt8)
    (hh : hash.length = 32) (hnat : fb &&& Flags.AT ≠ Flags.AT) (hed : fb &&& Flags.ED = Flags.ED)
    (ext : Cbor.Item) (hwf : ext.WF = true) (hd : ext.depth ≤ 256)
    (p q : Bytes) (hpq : Cbor.encode ext = p ++ q) (hq : q ≠ []) :
    ∃ err, AuthData.fromSlice AuthData.skip AuthData.validKey (hash ++ fb :: c0 :: c1 :: c2 :: c3 :: p) = .error err :=
  C12_rejects_truncated_ext cborIface hash fb c0 c1 c2 c3 hh hnat hed _ p q ⟨ext, hwf, hd, rfl⟩ hpq hq

/-- an ES256 COSE key `{1: 2, 3: -7, -1: 1, -2: x, -3: y}` and an `hmac-secret: true` extension map -/
def exampleKeyMembers : List (Cbor.Item × Cbor.Item) := [(.uint 1, .uint 2), (.uint 3, .nint 6), (.nint 0, .uint 1),
  (.nint 1, .bytes (List.replicate 32 7)), (.nint 2, .bytes (List.replicate 32 9))]
def exampleKey : Cbor.Item := .map exampleKeyMembers
def exampleExt : Cbor.Item := .map [(.text [104, 109, 97, 99, 45, 115, 101, 99, 114, 101, 116], .simple 21)]

/-- the hypotheses of `C12_roundtrip_cbor` are met by a value with every optional section present -/
def exampleData : AuthData :=
  { rpIdHash := List.replicate 32 1, flags := Flags.UP ||| Flags.UV ||| Flags.ED, counter := some 7,
    acd := some ⟨List.replicate 16 3, [1, 2, 3], Cbor.encode exampleKey⟩, ext := some (Cbor.encode exampleExt) }
example : WF cborIface exampleData where
  hash := by decide
  counter := by decide
  flagsOk := by decide
  atIff := Or.inl rfl
  edIff := Or.inl ⟨rfl, by decide⟩
  acdOk := by
    intro c hc; cases hc
    exact ⟨by decide, by decide, ⟨exampleKey, by decide, by decide, rfl⟩,
      show AuthData.validKey (Cbor.encode (.map exampleKeyMembers)) = true from
        validKey_encode exampleKeyMembers (by decide) (by decide)⟩
  extOk := by
    intro e he; cases he
    exact ⟨exampleExt, by decide, by decide, rfl⟩

/-- **The setters may be called in any order**: attaching credential data, attaching extension outputs and
setting flags commute, so a value does not depend on which was called first (no setter clears a bit or a
section another one put there). -/
theorem C12_setters_commute (a : AuthData) (c : Acd) (e : Option Bytes) (f : UInt8) :
    (a.setAcd c).setExt e = (a.setExt e).setAcd c
    ∧ (a.setFlags f).setAcd c = (a.setAcd c).setFlags f
    ∧ (a.setFlags f).setExt e = (a.setExt e).setFlags f := by
  refine ⟨?_, ?_, ?_⟩
  · cases e with
    | none => rfl
    | some e => simp [AuthData.setExt, AuthData.setAcd, AuthData.setFlags, or_right_comm8]
  · simp [AuthData.setAcd, AuthData.setFlags, or_right_comm8]
  · cases e with
    | none => rfl
    | some e => simp [AuthData.setExt, AuthData.setFlags, or_right_comm8]

end PasskeyVerif.C12
