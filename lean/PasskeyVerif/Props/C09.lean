/-
C09 — PRF results are the specified HMAC, per credential, and gated on verification.
Property theorems only, about the models of passkey-client/src/extensions/prf.rs and
passkey-authenticator/src/authenticator/extensions/hmac_secret.rs.  SHA-256 and HMAC are the functions
of Base/Sha256.lean (the Spec recomputes every observed PRF output with them).
-/
import PasskeyVerif.Lemmas.Client
import PasskeyVerif.Spec.Client
namespace PasskeyVerif.C09
open PasskeyVerif PasskeyVerif.Auth PasskeyVerif.Auth.Spec PasskeyVerif.Client PasskeyVerif.Spec.Client
open PasskeyVerif.AuthData (Bytes AuthData)

/-- **The salt**: hashed inputs become SHA-256("WebAuthn PRF" ‖ 0x00 ‖ input) — the client's prefix is
the statement's — and pre-hashed inputs of 32 bytes are passed through unchanged. -/
theorem C09_salt (v : PrfVals) :
    convertEval v true = .ok (saltsOf false v)
    ∧ (v.first.length = 32 → (∀ s, v.second = some s → s.length = 32) → convertEval v false = .ok (saltsOf true v)) := by
  refine ⟨?_, ?_⟩
  · unfold convertEval saltsOf saltOf makeSalt prfSaltPrefix prfPrefix
    simp only [if_true]
    rfl
  · intro h1 h2
    unfold convertEval saltsOf saltOf
    cases hs : v.second with
    | none => simp [h1, hs]
    | some s => simp [h1, hs, h2 s hs]

/-- pre-hashed inputs that are not 32 bytes are a validation error -/
theorem C09_prehashed_length (v : PrfVals)
    (h : v.first.length ≠ 32 ∨ ∃ s, v.second = some s ∧ s.length ≠ 32) : convertEval v false = .error .validationError := by
  unfold convertEval
  rcases h with h | ⟨s, hs, hl⟩
  · simp [h]
  · by_cases h1 : v.first.length = 32
    · simp [h1, hs, hl]
    · simp [h1]

/-- **Every PRF result is the HMAC** of its salt under one stored secret: the verification-gated one iff
`uv`, otherwise the non-gated one — and without a non-gated secret an unverified evaluation is an error. -/
theorem C09_result_is_hmac (creds : HmacSecret) (salts : PrfValues) (h : HmacCfg) (uv : Bool) :
    (match secretFor creds uv with
     | some k => ∃ out, calculateHmacSecret creds salts h uv = .ok out ∧ prfMatches k salts out = true
         ∧ out.first = Sha256.hmac k salts.first
     | none => calculateHmacSecret creds salts h uv = .error eUserVerificationBlocked) := by
  unfold secretFor calculateHmacSecret
  cases uv with
  | true =>
    simp only [if_true]
    refine ⟨_, rfl, ?_, rfl⟩
    unfold prfMatches
    cases salts.second <;> cases h.withoutUv <;> simp
  | false =>
    simp only [Bool.false_eq_true, if_false]
    cases hw : creds.withoutUv with
    | none => rfl
    | some k =>
      refine ⟨_, rfl, ?_, rfl⟩
      unfold prfMatches
      cases salts.second <;> cases h.withoutUv <;> simp

/-- **Per-credential inputs take precedence**: the salts used are those listed under the used
credential's id; only when it is not listed, the default ones. -/
theorem C09_select (cred : Bytes) (i : PrfIn) :
    selectSalts cred i = saltsFor cred i
    ∧ (∀ l v, i.evalByCred = some l → l.find? (fun e => e.1 == cred) = some (cred, v) → selectSalts cred i = some v)
    ∧ ((∀ l, i.evalByCred = some l → l.find? (fun e => e.1 == cred) = none) → selectSalts cred i = i.eval) := by
  refine ⟨rfl, ?_, ?_⟩
  · intro l v hl hf
    unfold selectSalts; simp [hl, hf]
  · intro hnone
    unfold selectSalts
    cases he : i.evalByCred with
    | none => simp
    | some l => simp [hnone l he]

/-- **Registration reports "enabled" exactly when secrets were stored**, and an authenticator without
the capability produces no PRF output and stores no secret. -/
theorem C09_enabled_iff_stored (cfg : Cfg) (dr : Draws) (request : Option MakeExtIn) (uv : Bool)
    (out : Option PrfMakeOut) (stored : Option HmacSecret)
    (h : makeExtensions cfg dr request uv = .ok (out, stored)) :
    (∀ o, out = some o → o.enabled = stored.isSome) ∧ (cfg.hmac = none → out = none ∧ stored = none) := by
  unfold makeExtensions at h
  dsimp only at h
  split at h
  · cases h
  · rename_i p hp
    simp only [Except.ok.injEq, Prod.mk.injEq] at h
    obtain ⟨h1, h2⟩ := h
    subst h1
    constructor
    · intro o ho
      subst ho
      rw [← h2]
      split at hp
      · cases hp
      · split at hp
        · cases hp
        · split at hp
          · cases hp
          · split at hp
            · rename_i hst
              simp only [Except.ok.injEq, Option.some.injEq] at hp
              rw [← hp, hst]; rfl
            · rename_i creds hst
              rw [hst]
              split at hp
              · split at hp
                · simp only [Except.ok.injEq, Option.some.injEq] at hp; rw [← hp]; rfl
                · split at hp
                  · simp only [Except.ok.injEq, Option.some.injEq] at hp; rw [← hp]; rfl
                  · cases hp
              · simp only [Except.ok.injEq, Option.some.injEq] at hp; rw [← hp]; rfl
    · intro hc
      constructor
      · split at hp
        · simpa using hp.symm
        · split at hp
          · simpa using hp.symm
          · rw [hc] at hp; simpa using hp.symm
      · rw [← h2]; unfold makeHmacSecret; rw [hc]

/-- **Creation-time results** are HMACs under a permitted secret: the gated one only if verification was
requested (and therefore performed), else the non-gated one. -/
theorem C09_creation_results (cfg : Cfg) (dr : Draws) (request : Option MakeExtIn) (uv : Bool)
    (o : PrfMakeOut) (res : PrfValues) (stored : Option HmacSecret)
    (h : makeExtensions cfg dr request uv = .ok (some o, stored)) (hr : o.results = some res) :
    ∃ creds salts k, stored = some creds ∧ (request.bind (·.prf)).bind (·.eval) = some salts
      ∧ secretFor creds uv = some k ∧ prfMatches k salts res = true := by
  unfold makeExtensions at h
  dsimp only at h
  split at h
  · cases h
  · rename_i p hp
    simp only [Except.ok.injEq, Prod.mk.injEq] at h
    obtain ⟨h1, h2⟩ := h
    subst h1
    split at hp
    · cases hp
    · rename_i r hreq
      split at hp
      · cases hp
      · rename_i input hin
        split at hp
        · cases hp
        · rename_i hc hcfg
          split at hp
          · simp only [Except.ok.injEq, Option.some.injEq] at hp; rw [← hp] at hr; cases hr
          · rename_i creds hst
            split at hp
            · split at hp
              · simp only [Except.ok.injEq, Option.some.injEq] at hp; rw [← hp] at hr; cases hr
              · rename_i eval hev
                split at hp
                · rename_i v hv
                  simp only [Except.ok.injEq, Option.some.injEq] at hp
                  rw [← hp] at hr
                  simp only [Option.some.injEq] at hr
                  subst hr
                  have hreq' : (request.bind (·.prf)).bind (·.eval) = some eval := by
                    cases request with
                    | none => simp at hreq
                    | some r0 =>
                      simp only at hreq
                      split at hreq
                      · simp only [Option.some.injEq] at hreq; subst hreq; simp [hin, hev]
                      · cases hreq
                  have := C09_result_is_hmac creds eval hc uv
                  cases hk : secretFor creds uv with
                  | none => rw [hk] at this; simp only at this; rw [this] at hv; cases hv
                  | some k =>
                    rw [hk] at this
                    obtain ⟨out, ho, hm, _⟩ := this
                    rw [ho] at hv
                    cases hv
                    exact ⟨creds, eval, k, by rw [← h2]; exact hst, hreq', hk, hm⟩
                · cases hp
            · simp only [Except.ok.injEq, Option.some.injEq] at hp; rw [← hp] at hr; cases hr

/-- **Assertion-time results**: a PRF output of `get_extensions` is the HMAC of the salts selected for the
credential used, under the secret that `uv` selects among that credential's stored secrets; a credential
without secrets is an error. -/
theorem C09_assertion_results (cfg : Cfg) (p : Passkey) (request : Option GetExtIn) (uv : Bool) (res : PrfValues)
    (h : getExtensions cfg p request uv = .ok (some res)) :
    ∃ creds input salts k, p.hmac = some creds ∧ request.bind (·.prf) = some input ∧ saltsFor p.credId input = some salts
      ∧ secretFor creds uv = some k ∧ prfMatches k salts res = true := by
  unfold getExtensions at h
  dsimp only at h
  split at h
  · cases h
  · rename_i r hreq
    split at h
    · cases h
    · rename_i input hin
      split at h
      · cases h
      · rename_i hc hcfg
        split at h
        · cases h
        · rename_i creds hcr
          split at h
          · cases h
          · rename_i salts hs
            split at h
            · rename_i v hv
              simp only [Except.ok.injEq, Option.some.injEq] at h
              subst h
              have hreq' : request.bind (·.prf) = some input := by
                cases request with
                | none => simp at hreq
                | some r0 =>
                  simp only at hreq
                  split at hreq
                  · simp only [Option.some.injEq] at hreq; subst hreq; simp [hin]
                  · cases hreq
              have := C09_result_is_hmac creds salts hc uv
              cases hk : secretFor creds uv with
              | none => rw [hk] at this; simp only at this; rw [this] at hv; cases hv
              | some k =>
                rw [hk] at this
                obtain ⟨out, ho, hm, _⟩ := this
                rw [ho] at hv
                cases hv
                exact ⟨creds, input, salts, k, hcr, hreq', hs, hk, hm⟩
            · cases h

/-- **The assertion passes the verification actually performed** (the UV flag of the ceremony) to the
extension: the PRF output of a successful assertion is `get_extensions` at `flags & UV ≠ 0`. -/
theorem C09_assertion_uses_performed_uv (cfg : Cfg) (s : Store) (req : GetReq) (flags : UInt8) (cred : Passkey) (r : GetResp)
    (h : (signPhase cfg s req flags cred).result = .ok r) :
    getExtensions cfg cred req.ext (flags &&& PasskeyVerif.Generated.Flags.UV != 0) = .ok r.unsignedPrf := by
  unfold signPhase at h
  split at h
  · cases h
  · rename_i prf hprf
    split at h
    · cases h
    · simp only [Except.ok.injEq] at h
      rw [← h]; exact hprf

/-- **Malformed requests are rejected before the authenticator is invoked** (registration): when the PRF
input conversion fails, `register` fails with that error having only asked for the capabilities. -/
theorem C09_register_rejects_before_invoking (v : RpId.Verifier) (cfg : Cfg) (u : UvCfg) (s : Store) (dr : Draws)
    (origin : RpId.Origin) (ostr : String) (req : RegisterReq) (mode : ClientDataMode) (rp : Psl.Str) (e : WebErr)
    (hrp : RpId.assertDomain v origin req.rpId = .ok rp)
    (hbad : registrationPrfInput (zipContents req.ext) (getInfo cfg u s).1.1 false = .error e) :
    (register v cfg u s dr origin ostr req mode).result = .error e
      ∧ (register v cfg u s dr origin ostr req mode).trace = [Event.info]
      ∧ (register v cfg u s dr origin ostr req mode).store.items = s.items := by
  unfold register
  dsimp only
  split
  · rename_i e' h'; rw [hrp] at h'; cases h'
  · split
    · rename_i e' h'
      rw [hbad] at h'
      cases h'
      exact ⟨rfl, rfl, rfl⟩
    · rename_i x h'
      rw [hbad] at h'; cases h' 

/-- ... and authentication -/
theorem C09_authenticate_rejects_before_invoking (v : RpId.Verifier) (cfg : Cfg) (u : UvCfg) (s : Store)
    (origin : RpId.Origin) (ostr : String) (req : AuthReq) (mode : ClientDataMode) (rp : Psl.Str) (e : WebErr)
    (hrp : RpId.assertDomain v origin req.rpId = .ok rp)
    (hbad : authPrfInput req.allow req.ext (getInfo cfg u s).1.1 = .error e) :
    (authenticate v cfg u s origin ostr req mode).result = .error e
      ∧ (authenticate v cfg u s origin ostr req mode).trace = [Event.info]
      ∧ (authenticate v cfg u s origin ostr req mode).store.items = s.items := by
  unfold authenticate
  dsimp only
  split
  · rename_i e' h'; rw [hrp] at h'; cases h'
  · split
    · rename_i e' h'
      rw [hbad] at h'
      cases h'
      exact ⟨rfl, rfl, rfl⟩
    · rename_i x h'
      rw [hbad] at h'; cases h' 

/-- the malformed shapes at registration: per-credential inputs are "not supported" whenever a PRF input is given -/
theorem C09_registration_eval_by_credential (p : PrfInputs) (a b c : Bool) (h : p.evalByCred.isSome = true) :
    makeCtapExtension (some p) a b c = .error .notSupported := by
  unfold makeCtapExtension; simp [h]

/-- per-credential inputs without an allow list are "not supported" when the capability is present -/
theorem C09_authentication_needs_allow_list (allow : Option (List Bytes)) (p : PrfInputs) (l : List (String × PrfVals)) (sh : Bool)
    (hl : p.evalByCred = some l) (hne : l ≠ []) (ha : allow = none ∨ allow = some []) :
    getCtapExtension allow (some p) true sh = .error .notSupported := by
  unfold getCtapExtension
  have : l.isEmpty = false := by cases l <;> simp_all
  rcases ha with ha | ha <;> simp [hl, ha, this]

end PasskeyVerif.C09
