/-
C03 — Authentication returns a signature that verifies and is bound to the ceremony.
Property theorems only.  ECDSA itself is outside the model: the model yields *what is signed and with
which key* (`Signed`), the theorems bind that to the ceremony, and the Spec (`c03_authenticate`) verifies
every observed signature with the P-256 oracle over exactly that message and key.
-/
import PasskeyVerif.Lemmas.Client
import PasskeyVerif.Spec.Client
namespace PasskeyVerif.C03
open PasskeyVerif PasskeyVerif.Auth PasskeyVerif.Auth.Spec PasskeyVerif.Client PasskeyVerif.Spec.Client
open PasskeyVerif.AuthData (Bytes AuthData)

/-- **CTAP assertion**: the message signed is the encoding of the returned authenticator data followed by
the request's client data hash; the key is that of the first credential of the store's lookup for the
request's RP ID and allow list; the authenticator data is built for that RP ID and carries no attested
credential data. -/
theorem C03_assertion_signs (cfg : Cfg) (u : UvCfg) (s : Store) (req : GetReq) (r : GetResp)
    (h : (getAssertion cfg u s req).result = .ok r) :
    ∃ p rest ad ctr flags, (s.find (allowIds req) req.rpId).1 = .ok (p :: rest)
      ∧ r.credId = p.credId ∧ r.userHandle = p.userHandle ∧ r.signed.key = p.key
      ∧ r.authData.toVec = some ad ∧ r.signed.message = ad ++ req.cdh
      ∧ r.authData = (AuthData.new req.rpId ctr).setFlags flags ∧ r.authData.acd = none
      ∧ r.authData.rpIdHash = Sha256.sha256 req.rpId := by
  unfold getAssertion at h
  dsimp only at h
  split at h
  · cases h
  · split at h
    · cases h
    · split at h
      · cases h
      · rename_i flags ev2 hc
        split at h
        · cases h
        · rename_i cred hm
          simp only [Outcome.prepend] at h
          obtain ⟨_, hid, huh, _⟩ := getAfterConsent_ok _ _ _ _ _ _ h
          obtain ⟨hkey, ⟨ad, had, hmsg⟩, ⟨ctr, hctr⟩⟩ := getAfterConsent_ok_signed _ _ _ _ _ _ h
          unfold firstCred at hm
          cases hf : (s.find (allowIds req) req.rpId).1 with
          | error e => rw [hf] at hm; cases hm
          | ok l =>
            rw [hf] at hm
            cases l with
            | nil => cases hm
            | cons p rest =>
              simp only [Except.ok.injEq] at hm
              subst hm
              exact ⟨p, rest, ad, ctr, flags, rfl, hid, huh, hkey, had, hmsg, hctr, by rw [hctr]; rfl, by rw [hctr]; rfl⟩

/-- **No eligible credential**: when the lookup finds nothing and the user consents, the authenticator
answers CTAP2_ERR_NO_CREDENTIALS (or the store's own error) and produces no response to sign. -/
theorem C03_nothing_found (cfg : Cfg) (u : UvCfg) (s : Store) (req : GetReq) (e : Nat) (flags : UInt8) (ev : List Event)
    (hf : (s.find (allowIds req) req.rpId).1 = .error e) (hpin : req.pinAuth = false) (hrk : req.rk = false)
    (hc : checkUser u req.up req.uv none = (.ok flags, ev)) :
    (getAssertion cfg u s req).result = .error e := by
  unfold getAssertion
  simp only [hf, firstCred, shownOf, hpin, hrk, hc, Bool.false_eq_true, if_false]

/-- the stores never answer "found" with an empty list: an empty lookup is CTAP2_ERR_NO_CREDENTIALS -/
theorem C03_empty_lookup_is_no_credentials (s : Store) (ids : Option (List Bytes)) (rp : Bytes)
    (hnf : s.fault? = none) (hempty : foundRaw s.kind s.items ids rp = []) :
    (s.find ids rp).1 = .error eNoCredentials := by
  unfold Store.find findRaw
  simp [hnf, hempty]

/-- **The client response**: when `authenticate` succeeds —
* the effective RP ID `rp` was accepted by the RP-ID verifier (C01);
* the client data is the serialisation of type `webauthn.get`, the request's challenge and the caller's origin;
* id = base64url(raw id), raw id and user handle are those of the credential `p` the store's lookup for
  `rp` and the allow list lists first;
* what is signed is the returned authenticator data followed by the SHA-256 of the returned client data
  JSON (or the caller-supplied hash), with `p`'s key;
* the authenticator data is built for `rp` (its hash field is SHA-256(rp)) without attested credential data. -/
theorem C03_authenticate (v : RpId.Verifier) (cfg : Cfg) (u : UvCfg) (s : Store) (origin : RpId.Origin) (ostr : String)
    (req : AuthReq) (mode : ClientDataMode) (resp : AuthResp)
    (h : (authenticate v cfg u s origin ostr req mode).result = .ok resp) :
    ∃ (rp : Psl.Str) (q : GetReq) (p : Passkey) (rest : List Passkey) (a : AuthData),
      RpId.assertDomain v origin req.rpId = .ok rp
      ∧ q.rpId = rp.map UInt8.ofNat ∧ q.allowList = req.allow
      ∧ resp.clientDataJson = clientDataJson "webauthn.get" req.challenge ostr mode
      ∧ ((getInfo cfg u s).2.find (allowIds q) q.rpId).1 = .ok (p :: rest)
      ∧ resp.rawId = p.credId ∧ resp.id = Base64.encodeUrl p.credId ∧ resp.userHandle = p.userHandle
      ∧ resp.signed.key = p.key
      ∧ resp.signed.message = resp.authenticatorData ++ clientDataHash resp.clientDataJson mode
      ∧ a.toVec = some resp.authenticatorData ∧ a.acd = none ∧ a.rpIdHash = Sha256.sha256 (rp.map UInt8.ofNat) := by
  unfold authenticate at h
  dsimp only at h
  split at h
  · cases h
  · rename_i rp hrp
    split at h
    · cases h
    · split at h
      · cases h
      · rename_i r hga
        split at h
        · cases h
        · rename_i ad had
          simp only [Except.ok.injEq] at h
          obtain ⟨p, rest, ad', ctr, flags, h1, h2, h3, h4, h5, h6, h7, h8, h9⟩ := C03_assertion_signs _ _ _ _ _ hga
          rw [had] at h5
          cases h5
          refine ⟨rp, _, p, rest, r.authData, hrp, rfl, rfl, ?_, h1, ?_, ?_, ?_, ?_, ?_, ?_, h8, h9⟩
          · rw [← h]
          · rw [← h]; exact h2
          · rw [← h]; dsimp only; rw [h2]
          · rw [← h]; exact h3
          · rw [← h]; exact h4
          · rw [← h]; exact h6
          · rw [← h]; exact had

/-- **Credential not found**: the authenticator's CTAP2_ERR_NO_CREDENTIALS reaches the caller as the
credential-not-found error, every other status as an authenticator error; neither carries a signature. -/
theorem C03_not_found_mapping (e : Nat) :
    statusToWeb e = (if e = eNoCredentials then WebErr.credentialNotFound else WebErr.authenticatorError e) := rfl

/-- ... and `authenticate` applies exactly that mapping to whatever the authenticator answered: in
particular CTAP2_ERR_NO_CREDENTIALS becomes credential-not-found, and a failed ceremony returns no response. -/
theorem C03_authenticate_error (v : RpId.Verifier) (cfg : Cfg) (u : UvCfg) (s : Store) (origin : RpId.Origin) (ostr : String)
    (req : AuthReq) (mode : ClientDataMode) (rp : Psl.Str) (ext : Option GetExtIn) (e : Nat)
    (hrp : RpId.assertDomain v origin req.rpId = .ok rp)
    (hext : authPrfInput req.allow req.ext (getInfo cfg u s).1.1 = .ok ext)
    (hga : (getAssertion cfg u (getInfo cfg u s).2
        { rpId := rp.map UInt8.ofNat, cdh := clientDataHash (clientDataJson "webauthn.get" req.challenge ostr mode) mode,
          allowList := req.allow, ext := ext, rk := false, up := true, uv := req.userVerification != .discouraged,
          pinAuth := false }).result = .error e) :
    (authenticate v cfg u s origin ostr req mode).result = .error (statusToWeb e) := by
  unfold authenticate
  simp only [hrp, hext, hga]

end PasskeyVerif.C03
