/-
C06 — Private keys and PRF secrets never appear in anything handed back to callers.
Property theorems only.  On the model the statement is a noninterference property: what a ceremony
returns is the same whatever the private scalar is, and the same whatever the PRF secrets are unless an
evaluation was asked for (then it is the HMAC of C09 and nothing else); the signature itself is outside
the model (`Signed` names the key that signs).  On the source, the translator regenerates which half of
the key pair is attested and what `Debug` of a stored passkey renders.  Every serialisation actually
returned by the implementation is scanned by the Spec (Spec/Secrets.lean) against the secrets read back
from the store.
-/
import PasskeyVerif.Lemmas.Secrets
import PasskeyVerif.Generated.Secrets
import PasskeyVerif.Spec.Secrets
import PasskeyVerif.Model.Client
namespace PasskeyVerif.C06
open PasskeyVerif PasskeyVerif.Auth PasskeyVerif.Auth.Spec PasskeyVerif.Client
open PasskeyVerif.AuthData (Bytes AuthData)

/-- **The attested key carries public parameters only**: the COSE key placed in attested credential data
and the DER key of the client response are functions of the public point alone. -/
theorem C06_attested_key_public_only (k : Key) (d' : Bytes) :
    coseKeyBytes { k with d := d' } = coseKeyBytes k ∧ publicKeyDer { k with d := d' } = publicKeyDer k := ⟨rfl, rfl⟩

/-- regenerated from the source: the key attested is built by `new_ec2_pub_key`, the one stored by
`new_ec2_priv_key` (a swap of the two halves fails here) -/
theorem C06_attested_half_is_the_public_one :
    Generated.Secrets.attestedKeyBuilder = "new_ec2_pub_key" ∧ Generated.Secrets.storedKeyBuilder = "new_ec2_priv_key" := by
  decide

/-- the expressions a Debug rendering of a passkey may show -/
def publicPasskeyExprs : List String :=
  ["self.key.kty", "self.key.alg", "self.counter", "self.credential_id", "self.rp_id", "self.user_handle"]

/-- regenerated from the source: `Debug` for a stored passkey is hand-written and renders public fields
only; the passkey and the secret-holding extension structs derive neither `Debug` nor `Serialize`
(unconditionally or under a cfg). -/
theorem C06_debug_renders_no_secret :
    Generated.Secrets.passkeyDebugManual = true
    ∧ Generated.Secrets.passkeyDebugFields.all (fun f => publicPasskeyExprs.contains f.2) = true
    ∧ Generated.Secrets.derives.all (fun d => !d.2.1.contains "Debug" && !d.2.2.contains "Debug"
        && !d.2.1.contains "Serialize" && !d.2.2.contains "Serialize") = true
    ∧ (Generated.Secrets.derives.map (·.1)) = ["Passkey", "CredentialExtensions", "StoredHmacSecret"] := by
  decide

/-- **CTAP registration does not depend on the private scalar**: the response is the same for every
private scalar (same public point, id and secrets). -/
theorem C06_make_response_independent_of_private_scalar (cfg : Cfg) (u : UvCfg) (s : Store) (dr : Draws) (req : MakeReq) (d' : Bytes) :
    (makeCredential cfg u s (dr.withD d') req).result = (makeCredential cfg u s dr req).result :=
  makeCredential_result_withD cfg u s dr req d'

/-- **... nor on the PRF secrets, unless an evaluation at creation was asked for** (in which case the
output is the HMAC of `C09_creation_results` and nothing else of the secrets). -/
theorem C06_make_prf_output_independent_of_secrets (cfg : Cfg) (dr : Draws) (request : Option MakeExtIn) (uv : Bool) (a b : Bytes)
    (hno : (request.bind (·.prf)).bind (·.eval) = none) :
    (makeExtensions cfg (dr.withSecrets a b) request uv).map (·.1) = (makeExtensions cfg dr request uv).map (·.1) :=
  makeExtensions_output_withSecrets cfg dr request uv a b hno

/-- **Client registration does not depend on the private scalar.** -/
theorem C06_register_independent_of_private_scalar (v : RpId.Verifier) (cfg : Cfg) (u : UvCfg) (s : Store) (dr : Draws)
    (origin : RpId.Origin) (ostr : String) (req : RegisterReq) (mode : ClientDataMode) (d' : Bytes) :
    (register v cfg u s (dr.withD d') origin ostr req mode).result = (register v cfg u s dr origin ostr req mode).result := by
  unfold register
  dsimp only
  split
  · rfl
  · split
    · rfl
    · simp only [makeCredential_result_withD]
      split
      · rfl
      · split
        · rfl
        · -- the capability asked afterwards for credProps is that of the store kind, which no draw changes
          simp only [Except.ok.injEq]
          congr 1
          have hk : ∀ dd q, (makeCredential cfg u (getInfo cfg u s).2 dd q).store.kind = (getInfo cfg u s).2.kind :=
            fun dd q => makeCredential_kind cfg u _ dd q
          simp only [Store.info, hk]

/-- **An assertion does not depend on the stored private scalar** except in which key signs: credential
id, authenticator data, user handle, PRF output, the message signed and the public point are the same. -/
theorem C06_assertion_independent_of_private_scalar (cfg : Cfg) (s : Store) (req : GetReq) (flags : UInt8) (cred : Passkey) (d' : Bytes) :
    (getAfterConsent cfg s req flags (cred.withD d')).result.map GetResp.pub
      = (getAfterConsent cfg s req flags cred).result.map GetResp.pub :=
  getAfterConsent_pub_withD cfg s req flags cred d'

/-- authenticator info never involves a credential: it is a function of configuration and store kind -/
theorem C06_info_independent_of_store_content (cfg : Cfg) (u : UvCfg) (s : Store) (items : List Passkey) :
    (getInfo cfg u { s with items := items }).1 = (getInfo cfg u s).1 := rfl

/-- the sub-list search of the scan finds an embedded secret and does not find a truncated one (the
text renderings are exercised by the `control-` lines of the stream, which must be hits) -/
example :
    let s : Bytes := (List.range 32).map (fun i => UInt8.ofNat (i * 7 + 3))
    Spec.Secrets.containsSub ([1, 2] ++ s ++ [9]) s = true
    ∧ Spec.Secrets.containsSub (Spec.Secrets.hexOf ([0xAA] ++ s) false) (Spec.Secrets.hexOf s false) = true
    ∧ Spec.Secrets.containsSub (s.take 31 ++ [0]) s = false := by decide

end PasskeyVerif.C06
