/-
C13 — CTAP2 messages use the specified integer keys and round-trip through CBOR; status bytes.
Property theorems only.  The member tables, status-code tables, ranges and conversion orders are
regenerated from /repo/passkey-types/src/ctap2/*.rs on every run (translate/ctap.py); the model of the
`serde_workaround!` macro is Model/CtapMsg.lean and of error.rs Model/Status.lean (both tied to the code
by the correspondence stream).
-/
import PasskeyVerif.Lemmas.CtapMsg
import PasskeyVerif.Lemmas.Cbor
import PasskeyVerif.Model.Status
import PasskeyVerif.Spec.Ctap
import PasskeyVerif.Model.Client
namespace PasskeyVerif.C13
open PasskeyVerif.CtapMsg PasskeyVerif.Generated PasskeyVerif.Cbor

def tableOf (s : List Ctap.Field) : Ctap.Spec.Table := s.map (fun f => (camel f.name, f.key, !f.hasDefault))

/-- **Keys**: every message's members carry the integers the CTAP specification assigns, the required
members are exactly those without a default, and optional members are exactly those omitted when absent
(`options` of the two requests is always emitted). -/
theorem C13_keys :
    tableOf Ctap.makeCredentialRequest = Ctap.Spec.makeCredentialRequest
    ∧ tableOf Ctap.makeCredentialResponse = Ctap.Spec.makeCredentialResponse
    ∧ tableOf Ctap.getAssertionRequest = Ctap.Spec.getAssertionRequest
    ∧ tableOf Ctap.getAssertionResponse = Ctap.Spec.getAssertionResponse
    ∧ tableOf Ctap.getInfoResponse = Ctap.Spec.getInfoResponse
    ∧ tableOf Ctap.hmacSecretHmacGetSecretInput = Ctap.Spec.hmacSecretInput := by decide

def allSchemas : List (List Ctap.Field) :=
  [Ctap.makeCredentialRequest, Ctap.makeCredentialResponse, Ctap.getAssertionRequest,
   Ctap.getAssertionResponse, Ctap.getInfoResponse, Ctap.hmacSecretHmacGetSecretInput]

/-- every regenerated schema has strictly ascending keys, all at most 255, and every omit-when-absent
member has a default -/
theorem C13_schemas_ok : ∀ s ∈ allSchemas, SchemaOk s := by
  intro s hs
  simp only [allSchemas, List.mem_cons, List.not_mem_nil, or_false] at hs
  rcases hs with rfl | rfl | rfl | rfl | rfl | rfl <;> exact ⟨by decide, by decide, by decide⟩

/-- members omitted when absent are exactly the optional ones, except the always-emitted `options` -/
theorem C13_optional_members_omitted : ∀ s ∈ allSchemas, ∀ f ∈ s,
    f.skipIfNone = (f.hasDefault && f.name != "options" || (f.name == "options" && s == Ctap.getInfoResponse)) := by
  decide

/-- **Ascending, present members only**: the emitted map's keys are the keys of the present members in
strictly ascending order. -/
theorem C13_emitted_keys (s : List Ctap.Field) (hs : Ascending s) (vals : Vals) :
    keysOf (entriesOf s vals) = ((s.zip vals).filter (fun p => p.2.isSome)).map (fun p => p.1.key)
      ∧ (keysOf (entriesOf s vals)).Pairwise (· < ·) := by
  refine ⟨keys_of_entries s vals, ?_⟩
  rw [keys_of_entries]
  induction s generalizing vals with
  | nil => cases vals <;> simp
  | cons f rest ih =>
    cases vals with
    | nil => simp
    | cons v vs =>
      have hlt := ascending_head_lt f rest hs
      have hrec := ih (ascending_tail f rest hs) vs
      simp only [List.zip_cons_cons, List.filter_cons]
      split
      · simp only [List.map_cons, List.pairwise_cons]
        refine ⟨?_, hrec⟩
        intro k hk
        rw [List.mem_map] at hk
        obtain ⟨p, hp, rfl⟩ := hk
        exact hlt p.1 (List.of_mem_zip (List.mem_filter.mp hp).1).1
      · exact hrec

/-- **Round trip**: for every schema with the checked properties (in particular each of the six
messages), deserialising the serialisation of any well-formed value yields that value. -/
theorem C13_roundtrip (s : List Ctap.Field) (hs : s ∈ allSchemas) (validVal : Nat → Item → Bool)
    (dflt : Nat → Option Item) (vals : Vals) (hv : ValsOk s dflt validVal vals) :
    deserialize s validVal dflt (serialize s vals) = .ok vals :=
  deserialize_serialize s (C13_schemas_ok s hs) validVal dflt vals hv

/-- **Round trip at the level of bytes**: the CBOR encoding (RFC 8949, definite lengths, shortest heads) of the map a
message serialises to, followed by anything, is read back by the CBOR reader as that map and the rest, and
deserialising the map yields the message — for every well-formed value of each of the six messages whose
members are encodable (lengths and integers below 2^64). -/
theorem C13_roundtrip_bytes (s : List Ctap.Field) (hs : s ∈ allSchemas) (validVal : Nat → Item → Bool)
    (dflt : Nat → Option Item) (vals : Vals) (hv : ValsOk s dflt validVal vals)
    (hwf : (serialize s vals).WF = true) (rest : Cbor.Bytes) :
    Cbor.decode1 (Cbor.encode (serialize s vals) ++ rest) = some (serialize s vals, rest)
      ∧ deserialize s validVal dflt (serialize s vals) = .ok vals :=
  ⟨Cbor.decode1_encode _ hwf rest, C13_roundtrip s hs validVal dflt vals hv⟩

/-- **Unknown keys are ignored**: an entry whose key is an integer 0..255 that is not a member key, or a
text string naming no member, changes nothing wherever it is injected in front of the remaining entries. -/
theorem C13_unknown_keys_ignored (s : List Ctap.Field) (validVal : Nat → Item → Bool) (k v : Item)
    (rest : List (Item × Item)) (acc : Acc)
    (hk : (∃ n, k = .uint n ∧ n ≤ 255 ∧ ∀ f ∈ s, f.key ≠ n)
        ∨ (∃ t, k = .text t ∧ ∀ f ∈ s, (camel f.name).toUTF8.toList ≠ t)) :
    collect s validVal ((k, v) :: rest) acc = collect s validVal rest acc := by
  apply collect_unknown
  rcases hk with ⟨n, rfl, hn, hnot⟩ | ⟨t, rfl, hnot⟩
  · unfold identOf
    dsimp only
    rw [if_pos hn]
    have : s.any (fun f => f.key == n) = false := by
      rw [List.any_eq_false]; intro f hf; simpa using hnot f hf
    rw [this]; rfl
  · unfold identOf
    dsimp only
    have : s.find? (fun f => (camel f.name).toUTF8.toList == t) = none := by
      rw [List.find?_eq_none]; intro f hf; simpa using hnot f hf
    rw [this]

/-- **Duplicated member**: a second entry for a member already seen is an error. -/
theorem C13_duplicate_is_error (s : List Ctap.Field) (validVal : Nat → Item → Bool) (f : Ctap.Field) (hf : f ∈ s)
    (hs : f.key ≤ 255) (v : Item) (rest : List (Item × Item)) (acc : Acc) (hseen : (acc f.key).isSome = true) :
    collect s validVal ((.uint f.key, v) :: rest) acc = .error (.duplicate f.key) :=
  collect_duplicate s validVal _ v f.key rest acc (identOf_field s f hf hs) hseen

/-- **Missing required member** is an error. -/
theorem C13_missing_required_is_error (dflt : Nat → Option Item) (s : List Ctap.Field) (acc : Acc) (f : Ctap.Field)
    (hf : f ∈ s) (hreq : f.hasDefault = false) (habs : acc f.key = none) : ∃ e, finish dflt s acc = .error e :=
  finish_missing dflt s acc f hf hreq habs

/-- **Defaults**: absent option members are `rk = false`, `up = true`, `uv = false`; an absent options map
equals the default one. -/
theorem C13_option_defaults :
    optionsOf (.map []) = some Ctap.Spec.defaultOptions ∧ optionsOf defaultOptionsItem = some Ctap.Spec.defaultOptions := by
  decide

/-- **Status bytes**: every byte converts to exactly one status value (the conversion is a function and
never reaches the `unwrap` failure) and back to the same byte. -/
theorem C13_status_roundtrip : ∀ b : Fin 256, Status.ofByte b.val ≠ .crash ∧ Status.toByte (Status.ofByte b.val) = b.val := by
  decide +kernel

/-- every status value: the known codes of both tables and every byte of the three ranges -/
def allValues : List Status.Status :=
  (List.range Ctap.ctap2Error.length).map .ctap2Known ++ (List.range Ctap.u2FError.length).map .ctap1
    ++ ((List.range 256).filter (Status.inRanges Ctap.unknownSpecErrorRanges)).map .ctap2Other
    ++ ((List.range 256).filter (Status.inRanges Ctap.extensionErrorRanges)).map .ctap2Extension
    ++ ((List.range 256).filter (Status.inRanges Ctap.vendorErrorRanges)).map .ctap2Vendor

/-- **Exactly one status value per byte**: converting any status value to its byte and back yields the
same value — the error families do not overlap — with the one documented exception that the U2F
success code shares 0x00 with the CTAP2 one. -/
theorem C13_status_values_distinct :
    ∀ v ∈ allValues, Status.toByte v = 0 ∨ Status.ofByte (Status.toByte v) = v := by
  decide +kernel

/-- **Client mapping**: "no credentials" (0x2E) is reported as credential-not-found, every other status
byte is passed through unchanged. -/
theorem C13_client_status_map : ∀ b : Fin 256,
    Status.toWebauthn (Status.ofByte b.val)
      = if b.val = 0x2E then .credentialNotFound else .authenticatorError b.val := by
  decide +kernel

/-- **The mapping is what `Client::authenticate` applies**: for every verifier, configuration, store, user
validation, origin, request and client-data mode, an authentication whose RP-ID check and extension
processing pass and whose `getAssertion` fails with status `e` ends with exactly the mapped error:
credential-not-found for 0x2E, `AuthenticatorError(e)` unchanged for every other status. -/
theorem C13_authenticate_applies_map (v : RpId.Verifier) (cfg : Auth.Cfg) (u : Auth.UvCfg)
    (s : Auth.Store) (origin : RpId.Origin) (originStr : String) (req : Client.AuthReq)
    (mode : Client.ClientDataMode) (e : Nat) :
    ∀ rp ctapExt,
    RpId.assertDomain v origin req.rpId = .ok rp →
    Client.authPrfInput req.allow req.ext (Auth.getInfo cfg u s).1.1 = .ok ctapExt →
    (Auth.getAssertion cfg u (Auth.getInfo cfg u s).2
        { rpId := rp.map UInt8.ofNat,
          cdh := Client.clientDataHash (Client.clientDataJson "webauthn.get" req.challenge originStr mode) mode,
          allowList := req.allow, ext := ctapExt, rk := false, up := true,
          uv := req.userVerification != .discouraged, pinAuth := false }).result = .error e →
    (Client.authenticate v cfg u s origin originStr req mode).result
      = .error (if e = 0x2E then .credentialNotFound else .authenticatorError e) := by
  intro rp ctapExt hrp hext hget
  unfold Client.authenticate
  simp only [hrp, hext, hget, Client.statusToWeb, Auth.eNoCredentials]
  rfl

/-- ... so an authentication that reaches the authenticator never ends with `AuthenticatorError(0x2E)`,
whatever the authenticator answers -/
theorem C13_authenticate_never_passes_no_credentials (v : RpId.Verifier) (cfg : Auth.Cfg)
    (u : Auth.UvCfg) (s : Auth.Store) (origin : RpId.Origin) (originStr : String)
    (req : Client.AuthReq) (mode : Client.ClientDataMode) :
    ∀ rp ctapExt,
    RpId.assertDomain v origin req.rpId = .ok rp →
    Client.authPrfInput req.allow req.ext (Auth.getInfo cfg u s).1.1 = .ok ctapExt →
    (Client.authenticate v cfg u s origin originStr req mode).result ≠ .error (.authenticatorError 0x2E) := by
  intro rp ctapExt hrp hext
  unfold Client.authenticate
  simp only [hrp, hext]
  intro h
  split at h
  · rename_i e he
    simp only [Client.statusToWeb] at h
    by_cases hc : e = Auth.eNoCredentials
    · rw [if_pos hc] at h; cases h
    · rw [if_neg hc] at h
      injection h with h; injection h with h
      exact hc h
  · split at h
    · injection h with h; injection h with h
      simp [Auth.eInvalidCredential] at h
    · cases h

/-- **the status values the ceremony model raises are the regenerated ones**: every error constant of
Model/Authenticator.lean is the byte that ctap2/error.rs assigns to the variant of that name now -/
theorem C13_model_status_constants :
    Ctap.ctap2Error.lookup "InvalidOption" = some Auth.eInvalidOption
    ∧ Ctap.ctap2Error.lookup "UnsupportedOption" = some Auth.eUnsupportedOption
    ∧ Ctap.ctap2Error.lookup "OperationDenied" = some Auth.eOperationDenied
    ∧ Ctap.ctap2Error.lookup "CredentialExcluded" = some Auth.eCredentialExcluded
    ∧ Ctap.ctap2Error.lookup "UnsupportedAlgorithm" = some Auth.eUnsupportedAlgorithm
    ∧ Ctap.ctap2Error.lookup "NoCredentials" = some Auth.eNoCredentials
    ∧ Ctap.ctap2Error.lookup "PinAuthInvalid" = some Auth.ePinAuthInvalid
    ∧ Ctap.ctap2Error.lookup "UserVerificationBlocked" = some Auth.eUserVerificationBlocked
    ∧ Ctap.ctap2Error.lookup "InvalidCredential" = some Auth.eInvalidCredential
    ∧ Ctap.u2FError.lookup "InvalidParameter" = some Auth.eU2fInvalidParameter := by
  decide +kernel

/-! non-vacuity: a concrete getAssertion request value is well formed and round-trips -/
example : ValsOk Ctap.getAssertionRequest (fun k => if k = 5 then some defaultOptionsItem else none) (fun _ _ => true)
    [some (.text [97]), some (.bytes [1, 2]), none, none, some defaultOptionsItem, none, none] :=
  ⟨rfl, by
    intro f hf
    simp [Ctap.getAssertionRequest] at hf
    rcases hf with rfl | rfl | rfl | rfl <;> simp, by intros; rfl⟩

end PasskeyVerif.C13
