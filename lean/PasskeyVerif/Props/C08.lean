/-
C08 — Signature counters strictly increase and equal what the store holds.
Property theorems only, about the model of make_credential / get_assertion (as repaired: the increment
saturates at the 32-bit maximum).  Counters are natural numbers bounded by 2^32-1 where it matters.
-/
import PasskeyVerif.Lemmas.Auth
namespace PasskeyVerif.C08
open PasskeyVerif.Auth PasskeyVerif.Auth.Spec
open PasskeyVerif.AuthData (Bytes AuthData)

/-- **The increment**: below the 32-bit maximum exactly one more; at the maximum it stays — never smaller,
never above the maximum. -/
theorem C08_bump (c : Nat) (h : c ≤ u32Max) :
    (c < u32Max → bump c = c + 1) ∧ c ≤ bump c ∧ bump c ≤ u32Max ∧ (c = u32Max → bump c = c) := by
  unfold bump u32Max at *
  omega

/-- **Registration reports zero**: a credential created with a counter carries `Some(0)` in the response
and in the passkey handed to the store; without a counter, none (encoded as zero). -/
theorem C08_register_zero (cfg : Cfg) (u : UvCfg) (s : Store) (dr : Draws) (req : MakeReq) (r : MakeResp)
    (h : (makeCredential cfg u s dr req).result = .ok r) :
    r.authData.counter = (if cfg.counterOn then some 0 else none)
      ∧ ∀ p uid rk up uv f, Event.save p uid rk up uv f ∈ (makeCredential cfg u s dr req).trace →
          p.counter = (if cfg.counterOn then some 0 else none) := by
  unfold makeCredential at h ⊢
  split at h
  · cases h
  · rename_i hup
    split at h
    · cases h
    · rename_i flags ev hc
      simp only [Outcome.prepend] at h
      have had := makeAfterConsent_ok cfg s dr req flags r h
      refine ⟨by rw [had]; rfl, ?_⟩
      intro p uid rk up uv f hmem
      rw [if_neg hup] at hmem
      simp only [hc, Outcome.prepend] at hmem
      obtain ⟨hev, _⟩ := checkUser_ok _ _ _ _ _ _ hc
      subst hev
      simp only [List.cons_append, List.nil_append, List.mem_cons, reduceCtorEq, false_or] at hmem
      exact save_counter_of_makeAfterConsent cfg s dr req flags p uid rk up uv f hmem

/-- the encoded counter field is the counter (an absent counter reads as zero) -/
theorem C08_reported_field (a : AuthData) (bs : Bytes) (hh : a.rpIdHash.length = 32)
    (hc : a.counter.getD 0 ≤ u32Max) (h : a.toVec = some bs) : counterField bs = a.counter.getD 0 := by
  unfold AuthData.toVec at h
  dsimp only at h
  split at h
  · cases h
  · rename_i ab _
    simp only [Option.some.injEq] at h
    subst h
    unfold counterField
    have e : a.rpIdHash ++ [if a.acd.isSome then a.flags ||| PasskeyVerif.Generated.Flags.AT else a.flags]
        ++ AuthData.be32 (a.counter.getD 0) ++ ab ++ a.ext.getD []
        = a.rpIdHash ++ ((if a.acd.isSome then a.flags ||| PasskeyVerif.Generated.Flags.AT else a.flags)
            :: UInt8.ofNat (a.counter.getD 0 / 16777216) :: UInt8.ofNat (a.counter.getD 0 / 65536 % 256)
            :: UInt8.ofNat (a.counter.getD 0 / 256 % 256) :: UInt8.ofNat (a.counter.getD 0 % 256) :: (ab ++ a.ext.getD [])) := by
      simp [AuthData.be32, List.append_assoc]
    rw [e]
    rw [show (33 : Nat) = 32 + 1 from rfl, show (34 : Nat) = 32 + 2 from rfl, show (35 : Nat) = 32 + 3 from rfl,
      show (36 : Nat) = 32 + 4 from rfl]
    rw [getD_append_len _ _ 32 1 0 hh, getD_append_len _ _ 32 2 0 hh, getD_append_len _ _ 32 3 0 hh,
      getD_append_len _ _ 32 4 0 hh]
    have := AuthData.be32_roundtrip (a.counter.getD 0) (by unfold u32Max at hc; omega)
    simpa [AuthData.ofBe32] using this

/-- **One assertion**: the credential used is the first one the lookup returned; if it has a counter `c`
the response carries `bump c`, the store was asked to hold exactly that value and accepted it; if it has
none, the response carries none (zero on the wire) and the credential is not rewritten. -/
theorem C08_assert_step (cfg : Cfg) (u : UvCfg) (s : Store) (req : GetReq) (r : GetResp)
    (h : (getAssertion cfg u s req).result = .ok r) :
    ∃ p rest, (s.find (allowIds req) req.rpId).1 = .ok (p :: rest) ∧ r.credId = p.credId ∧
      (match p.counter with
       | some c => r.authData.counter = some (bump c)
           ∧ Event.update p.credId (some (bump c)) none ∈ (getAssertion cfg u s req).trace
       | none => r.authData.counter = none
           ∧ ∀ id ctr f, Event.update id ctr f ∉ (getAssertion cfg u s req).trace) := by
  unfold getAssertion at h ⊢
  dsimp only at h ⊢
  split at h
  · cases h
  · rename_i hpin
    split at h
    · cases h
    · rename_i hrk
      split at h
      · cases h
      · rename_i flags ev2 hc
        split at h
        · cases h
        · rename_i cred hm
          simp only [Outcome.prepend] at h
          simp only [hpin, hrk, if_false, hc, hm, Outcome.prepend]
          obtain ⟨hev, _⟩ := checkUser_ok _ _ _ _ _ _ hc
          unfold firstCred at hm
          cases hf : (s.find (allowIds req) req.rpId).1 with
          | error e => rw [hf] at hm; cases hm
          | ok l =>
            rw [hf] at hm
            cases l with
            | nil => cases hm
            | cons p rest =>
              simp only [Except.ok.injEq] at hm
              subst hm
              refine ⟨p, rest, rfl, ?_⟩
              unfold getAfterConsent at h ⊢
              cases hcnt : p.counter with
              | none =>
                simp only [hcnt] at h ⊢
                obtain ⟨h1, h2, _⟩ := signPhase_ok _ _ _ _ _ _ h
                refine ⟨h2, by rw [h1]; simp [AuthData.setFlags, AuthData.new, hcnt], ?_⟩
                intro id ctr f hmem
                obtain ⟨fr, hfe⟩ := find_event s (allowIds req) req.rpId
                rw [(signPhase_trace _ _ _ _ _).1, hev, hfe] at hmem
                simp at hmem
              | some c =>
                simp only [hcnt] at h ⊢
                split at h
                · cases h
                · rename_i hupd
                  simp only [Outcome.prepend] at h
                  obtain ⟨h1, h2, _⟩ := signPhase_ok _ _ _ _ _ _ h
                  refine ⟨h2, by rw [h1]; simp [AuthData.setFlags, AuthData.new], ?_⟩
                  simp only [hupd, Outcome.prepend]
                  -- the update event carries the bumped counter and no fault
                  have hu : ((s.find (allowIds req) req.rpId).2.1.update { p with counter := some (bump c) }).2.2
                      = Event.update p.credId (some (bump c)) none := by
                    unfold Store.update at hupd ⊢
                    split at hupd
                    · cases hupd
                    · split at hupd
                      · rfl
                      · cases hupd
                  rw [hu]
                  simp

end PasskeyVerif.C08
