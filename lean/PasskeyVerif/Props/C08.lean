/-
C08 — Signature counters strictly increase and equal what the store holds.
Property theorems only, about the model of make_credential / get_assertion (as repaired: the increment
saturates at the 32-bit maximum).  Counters are natural numbers bounded by 2^32-1 where it matters.
-/
import PasskeyVerif.Lemmas.Counter
namespace PasskeyVerif.C08
open PasskeyVerif.Auth PasskeyVerif.Auth.Spec
open PasskeyVerif.AuthData (Bytes AuthData)

/-- **The increment**: below the 32-bit maximum exactly one more; at the maximum it stays — never smaller,
never above the maximum. -/
theorem C08_bump (c : Nat) (h : c ≤ u32Max) :
    (c < u32Max → bump c = c + 1) ∧ c ≤ bump c ∧ bump c ≤ u32Max ∧ (c = u32Max → bump c = c) := by
  unfold bump u32Max at *
  omega

/-- **Registration reports zero**: a credential created with a counter carries `Some(0)` in the response
and in the passkey handed to the store; without a counter, none (encoded as zero). -/
theorem C08_register_zero (cfg : Cfg) (u : UvCfg) (s : Store) (dr : Draws) (req : MakeReq) (r : MakeResp)
    (h : (makeCredential cfg u s dr req).result = .ok r) :
    r.authData.counter = (if cfg.counterOn then some 0 else none)
      ∧ ∀ p uid rk up uv f, Event.save p uid rk up uv f ∈ (makeCredential cfg u s dr req).trace →
          p.counter = (if cfg.counterOn then some 0 else none) := by
  unfold makeCredential at h ⊢
  split at h
  · cases h
  · rename_i hup
    split at h
    · cases h
    · rename_i flags ev hc
      simp only [Outcome.prepend] at h
      have had := makeAfterConsent_ok cfg s dr req flags r h
      refine ⟨by rw [had]; rfl, ?_⟩
      intro p uid rk up uv f hmem
      rw [if_neg hup] at hmem
      simp only [hc, Outcome.prepend] at hmem
      obtain ⟨hev, _⟩ := checkUser_ok _ _ _ _ _ _ hc
      subst hev
      simp only [List.cons_append, List.nil_append, List.mem_cons, reduceCtorEq, false_or] at hmem
      exact save_counter_of_makeAfterConsent cfg s dr req flags p uid rk up uv f hmem

/-- the encoded counter field is the counter (an absent counter reads as zero) -/
theorem C08_reported_field (a : AuthData) (bs : Bytes) (hh : a.rpIdHash.length = 32)
    (hc : a.counter.getD 0 ≤ u32Max) (h : a.toVec = some bs) : counterField bs = a.counter.getD 0 := by
  unfold AuthData.toVec at h
  dsimp only at h
  split at h
  · cases h
  · rename_i ab _
    simp only [Option.some.injEq] at h
    subst h
    unfold counterField
    have e : a.rpIdHash ++ [if a.acd.isSome then a.flags ||| PasskeyVerif.Generated.Flags.AT else a.flags]
        ++ AuthData.be32 (a.counter.getD 0) ++ ab ++ a.ext.getD []
        = a.rpIdHash ++ ((if a.acd.isSome then a.flags ||| PasskeyVerif.Generated.Flags.AT else a.flags)
            :: UInt8.ofNat (a.counter.getD 0 / 16777216) :: UInt8.ofNat (a.counter.getD 0 / 65536 % 256)
            :: UInt8.ofNat (a.counter.getD 0 / 256 % 256) :: UInt8.ofNat (a.counter.getD 0 % 256) :: (ab ++ a.ext.getD [])) := by
      simp [AuthData.be32, List.append_assoc]
    rw [e]
    rw [show (33 : Nat) = 32 + 1 from rfl, show (34 : Nat) = 32 + 2 from rfl, show (35 : Nat) = 32 + 3 from rfl,
      show (36 : Nat) = 32 + 4 from rfl]
    rw [getD_append_len _ _ 32 1 0 hh, getD_append_len _ _ 32 2 0 hh, getD_append_len _ _ 32 3 0 hh,
      getD_append_len _ _ 32 4 0 hh]
    have := AuthData.be32_roundtrip (a.counter.getD 0) (by unfold u32Max at hc; omega)
    simpa [AuthData.ofBe32] using this

/-- **One assertion**: the credential used is the first one the lookup returned; if it has a counter `c`
the response carries `bump c`, the store was asked to hold exactly that value and accepted it; if it has
none, the response carries none (zero on the wire) and the credential is not rewritten. -/
theorem C08_assert_step (cfg : Cfg) (u : UvCfg) (s : Store) (req : GetReq) (r : GetResp)
    (h : (getAssertion cfg u s req).result = .ok r) :
    ∃ p rest, (s.find (allowIds req) req.rpId).1 = .ok (p :: rest) ∧ r.credId = p.credId ∧
      (match p.counter with
       | some c => r.authData.counter = some (bump c)
           ∧ Event.update p.credId (some (bump c)) none ∈ (getAssertion cfg u s req).trace
       | none => r.authData.counter = none
           ∧ ∀ id ctr f, Event.update id ctr f ∉ (getAssertion cfg u s req).trace) := by
  unfold getAssertion at h ⊢
  dsimp only at h ⊢
  split at h
  · cases h
  · rename_i hpin
    split at h
    · cases h
    · rename_i hrk
      split at h
      · cases h
      · rename_i flags ev2 hc
        split at h
        · cases h
        · rename_i cred hm
          simp only [Outcome.prepend] at h
          simp only [hpin, hrk, if_false, hc, hm, Outcome.prepend]
          obtain ⟨hev, _⟩ := checkUser_ok _ _ _ _ _ _ hc
          unfold firstCred at hm
          cases hf : (s.find (allowIds req) req.rpId).1 with
          | error e => rw [hf] at hm; cases hm
          | ok l =>
            rw [hf] at hm
            cases l with
            | nil => cases hm
            | cons p rest =>
              simp only [Except.ok.injEq] at hm
              subst hm
              refine ⟨p, rest, rfl, ?_⟩
              unfold getAfterConsent at h ⊢
              cases hcnt : p.counter with
              | none =>
                simp only [hcnt] at h ⊢
                obtain ⟨h1, h2, _⟩ := signPhase_ok _ _ _ _ _ _ h
                refine ⟨h2, by rw [h1]; simp [AuthData.setFlags, AuthData.new, hcnt], ?_⟩
                intro id ctr f hmem
                obtain ⟨fr, hfe⟩ := find_event s (allowIds req) req.rpId
                rw [(signPhase_trace _ _ _ _ _).1, hev, hfe] at hmem
                simp at hmem
              | some c =>
                simp only [hcnt] at h ⊢
                split at h
                · cases h
                · rename_i hupd
                  simp only [Outcome.prepend] at h
                  obtain ⟨h1, h2, _⟩ := signPhase_ok _ _ _ _ _ _ h
                  refine ⟨h2, by rw [h1]; simp [AuthData.setFlags, AuthData.new], ?_⟩
                  simp only [hupd, Outcome.prepend]
                  -- the update event carries the bumped counter and no fault
                  have hu : ((s.find (allowIds req) req.rpId).2.1.update { p with counter := some (bump c) }).2.2
                      = Event.update p.credId (some (bump c)) none := by
                    unfold Store.update at hupd ⊢
                    split at hupd
                    · cases hupd
                    · split at hupd
                      · rfl
                      · cases hupd
                  rw [hu]
                  simp

/-- a history of assertions on one store, each under its own user-validation behaviour -/
def history (cfg : Cfg) (s : Store) : List (UvCfg × GetReq) → Store × List (Except Nat GetResp)
  | [] => (s, [])
  | (u, req) :: rest =>
    let o := getAssertion cfg u s req
    let r := history cfg o.store rest
    (r.1, o.result :: r.2)

/-- `c+1, c+2, …` with the saturating increment -/
def counters (c : Nat) : Nat → List Nat
  | 0 => []
  | n + 1 => bump c :: counters (bump c) n

/-- **Any history of successful assertions with one credential** (any requests, extensions, allow lists,
user-validation behaviours, as long as each succeeds) on a store holding that credential with counter `c`
reports exactly `c+1, c+2, …, c+n` (saturating at 2^32−1) and ends with the credential stored with the
last reported value — by induction over the history. -/
theorem C08_history (cfg : Cfg) (s : Store) (p : Passkey) (c : Nat) (h : List (UvCfg × GetReq))
    (hitems : s.items = [p]) (hc : p.counter = some c)
    (hall : ∀ r ∈ (history cfg s h).2, ∃ g, r = .ok g) :
    (history cfg s h).2.map (fun r => match r with | .ok g => g.authData.counter | .error _ => none)
        = (counters c h.length).map some
      ∧ ∃ c', (history cfg s h).1.items = [{ p with counter := some c' }]
          ∧ c' = (counters c h.length).getLast?.getD c := by
  induction h generalizing s p c with
  | nil =>
    refine ⟨rfl, c, ?_, rfl⟩
    show s.items = _
    rw [hitems]; cases p; simp_all
  | cons x rest ih =>
    obtain ⟨u, req⟩ := x
    simp only [history] at hall ⊢
    obtain ⟨g, hg⟩ := hall _ (List.mem_cons_self)
    obtain ⟨h1, h2, _⟩ := getAssertion_single cfg u s req p c g hitems hc hg
    have ih' := ih (getAssertion cfg u s req).store { p with counter := some (bump c) } (bump c) h2 rfl
      (fun r hr => hall r (List.mem_cons_of_mem _ hr))
    obtain ⟨ih1, c', ih2, ih3⟩ := ih'
    refine ⟨?_, c', ?_, ?_⟩
    · simp only [List.map_cons, List.length_cons, counters, hg, h1, ih1]
    · rw [ih2]
    · rw [ih3]
      simp only [List.length_cons, counters]
      cases hn : counters (bump c) rest.length with
      | nil => simp
      | cons a as => rw [List.getLast?_cons_cons]; cases hl : (a :: as).getLast? with
        | none => simp at hl
        | some v => rfl

/-- below the maximum the reported counters are strictly increasing by one -/
theorem C08_counters_step (c n : Nat) (h : c + n ≤ u32Max) : counters c n = (List.range n).map (fun i => c + i + 1) := by
  induction n generalizing c with
  | zero => rfl
  | succ n ih =>
    have hb : bump c = c + 1 := by unfold bump; unfold u32Max at h; omega
    simp only [counters, hb]
    rw [ih (c + 1) (by omega), List.range_succ_eq_map]
    simp only [List.map_cons, List.map_map]
    congr 1
    apply List.map_congr_left
    intro i _
    simp only [Function.comp]; omega

end PasskeyVerif.C08
