/-
C16 — CTAPHID fragmentation and reassembly preserve every message, per channel.
Property theorems only; helper lemmas are in `Lemmas/Hid.lean`, the model in `Model/Hid.lean`
(tied to passkey-transports/src/hid.rs by the correspondence stream), the specification in `Spec/Hid.lean`.
All statements are unbounded in payload length, number of channels, and stream length.
-/
import PasskeyVerif.Generated.Hid
import PasskeyVerif.Lemmas.Hid
namespace PasskeyVerif.C16
open PasskeyVerif.Hid

/-- The sender accepts exactly the payloads of at most 7608 bytes … -/
theorem C16_accepts (ch : Chan) (cmd : Command) (data : Bytes) (h : data.length ≤ 7608) :
    ∃ m, Msg.new ch cmd data = some m ∧ Spec.sameMessage m ch cmd data := by
  refine ⟨_, new_accepts ch cmd data h, rfl, rfl, rfl, rfl⟩

/-- … and refuses (rather than truncates) every payload above the protocol maximum of 7609 bytes.
(It also refuses 7609 itself, which the statement permits; see DESIGN.md.) -/
theorem C16_too_big_refused (ch : Chan) (cmd : Command) (data : Bytes) (h : data.length > 7608) :
    Msg.new ch cmd data = none := new_refuses ch cmd data h

/-- What an accepted message is written as is exactly the specified packet list: one initialisation
packet `CID ‖ 0x80|CMD ‖ BCNT(be16) ‖ 57 bytes` followed by continuation packets `CID ‖ SEQ ‖ 59 bytes`
numbered 0,1,2,…, zero padded; no write panics. -/
theorem C16_send_is_spec (ch : Chan) (cmd : Command) (data : Bytes) (m : Msg)
    (h : Msg.new ch cmd data = some m) : m.send = some (Spec.packets ch cmd data) :=
  send_eq_spec ch cmd data m h

/-- Shape: every packet is exactly 64 bytes; an accepted message needs at most 128 continuation
packets, so every sequence number has bit 7 clear. -/
theorem C16_packets_shape (ch : Chan) (cmd : Command) (data : Bytes) :
    (∀ p ∈ Spec.packets ch cmd data, p.length = 64)
    ∧ (Spec.packets ch cmd data).length = 1 + (data.length - 57 + 58) / 59
    ∧ (data.length ≤ 7608 → (Spec.packets ch cmd data).length ≤ 129) := by
  refine ⟨packets_all_64 ch cmd data, packets_count ch cmd data, fun h => ?_⟩
  rw [packets_count]; omega

/-- Round trip: feeding the packets of an accepted message to a receiver in *any* state returns nothing
for every packet but the last and, on the last packet, one message with the same channel, command
and payload; no other channel's entry is touched. -/
theorem C16_roundtrip (ch : Chan) (cmd : Command) (data : Bytes) (m : Msg) (pkts : List Bytes)
    (hnew : Msg.new ch cmd data = some m) (hsend : m.send = some pkts) (t : Table) :
    ∃ m', (feed t pkts).2 = List.replicate (pkts.length - 1) none ++ [some m']
      ∧ Spec.sameMessage m' ch cmd data
      ∧ ∀ c, c ≠ ch → (feed t pkts).1 c = t c := by
  obtain ⟨_, hlen⟩ := new_some ch cmd data m hnew
  rw [send_eq_spec ch cmd data m hnew] at hsend
  cases hsend
  obtain ⟨h1, h2, _⟩ := feed_packets ch cmd data hlen t
  exact ⟨_, h1, ⟨rfl, rfl, rfl, rfl⟩, h2⟩

/-- Locality: what the receiver returns for the packets of channel `c`, and channel `c`'s state
afterwards, are those of running `c`'s sub-stream alone, whatever other packets (of other channels,
malformed, of any number) are interleaved with it. -/
theorem C16_locality (c : Chan) (pkts : List Bytes) (t t' : Table) (h : t c = t' c) :
    Spec.outsOf c pkts (feed t pkts).2 = (feed t' (Spec.sub c pkts)).2
      ∧ (feed t pkts).1 c = (feed t' (Spec.sub c pkts)).1 c :=
  feed_local c pkts t t' h

/-- A channel's stream that is the concatenation of the packets of accepted messages m₁…mₙ delivers
exactly m₁…mₙ, each on its last packet, from any receiver state. -/
theorem C16_channel_sequence (c : Chan) (msgs : List (Command × Bytes))
    (hm : ∀ x ∈ msgs, x.2.length ≤ 7608) (t : Table) :
    (feed t (Spec.streamOf c msgs)).2.map (Option.map Spec.view) = Spec.expectedOuts c msgs :=
  feed_stream c msgs hm t

/-- Interleaving (projection form): in **any** packet stream whose channel-`c` packets are, in order,
the packets of accepted messages m₁…mₙ, the receiver's answers to those packets are exactly
"nothing … nothing, mᵢ" per message, regardless of everything else in the stream and of the
receiver's prior state. -/
theorem C16_interleaving (c : Chan) (msgs : List (Command × Bytes)) (hm : ∀ x ∈ msgs, x.2.length ≤ 7608)
    (pkts : List Bytes) (hsub : Spec.sub c pkts = Spec.streamOf c msgs) (t : Table) :
    (Spec.outsOf c pkts (feed t pkts).2).map (Option.map Spec.view) = Spec.expectedOuts c msgs := by
  rw [(feed_local c pkts t t rfl).1, hsub]
  exact feed_stream c msgs hm t

/-- Interleaving (merge form): for any number of channels with pairwise distinct ids, each sending any
sequence of accepted messages, and **any** merge of their packet streams that keeps each channel's own
order, every channel's answers are exactly its own messages in order. -/
theorem C16_interleaving_merge (chans : List (Chan × List (Command × Bytes)))
    (hnd : (chans.map (·.1)).Nodup)
    (hm : ∀ x ∈ chans, ∀ y ∈ x.2, y.2.length ≤ 7608)
    (pkts : List Bytes)
    (hmerge : Spec.IsMerge (chans.map (fun x => (x.1, Spec.streamOf x.1 x.2))) pkts)
    (t : Table) :
    ∀ x ∈ chans,
      (Spec.outsOf x.1 pkts (feed t pkts).2).map (Option.map Spec.view) = Spec.expectedOuts x.1 x.2 := by
  intro x hx
  apply C16_interleaving x.1 x.2 (hm x hx) pkts _ t
  have hhom : ∀ y ∈ chans.map (fun x => (x.1, Spec.streamOf x.1 x.2)), ∀ p ∈ y.2, Spec.chanOf p = some y.1 := by
    intro y hy p hp
    rw [List.mem_map] at hy
    obtain ⟨z, _, rfl⟩ := hy
    exact streamOf_chan z.1 z.2 p hp
  have hnd' : ((chans.map (fun x => (x.1, Spec.streamOf x.1 x.2))).map (·.1)).Nodup := by
    simpa [List.map_map, Function.comp_def] using hnd
  rw [sub_of_merge _ _ hmerge hhom hnd' x.1]
  exact filter_single chans hnd x hx

/-- From a receiver whose table is well filed (in particular a fresh one), the messages delivered
*with channel id `c`* are exactly the ones returned for `c`'s packets. -/
theorem C16_deliveries_by_channel (c : Chan) (pkts : List Bytes) :
    (Spec.delivered (feed Table.empty pkts).2).filter (fun m => m.channel = c)
      = Spec.delivered (Spec.outsOf c pkts (feed Table.empty pkts).2) :=
  delivered_by_channel c pkts Table.empty tableInv_empty

/-- A continuation packet for a channel with no message in progress yields nothing and leaves the
receiver unchanged. -/
theorem C16_orphan_continuation (t : Table) (b0 b1 b2 b3 s : UInt8) (rest : Bytes)
    (hs : s &&& 0x80 ≠ 0x80) (ht : t ⟨b0, b1, b2, b3⟩ = none) :
    handlePacket t (b0 :: b1 :: b2 :: b3 :: s :: rest) = (t, none) :=
  orphan_cont t _ b0 b1 b2 b3 s rest rfl hs ht

/-! non-vacuity: a concrete two-packet message meets the hypotheses -/
example : ∃ m, Msg.new ⟨1,2,3,4⟩ .cbor (List.replicate 60 7) = some m := ⟨_, rfl⟩
example : (Spec.packets ⟨1,2,3,4⟩ .cbor (List.replicate 60 7)).length = 2 := by
  rw [packets_count]; rfl
/-- the projection hypothesis of `C16_interleaving` is met by any channel's own stream … -/
example (c : Chan) (msgs : List (Command × Bytes)) : Spec.sub c (Spec.streamOf c msgs) = Spec.streamOf c msgs :=
  List.filter_eq_self.mpr (fun p hp => by simp [streamOf_chan c msgs p hp])
/-- … and the merge hypothesis by a two-packet merge of two channels. -/
example (c d : Chan) (p q : Bytes) : Spec.IsMerge [(c, [p]), (d, [q])] [q, p] :=
  .step [(c, [p])] d q [] [] [p] (.step [] c p [] [(d, [])] [] (.done _ (by simp)))

/-- **A stray continuation after a delivered multi-packet message yields nothing**: once the packets of a message of
more than 57 bytes have been fed — to a receiver in any state — nothing is in progress on its channel, so a continuation
packet with any sequence number (in particular the one that would have come next) is answered with nothing and leaves
the receiver as it was.  (After a single-packet message the receiver's state for the channel is what it was before, so
an earlier unfinished transfer is still in progress there: see DESIGN §9.3, observed behaviour.) -/
theorem C16_stray_after_delivery (b0 b1 b2 b3 : UInt8) (cmd : Command) (data : Bytes) (hd : data.length ≤ 7608)
    (hm : 57 < data.length) (t : Table) (s : UInt8) (rest : Bytes) (hs : s &&& 0x80 ≠ 0x80) :
    handlePacket (feed t (Spec.packets ⟨b0, b1, b2, b3⟩ cmd data)).1 (b0 :: b1 :: b2 :: b3 :: s :: rest)
      = ((feed t (Spec.packets ⟨b0, b1, b2, b3⟩ cmd data)).1, none) :=
  C16_orphan_continuation _ b0 b1 b2 b3 s rest hs ((feed_packets ⟨b0, b1, b2, b3⟩ cmd data hd t).2.2 hm)

/-- **the framing constants of the model are those of the source as it is now** (regenerated on every run): packet
size, header sizes, packet-type bit, the continuation-packet limit of `Message::new`, the command bytes; and the
receiver's byte table knows exactly the commands the sender can frame -/
theorem C16_constants :
    Generated.Hid.maxPacketSize = maxPacket ∧ Generated.Hid.initHeaderSize = initHdr ∧ Generated.Hid.contHeaderSize = contHdr
    ∧ Generated.Hid.packetDescriptorBit = descBit.toNat
    ∧ Generated.Hid.commands.map (·.2) = Command.all.map (·.toByte.toNat)
    ∧ (∀ b : Fin 256, (Generated.Hid.commandOfByte.any (·.1 == b.val)) = (Command.ofByte (UInt8.ofNat b.val)).isSome)
    ∧ (Generated.Hid.commandOfByte.all (fun e => Generated.Hid.commands.any (fun c => c.1 == e.2 && c.2 == e.1))) = true
    ∧ (Generated.Hid.commands.all (fun c => Generated.Hid.commandOfByte.any (fun e => c.1 == e.2 && c.2 == e.1))) = true
    ∧ (∀ (ch : Chan) (cmd : Command) (data : Bytes), (Msg.new ch cmd data).isSome
        = decide (data.length ≤ 65535 ∧ ¬(data.length - initMax > 0 ∧ (data.length - initMax) / contMax + 1 > Generated.Hid.maxContinuationCount))) := by
  refine ⟨rfl, rfl, rfl, rfl, by decide, by decide +kernel, by decide, by decide, ?_⟩
  intro ch cmd data
  unfold Msg.new Generated.Hid.maxContinuationCount
  by_cases h1 : data.length > 65535
  · simp [h1]; omega
  · simp only [h1, if_false]
    by_cases h2 : data.length - initMax > 0 ∧ (data.length - initMax) / contMax + 1 > 128
    · simp [h2]
    · simp only [h2, if_false, Option.isSome_some]
      have : data.length ≤ 65535 := by omega
      simp [this, h2]


end PasskeyVerif.C16
