/-
C14 — WebAuthn JSON parses leniently, re-parses when emitted, client data keeps order.
Property theorems only.  Proved for all byte strings / all texts: the base64 round trips, the agreement of
the presentations of a binary member and of a number under the models of the `Bytes` visitor and of
`StringOrNum`, and the member order of re-serialised client data.  The struct level: the serde attributes of
the option structs and enums are regenerated from the source (Generated/WebauthnSchema.lean) and interpreted
by a model of what `#[derive(Deserialize)]` and the helpers of utils/serde.rs do (Model/SerdeStruct.lean,
compared with the real parsers on every document of the stream); proved of that model, for every schema:
unknown members are ignored wherever they stand and whatever their value, an unknown enumeration string
gives the default instead of an error, list entries that do not parse are dropped, and the parsed value
depends on a binary or numeric member only through the bytes / number it denotes.  That emitted credentials
re-parse to an equal value is checked on the real serialiser and parser by the stream only.
-/
import PasskeyVerif.Lemmas.Base64
import PasskeyVerif.Lemmas.Serde
import PasskeyVerif.Lemmas.SerdeSer
import PasskeyVerif.Model.WebauthnJson
import PasskeyVerif.Lemmas.ClientDataJson
import PasskeyVerif.Generated.WebauthnSchema
namespace PasskeyVerif.C14
open PasskeyVerif PasskeyVerif.Json PasskeyVerif.WJson

/-- **base64url encoding followed by decoding is the identity on all byte strings.** -/
theorem C14_base64url_roundtrip (bs : List UInt8) : Base64.decodeLenient (Base64.encodeUrl bs) = some bs :=
  Base64.decodeLenient_encodeUrl bs

/-- the emitted text is unpadded and uses only the url-safe alphabet -/
theorem C14_base64url_alphabet (bs : List UInt8) :
    ∀ c ∈ (Base64.encodeUrl bs).toList, c ≠ '=' ∧ c ≠ '+' ∧ c ≠ '/' := by
  unfold Base64.encodeUrl
  rw [String.toList_ofList, Base64.encodeChars_eq]
  intro c hc
  obtain ⟨v, hv, rfl⟩ := List.mem_map.mp hc
  have hlt := Base64.sextets_lt bs v hv
  have key : ∀ k : Fin 64, Base64.sextet true k.val ≠ '=' ∧ Base64.sextet true k.val ≠ '+' ∧ Base64.sextet true k.val ≠ '/' := by decide +kernel
  exact key ⟨v, hlt⟩

/-- number tokens denoting the byte values, pairwise -/
def Denote : List String → List UInt8 → Prop
  | [], [] => True
  | t :: ts, b :: bs => parseDecimal t.toList false = .int (b.toNat : Int) ∧ Denote ts bs
  | _, _ => False

/-- **A binary member parses to the same bytes in every presentation**: base64url text, standard base64
text with any amount of padding (including none), and an array of number tokens denoting the byte values. -/
theorem C14_binary_presentations (bs : List UInt8) (k : Nat) (tokens : List String) (h : Denote tokens bs) :
    bytesOf (.str (Base64.encodeUrl bs)) = some bs
    ∧ bytesOf (.str (String.ofList (Base64.encodeChars false bs ++ List.replicate k '='))) = some bs
    ∧ bytesOf (.arr (tokens.map Json.num)) = some bs := by
  refine ⟨Base64.decodeLenient_encodeUrl bs, Base64.decodeLenient_encodeStd bs k, ?_⟩
  unfold bytesOf
  induction tokens generalizing bs with
  | nil => cases bs with
    | nil => rfl
    | cons b r => exact absurd h (by simp [Denote])
  | cons t ts ih =>
    cases bs with
    | nil => exact absurd h (by simp [Denote])
    | cons b rest =>
      obtain ⟨h0, hr⟩ := h
      have := ih rest hr
      simp only at this
      simp only [List.map_cons, List.mapM_cons, h0]
      have hb : (0 : Int) ≤ (b.toNat : Int) ∧ (b.toNat : Int) ≤ 255 := ⟨by omega, by have := b.toNat_lt; omega⟩
      simp only [hb.1, hb.2, and_self, if_true]
      rw [this]
      simp

/-- **A number parses to the same value as a number token, as a numeric string and as an integral float**:
whenever the token and the text denote the value `v` of the target range (as integer or as a float whose
truncation is `v`), both are accepted with that value. -/
theorem C14_number_presentations (s t : String) (lo hi v : Int) (hr : lo ≤ v ∧ v ≤ hi)
    (hs : ofToken s = .int v ∨ ofToken s = .float v) (ht : ofText t lo hi = .int v ∨ ofText t lo hi = .float v) :
    numOf (.num s) lo hi = some (some v) ∧ numOf (.str t) lo hi = some (some v) := by
  unfold numOf finish
  rcases hs with hs | hs <;> rcases ht with ht | ht <;> simp [hs, ht, hr.1, hr.2]

/-- a value outside the target's range, or a text that is no number, is an error in every presentation -/
theorem C14_number_out_of_range (s : String) (lo hi v : Int) (hr : ¬(lo ≤ v ∧ v ≤ hi)) (hs : ofToken s = .int v ∨ ofToken s = .float v) :
    numOf (.num s) lo hi = some none := by
  unfold numOf finish
  rcases hs with hs | hs <;> simp [hs, hr]

/-- concrete presentations of one timeout (the texts as character lists, evaluated by the kernel) -/
example : parseDecimal ['6', '0', '0', '0', '0'] false = .int 60000
    ∧ parseDecimal ['6', '0', '0', '0', '0', '.', '0'] false = .float 60000
    ∧ parseDecimal ['6', 'e', '4'] false = .float 60000
    ∧ parseDecimal ['6', '.', '0', '0', 'E', '+', '0', '4'] true = .float 60000
    ∧ parseDecimal ['-', '7', '.', '0'] false = .float (-7)
    ∧ parseDecimal ['1', '.', '9'] false = .float 1
    ∧ parseDecimal ['1', 'e'] false = .bad := by decide

/-- **Client data member order**: a re-serialised `CollectedClientData` starts with type, challenge,
origin, crossOrigin in that order, followed by every other member of the input in its original order. -/
theorem C14_client_data_order (keys : List String) :
    (clientDataOrder keys).take 4 = ["type", "challenge", "origin", "crossOrigin"]
    ∧ (clientDataOrder keys).drop 4 = keys.filter (fun k => !["type", "challenge", "origin", "crossOrigin"].contains k)
    ∧ ((clientDataOrder keys).drop 4).Sublist keys := by
  refine ⟨rfl, rfl, ?_⟩
  show (keys.filter _).Sublist keys
  exact List.filter_sublist

/-! ### the serde-derived struct parsers (model: Model/SerdeStruct.lean over the regenerated schema) -/

open PasskeyVerif.Serde

/-- **Unknown members are ignored**: in any struct of any schema, a member whose name is neither a field
name nor an alias changes nothing, wherever it stands among the members and whatever JSON value it has. -/
theorem C14_unknown_members_ignored (S : Schema) (knownAlg : Int → Bool) (fuel : Nat) (buffered : Bool)
    (n : String) (sd : StructDef) (hsd : S.struct? n = some sd) (k : String) (v : Json) (hk : sd.fieldFor k = none)
    (l₁ l₂ : List (String × Json)) :
    parseStruct S knownAlg fuel buffered n (l₁ ++ (k, v) :: l₂) = parseStruct S knownAlg fuel buffered n (l₁ ++ l₂) := by
  cases fuel with
  | zero => rfl
  | succ f => simp only [parseStruct, hsd, memberList_unknown sd _ k v hk l₁ l₂ []]

/-- ... in particular in the regenerated request options: e.g. a member "mediation" or "Challenge" -/
example : (Generated.Webauthn.schema.struct? "PublicKeyCredentialRequestOptions").bind (fun sd => sd.fieldFor "Challenge") = none := by
  decide +kernel

/-- **An unknown enumeration string is the default, not an error**: a member read through `ignore_unknown`
whose type is an enumeration (or an optional one) and whose value is a string that names no variant parses
to the type's default, reading from the text as well as inside a buffered list element. -/
theorem C14_unknown_enum_string_is_default (S : Schema) (knownAlg : Int → Bool) (fuel : Nat) (buffered : Bool)
    (f : Field) (n : String) (e : EnumDef) (s : String)
    (hw : f.wrap = .ignoreUnknown) (hty : f.ty = .enum n ∨ f.ty = .opt (.enum n))
    (he : S.enum? n = some e) (hs : e.variantOf s = none) :
    parseMember S knownAlg (fuel + 3) buffered f (.str s) = .ok (defaultOf S 8 f.ty) := by
  rcases hty with hty | hty
  · simp only [parseMember, hw, hty, parseTy, he, Option.bind_some, hs, isEnumish]
    cases buffered <;> rfl
  · simp only [parseMember, hw, hty, parseTy, he, Option.bind_some, hs, isEnumish, R.map]
    cases buffered <;> rfl

/-- ... and a known string is that variant -/
theorem C14_known_enum_string (S : Schema) (knownAlg : Int → Bool) (fuel : Nat) (buffered : Bool)
    (f : Field) (n : String) (e : EnumDef) (s v : String)
    (hw : f.wrap = .ignoreUnknown) (hty : f.ty = .enum n) (he : S.enum? n = some e) (hs : e.variantOf s = some v) :
    parseMember S knownAlg (fuel + 2) buffered f (.str s) = .ok (.enumv v) := by
  simp only [parseMember, hw, hty, parseTy, he, Option.bind_some, hs]

/-- the enumerations of the regenerated schema: "telepathic" names no user-verification requirement, "cable" is
the alias of the hybrid transport -/
example : ((Generated.Webauthn.schema.enum? "UserVerificationRequirement").bind (·.variantOf "telepathic")) = none
    ∧ ((Generated.Webauthn.schema.enum? "AuthenticatorTransport").bind (·.variantOf "cable")) = some "hybrid" := by
  decide +kernel

/-- **Unknown list entries are dropped**: a list read through `ignore_unknown_opt_vec` / `ignore_unknown_vec`
yields exactly the elements that parse, in their order; an element that does not parse changes nothing,
wherever it stands. -/
theorem C14_unknown_list_entries_dropped (p : Json → R Val) :
    (∀ l, (∀ j ∈ l, p j ≠ .unmodelled) →
        lenientList p l = .ok (l.filterMap (fun j => match p j with | .ok v => some v | _ => none)))
    ∧ (∀ j, p j = .err → ∀ l₁ l₂, lenientList p (l₁ ++ j :: l₂) = lenientList p (l₁ ++ l₂)) :=
  ⟨lenientList_eq p, fun j hj => lenientList_drop p j hj⟩

/-- **Presentations of a member**: the struct parsed from an object depends on the value of a member only
through what the member's own parser makes of it — so two presentations of a binary member denoting the same
bytes, or of a timeout / algorithm identifier denoting the same number, give the same struct. -/
theorem C14_member_presentation (S : Schema) (knownAlg : Int → Bool) (fuel : Nat) (buffered : Bool)
    (n : String) (sd : StructDef) (hsd : S.struct? n = some sd) (k : String) (j j' : Json)
    (h : ∀ f, sd.fieldFor k = some f → parseMember S knownAlg fuel buffered f j = parseMember S knownAlg fuel buffered f j')
    (l₁ l₂ : List (String × Json)) :
    parseStruct S knownAlg (fuel + 1) buffered n (l₁ ++ (k, j) :: l₂)
      = parseStruct S knownAlg (fuel + 1) buffered n (l₁ ++ (k, j') :: l₂) := by
  simp only [parseStruct, hsd, memberList_congr sd _ k j j' h l₁ l₂ []]

/-- a binary member (plain `Bytes`, or an optional one given a value): only the bytes denoted matter -/
theorem C14_bytes_member (S : Schema) (knownAlg : Int → Bool) (fuel : Nat) (buffered : Bool) (f : Field)
    (hw : f.wrap = .plain) (hty : f.ty = .bytes ∨ f.ty = .opt .bytes) (j j' : Json)
    (hn : j ≠ .null) (hn' : j' ≠ .null) (h : bytesOf j = bytesOf j') :
    parseMember S knownAlg fuel buffered f j = parseMember S knownAlg fuel buffered f j' := by
  cases fuel with
  | zero => rfl
  | succ fuel =>
    cases fuel with
    | zero => simp only [parseMember, hw, parseTy]
    | succ fuel =>
      rcases hty with hty | hty
      · simp only [parseMember, hw, hty, parseTy, h]
      · cases fuel with
        | zero =>
          cases j <;> cases j' <;> simp_all [parseMember, parseTy, R.map]
        | succ fuel =>
          cases j <;> cases j' <;> simp_all [parseMember, parseTy, R.map]

/-- a timeout (`maybe_stringified`) or an algorithm identifier (`i64_to_iana`): only the number denoted matters -/
theorem C14_number_member (S : Schema) (knownAlg : Int → Bool) (fuel : Nat) (buffered : Bool) (f : Field) (j j' : Json) :
    (f.wrap = .maybeStringified → u32Of j = u32Of j' →
        parseMember S knownAlg fuel buffered f j = parseMember S knownAlg fuel buffered f j')
    ∧ (f.wrap = .i64ToIana → i64Of j = i64Of j' →
        parseMember S knownAlg fuel buffered f j = parseMember S knownAlg fuel buffered f j') := by
  cases fuel with
  | zero => exact ⟨fun _ _ => rfl, fun _ _ => rfl⟩
  | succ fuel =>
    constructor
    · intro hw h; simp only [parseMember, hw, h]
    · intro hw h; simp only [parseMember, hw, h]

/-- **End to end for the challenge of the regenerated request options**: as base64url text, as standard base64
text with any padding, and as an array of number tokens, the same bytes give the same parsed options,
whatever the other members are. -/
theorem C14_challenge_presentations (knownAlg : Int → Bool) (fuel : Nat) (bs : List UInt8) (pad : Nat)
    (tokens : List String) (hd : Denote tokens bs) (l₁ l₂ : List (String × Json)) :
    let parse := fun (j : Json) => parseStruct Generated.Webauthn.schema knownAlg (fuel + 1) false
      "PublicKeyCredentialRequestOptions" (l₁ ++ ("challenge", j) :: l₂)
    parse (.str (Base64.encodeUrl bs)) = parse (.str (String.ofList (Base64.encodeChars false bs ++ List.replicate pad '=')))
      ∧ parse (.str (Base64.encodeUrl bs)) = parse (.arr (tokens.map Json.num)) := by
  intro parse
  obtain ⟨h1, h2, h3⟩ := C14_binary_presentations bs pad tokens hd
  have hsd : ∃ sd, Generated.Webauthn.schema.struct? "PublicKeyCredentialRequestOptions" = some sd
      ∧ ∀ f, sd.fieldFor "challenge" = some f → f.wrap = .plain ∧ (f.ty = .bytes ∨ f.ty = .opt .bytes) := by
    refine ⟨Generated.Webauthn.structs[1]!, by decide +kernel, ?_⟩
    intro f hf
    have : f = ⟨"challenge", "challenge", [], .bytes, false, .plain, false⟩ := by
      have h : (Generated.Webauthn.structs[1]!).fieldFor "challenge" = some ⟨"challenge", "challenge", [], .bytes, false, .plain, false⟩ := by
        decide +kernel
      rw [h] at hf; exact (Option.some.inj hf).symm
    subst this
    exact ⟨rfl, Or.inl rfl⟩
  obtain ⟨sd, hs, hf⟩ := hsd
  constructor
  · exact C14_member_presentation _ knownAlg fuel false _ sd hs "challenge" _ _
      (fun f hff => C14_bytes_member _ knownAlg fuel false f (hf f hff).1 (hf f hff).2 _ _ (by simp) (by simp) (h1.trans h2.symm)) l₁ l₂
  · exact C14_member_presentation _ knownAlg fuel false _ sd hs "challenge" _ _
      (fun f hff => C14_bytes_member _ knownAlg fuel false f (hf f hff).1 (hf f hff).2 _ _ (by simp) (by simp) (h1.trans h3.symm)) l₁ l₂

/-! ### what the regenerated schema must say (re-checked by the kernel on every run) -/

/-- members without which the parse is an error: no `#[serde(default)]` and not a plain `Option` -/
def requiredOf (sd : StructDef) : List String :=
  (sd.fields.filter (fun f => !f.dflt && !(isOpt f.ty && f.wrap == .plain))).map (·.json)

/-- **Every optional member may be absent**: in the option structs as they are in the source now, the members
that must be present are exactly those WebAuthn marks as required; every other member has a default. -/
theorem C14_required_members :
    Generated.Webauthn.structs.map (fun sd => (sd.name, requiredOf sd)) =
      [("CredentialRequestOptions", ["publicKey"]),
       ("PublicKeyCredentialRequestOptions", ["challenge"]),
       ("PublicKeyCredentialDescriptor", ["type", "id"]),
       ("AuthenticationExtensionsClientInputs", []),
       ("AuthenticationExtensionsPrfInputs", []),
       ("AuthenticationExtensionsPrfValues", ["first"]),
       ("CredentialCreationOptions", ["publicKey"]),
       ("PublicKeyCredentialCreationOptions", ["rp", "user", "challenge", "pubKeyCredParams"]),
       ("PublicKeyCredentialRpEntity", ["name"]),
       ("PublicKeyCredentialUserEntity", ["id", "displayName", "name"]),
       ("PublicKeyCredentialParameters", ["type", "alg"]),
       ("AuthenticatorSelectionCriteria", []),
       -- the credentials the client emits
       ("PublicKeyCredential<AuthenticatorAttestationResponse>", ["id", "rawId", "type", "response"]),
       ("AuthenticatorAttestationResponse", ["clientDataJSON", "authenticatorData", "publicKeyAlgorithm", "attestationObject"]),
       ("AuthenticationExtensionsClientOutputs", []),
       ("CredentialPropertiesOutput", []),
       ("AuthenticationExtensionsPrfOutputs", []),
       ("PublicKeyCredential<AuthenticatorAssertionResponse>", ["id", "rawId", "type", "response"]),
       ("AuthenticatorAssertionResponse", ["clientDataJSON", "authenticatorData", "signature"])] := by
  decide +kernel

/-- the structs a relying party's options are parsed into (the rest of the schema is what the client emits) -/
def optionStructs : List StructDef :=
  Generated.Webauthn.structs.filter (fun sd => ["CredentialRequestOptions", "PublicKeyCredentialRequestOptions", "PublicKeyCredentialDescriptor",
    "AuthenticationExtensionsClientInputs", "AuthenticationExtensionsPrfInputs", "AuthenticationExtensionsPrfValues", "CredentialCreationOptions",
    "PublicKeyCredentialCreationOptions", "PublicKeyCredentialRpEntity", "PublicKeyCredentialUserEntity", "PublicKeyCredentialParameters",
    "AuthenticatorSelectionCriteria"].contains sd.name)

/-- the helper a member is read through must suit its type: enumerations (bare or optional) through
`ignore_unknown`, lists of enumerations or of descriptors / parameters through `ignore_unknown_opt_vec` /
`ignore_unknown_vec`, timeouts through `maybe_stringified`, algorithm identifiers through `i64_to_iana` -/
def lenientlyRead (f : Field) : Bool :=
  match f.ty with
  | .enum _ => f.wrap == .ignoreUnknown
  | .opt (.enum _) => f.wrap == .ignoreUnknown
  | .opt (.vec (.enum _)) => f.wrap == .ignoreUnknownOptVec
  | .opt (.vec (.struct _)) => f.wrap == .ignoreUnknownOptVec
  | .vec (.struct _) => f.wrap == .ignoreUnknownVec
  | .opt .u32 => f.wrap == .maybeStringified
  | .alg => f.wrap == .i64ToIana
  | .u32 => false
  | _ => true

/-- **Unknown enumeration strings and unknown list entries are tolerated wherever they can occur**: every member
of an enumeration type, and every list of enumerations, descriptors or parameters, in every one of the twelve option
structs of the source as it is now, is read through the lenient helper (so the three theorems above apply to it); no
variant list is empty and every `#[default]` names a variant. -/
theorem C14_enumeration_members_are_lenient :
    optionStructs.length = 12 ∧ (optionStructs.all (fun sd => sd.fields.all lenientlyRead)) = true
    ∧ (Generated.Webauthn.enums.all (fun e => !e.variants.isEmpty
        && (match e.dflt with | some d => e.variants.any (·.1 == d) | none => true))) = true
    ∧ (optionStructs.all (fun sd => sd.fields.all (fun f => match f.ty with
        | .enum n => ((Generated.Webauthn.schema.enum? n).bind (·.dflt)).isSome
        | _ => true))) = true := by
  decide +kernel

/-- member names and aliases are distinct within each struct (so `fieldFor` is unambiguous) -/
theorem C14_member_names_distinct :
    (Generated.Webauthn.structs.all (fun sd => (sd.fields.flatMap (fun f => f.json :: f.aliases)).Nodup)) = true := by
  decide +kernel

/-- **Members are read under their WebAuthn names**: the JSON name of every member of every struct of the source as it
is now (after `rename` / `rename_all`) is the name the WebAuthn IDL gives it.  A struct that loses its `rename_all` would
still parse every document — its members all have defaults and unknown members are ignored — but to the all-default
value: "present" would read like "absent" (seed C14_s2), and the regenerated model would follow the code; this table does not. -/
theorem C14_member_names_are_the_webauthn_names :
    Generated.Webauthn.structs.map (fun sd => (sd.name, sd.fields.map (·.json))) =
      [("CredentialRequestOptions", ["publicKey"]),
       ("PublicKeyCredentialRequestOptions",
        ["challenge", "timeout", "rpId", "allowCredentials", "userVerification", "hints", "attestation", "attestationFormats", "extensions"]),
       ("PublicKeyCredentialDescriptor", ["type", "id", "transports"]),
       ("AuthenticationExtensionsClientInputs", ["credProps", "prf", "prfAlreadyHashed"]),
       ("AuthenticationExtensionsPrfInputs", ["eval", "evalByCredential"]),
       ("AuthenticationExtensionsPrfValues", ["first", "second"]),
       ("CredentialCreationOptions", ["publicKey"]),
       ("PublicKeyCredentialCreationOptions",
        ["rp", "user", "challenge", "pubKeyCredParams", "timeout", "excludeCredentials", "authenticatorSelection", "hints",
         "attestation", "attestationFormats", "extensions"]),
       ("PublicKeyCredentialRpEntity", ["id", "name"]),
       ("PublicKeyCredentialUserEntity", ["id", "displayName", "name"]),
       ("PublicKeyCredentialParameters", ["type", "alg"]),
       ("AuthenticatorSelectionCriteria", ["authenticatorAttachment", "residentKey", "requireResidentKey", "userVerification"]),
       ("PublicKeyCredential<AuthenticatorAttestationResponse>",
        ["id", "rawId", "type", "response", "authenticatorAttachment", "clientExtensionResults"]),
       ("AuthenticatorAttestationResponse",
        ["clientDataJSON", "authenticatorData", "publicKey", "publicKeyAlgorithm", "attestationObject", "transports"]),
       ("AuthenticationExtensionsClientOutputs", ["credProps", "prf"]),
       ("CredentialPropertiesOutput", ["rk"]),
       ("AuthenticationExtensionsPrfOutputs", ["enabled", "results"]),
       ("PublicKeyCredential<AuthenticatorAssertionResponse>",
        ["id", "rawId", "type", "response", "authenticatorAttachment", "clientExtensionResults"]),
       ("AuthenticatorAssertionResponse", ["clientDataJSON", "authenticatorData", "signature", "userHandle", "attestationObject"])] := by
  decide +kernel

/-- **An unknown enumeration string is ignored, not read as something else**: the value `ignore_unknown` falls back to is,
for each enumeration of the source as it is now, the default WebAuthn gives the member (`preferred`, `none`), nothing
(the optional ones), and for the credential type the catch-all `unknown` — never `public-key`, which would turn an
entry of a type this library does not know into a usable one (seed C14_s3). -/
theorem C14_unknown_strings_fall_back_to_the_webauthn_defaults :
    Generated.Webauthn.enums.map (fun e => (e.name, e.dflt)) =
      [("UserVerificationRequirement", some "preferred"),
       ("PublicKeyCredentialHints", none),
       ("AttestationConveyancePreference", some "none"),
       ("AttestationStatementFormatIdentifiers", some "none"),
       ("PublicKeyCredentialType", some "unknown"),
       ("AuthenticatorTransport", none),
       ("AuthenticatorAttachment", none),
       ("ResidentKeyRequirement", none)] := by
  decide +kernel

/-! ### emitted credentials re-parse to an equal value (serialiser model: Model/SerdeSer.lean) -/

/-- the part of the regenerated schema the client's output is made of: `PublicKeyCredential<R>` for both response
types and what they contain -/
def emittedSchema : Schema :=
  ⟨Generated.Webauthn.structs.filter (fun sd => ["PublicKeyCredential<AuthenticatorAttestationResponse>", "AuthenticatorAttestationResponse",
      "AuthenticationExtensionsClientOutputs", "CredentialPropertiesOutput", "AuthenticationExtensionsPrfOutputs", "AuthenticationExtensionsPrfValues",
      "PublicKeyCredential<AuthenticatorAssertionResponse>", "AuthenticatorAssertionResponse"].contains sd.name),
   Generated.Webauthn.enums⟩

/-- the structs of the source as it is now meet the conditions of the round trip: every helper is used on the type it
is written for, every member that is left out when `None` is optional and has a default (or is a plain `Option`),
member names are distinct, and all eight structs are there -/
theorem C14_emitted_schema_ok : SchemaOk emittedSchema = true ∧ emittedSchema.structs.length = 8 := by
  decide +kernel

/-- **Every credential the client emits serialises to JSON that parses back to an equal value** (model): for every
value `v` of either credential type — any id, any byte strings, any optional member present or absent, any
extension outputs, any algorithm number of the i64 range — and in either form of binary members (arrays of numbers,
or base64url text under the crate feature `serialize_bytes_as_base64_string`), whatever the serialiser model writes,
the parser model reads back as `v`. -/
theorem C14_emitted_credentials_reparse (b64 : Bool) (knownAlg : Int → Bool) (root : String)
    (hroot : root = "PublicKeyCredential<AuthenticatorAttestationResponse>" ∨ root = "PublicKeyCredential<AuthenticatorAssertionResponse>")
    (d : Nat) (v : Val) (j : Json) (F : Nat)
    (hv : wt emittedSchema knownAlg d (.struct root) v = true) (hs : serTy emittedSchema b64 d (.struct root) v = some j)
    (hF : 3 * d ≤ F) :
    parseTy emittedSchema knownAlg F false (.struct root) j = .ok v :=
  roundtrip emittedSchema b64 knownAlg C14_emitted_schema_ok.1 d (.struct root) v j F false rfl hv hs hF

/-- ... a binary member is written as an array of its byte values, or as unpadded base64url text under the feature:
the two forms the leaf theorems above start from -/
theorem C14_binary_members_written (S : Schema) (d : Nat) (b : List UInt8) :
    serTy S false (d + 1) .bytes (.bytes b) = some (.arr (b.map (fun x => .num (toString x.toNat))))
    ∧ serTy S true (d + 1) .bytes (.bytes b) = some (.str (Base64.encodeUrl b)) := ⟨rfl, rfl⟩

/-- a concrete registration credential is a value of its type and is written (non-vacuity of the round trip) -/
def exampleCredential : Val :=
  .record "PublicKeyCredential<AuthenticatorAttestationResponse>" [
    ("id", .str "AQID"), ("raw_id", .bytes [1, 2, 3]), ("ty", .enumv "public-key"),
    ("response", .record "AuthenticatorAttestationResponse" [
      ("client_data_json", .bytes [123, 125]), ("authenticator_data", .bytes [0, 1]), ("public_key", .none),
      ("public_key_algorithm", .int (-7)), ("attestation_object", .bytes [160]), ("transports", .some (.list [.enumv "internal", .enumv "hybrid"]))]),
    ("authenticator_attachment", .some (.enumv "platform")),
    ("client_extension_results", .record "AuthenticationExtensionsClientOutputs" [
      ("cred_props", .some (.record "CredentialPropertiesOutput" [("discoverable", .some (.bool true))])), ("prf", .none)])]

example : wt emittedSchema (fun _ => true) 6 (.struct "PublicKeyCredential<AuthenticatorAttestationResponse>") exampleCredential = true
    ∧ (serTy emittedSchema false 6 (.struct "PublicKeyCredential<AuthenticatorAttestationResponse>") exampleCredential).isSome = true := by
  decide +kernel

/-! ### client data at value level (model: Model/ClientDataJson.lean — the derived parser and serialiser of
`CollectedClientData` with its two flattened members; tied to the code by the `js.cdorder` stream, which compares
names *and* values of the real parse → re-serialise cycle with `reser`, on accepted and on refused documents) -/

section ClientData
open PasskeyVerif.ClientDataJson

/-- **type, challenge, origin, crossOrigin first, in that order, once**: whatever the order of the members of an
accepted document, the re-serialised client data starts with exactly these four, carrying the document's type,
challenge and origin texts unchanged (crossOrigin `true` exactly when the document said `true`), and none of the
four names occurs again later. -/
theorem C14_client_data_fixed_members_first (ms out : Members) (h : reser ms = some out) :
    ∃ ty ch orig b, out.take 4 = [("type", .str ty), ("challenge", .str ch), ("origin", .str orig), ("crossOrigin", .bool b)]
      ∧ lookup ms "type" = some (.str ty) ∧ lookup ms "challenge" = some (.str ch) ∧ lookup ms "origin" = some (.str orig)
      ∧ (b = true ↔ lookup ms "crossOrigin" = some (.bool true))
      ∧ (∀ q ∈ out.drop 4, isFixed q.1 = false) := by
  obtain ⟨p, hp, rfl⟩ := reser_shape ms out h
  obtain ⟨_, h1, _, h2, h3, h4, h5⟩ := parse_some ms p hp
  refine ⟨p.ty, p.challenge, p.origin, p.crossOrigin == some true, by simp [serialiseClientData], h1, h2, h3, ?_, ?_⟩
  · rw [← h4]; simp
  · intro q hq
    have : q ∈ p.unknown := by simpa [serialiseClientData] using hq
    rw [h5] at this
    exact collectUnknown_not_fixed ms q this

/-- **... followed by the extra and unknown members in their original order** — with their values: for a document
whose member names are distinct, what follows the four is the document's other members, untouched. -/
theorem C14_client_data_other_members_kept (ms out : Members) (h : reser ms = some out) (hn : (ms.map (·.1)).Nodup) :
    out.drop 4 = ms.filter (fun p => !isFixed p.1) := by
  obtain ⟨p, hp, rfl⟩ := reser_shape ms out h
  obtain ⟨_, _, _, _, _, _, h5⟩ := parse_some ms p hp
  simp [serialiseClientData, h5, collectUnknown_nodup ms hn]

/-- the name-only model used by `C14_client_data_order` is the projection of the value-level one -/
theorem C14_client_data_names (ms out : Members) (h : reser ms = some out) (hn : (ms.map (·.1)).Nodup) :
    out.map (·.1) = clientDataOrder (ms.map (·.1)) := by
  have h2 := C14_client_data_other_members_kept ms out h hn
  obtain ⟨p, hp, rfl⟩ := reser_shape ms out h
  have h3 : p.unknown = ms.filter (fun p => !isFixed p.1) := by simpa [serialiseClientData] using h2
  simp [serialiseClientData, clientDataOrder, h3, isFixed, fixedKeys]
  rw [List.filter_map]; rfl

/-- **re-emitted client data is stable**: whatever was accepted (repeated unknown names included), the re-serialised
members are accepted again and written again as themselves — a signature over the first re-serialisation stays valid
over every later one. -/
theorem C14_client_data_reemitted_is_stable (ms out : Members) (h : reser ms = some out) :
    reser out = some out := by
  obtain ⟨p, hp, rfl⟩ := reser_shape ms out h
  obtain ⟨_, _, hty, _, _, _, h5⟩ := parse_some ms p hp
  apply reser_serialise p hty
  · intro q hq; rw [h5] at hq; exact collectUnknown_not_fixed ms q hq
  · rw [h5]; exact collectUnknown_keys_nodup ms

/-- a repeated named member, a missing or ill-typed required member, an unknown type string and a non-boolean
crossOrigin are refused (the error branch, stated outright on concrete documents), and a concrete accepted document
with a repeated unknown name (non-vacuity; first position, last value) -/
example :
    reser [("type", .str "webauthn.get"), ("type", .str "webauthn.get"), ("challenge", .str "AA"), ("origin", .str "o")] = none
    ∧ reser [("type", .str "webauthn.get"), ("origin", .str "o")] = none
    ∧ reser [("type", .str "webauthn.get"), ("challenge", .num "1"), ("origin", .str "o")] = none
    ∧ reser [("type", .str "webauthn.other"), ("challenge", .str "AA"), ("origin", .str "o")] = none
    ∧ reser [("type", .str "webauthn.get"), ("challenge", .str "AA"), ("origin", .str "o"), ("crossOrigin", .str "true")] = none
    ∧ (reser [("z", .num "1"), ("origin", .str "o"), ("a", .null), ("challenge", .str "AA"), ("z", .num "2"), ("type", .str "payment.get")]).map
        (fun out => membersBeq out [("type", .str "payment.get"), ("challenge", .str "AA"), ("origin", .str "o"), ("crossOrigin", .bool false),
          ("z", .num "2"), ("a", .null)]) = some true := by
  decide +kernel

end ClientData

end PasskeyVerif.C14
