/-
C14 — WebAuthn JSON parses leniently, re-parses when emitted, client data keeps order.
Property theorems only.  Proved for all byte strings / all texts: the base64 round trips, the agreement of
the presentations of a binary member and of a number under the models of the `Bytes` visitor and of
`StringOrNum`, and the member order of re-serialised client data.  The struct-level statements (every
presentation of a whole options value — with injected unknown members, enumeration strings and list
entries — parses to the same value; emitted credentials re-parse to an equal value) are serde-derived
code over those leaves: they are checked on the real parser by the stream (PARTIAL), as are the leaf
models themselves (compared on every leaf input).
-/
import PasskeyVerif.Lemmas.Base64
import PasskeyVerif.Model.WebauthnJson
namespace PasskeyVerif.C14
open PasskeyVerif PasskeyVerif.Json PasskeyVerif.WJson

/-- **base64url encoding followed by decoding is the identity on all byte strings.** -/
theorem C14_base64url_roundtrip (bs : List UInt8) : Base64.decodeLenient (Base64.encodeUrl bs) = some bs :=
  Base64.decodeLenient_encodeUrl bs

/-- the emitted text is unpadded and uses only the url-safe alphabet -/
theorem C14_base64url_alphabet (bs : List UInt8) :
    ∀ c ∈ (Base64.encodeUrl bs).toList, c ≠ '=' ∧ c ≠ '+' ∧ c ≠ '/' := by
  unfold Base64.encodeUrl
  rw [String.toList_ofList, Base64.encodeChars_eq]
  intro c hc
  obtain ⟨v, hv, rfl⟩ := List.mem_map.mp hc
  have hlt := Base64.sextets_lt bs v hv
  have key : ∀ k : Fin 64, Base64.sextet true k.val ≠ '=' ∧ Base64.sextet true k.val ≠ '+' ∧ Base64.sextet true k.val ≠ '/' := by decide +kernel
  exact key ⟨v, hlt⟩

/-- number tokens denoting the byte values, pairwise -/
def Denote : List String → List UInt8 → Prop
  | [], [] => True
  | t :: ts, b :: bs => parseDecimal t.toList false = .int (b.toNat : Int) ∧ Denote ts bs
  | _, _ => False

/-- **A binary member parses to the same bytes in every presentation**: base64url text, standard base64
text with any amount of padding (including none), and an array of number tokens denoting the byte values. -/
theorem C14_binary_presentations (bs : List UInt8) (k : Nat) (tokens : List String) (h : Denote tokens bs) :
    bytesOf (.str (Base64.encodeUrl bs)) = some bs
    ∧ bytesOf (.str (String.ofList (Base64.encodeChars false bs ++ List.replicate k '='))) = some bs
    ∧ bytesOf (.arr (tokens.map Json.num)) = some bs := by
  refine ⟨Base64.decodeLenient_encodeUrl bs, Base64.decodeLenient_encodeStd bs k, ?_⟩
  unfold bytesOf
  induction tokens generalizing bs with
  | nil => cases bs with
    | nil => rfl
    | cons b r => exact absurd h (by simp [Denote])
  | cons t ts ih =>
    cases bs with
    | nil => exact absurd h (by simp [Denote])
    | cons b rest =>
      obtain ⟨h0, hr⟩ := h
      have := ih rest hr
      simp only at this
      simp only [List.map_cons, List.mapM_cons, h0]
      have hb : (0 : Int) ≤ (b.toNat : Int) ∧ (b.toNat : Int) ≤ 255 := ⟨by omega, by have := b.toNat_lt; omega⟩
      simp only [hb.1, hb.2, and_self, if_true]
      rw [this]
      simp

/-- **A number parses to the same value as a number token, as a numeric string and as an integral float**:
whenever the token and the text denote the value `v` of the target range (as integer or as a float whose
truncation is `v`), both are accepted with that value. -/
theorem C14_number_presentations (s t : String) (lo hi v : Int) (hr : lo ≤ v ∧ v ≤ hi)
    (hs : ofToken s = .int v ∨ ofToken s = .float v) (ht : ofText t lo hi = .int v ∨ ofText t lo hi = .float v) :
    numOf (.num s) lo hi = some (some v) ∧ numOf (.str t) lo hi = some (some v) := by
  unfold numOf finish
  rcases hs with hs | hs <;> rcases ht with ht | ht <;> simp [hs, ht, hr.1, hr.2]

/-- a value outside the target's range, or a text that is no number, is an error in every presentation -/
theorem C14_number_out_of_range (s : String) (lo hi v : Int) (hr : ¬(lo ≤ v ∧ v ≤ hi)) (hs : ofToken s = .int v ∨ ofToken s = .float v) :
    numOf (.num s) lo hi = some none := by
  unfold numOf finish
  rcases hs with hs | hs <;> simp [hs, hr]

/-- concrete presentations of one timeout (the texts as character lists, evaluated by the kernel) -/
example : parseDecimal ['6', '0', '0', '0', '0'] false = .int 60000
    ∧ parseDecimal ['6', '0', '0', '0', '0', '.', '0'] false = .float 60000
    ∧ parseDecimal ['6', 'e', '4'] false = .float 60000
    ∧ parseDecimal ['6', '.', '0', '0', 'E', '+', '0', '4'] true = .float 60000
    ∧ parseDecimal ['-', '7', '.', '0'] false = .float (-7)
    ∧ parseDecimal ['1', '.', '9'] false = .float 1
    ∧ parseDecimal ['1', 'e'] false = .bad := by decide

/-- **Client data member order**: a re-serialised `CollectedClientData` starts with type, challenge,
origin, crossOrigin in that order, followed by every other member of the input in its original order. -/
theorem C14_client_data_order (keys : List String) :
    (clientDataOrder keys).take 4 = ["type", "challenge", "origin", "crossOrigin"]
    ∧ (clientDataOrder keys).drop 4 = keys.filter (fun k => !["type", "challenge", "origin", "crossOrigin"].contains k)
    ∧ ((clientDataOrder keys).drop 4).Sublist keys := by
  refine ⟨rfl, rfl, ?_⟩
  show (keys.filter _).Sublist keys
  exact List.filter_sublist

end PasskeyVerif.C14
