/-
C18 — The sealed CTAP2 API trait behaves exactly like the direct authenticator methods.
Property theorems only.  The three trait methods are one-line forwardings; what has to hold is that each
forwarding reaches the *inherent* method of the same name with the same arguments (and not the trait
method itself, which is what an `&self` receiver or a missing bound makes method-call syntax resolve to).
The facts are regenerated from the Rust sources on every run (translate/ctapapi.py); `reachesInherent` is a
model of the relevant part of Rust's method lookup.  Termination and equality of results and store effects
are then checked on the real code: every operation of the stream is run through the trait, in a worker
process with a time limit, and compared with the model of the direct methods.
-/
import PasskeyVerif.Generated.CtapApi
namespace PasskeyVerif.C18
open PasskeyVerif.Generated.CtapApi

/-- does the body's call reach the inherent method `callee` of `Authenticator`?
* `Authenticator::m(self, ..)`: a path to an associated function prefers the inherent one; it type-checks
  only if the receiver can be lent (`&mut self` lends `&mut` and `&`, `&self` lends `&` only) and the
  inherent impl's bounds hold;
* `self.m(..)`: the lookup starts at the type of `self` (`&A` or `&mut A`) and takes, at the first step
  where some candidate's receiver type matches, the inherent candidate if there is one whose impl bounds
  hold, otherwise the trait method — i.e. itself — so the inherent method is reached exactly when its
  receiver is the trait method's and its bounds are available. -/
def reachesInherent (f : Fwd) : Bool :=
  f.callee == f.name && f.argsForwarded && f.inherentRecv != .none
    && (!f.needsItemBound || implHasItemBound)
    && (match f.form with
        | .path => (f.traitRecv == .mutRef && (f.inherentRecv == .mutRef || f.inherentRecv == .ref))
                    || (f.traitRecv == .ref && f.inherentRecv == .ref)
        | .method => f.traitRecv == f.inherentRecv)

/-- **Each of getInfo, makeCredential and getAssertion forwards to the inherent method of that name with
its parameters unchanged** (so it terminates whenever the direct method does and returns its result). -/
theorem C18_trait_forwards_to_direct_methods :
    forwards.map (·.name) = ["get_info", "make_credential", "get_assertion"]
    ∧ forwards.all reachesInherent = true := by decide

/-- the lookup model rejects the forwarding that was there before the repair (`&self` trait method calling
`self.get_assertion(..)` whose inherent counterpart takes `&mut self` and needs the item bound) -/
example : reachesInherent ⟨"get_assertion", .ref, .method, "get_assertion", true, .mutRef, true⟩ = false := by decide

end PasskeyVerif.C18
