/-
C05 — Credentials are used only for their own RP and as the allow / exclude lists say.
Property theorems only. The authenticator half holds for every store keeping the documented lookup
contract; the contract is proved for the reference store and the (repaired) single-slot store and
refuted, with a concrete witness, for the in-memory map (a known finding, see known_findings.json).
-/
import PasskeyVerif.Lemmas.StoreContract
namespace PasskeyVerif.C05
open PasskeyVerif.Auth PasskeyVerif.Auth.Spec
open PasskeyVerif.AuthData (Bytes)

/-- **The reference store keeps the contract.** -/
theorem C05_reference_store_contract (d : Disc) (items : List Passkey) (ids : Option (List Bytes)) (rp : Bytes) :
    findRaw (.reference d) items ids rp = contract items ids rp := contract_of_found _ _ _ _ rfl

/-- **The single-slot store (`Option<Passkey>`, as repaired) keeps the contract**, holding nothing or one passkey. -/
theorem C05_single_slot_contract (slot : Option Passkey) (ids : Option (List Bytes)) (rp : Bytes) :
    findRaw .singleSlot slot.toList ids rp = contract slot.toList ids rp := by
  apply contract_of_found
  cases slot with
  | none =>
    cases ids with
    | none => rfl
    | some l =>
      unfold foundRaw contractFound
      simp only [Option.toList, List.head?_nil, List.filter_nil]
      have : l.findSome? (fun id => (none : Option Passkey).filter (fun p => p.credId == id && p.rpId == rp)) = none := by
        induction l with
        | nil => rfl
        | cons a as ih => rw [List.findSome?_cons]; exact ih
      rw [this]
  | some p =>
    cases ids with
    | none =>
      unfold foundRaw contractFound
      cases hrp : (p.rpId == rp) <;> simp [Option.toList, Option.filter, hrp]
    | some l =>
      unfold foundRaw contractFound
      simp only [Option.toList, List.head?_cons]
      rw [findSome_slot]
      cases hc : (p.rpId == rp && l.any (· == p.credId)) <;> simp [hc]

/-- **The in-memory map does not keep the contract** (known finding): it returns a credential bound to
another RP when its id is listed, and finds nothing without an id list although the RP has a credential. -/
theorem C05_memory_map_breaks_contract :
    foundRaw .memoryMap [⟨[1], [97], none, none, ⟨[], [], []⟩, none⟩] (some [[1]]) [98]
        ≠ contractFound [⟨[1], [97], none, none, ⟨[], [], []⟩, none⟩] (some [[1]]) [98]
      ∧ foundRaw .memoryMap [⟨[1], [97], none, none, ⟨[], [], []⟩, none⟩] none [97]
        ≠ contractFound [⟨[1], [97], none, none, ⟨[], [], []⟩, none⟩] none [97] := by
  decide

/-- **Assertion uses the lookup** — for every store, configuration and request: a successful assertion
is made with the first credential returned by a lookup for the request's RP ID and its non-empty allow
list (an empty list is treated as absent). -/
theorem C05_assert_uses_lookup (cfg : Cfg) (u : UvCfg) (s : Store) (req : GetReq) (sig : Bytes) :
    c05_assert_uses_lookup req (obsOfGet (getAssertion cfg u s req) sig) = true := by
  unfold getAssertion
  dsimp only
  by_cases hpin : req.pinAuth = true
  · simp [hpin, c05_assert_uses_lookup, obsOfGet]
  · rw [if_neg hpin]
    by_cases hrk : req.rk = true
    · simp [hrk, c05_assert_uses_lookup, obsOfGet]
    · rw [if_neg hrk]
      cases hc : checkUser u req.up req.uv (shownOf (firstCred (s.find (allowIds req) req.rpId).1)) with
      | mk r ev =>
        cases r with
        | error e => simp [c05_assert_uses_lookup, obsOfGet]
        | ok flags =>
          dsimp only
          cases hm : firstCred (s.find (allowIds req) req.rpId).1 with
          | error c => simp [c05_assert_uses_lookup, obsOfGet]
          | ok cred =>
            dsimp only
            unfold c05_assert_uses_lookup obsOfGet
            simp only [Outcome.prepend]
            cases hr : (getAfterConsent cfg (s.find (allowIds req) req.rpId).2.1 req flags cred).result with
            | error e => simp
            | ok r =>
              obtain ⟨_, hid, _⟩ := getAfterConsent_ok _ _ _ _ _ _ hr
              dsimp only
              cases hv : r.authData.toVec with
              | none => simp
              | some bs =>
                -- the first event is the lookup, and `cred` is its first result
                unfold firstCred at hm
                cases hf : (s.find (allowIds req) req.rpId).1 with
                | error e => rw [hf] at hm; cases hm
                | ok l =>
                  rw [hf] at hm
                  cases l with
                  | nil => cases hm
                  | cons p rest =>
                    simp only [Except.ok.injEq] at hm
                    subst hm
                    simp only [List.cons_append, List.map_cons, List.any_cons]
                    have hev : evObsOf (s.find (allowIds req) req.rpId).2.2
                        = .find (allowIds req) req.rpId (.ok ((p :: rest).map (·.credId))) := by
                      unfold Store.find at hf ⊢
                      dsimp only at hf ⊢
                      rw [hf]; rfl
                    rw [hev]
                    simp only [List.map_cons, beq_self_eq_true, Bool.true_and, hid]
                    have hA : (match req.allowList with
                        | some l => if l.isEmpty = true then (allowIds req).isNone else allowIds req == some l
                        | none => (allowIds req).isNone) = true := by
                      unfold allowIds
                      cases req.allowList with
                      | none => rfl
                      | some l => cases l <;> simp
                    rw [Bool.or_eq_true]
                    exact Or.inl hA

/-- **With a store keeping the contract** (no fault injected at the lookup): the credential a successful
assertion is made with is a stored credential bound to the request's RP ID and, when a non-empty allow
list is supplied, named in it; it is the first such credential the store lists. -/
theorem C05_assert_bound (cfg : Cfg) (u : UvCfg) (s : Store) (req : GetReq) (r : GetResp)
    (hcontract : ∀ ids rp, findRaw s.kind s.items ids rp = contract s.items ids rp)
    (hnofault : s.fault? = none)
    (h : (getAssertion cfg u s req).result = .ok r) :
    ∃ p rest, contract s.items (allowIds req) req.rpId = .ok (p :: rest) ∧ r.credId = p.credId ∧ p ∈ s.items
      ∧ p.rpId = req.rpId ∧ (∀ l, req.allowList = some l → l ≠ [] → r.credId ∈ l) := by
  unfold getAssertion at h
  dsimp only at h
  split at h
  · cases h
  · split at h
    · cases h
    · split at h
      · cases h
      · rename_i flags ev2 hc
        have hfind : (s.find (allowIds req) req.rpId).1 = contract s.items (allowIds req) req.rpId := by
          unfold Store.find; simp only [hnofault]; exact hcontract _ _
        split at h
        · cases h
        · rename_i cred hm
          simp only [Outcome.prepend] at h
          obtain ⟨_, hid, _⟩ := getAfterConsent_ok _ _ _ _ _ _ h
          rw [hfind] at hm
          unfold firstCred at hm
          cases hcon : contract s.items (allowIds req) req.rpId with
          | error e => rw [hcon] at hm; cases hm
          | ok l =>
            rw [hcon] at hm
            cases l with
            | nil => cases hm
            | cons p rest =>
              simp only [Except.ok.injEq] at hm
              subst hm
              refine ⟨p, rest, rfl, hid, ?_⟩
              -- `p` passed the contract's filter
              unfold contract at hcon
              split at hcon
              · cases hcon
              · simp only [Except.ok.injEq] at hcon
                have hmem : p ∈ s.items.filter (fun q => q.rpId == req.rpId &&
                    (match allowIds req with | none => true | some l => l.any (· == q.credId))) := by
                  show p ∈ contractFound s.items (allowIds req) req.rpId
                  rw [hcon]; exact List.mem_cons_self
                obtain ⟨hin, hp⟩ := List.mem_filter.mp hmem
                simp only [Bool.and_eq_true, beq_iff_eq] at hp
                refine ⟨hin, hp.1, ?_⟩
                intro l hl hne
                have hids : allowIds req = some l := by
                  unfold allowIds; rw [hl]
                  cases l with
                  | nil => exact absurd rfl hne
                  | cons a as => rfl
                have := hp.2
                rw [hids] at this
                simp only [List.any_eq_true, beq_iff_eq] at this
                obtain ⟨x, hx, hxe⟩ := this
                rw [hid, ← hxe]; exact hx

/-- **Exclusion, exactly when** (store keeping the contract, no injected faults): after consent,
registration fails with credential-excluded iff a non-empty exclude list names a stored credential bound
to the same RP; in that case nothing is saved and the store content is unchanged. -/
theorem C05_excluded_iff (cfg : Cfg) (s : Store) (dr : Draws) (req : MakeReq) (flags : UInt8)
    (hcontract : ∀ ids rp, findRaw s.kind s.items ids rp = contract s.items ids rp)
    (hnf : s.faults = []) :
    ((makeAfterConsent cfg s dr req flags).result = .error eCredentialExcluded
      ↔ ∃ l, req.excludeList = some l ∧ l ≠ [] ∧ ∃ p ∈ s.items, p.rpId = req.rpId ∧ p.credId ∈ l)
    ∧ ((makeAfterConsent cfg s dr req flags).result = .error eCredentialExcluded →
        (makeAfterConsent cfg s dr req flags).store.items = s.items
        ∧ ∀ e ∈ (makeAfterConsent cfg s dr req flags).trace, isEffect (evObsOf e) = false) := by
  have hnofault : s.fault? = none := fault_none_of_nofaults s hnf
  -- what the exclude phase decides
  have hex : (excludePhase s req).1 = true
      ↔ ∃ l, req.excludeList = some l ∧ l ≠ [] ∧ ∃ p ∈ s.items, p.rpId = req.rpId ∧ p.credId ∈ l := by
    unfold excludePhase
    cases hl : req.excludeList with
    | none => simp
    | some l =>
      by_cases hemp : l.isEmpty = true
      · simp only [hemp, if_true]
        have : l = [] := by simpa using hemp
        simp [this]
      · simp only [hemp, Bool.false_eq_true, if_false]
        have hfind : (s.find (some l) req.rpId).1 = contract s.items (some l) req.rpId := by
          unfold Store.find; simp only [hnofault]; exact hcontract _ _
        rw [hfind]
        unfold contract
        have hne : l ≠ [] := by intro e; apply hemp; simp [e]
        by_cases hm : (contractFound s.items (some l) req.rpId).isEmpty = true
        · simp only [hm, if_true]
          constructor
          · intro h; cases h
          · rintro ⟨l', hl', _, p, hp, hrp, hid⟩
            cases hl'
            exfalso
            have : p ∈ contractFound s.items (some l) req.rpId := by
              unfold contractFound
              rw [List.mem_filter]
              refine ⟨hp, ?_⟩
              simp only [Bool.and_eq_true, beq_iff_eq, List.any_eq_true]
              exact ⟨hrp, p.credId, hid, rfl⟩
            rw [List.isEmpty_iff] at hm
            rw [hm] at this; cases this
        · simp only [hm, Bool.false_eq_true, if_false, Bool.not_false, true_iff]
          have hne2 : contractFound s.items (some l) req.rpId ≠ [] := by
            intro e; apply hm; simp [e]
          obtain ⟨p, hp⟩ := List.exists_mem_of_ne_nil _ hne2
          unfold contractFound at hp
          obtain ⟨hin, hpp⟩ := List.mem_filter.mp hp
          simp only [Bool.and_eq_true, beq_iff_eq, List.any_eq_true] at hpp
          obtain ⟨hrp, x, hx, hxe⟩ := hpp
          exact ⟨l, rfl, hne, p, hin, hrp, by rw [← hxe]; exact hx⟩
  have hres := makeAfterConsent_excluded_iff cfg s dr req flags hnf
  refine ⟨hres.trans hex, ?_⟩
  intro h
  have he := hres.mp h
  unfold makeAfterConsent
  dsimp only
  rw [if_pos he]
  exact ⟨excludePhase_items s req, excludePhase_no_effect s req⟩

end PasskeyVerif.C05
