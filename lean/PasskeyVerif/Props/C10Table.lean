/-
C10 — kernel-checked obligations on the files regenerated from /repo (translate/psl.py):
`TABLE` from public-suffix/src/tld_list.rs, `RULES` from public-suffix/public_suffix_list.dat.
Re-checked by the kernel whenever either file changes. Property theorems only.
-/
import PasskeyVerif.Lemmas.PslDecode
import PasskeyVerif.Model.PslDefault
namespace PasskeyVerif.C10Table
open PasskeyVerif.Psl PasskeyVerif.Psl.Spec

/- The packed table decodes (all indices in range, every child range strictly sorted by label, no
exception node among the TLDs) to a label trie whose rules, in canonical order, are exactly the rules
of `public_suffix_list.dat`. -/
set_option maxRecDepth 1000000 in
theorem C10_table_is_the_rule_list : (decodeTable TABLE 8).map Forest.rules = some RULES := by
  decide +kernel

end PasskeyVerif.C10Table
