/-
C01 — RP ID is bound to the origin at a label boundary and is a registrable domain.
Property theorems only.  Model: Model/RpId.lean (RpIdVerifier of passkey-client/src/lib.rs, tied to the
code by the correspondence stream); specification: Spec/RpId.lean; default provider via C10.
-/
import PasskeyVerif.Lemmas.RpId
namespace PasskeyVerif.C01
open PasskeyVerif.RpId
open PasskeyVerif.Psl (Str dot)

/-- **Soundness of acceptance**, for every verifier configuration (any suffix provider, any IDNA
function, localhost flag on or off), every origin and every requested RP ID: an accepted pair yields
exactly the effective RP ID (the one supplied, otherwise the host), which equals the host or is a
suffix of it beginning at a label boundary; web origins have a DNS host name and, unless the RP ID is
the literal `localhost` with the flag on, are HTTPS and the RP ID is registrable per the provider. -/
theorem C01_sound (v : Verifier) (o : Origin) (rp : Option Str) (d : Str)
    (h : assertDomain v o rp = .ok d) : Spec.Accepted v.allowLocalhost (registrable v) o rp d := by
  unfold assertDomain at h
  cases o with
  | web scheme domain =>
    unfold assertWebRpId at h
    cases domain with
    | none => cases h
    | some host =>
      dsimp only at h
      have hstep : ∀ eff, (match assertValidRpId v eff with
            | some r => r
            | none => if (!eqIgnoreAsciiCase scheme https) = true then Except.error WErr.unprotectedOrigin
                      else Except.ok eff) = Except.ok d →
          d = eff ∧ ((d = localhost ∧ v.allowLocalhost = true)
            ∨ (eqIgnoreAsciiCase scheme https = true ∧ registrable v d = true)) := by
        intro eff he
        unfold assertValidRpId at he
        by_cases hl : eff = localhost
        · rw [if_pos hl] at he
          by_cases ha : v.allowLocalhost = true
          · rw [if_pos ha] at he
            cases he
            exact ⟨rfl, Or.inl ⟨hl, ha⟩⟩
          · rw [if_neg ha] at he; cases he
        · rw [if_neg hl] at he
          by_cases hr : registrable v eff = true
          · simp only [hr, Bool.not_true, Bool.false_eq_true, if_false] at he
            by_cases hs : eqIgnoreAsciiCase scheme https = true
            · simp only [hs, Bool.not_true, Bool.false_eq_true, if_false] at he
              cases he
              exact ⟨rfl, Or.inr ⟨hs, hr⟩⟩
            · have : eqIgnoreAsciiCase scheme https = false := by simpa using hs
              simp [this] at he
          · have : registrable v eff = false := by simpa using hr
            simp [this] at he
      show ∃ h0, some host = some h0 ∧ _
      refine ⟨host, rfl, ?_⟩
      cases rp with
      | none =>
        obtain ⟨h1, h2⟩ := hstep host h
        exact ⟨h1, by rw [h1]; exact labelSuffix_refl host, h2⟩
      | some r =>
        dsimp only at h
        by_cases he : RpId.hasEmptyLabel r = true
        · rw [if_pos he] at h; cases h
        · rw [if_neg he] at h
          by_cases hsuf : isEqualOrLabelSuffix host r = true
          · simp only [hsuf, Bool.not_true, Bool.false_eq_true, if_false] at h
            obtain ⟨h1, h2⟩ := hstep r h
            exact ⟨h1, by rw [h1]; exact labelSuffix_of_check host r hsuf, h2⟩
          · have : isEqualOrLabelSuffix host r = false := by simpa using hsuf
            simp [this] at h
  | android host =>
    unfold assertAndroidRpId at h
    dsimp only at h
    have hstep : ∀ eff, (if (!registrable v eff) = true then Except.error WErr.invalidRpId else Except.ok eff)
          = Except.ok d → d = eff ∧ registrable v d = true := by
      intro eff he
      by_cases hr : registrable v eff = true
      · simp only [hr, Bool.not_true, Bool.false_eq_true, if_false] at he
        cases he; exact ⟨rfl, hr⟩
      · have : registrable v eff = false := by simpa using hr
        simp [this] at he
    show d = rp.getD host ∧ _
    cases rp with
    | none =>
      obtain ⟨h1, h2⟩ := hstep host h
      exact ⟨h1, by rw [h1]; exact labelSuffix_refl host, h2⟩
    | some r =>
      dsimp only at h
      by_cases he : RpId.hasEmptyLabel r = true
      · rw [if_pos he] at h; cases h
      · rw [if_neg he] at h
        by_cases hsuf : isEqualOrLabelSuffix host r = true
        · simp only [hsuf, Bool.not_true, Bool.false_eq_true, if_false] at h
          obtain ⟨h1, h2⟩ := hstep r h
          exact ⟨h1, by rw [h1]; exact labelSuffix_of_check host r hsuf, h2⟩
        · have : isEqualOrLabelSuffix host r = false := by simpa using hsuf
          simp [this] at h

/-- **Default provider**: "registrable" is exactly "no empty label and more labels than the public
suffix the PSL algorithm gives over the shipped rule list" — for every (ASCII form of a) name. -/
theorem C01_default_registrable (a : Str) :
    defaultProvider a = Spec.registrableUnder Psl.RULES a := defaultProvider_eq a

/-- **Public suffixes are rejected**: with the default provider, whatever the origin and the requested
RP ID, a name whose ASCII form is a public suffix of the shipped list (or has an empty label) is never
the accepted RP ID — unless it is the literal `localhost` with the flag on. -/
theorem C01_public_suffix_rejected (v : Verifier) (hv : v.provider = defaultProvider)
    (o : Origin) (rp : Option Str) (d a : Str) (ha : v.toAscii d = some a)
    (hps : Spec.registrableUnder Psl.RULES a = false)
    (h : assertDomain v o rp = .ok d) : d = localhost ∧ v.allowLocalhost = true ∧ ∃ s dm, o = .web s dm := by
  have hs := C01_sound v o rp d h
  have hreg : registrable v d = false := by
    unfold registrable; rw [ha, hv]; dsimp only; rw [defaultProvider_eq]; exact hps
  cases o with
  | web scheme domain =>
    obtain ⟨host, _, _, _, hc⟩ := hs
    rcases hc with ⟨h1, h2⟩ | ⟨_, h2⟩
    · exact ⟨h1, h2, scheme, domain, rfl⟩
    · rw [hreg] at h2; cases h2
  | android host =>
    obtain ⟨_, _, h2⟩ := hs
    rw [hreg] at h2; cases h2

/-- a character-level suffix that is not label-aligned is never accepted (the repaired defect),
e.g. origin host `evilexample.com` with RP ID `example.com` -/
theorem C01_not_label_aligned_rejected (v : Verifier) (o : Origin) (host r d : Str)
    (ho : o = .web https (some host) ∨ o = .android host)
    (hne : host ≠ r) (hnb : ∀ p, host ≠ p ++ dot :: r) :
    assertDomain v o (some r) ≠ .ok d := by
  intro h
  have hs := C01_sound v o (some r) d h
  rcases ho with ho | ho <;> subst ho
  · obtain ⟨h0, hh, hd, hl, _⟩ := hs
    cases hh
    simp only [Option.getD_some] at hd
    subst hd
    rcases hl with hl | ⟨p, hp⟩
    · exact hne hl
    · exact hnb p hp
  · obtain ⟨hd, hl, _⟩ := hs
    simp only [Option.getD_some] at hd
    subst hd
    rcases hl with hl | ⟨p, hp⟩
    · exact hne hl
    · exact hnb p hp

/-! non-vacuity: concrete accepted and rejected pairs (provider accepting everything, identity IDNA) -/
def vAll : Verifier := { allowLocalhost := false, provider := fun _ => true, toAscii := some }
-- host "b.a", RP ID "a": accepted, yields "a"
example : assertDomain vAll (.web https (some [98, 46, 97])) (some [97]) = .ok [97] := by rfl
-- host "ba", RP ID "a": a character-level suffix, rejected
example : assertDomain vAll (.web https (some [98, 97])) (some [97]) = .error .originRpMissmatch := by rfl
-- scheme "http": rejected
example : assertDomain vAll (.web [104, 116, 116, 112] (some [98, 46, 97])) none = .error .unprotectedOrigin := by rfl

end PasskeyVerif.C01
