/-
C11 — Discoverability follows request and store capability and is reported truthfully.
Property theorems only.  `webauthnRk`, `discoverableUnder`, `refusesResidentKeys` are the statement's
tables (Spec); the theorems are about the client model (`Client.register`, `Client.authenticate`) and the
authenticator model (`makeCredential`, `getAssertion`), for every store content, capability, request,
user-validation behaviour and injected store fault.
-/
import PasskeyVerif.Lemmas.AuthRk
import PasskeyVerif.Lemmas.AuthKeep
import PasskeyVerif.Spec.Client
namespace PasskeyVerif.C11
open PasskeyVerif PasskeyVerif.Auth PasskeyVerif.Auth.Spec PasskeyVerif.Client PasskeyVerif.Spec.Client
open PasskeyVerif.AuthData (Bytes AuthData)

/-- **The mapping**: the client's `map_rk` is the WebAuthn table, for every selection and capability. -/
theorem C11_rk_mapping (sel : Option Selection) (capable : Bool) : mapRk sel capable = webauthnRk sel capable := by
  cases sel with
  | none => rfl
  | some s => cases s with
    | mk rk rrk uv => cases rk with
      | none => rfl
      | some k => cases k <;> rfl

/-- the table, row by row -/
theorem C11_rk_rows (rrk : Bool) (uv : UvReq) (capable : Bool) :
    mapRk (some ⟨some .required, rrk, uv⟩) capable = true
    ∧ mapRk (some ⟨some .preferred, rrk, uv⟩) capable = capable
    ∧ mapRk (some ⟨some .discouraged, rrk, uv⟩) capable = false
    ∧ mapRk (some ⟨none, rrk, uv⟩) capable = rrk
    ∧ mapRk none capable = false := ⟨rfl, rfl, rfl, rfl, rfl⟩

/-- the capability reported by `get_info` is "resident keys are not refused" -/
theorem C11_capability_reported (cfg : Cfg) (u : UvCfg) (s : Store) :
    (getInfo cfg u s).1.2.1 = !refusesResidentKeys s.kind := by
  unfold getInfo refusesResidentKeys Store.info
  cases discOf s.kind <;> rfl

/-- **CTAP registration**: whatever `make_credential` hands to the store carries the user handle exactly
when the credential is discoverable under the store's capability (full: as requested; non-discoverable
only: never; forced: always), together with the request's own rk option; and nothing is handed to a
store that holds only non-discoverable credentials when a resident key was asked for. -/
theorem C11_make_stores_handle_iff_discoverable (cfg : Cfg) (u : UvCfg) (s : Store) (dr : Draws) (req : MakeReq)
    (p : Passkey) (uid : Bytes) (rk up uv : Bool) (f : Option Nat)
    (h : Event.save p uid rk up uv f ∈ (makeCredential cfg u s dr req).trace) :
    p.userHandle = (if discoverableUnder s.kind req.rk then some req.userId else none)
      ∧ uid = req.userId ∧ rk = req.rk ∧ ¬(req.rk = true ∧ refusesResidentKeys s.kind = true) := by
  obtain ⟨⟨stored, hp⟩, h2, h3, h4⟩ := save_of_makeCredential _ _ _ _ _ _ _ _ _ _ _ h
  refine ⟨?_, h2, h3, by simpa using h4⟩
  subst hp
  unfold newPasskey discoverableUnder
  cases discOf s.kind <;> cases req.rk <;> rfl

/-- **A required resident key is refused** by a store that holds only non-discoverable credentials:
no success, nothing saved. -/
theorem C11_make_refused (cfg : Cfg) (u : UvCfg) (s : Store) (dr : Draws) (req : MakeReq)
    (hrk : req.rk = true) (hs : refusesResidentKeys s.kind = true) :
    (∀ r, (makeCredential cfg u s dr req).result ≠ .ok r)
      ∧ ∀ p uid rk up uv f, Event.save p uid rk up uv f ∉ (makeCredential cfg u s dr req).trace := by
  have hno : ∀ p uid rk up uv f, Event.save p uid rk up uv f ∉ (makeCredential cfg u s dr req).trace := by
    intro p uid rk up uv f hm
    exact (C11_make_stores_handle_iff_discoverable _ _ _ _ _ _ _ _ _ _ _ hm).2.2.2 ⟨hrk, hs⟩
  refine ⟨?_, hno⟩
  intro r hr
  obtain ⟨p, hp⟩ := save_exists_of_makeCredential_ok _ _ _ _ _ _ hr
  exact hno _ _ _ _ _ _ hp

/-- ... and once the earlier steps pass (consent, exclude list, algorithm) the refusal is CTAP2_ERR_UNSUPPORTED_OPTION -/
theorem C11_make_refused_code (cfg : Cfg) (s : Store) (dr : Draws) (req : MakeReq) (flags : UInt8) (alg : Int)
    (hrk : req.rk = true) (hs : refusesResidentKeys s.kind = true)
    (hex : (excludePhase s req).1 = false) (halg : chooseAlgorithm cfg req.algs = .ok alg) :
    (makeAfterConsent cfg s dr req flags).result = .error eUnsupportedOption := by
  unfold makeAfterConsent
  dsimp only
  have := rkPhase_refused (excludePhase s req).2.1 req
  rw [excludePhase_kind, hrk, hs] at this
  simp [hex, halg, this]

/-- **Client registration, end to end**: when `register` succeeds, the store was handed exactly one kind of
credential — with the rk option of the WebAuthn mapping (capability = the store does not refuse resident
keys), holding the user handle exactly when discoverable under the store's capability — and the credProps
output, when requested, says exactly whether it is discoverable; when not requested it is absent. -/
theorem C11_register (v : RpId.Verifier) (cfg : Cfg) (u : UvCfg) (s : Store) (dr : Draws) (origin : RpId.Origin)
    (ostr : String) (req : RegisterReq) (mode : ClientDataMode) (resp : RegisterResp)
    (h : (register v cfg u s dr origin ostr req mode).result = .ok resp) :
    let rkWant := webauthnRk req.selection (!refusesResidentKeys s.kind)
    ¬(rkWant = true ∧ refusesResidentKeys s.kind = true)
    ∧ (∃ p up uv, Event.save p req.userId rkWant up uv none ∈ (register v cfg u s dr origin ostr req mode).trace)
    ∧ (∀ p uid rk up uv f, Event.save p uid rk up uv f ∈ (register v cfg u s dr origin ostr req mode).trace →
        rk = rkWant ∧ uid = req.userId
        ∧ p.userHandle = (if discoverableUnder s.kind rkWant then some req.userId else none))
    ∧ resp.credProps = (if (req.ext.bind (·.credProps)) = some true then some (discoverableUnder s.kind rkWant) else none) := by
  intro rkWant
  unfold register at h ⊢
  dsimp only at h ⊢
  split at h
  · cases h
  · rename_i rp hrp
    split at h
    · cases h
    · rename_i ctapExt hext
      split at h
      · cases h
      · rename_i r hmk
        split at h
        · cases h
        · rename_i ad had
          simp only [Except.ok.injEq] at h
          have hcap : (getInfo cfg u s).1.2.1 = !refusesResidentKeys s.kind := C11_capability_reported cfg u s
          have hkind : (getInfo cfg u s).2.kind = s.kind := rfl
          have hrkw : mapRk req.selection (getInfo cfg u s).1.2.1 = rkWant := by
            rw [hcap, C11_rk_mapping]
          rw [hrkw] at hmk h ⊢
          have hsaves := fun q p uid rk up uv f hm =>
            C11_make_stores_handle_iff_discoverable cfg u (getInfo cfg u s).2 dr q p uid rk up uv f hm
          obtain ⟨p0, hp0⟩ := save_exists_of_makeCredential_ok _ _ _ _ _ _ hmk
          have h0 := hsaves _ _ _ _ _ _ _ hp0
          dsimp only at h0 hp0
          rw [hkind] at h0
          refine ⟨h0.2.2.2, ⟨p0, _, _, List.mem_append_left _ (List.mem_append_right _ hp0)⟩, ?_, ?_⟩
          · intro p uid rk up uv f hm
            simp only [List.mem_append, List.mem_cons, List.not_mem_nil, or_false, reduceCtorEq, false_or] at hm
            rcases hm with hm | hm
            · have := hsaves _ _ _ _ _ _ _ hm
              dsimp only at this
              rw [hkind] at this
              exact ⟨this.2.2.1, this.2.1, this.1⟩
            · unfold Store.info at hm; cases hm
          · rw [← h]
            dsimp only
            have hk2 := makeCredential_kind cfg u (getInfo cfg u s).2 dr
                { cdh := clientDataHash (clientDataJson "webauthn.create" req.challenge ostr mode) mode,
                  rpId := List.map UInt8.ofNat rp, userId := req.userId,
                  algs := if req.algs.isEmpty = true then [-7, -257] else req.algs, excludeList := req.exclude,
                  ext := ctapExt, rk := rkWant, up := true,
                  uv := Option.map (fun x => x.userVerification) req.selection != some UvReq.discouraged,
                  pinAuth := false }
            rw [hkind] at hk2
            have hd : ∀ st : Store, st.kind = s.kind → st.info.1.isDiscoverable rkWant = discoverableUnder s.kind rkWant := by
              intro st hst
              unfold Store.info discoverableUnder
              rw [hst]
              cases discOf s.kind <;> rfl
            rw [hd _ hk2]
            unfold zipContents
            cases hx : req.ext with
            | none => rfl
            | some e =>
              cases hcp : e.credProps with
              | none => simp only [hcp]; split <;> simp [hcp]
              | some b => cases b <;> simp [hcp]

/-- **A required resident key is refused through the client too**: with a store that holds only
non-discoverable credentials, a request whose mapping asks for a resident key never registers. -/
theorem C11_register_refused (v : RpId.Verifier) (cfg : Cfg) (u : UvCfg) (s : Store) (dr : Draws) (origin : RpId.Origin)
    (ostr : String) (req : RegisterReq) (mode : ClientDataMode)
    (hs : refusesResidentKeys s.kind = true) (hrk : webauthnRk req.selection false = true) :
    ∀ resp, (register v cfg u s dr origin ostr req mode).result ≠ .ok resp := by
  intro resp h
  have := (C11_register v cfg u s dr origin ostr req mode resp h).1
  rw [hs] at this
  exact this ⟨hrk, rfl⟩

/-- **CTAP assertion**: the user handle returned is exactly the one the credential used stores (none when
it stores none) — the credential used being the first one of the store's lookup. -/
theorem C11_assert_returns_stored_handle (cfg : Cfg) (u : UvCfg) (s : Store) (req : GetReq) (r : GetResp)
    (h : (getAssertion cfg u s req).result = .ok r) :
    ∃ p rest, (s.find (allowIds req) req.rpId).1 = .ok (p :: rest) ∧ r.credId = p.credId
      ∧ r.userHandle = p.userHandle := by
  unfold getAssertion at h
  dsimp only at h
  split at h
  · cases h
  · split at h
    · cases h
    · split at h
      · cases h
      · split at h
        · cases h
        · rename_i cred hm
          simp only [Outcome.prepend] at h
          obtain ⟨_, hid, huh, _⟩ := getAfterConsent_ok _ _ _ _ _ _ h
          unfold firstCred at hm
          cases hf : (s.find (allowIds req) req.rpId).1 with
          | error e => rw [hf] at hm; cases hm
          | ok l =>
            rw [hf] at hm
            cases l with
            | nil => cases hm
            | cons p rest =>
              simp only [Except.ok.injEq] at hm
              subst hm
              exact ⟨p, rest, rfl, hid, huh⟩

/-- **Client assertion**: `authenticate` passes that on unchanged — the response's user handle is the one
stored with the credential whose id it carries. -/
theorem C11_authenticate_returns_stored_handle (v : RpId.Verifier) (cfg : Cfg) (u : UvCfg) (s : Store)
    (origin : RpId.Origin) (ostr : String) (req : AuthReq) (mode : ClientDataMode) (resp : AuthResp)
    (h : (authenticate v cfg u s origin ostr req mode).result = .ok resp) :
    ∃ (q : GetReq) (p : Passkey) (rest : List Passkey), q.allowList = req.allow
      ∧ ((getInfo cfg u s).2.find (allowIds q) q.rpId).1 = .ok (p :: rest)
      ∧ resp.rawId = p.credId ∧ resp.userHandle = p.userHandle := by
  unfold authenticate at h
  dsimp only at h
  split at h
  · cases h
  · split at h
    · cases h
    · split at h
      · cases h
      · rename_i r hga
        split at h
        · cases h
        · simp only [Except.ok.injEq] at h
          obtain ⟨p, rest, h1, h2, h3⟩ := C11_assert_returns_stored_handle _ _ _ _ _ hga
          refine ⟨_, p, rest, rfl, h1, ?_, ?_⟩
          · rw [← h]; exact h2
          · rw [← h]; exact h3

/-- **What is stored stays stored**: every credential in the store after an assertion has the id and the user
handle of a credential that was there before — an assertion (including its counter write-back) never adds,
drops or changes a stored user handle, so "a handle is stored exactly when the credential was created
discoverable" keeps holding over any history of assertions. -/
theorem C11_assertion_keeps_stored_handles (cfg : Cfg) (u : UvCfg) (s : Store) (req : GetReq) :
    ∀ q ∈ (getAssertion cfg u s req).store.items, ∃ r ∈ s.items, r.credId = q.credId ∧ r.userHandle = q.userHandle :=
  getAssertion_keeps_handles cfg u s req

/-! Non-vacuity: the hypotheses are met by concrete ceremonies. -/

example : refusesResidentKeys (.reference .onlyNonDiscoverable) = true
    ∧ webauthnRk (some ⟨some .required, false, .preferred⟩) false = true := ⟨rfl, rfl⟩

example : discoverableUnder (.reference .full) true = true ∧ discoverableUnder (.reference .full) false = false
    ∧ discoverableUnder (.reference .onlyNonDiscoverable) true = false
    ∧ discoverableUnder (.reference .forcedDiscoverable) false = true ∧ discoverableUnder .memoryMap false = true :=
  ⟨rfl, rfl, rfl, rfl, rfl⟩

end PasskeyVerif.C11
