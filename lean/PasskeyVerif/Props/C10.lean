/-
C10 — Public-suffix lookups agree with the shipped list under the PSL algorithm.
Property theorems only.  `TABLE` and `RULES` are regenerated from /repo/public-suffix/src/tld_list.rs and
/repo/public-suffix/public_suffix_list.dat on every run (translate/psl.py); the model of lib.rs is in
Model/Psl.lean (tied to the code by the correspondence stream); the specification in Spec/Psl.lean.
Every statement is for **all** byte strings.
-/
import PasskeyVerif.Lemmas.PslEtld
import PasskeyVerif.Props.C10Table
import PasskeyVerif.Props.C10Rules
namespace PasskeyVerif.C10
open PasskeyVerif.Psl PasskeyVerif.Psl.Spec

attribute [local irreducible] TABLE RULES

theorem table_decodes : ∃ f, decodeTable TABLE 8 = some f ∧ f.rules = RULES := by
  have h := C10Table.C10_table_is_the_rule_list
  cases hd : decodeTable TABLE 8 with
  | none => rw [hd] at h; cases h
  | some f => rw [hd] at h; exact ⟨f, rfl, Option.some.inj h⟩

/-- **For every byte string, the public suffix computed from the compiled table is the one the
publicsuffix.org algorithm gives over the shipped rule list** — and the lookup does not panic. -/
theorem C10_suffix (d : Str) : publicSuffix TABLE d = some (Spec.publicSuffix RULES d) := by
  obtain ⟨f, hd, hr⟩ := table_decodes
  rw [← hr]; exact publicSuffix_of_decodes TABLE 8 f hd d

/-- **eTLD+1, closed form for every byte string**: names with an empty label are rejected; a name with
no more labels than its public suffix has no eTLD+1; otherwise the result is the public suffix plus
exactly one more label.  (`InvalidPublicSuffix` is never returned.) -/
theorem C10_etld1 (d : Str) :
    effectiveTldPlusOne TABLE d = some
      (if d ≠ [] ∧ Spec.hasEmptyLabel d = true then .error .emptyLabel
       else if (splitDots d).length ≤ suffixLabels RULES (revLabels d) then .error .cannotDeriveETldPlus1
       else .ok (lastLabels (suffixLabels RULES (revLabels d) + 1) d)) := by
  obtain ⟨f, hd, hr⟩ := table_decodes
  rw [← hr]; exact etld1_of_decodes TABLE 8 f hd d

/-- the same, against the specification predicate used as run-time oracle -/
theorem C10_etld1_meets_spec (d : Str) :
    ∃ r, effectiveTldPlusOne TABLE d = some r ∧ Spec.etldPlusOneOk RULES d r = true := by
  obtain ⟨f, hd, hr⟩ := table_decodes
  rw [← hr]; exact etld1_ok_of_decodes TABLE 8 f hd d

/-- names with empty labels (leading, trailing or doubled dot) are rejected with `EmptyLabel` -/
theorem C10_empty_label (d : Str) (hne : d ≠ []) (h : Spec.hasEmptyLabel d = true) :
    effectiveTldPlusOne TABLE d = some (.error .emptyLabel) := by
  rw [C10_etld1, if_pos ⟨hne, h⟩]

theorem C10_is_effective_tld (d : Str) (hne : d ≠ []) :
    isEffectiveTld TABLE d = some (!Spec.hasEmptyLabel d && decide (Spec.publicSuffix RULES d = d)) := by
  obtain ⟨f, hd, hr⟩ := table_decodes
  rw [← hr]; exact isTld_of_decodes TABLE 8 f hd d hne

/-- the PSL algorithm over the shipped list always yields between one label and all labels -/
theorem C10_suffix_label_count (d : Str) :
    1 ≤ suffixLabels RULES (revLabels d) ∧ suffixLabels RULES (revLabels d) ≤ (splitDots d).length := by
  obtain ⟨f, hd, hr⟩ := table_decodes
  obtain ⟨h1, h2, _⟩ := start_of_decodes TABLE 8 f hd d
  rw [hr] at h1 h2
  exact ⟨h1, h2⟩

/-- **Shape**: the public suffix is the last `n` labels of the input for some `1 ≤ n ≤ #labels` — a
suffix of the input cut at a label boundary — and the eTLD+1, when there is one, is the last `n+1`
labels: exactly one more label. -/
theorem C10_shape (d : Str) :
    ∃ n, 1 ≤ n ∧ n ≤ (splitDots d).length
      ∧ publicSuffix TABLE d = some (lastLabels n d)
      ∧ (∃ p, d = p ++ lastLabels n d)
      ∧ splitDots (lastLabels n d) = (splitDots d).drop ((splitDots d).length - n)
      ∧ ∀ x, effectiveTldPlusOne TABLE d = some (.ok x) →
          x = lastLabels (n + 1) d ∧ n + 1 ≤ (splitDots d).length
          ∧ splitDots x = (splitDots d).drop ((splitDots d).length - (n + 1)) := by
  obtain ⟨f, hd, hr⟩ := table_decodes
  obtain ⟨h1, h2, _⟩ := start_of_decodes TABLE 8 f hd d
  rw [hr] at h1 h2
  refine ⟨suffixLabels RULES (revLabels d), h1, h2, C10_suffix d, ?_, splitDots_lastLabels _ d h1, ?_⟩
  · refine ⟨d.take (d.length - sufLen (suffixLabels RULES (revLabels d)) (revLabels d)), ?_⟩
    rw [← drop_eq_lastLabels _ d h1 h2, List.take_append_drop]
  · intro x hx
    rw [C10_etld1] at hx
    by_cases he : d ≠ [] ∧ Spec.hasEmptyLabel d = true
    · rw [if_pos he] at hx; cases hx
    · rw [if_neg he] at hx
      by_cases hL : (splitDots d).length ≤ suffixLabels RULES (revLabels d)
      · rw [if_pos hL] at hx; cases hx
      · rw [if_neg hL] at hx
        have hx' : lastLabels (suffixLabels RULES (revLabels d) + 1) d = x := by
          injection hx with hx; injection hx
        exact ⟨hx'.symm, by omega, by rw [← hx']; exact splitDots_lastLabels _ d (by omega)⟩

/-- **No input string makes a lookup crash** (model outcome `none` = panic or out of fuel). -/
theorem C10_total (d : Str) :
    (publicSuffix TABLE d).isSome ∧ (effectiveTldPlusOne TABLE d).isSome ∧ (isEffectiveTld TABLE d).isSome := by
  refine ⟨by rw [C10_suffix]; rfl, by rw [C10_etld1]; rfl, ?_⟩
  by_cases hne : d = []
  · subst hne
    unfold isEffectiveTld
    rw [C10_suffix]; rfl
  · rw [C10_is_effective_tld d hne]; rfl

/-! non-vacuity: the general theorem (`Lemmas/PslTrie.lean`) is about every trie; here a concrete
three-rule trie (`uk`, `co.uk`, `*.ck`, `!www.ck`) and its walk -/
example :
    let f : Forest := .cons [99, 107] .parentOnly true (.cons [119, 119, 119] .exception false .nil .nil)
      (.cons [117, 107] .normal false (.cons [99, 111] .normal false .nil .nil) .nil)
    f.WF ∧ walkO f false [[117, 107], [99, 111], [120]] = some 2
      ∧ walkO f false [[99, 107], [119, 119, 119]] = some 1 ∧ walkO f false [[99, 107], [120], [121]] = some 2 := by
  refine ⟨?_, rfl, rfl, rfl⟩
  simp [Forest.WF, Forest.labels]

end PasskeyVerif.C10
