/-
C19 — Shared-store concurrency never reuses a counter or loses a credential.
Property theorems only, about the interleaving model (Model/Concurrent.lean): ceremonies on authenticators
sharing one store through the lock wrappers are interleaved call by call (the wrappers lock per call).

Proved for every schedule: no ceremony waits for another (each finishes after at most five of its own
calls), and on the map-like stores no call removes a stored credential id, so every successful
registration's credential is present afterwards.

REFUTED as stated: "successful assertions made with the same credential carry pairwise distinct
counters".  An assertion reports the counter of the snapshot it read at its lookup, whatever the store
holds when it writes back (`C19_assertion_reports_its_snapshot`); two assertions whose lookups both
precede both write-backs therefore report the same counter (`C19_counter_reuse`).  The implementation
shows the same on the real lock wrappers (known finding).  What does hold is the partial statement for
ceremonies that do not overlap (`C19_sequential_counters_partial`).
-/
import PasskeyVerif.Lemmas.Concurrent
namespace PasskeyVerif.C19
open PasskeyVerif.Auth PasskeyVerif.Auth.Spec PasskeyVerif.Conc
open PasskeyVerif.AuthData (Bytes AuthData)

/-- **No deadlock**: under any schedule whatsoever, a ceremony that has been given as many turns as it
has calls left (at most 5 for a registration, 3 for an assertion) has finished — no call of one ceremony
ever waits for another ceremony. -/
theorem C19_no_deadlock (cfg : Cfg) (s : Store) (ts : List Thread) (sched : List Nat) (i : Nat) (t : Thread)
    (h : ts[i]? = some t) (hturns : rank t ≤ sched.count i) :
    ∃ t', (runSched cfg s ts sched).2[i]? = some t' ∧ t'.done = true := by
  obtain ⟨t', h1, h2⟩ := runSched_rank cfg s ts sched i t h
  exact ⟨t', h1, (rank_zero_iff_done t').mp (by omega)⟩

theorem C19_calls_bounded (t : Thread) : rank t ≤ 5 := by cases t <;> simp [rank]

/-- **Every successful registration's credential is present afterwards**: for any number of ceremonies,
any schedule and any map-like store (in-memory map, contract store — behind any lock wrapper), a
registration that ended successfully finds its credential in the final store. -/
theorem C19_registrations_present (cfg : Cfg) (s : Store) (ts : List Thread) (sched : List Nat) (hk : s.kind ≠ .singleSlot)
    (hstart : ∀ t ∈ ts, (∃ req u, t = startGet req u) ∨ (∃ req u dr, t = startMake req u dr))
    (r : MakeResp) (h : Thread.doneMake (.ok r) ∈ (runSched cfg s ts sched).2) :
    ∃ a, r.authData.acd = some a ∧ present a.credId (runSched cfg s ts sched).1.items = true :=
  ((runSched_inv cfg s ts sched hk (inv_of_started s ts hstart)) _ h).1 r rfl

/-- **An assertion reports the counter of the snapshot it read**, advanced by one, whatever the shared
store holds by the time it writes back. -/
theorem C19_assertion_reports_its_snapshot (cfg : Cfg) (s : Store) (req : GetReq) (flags : UInt8) (cred : Passkey) (c : Nat)
    (hc : cred.counter = some c) (r : GetResp)
    (h : (step cfg s (.getUpdate req flags cred)).2 = .doneGet (.ok r)) : r.authData.counter = some (bump c) := by
  simp only [step, Thread.doneGet.injEq] at h
  unfold getAfterConsent at h
  simp only [hc] at h
  split at h
  · cases h
  · simp only [Outcome.prepend] at h
    obtain ⟨h1, _⟩ := signPhase_ok _ _ _ _ _ _ h
    rw [h1]; rfl

/-- **Counter reuse (the statement's counter clause is false of the model)**: two assertions whose lookups
both found credential `p` (counter `c`) before either wrote back report the same counter `c+1`, for any
stores `s1`, `s2` they meet at their write-backs. -/
theorem C19_counter_reuse (cfg : Cfg) (s1 s2 : Store) (req1 req2 : GetReq) (f1 f2 : UInt8) (p : Passkey) (c : Nat)
    (hc : p.counter = some c) (r1 r2 : GetResp)
    (h1 : (step cfg s1 (.getUpdate req1 f1 p)).2 = .doneGet (.ok r1))
    (h2 : (step cfg s2 (.getUpdate req2 f2 p)).2 = .doneGet (.ok r2)) :
    r1.authData.counter = r2.authData.counter ∧ r1.authData.counter = some (bump c) := by
  have a := C19_assertion_reports_its_snapshot cfg s1 req1 f1 p c hc r1 h1
  have b := C19_assertion_reports_its_snapshot cfg s2 req2 f2 p c hc r2 h2
  exact ⟨by rw [a, b], a⟩

/-- ... and both lookups do hand out the same snapshot: a lookup does not change the store content, so a
second lookup before any write-back sees what the first one saw. -/
theorem C19_lookups_share_the_snapshot (cfg : Cfg) (s : Store) (req : GetReq) (u : UvCfg) :
    (step cfg s (.getFind req u)).1.items = s.items ∧ (step cfg s (.getFind req u)).1.kind = s.kind := by
  simp only [step]
  split
  · exact ⟨rfl, rfl⟩
  · split
    · exact ⟨rfl, rfl⟩
    · split <;> exact ⟨rfl, rfl⟩

/-- **Partial: ceremonies that do not overlap.** On a map-like store holding the credential `p` (counter
`c`), a completed assertion leaves exactly `p` with counter `c+1`; a lookup made afterwards returns that
rewritten credential, so (by `C19_assertion_reports_its_snapshot`) the next assertion reports `c+2`: counters of
assertions that run one after the other are distinct and the last one is the stored value.  What is missing
for the full statement is exactly the overlap refuted above. -/
theorem C19_sequential_counters_partial (cfg : Cfg) (s : Store) (p : Passkey) (c : Nat) (req : GetReq) (flags : UInt8) (r : GetResp)
    (hk : s.kind ≠ .singleSlot) (hitems : s.items = [p]) (hc : p.counter = some c)
    (h : (step cfg s (.getUpdate req flags p)).2 = .doneGet (.ok r)) :
    (step cfg s (.getUpdate req flags p)).1.items = [{ p with counter := some (bump c) }]
    ∧ findRaw s.kind [{ p with counter := some (bump c) }] (some [p.credId]) p.rpId = .ok [{ p with counter := some (bump c) }]
    ∧ r.authData.counter = some (bump c) := by
  refine ⟨?_, ?_, C19_assertion_reports_its_snapshot cfg s req flags p c hc r h⟩
  · simp only [step, Thread.doneGet.injEq] at h ⊢
    rcases getAfterConsent_effects cfg s req flags p _ rfl with h1 | ⟨c', l, hc', _, hu, hl⟩ | ⟨c', f, _, _, _, herr⟩
    · rw [hc] at h1; cases h1.2.2
    · rw [hc] at hc'; cases hc'
      rw [hl]
      rw [hitems] at hu
      cases hkind : s.kind with
      | singleSlot => exact absurd hkind hk
      | memoryMap => rw [hkind] at hu; simp [updateRaw] at hu; exact hu.symm
      | reference d => rw [hkind] at hu; simp [updateRaw] at hu; exact hu.symm
    · rw [herr] at h; cases h
  · cases hkind : s.kind with
    | singleSlot => exact absurd hkind hk
    | memoryMap => simp [findRaw, foundRaw]
    | reference d => simp [findRaw, foundRaw]

end PasskeyVerif.C19
