/-
C07 — Failed or cancelled ceremonies leave the credential store consistent.
Property theorems only.  A ceremony's suspension points are its calls to the store and to user
validation, each an event of the model's trace; the store is assumed to perform each call atomically
(it either accepted the save / update or did not).  Cancellation after `j` suspension points leaves the
store reached by replaying the first `j` events (`applyEvents`, Model/AuthCancel.lean).
-/
import PasskeyVerif.Lemmas.AuthCancel
import PasskeyVerif.Model.U2f
namespace PasskeyVerif.C07
open PasskeyVerif.Auth PasskeyVerif.Auth.Spec
open PasskeyVerif.AuthData (Bytes AuthData)

/-- **A registration that returns an error leaves the store content as it was** — for every store kind,
content, request, user-validation behaviour and fault schedule. -/
theorem C07_make_error_store_unchanged (cfg : Cfg) (u : UvCfg) (s : Store) (dr : Draws) (req : MakeReq) (e : Nat)
    (h : (makeCredential cfg u s dr req).result = .error e) : (makeCredential cfg u s dr req).store.items = s.items := by
  rcases makeCredential_effects cfg u s dr req _ rfl with h1 | ⟨_, r, _, _, h3⟩ | ⟨_, _, _, h2, _⟩
  · exact h1.2.1
  · rw [h3] at h; cases h
  · exact h2

/-- **A registration cancelled at any suspension point** leaves either exactly the store before or, in
addition, the one complete new credential — the passkey built from the request, never a partial or
altered record. -/
theorem C07_make_cancelled (cfg : Cfg) (u : UvCfg) (s : Store) (dr : Draws) (req : MakeReq) (j : Nat) :
    applyEvents s.kind s.items ((makeCredential cfg u s dr req).trace.take j) = s.items
    ∨ ∃ stored, applyEvents s.kind s.items ((makeCredential cfg u s dr req).trace.take j)
        = saveRaw s.kind s.items (newPasskey cfg (discOf s.kind) dr req stored) := by
  rcases makeCredential_effects cfg u s dr req _ rfl with h1 | ⟨stored, r, h1, _, _⟩ | ⟨stored, f, h1, _, _⟩
  · rcases applyEvents_take_of_single s.kind s.items _ j Event.info (Or.inl h1.1) with h | h
    · exact Or.inl h
    · exact Or.inl h
  · rcases applyEvents_take_of_single s.kind s.items _ j _ (Or.inr h1) with h | h
    · exact Or.inl h
    · exact Or.inr ⟨stored, h⟩
  · rcases applyEvents_take_of_single s.kind s.items _ j _ (Or.inr h1) with h | h
    · exact Or.inl h
    · exact Or.inl h

/-- replaying the whole trace gives the store the ceremony ends with (so the cancellation model and the
completed ceremony agree at the last suspension point) -/
theorem C07_make_replay_complete (cfg : Cfg) (u : UvCfg) (s : Store) (dr : Draws) (req : MakeReq) :
    applyEvents s.kind s.items (makeCredential cfg u s dr req).trace = (makeCredential cfg u s dr req).store.items := by
  rw [applyEvents_effects]
  rcases makeCredential_effects cfg u s dr req _ rfl with h1 | ⟨stored, r, h1, h2, _⟩ | ⟨stored, f, h1, h2, _⟩
  · rw [h1.1, h1.2.1]; rfl
  · rw [h1, h2]; rfl
  · rw [h1, h2]; rfl

/-- **Success means the store accepted the new credential before the response existed**: the trace of a
successful registration contains the accepted save (and it is its only effect). -/
theorem C07_make_success_after_accepted_save (cfg : Cfg) (u : UvCfg) (s : Store) (dr : Draws) (req : MakeReq) (r : MakeResp)
    (h : (makeCredential cfg u s dr req).result = .ok r) :
    ∃ stored, effects (makeCredential cfg u s dr req).trace
        = [Event.save (newPasskey cfg (discOf s.kind) dr req stored) req.userId req.rk req.up req.uv none]
      ∧ (makeCredential cfg u s dr req).store.items = saveRaw s.kind s.items (newPasskey cfg (discOf s.kind) dr req stored) := by
  rcases makeCredential_effects cfg u s dr req _ rfl with h1 | ⟨stored, _, h1, h2, _⟩ | ⟨_, f, _, _, h3⟩
  · obtain ⟨e, he⟩ := h1.2.2; rw [he] at h; cases h
  · exact ⟨stored, h1, h2⟩
  · rw [h3] at h; cases h

/-- **A store error while saving is reported, never turned into success.** -/
theorem C07_make_store_error_reported (cfg : Cfg) (u : UvCfg) (s : Store) (dr : Draws) (req : MakeReq)
    (p : Passkey) (uid : Bytes) (rk up uv : Bool) (f : Nat)
    (h : Event.save p uid rk up uv (some f) ∈ (makeCredential cfg u s dr req).trace) :
    (makeCredential cfg u s dr req).result = .error f := by
  have hm : Event.save p uid rk up uv (some f) ∈ effects (makeCredential cfg u s dr req).trace :=
    List.mem_filter.mpr ⟨h, rfl⟩
  rcases makeCredential_effects cfg u s dr req _ rfl with h1 | ⟨stored, _, h1, _, _⟩ | ⟨_, f', h1, _, h3⟩
  · rw [h1.1] at hm; cases hm
  · rw [h1] at hm; simp at hm
  · rw [h1] at hm
    simp only [List.mem_singleton, Event.save.injEq] at hm
    obtain ⟨_, _, _, _, _, hf⟩ := hm
    simp only [Option.some.injEq] at hf
    rw [hf]; exact h3

/-- **An authentication, failed, cancelled at any suspension point or successful**, leaves the store
unchanged except that the selected credential — the first one of the lookup — may have been rewritten
with its counter advanced by one (saturating at 2^32-1): nothing else is ever written. -/
theorem C07_get_prefix (cfg : Cfg) (u : UvCfg) (s : Store) (req : GetReq) (j : Nat) :
    applyEvents s.kind s.items ((getAssertion cfg u s req).trace.take j) = s.items
    ∨ ∃ p rest c, (s.find (allowIds req) req.rpId).1 = .ok (p :: rest) ∧ p.counter = some c
        ∧ applyEvents s.kind s.items ((getAssertion cfg u s req).trace.take j)
            = applyEvent s.kind s.items (Event.update p.credId (some (bump c)) none) := by
  rcases getAssertion_effects cfg u s req _ rfl with h1 | ⟨p, rest, c, l, h1, h2, h3, _, _⟩ | ⟨p, rest, c, f, _, _, h3, _, _⟩
  · rcases applyEvents_take_of_single s.kind s.items _ j Event.info (Or.inl h1.1) with h | h <;> exact Or.inl h
  · rcases applyEvents_take_of_single s.kind s.items _ j _ (Or.inr h3) with h | h
    · exact Or.inl h
    · exact Or.inr ⟨p, rest, c, h1, h2, h⟩
  · rcases applyEvents_take_of_single s.kind s.items _ j _ (Or.inr h3) with h | h <;> exact Or.inl h

/-- the store a completed authentication ends with: unchanged, or the store's own update of the selected
credential with the advanced counter -/
theorem C07_get_store_after (cfg : Cfg) (u : UvCfg) (s : Store) (req : GetReq) :
    (getAssertion cfg u s req).store.items = s.items
    ∨ ∃ p rest c l, (s.find (allowIds req) req.rpId).1 = .ok (p :: rest) ∧ p.counter = some c
        ∧ updateRaw s.kind s.items { p with counter := some (bump c) } = .ok l
        ∧ (getAssertion cfg u s req).store.items = l := by
  rcases getAssertion_effects cfg u s req _ rfl with h1 | ⟨p, rest, c, l, h1, h2, _, h4, h5⟩ | ⟨_, _, _, _, _, _, _, h4, _⟩
  · exact Or.inl h1.2
  · exact Or.inr ⟨p, rest, c, l, h1, h2, h4, h5⟩
  · exact Or.inl h4

/-- **A store error while updating is reported, never turned into success** — so an assertion is never
returned unless the store accepted its counter value (with `C08_assert_step`: the accepted value is the
one reported). -/
theorem C07_get_store_error_reported (cfg : Cfg) (u : UvCfg) (s : Store) (req : GetReq) (id : Bytes) (ctr : Option Nat) (f : Nat)
    (h : Event.update id ctr (some f) ∈ (getAssertion cfg u s req).trace) :
    (getAssertion cfg u s req).result = .error f := by
  have hm : Event.update id ctr (some f) ∈ effects (getAssertion cfg u s req).trace := List.mem_filter.mpr ⟨h, rfl⟩
  rcases getAssertion_effects cfg u s req _ rfl with h1 | ⟨_, _, _, _, _, _, h3, _, _⟩ | ⟨_, _, _, f', _, _, h3, _, h5⟩
  · rw [h1.1] at hm; cases hm
  · rw [h3] at hm; simp at hm
  · rw [h3] at hm
    simp only [List.mem_singleton, Event.update.injEq] at hm
    obtain ⟨_, _, hf⟩ := hm
    simp only [Option.some.injEq] at hf
    rw [hf]; exact h5

/-- a lookup error is never turned into success either -/
theorem C07_get_lookup_error (cfg : Cfg) (u : UvCfg) (s : Store) (req : GetReq) (e : Nat)
    (hf : (s.find (allowIds req) req.rpId).1 = .error e) : ∀ r, (getAssertion cfg u s req).result ≠ .ok r := by
  intro r h
  obtain ⟨p, rest, h1, _⟩ := PasskeyVerif.Auth.getAssertion_first_of_lookup cfg u s req r h
  rw [hf] at h1; cases h1

/-! ### the U2F registration path saves through the same store -/

/-- **U2F registration**: whatever status the store answers the save with (every code, 0x00 included), a
refused save is an error of the registration and the store holds what it held; a registration that
succeeds was accepted by the store. -/
theorem C07_u2f_register_store_error_reported (s : Store) (k : Key) (app chal handle : Bytes) :
    (∀ e, s.fault? = some e →
        (∃ err, (U2f.register s k app chal handle).1 = .error err)
          ∧ storeObs (U2f.register s k app chal handle).2.1 = storeObs s)
    ∧ (∀ r, (U2f.register s k app chal handle).1 = .ok r → s.fault? = none
          ∧ (U2f.register s k app chal handle).2.1.items = saveRaw s.kind s.items (U2f.u2fPasskey app handle k)) := by
  unfold U2f.register Store.save
  constructor
  · intro e he
    rw [he]
    exact ⟨⟨_, rfl⟩, rfl⟩
  · intro r hr
    cases hf : s.fault? with
    | some e => rw [hf] at hr; cases hr
    | none => exact ⟨rfl, rfl⟩

end PasskeyVerif.C07
