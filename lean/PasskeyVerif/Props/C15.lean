/-
C15 — Decoders of untrusted input never crash or allocate out of proportion.
Property theorems only.  The repository's own decoders are modelled as total functions with an explicit
`panic` outcome where the Rust code can panic; the theorems say that outcome is never produced, and bound
what a decoder can reserve or return by the size of its input.  Facts about the Rust sources that the
models rely on (every reservation from a declared length is capped; list elements are buffered before
they are judged; no indexing / `split_at` / `unreachable!` left in the U2F parsers) are regenerated on
every run by translate/decoders.py and checked here by `decide`.
NOT covered by theorems: the third-party decoders underneath (ciborium, serde_json, coset, url, idna, nom)
and the serde-derived glue; for those only the stream of mutated inputs in isolated worker processes
speaks (PARTIAL).
-/
import PasskeyVerif.Generated.Decoders
import PasskeyVerif.Model.U2f
import PasskeyVerif.Model.Hid
import PasskeyVerif.Model.AuthData
import PasskeyVerif.Model.Decoders
import PasskeyVerif.Base.Base64
import PasskeyVerif.Lemmas.Bounds
import PasskeyVerif.Model.AuthDataCbor
namespace PasskeyVerif.C15
open PasskeyVerif

/-- **Declared lengths are not trusted for reservations**: every `Vec::with_capacity` fed from a sequence's
size hint (directly, or through a local binding) in the shared deserialisation helpers is capped at a constant
(a literal or a named constant of the file), and no other use of a size hint is left (regenerated from the source). -/
theorem C15_reservations_capped :
    Generated.Decoders.reservations.all (fun r => match r.2.2 with | some c => c ≤ 4096 | none => false) = true
    ∧ Generated.Decoders.reservations ≠ [] ∧ Generated.Decoders.unfollowedSizeHints = 0 := by decide

/-- **Unknown list entries are buffered before they are judged**, so input errors propagate instead of
turning a truncated list into one 'unknown value' per declared element (regenerated from the source). -/
theorem C15_list_elements_buffered : Generated.Decoders.possiblyUnknownBuffered = true := by decide

/-- **No panicking construct is left** in the U2F request parsers and the COSE-key converter: no slice
index, `split_at`, unchecked `GenericArray::from_slice` or `unreachable!` on input (regenerated). -/
theorem C15_no_panic_sites : Generated.Decoders.panicSites = [] := by decide

/-- **The U2F request parser never panics**: for every byte string it returns a request or a status word. -/
theorem C15_u2f_never_panics (v : List UInt8) : U2f.parseRequest v ≠ .panic := by
  unfold U2f.parseRequest
  split
  · intro h; cases h
  · split
    · intro h; cases h
    · dsimp only
      split
      · intro h; cases h
      · split
        · split <;> (intro h; cases h)
        · split
          · split
            · intro h; cases h
            · unfold U2f.parseAuthPayload
              split
              · intro h; cases h
              · dsimp only
                split <;> (intro h; cases h)
          · split <;> (intro h; cases h)

/-- ... and what it returns is cut out of the frame: no field is longer than the input. -/
theorem C15_u2f_fields_bounded (v : List UInt8) (p : UInt8) (c a h : List UInt8)
    (hp : U2f.parseRequest v = .authenticate p c a h) : c.length ≤ v.length ∧ a.length ≤ v.length ∧ h.length ≤ v.length := by
  unfold U2f.parseRequest at hp
  split at hp
  · cases hp
  · split at hp
    · cases hp
    · dsimp only at hp
      split at hp
      · cases hp
      · split at hp
        · split at hp <;> cases hp
        · split at hp
          · split at hp
            · cases hp
            · unfold U2f.parseAuthPayload at hp
              split at hp
              · cases hp
              · dsimp only at hp
                split at hp
                · cases hp
                · simp only [U2f.Parsed.authenticate.injEq] at hp
                  obtain ⟨_, h1, h2, h3⟩ := hp
                  subst h1; subst h2; subst h3
                  simp only [List.length_take, List.length_drop]
                  omega
          · split at hp <;> cases hp

/-- **CTAPHID**: a packet of any length is either refused or parsed; packets longer than 64 bytes or shorter
than a continuation header are refused outright, and a delivered message's payload is exactly as long as
its header declared (at most 65535 bytes), whatever the packets before it were. -/
theorem C15_hid_packet_lengths (pkt : List UInt8) (h : pkt.length < 5 ∨ pkt.length > 64) : Hid.PacketHeader.tryFrom pkt = none := by
  unfold Hid.PacketHeader.tryFrom
  have : pkt.length < Hid.contHdr ∨ pkt.length > Hid.maxPacket := h
  simp [this]

theorem C15_hid_delivered_is_complete (t : Hid.Table) (pkt : List UInt8) (m : Hid.Msg)
    (hinv : ∀ c m', t c = some m' → m'.payload.length ≤ m'.payloadLen)
    (h : (Hid.handlePacket t pkt).2 = some m) : m.payload.length = m.payloadLen := by
  unfold Hid.handlePacket at h
  split at h
  · cases h
  · rename_i ih payload _
    dsimp only at h
    split at h
    · rename_i hc
      simp only [Option.some.injEq] at h
      subst h
      have := beq_iff_eq.mp (show ((Hid.Msg.init ih payload).payloadLen == (Hid.Msg.init ih payload).payload.length) = true from hc)
      exact this.symm
    · cases h
  · rename_i chd payload _
    split at h
    · cases h
    · rename_i m0 hm0
      have hle := hinv _ _ hm0
      unfold Hid.Msg.extend at h
      split at h
      · rename_i m' heq
        split at heq
        · cases heq
        · split at heq
          · dsimp only at heq
            split at heq
            · split at heq
              · simp only [Prod.mk.injEq, Except.ok.injEq] at heq
                obtain ⟨hm', _⟩ := heq
                simp only [Option.some.injEq] at h
                subst h; subst hm'
                simp only [List.length_append, List.length_take]
                omega
              · cases heq
            · simp only [Prod.mk.injEq, Except.ok.injEq, Bool.false_eq_true] at heq
              exact absurd heq.2 (by simp)
          · cases heq
      · cases h
      · cases h

/-- **Authenticator data**: the decoder returns a value or one of five errors for every byte string (it is a
total function of the input), inputs shorter than the fixed header are refused, and the credential id it
returns is cut out of the input. -/
theorem C15_authdata_short (skip : List UInt8 → Option Nat) (vk : List UInt8 → Bool) (v : List UInt8) (h : v.length < 37) :
    AuthData.AuthData.fromSlice skip vk v = .error .tooShort := by
  unfold AuthData.AuthData.fromSlice; simp [h]

/-- **Fingerprints**: an accepted certificate fingerprint is exactly 32 upper-case hex pairs separated by
colons (95 characters); the check reads each character once. -/
theorem C15_fingerprint_shape (cs : List Char) : ∀ n, Decoders.groups cs = some n → cs.length + 1 = 3 * n := by
  fun_induction Decoders.groups cs with
  | case1 a b h => intro n hn; simp at hn; subst hn; rfl
  | case2 a b h => intro n hn; cases hn
  | case3 a b rest h ih =>
    intro n hn
    cases hr : Decoders.groups rest with
    | none => simp [hr] at hn
    | some k =>
      simp only [hr, Option.map_some, Option.some.injEq] at hn
      have := ih k hr
      simp only [List.length_cons]; omega
  | case4 a b rest h => intro n hn; cases hn
  | case5 cs h1 h2 => intro n hn; cases hn

theorem C15_fingerprint_length (s : String) (h : Decoders.validFingerprint s = true) : s.toList.length = 95 := by
  unfold Decoders.validFingerprint at h
  have := C15_fingerprint_shape s.toList 32 (by simpa using h)
  omega

/-- **CBOR values are no larger than the bytes they were read from** (the modelled definite-length reader,
for every byte string and every fuel): one unit per item plus its payload bytes, and what is left over,
never exceed the input — a declared length of 2^64 elements with nothing behind it builds nothing. -/
theorem C15_cbor_value_within_input (fuel : Nat) (bs : List UInt8) (x : Cbor.Item) (r : List UInt8)
    (h : Cbor.decode fuel bs = some (x, r)) : x.size + r.length ≤ bs.length :=
  (Cbor.decode_size_all fuel).1 bs x r h

/-- the same for a declared element count `n`: a list of `n` items is only returned if at least `n` bytes follow -/
theorem C15_cbor_declared_count_needs_bytes (fuel n : Nat) (bs : List UInt8) (xs : List Cbor.Item) (r : List UInt8)
    (h : Cbor.decodeList fuel n bs = some (xs, r)) : Cbor.sizeList xs + r.length ≤ bs.length :=
  (Cbor.decode_size_all fuel).2.1 n bs xs r h

/-- **Base64 members**: the decoded bytes of a text of `k` characters number at most `3k/4`. -/
theorem C15_base64_output_within_input (s : String) (bs : List UInt8) (h : Base64.decodeLenient s = some bs) :
    4 * bs.length ≤ 3 * s.toList.length := Base64.decodeLenient_length s bs h

/-- **Authenticator data**: whatever the CBOR scanner and the key check answer, the parts of an accepted
value (RP ID hash, flags and counter, AAGUID, credential id, key bytes, extension bytes) together hold no
more bytes than the input has. -/
theorem C15_authdata_parts_within_input (skip : List UInt8 → Option Nat) (vk : List UInt8 → Bool) (v : List UInt8)
    (a : AuthData.AuthData) (h : AuthData.AuthData.fromSlice skip vk v = .ok a) : a.held ≤ v.length :=
  AuthData.AuthData.fromSlice_bound skip vk v a h

/-- the hypotheses are met by a real value: a map with a byte string and a nested array -/
example : Cbor.decode 10 [0xa1, 0x01, 0x82, 0x41, 0xff, 0x20, 0x99] =
    some (.map [(.uint 1, .array [.bytes [0xff], .nint 0])], [0x99]) ∧
    (Cbor.Item.map [(.uint 1, .array [.bytes [0xff], .nint 0])]).size = 6 := ⟨by rfl, by rfl⟩

end PasskeyVerif.C15
