/-
C10 — kernel-checked obligations on the rule list regenerated from /repo/public-suffix/public_suffix_list.dat.
Property theorems only.
-/
import PasskeyVerif.Model.PslDefault
namespace PasskeyVerif.C10Rules
open PasskeyVerif.Psl PasskeyVerif.Psl.Spec

/- the rule blob is well formed: `RULES` is what it decodes to, not a default -/
set_option maxRecDepth 1000000 in
theorem C10_rules_decode : RULES?.isSome = true := by decide +kernel

/- No empty labels; exception rules have at least two labels and none extends another (the situations
in which "the exception rule prevails" is unambiguous). -/
set_option maxRecDepth 1000000 in
theorem C10_rules_wellformed : wfRules RULES = true := by decide +kernel

end PasskeyVerif.C10Rules
