/-
C17 — U2F registration and authentication messages are well-formed and verifiable.
Property theorems only, about the U2F model (Model/U2f.lean).  ECDSA is outside the model: a response
names the message signed and the key; every observed signature is verified by the Spec's P-256 oracle
over exactly that message under the returned / registered public key.
-/
import PasskeyVerif.Lemmas.U2f
import PasskeyVerif.Spec.U2f
namespace PasskeyVerif.C17
open PasskeyVerif PasskeyVerif.Auth PasskeyVerif.U2f
open PasskeyVerif.AuthData (Bytes)

/-- **Registration**: a successful U2F registration returns the drawn key's public point, the key handle
given, and signs 0x00 ‖ application ‖ challenge ‖ key handle ‖ (0x04 ‖ x ‖ y) with the drawn key; the
store accepted a credential for that application (its base64url text as RP ID) and key handle, holding
that key and counter zero. -/
theorem C17_register (s : Store) (k : Key) (app chal handle : Bytes) (r : RegisterResp)
    (h : (register s k app chal handle).1 = .ok r) :
    r.key = k ∧ r.keyHandle = handle ∧ r.signed.key = k
      ∧ r.signed.message = [0x00] ++ app ++ chal ++ handle ++ ([0x04] ++ k.x ++ k.y)
      ∧ (register s k app chal handle).2.1.items
          = saveRaw s.kind s.items { credId := handle, rpId := rpOfApplication app, userHandle := none, counter := some 0, key := k, hmac := none }
      ∧ (register s k app chal handle).2.2 = [Event.save (u2fPasskey app handle k) handle false false false none] := by
  unfold register at h ⊢
  dsimp only at h ⊢
  unfold Store.save at h ⊢
  cases hf : s.fault? with
  | some e => simp only [hf] at h; cases h
  | none =>
    simp only [hf] at h ⊢
    cases h
    exact ⟨rfl, rfl, rfl, rfl, rfl, trivial⟩

/-- a store error while saving fails the registration -/
theorem C17_register_store_error (s : Store) (k : Key) (app chal handle : Bytes) (e : Nat) (hf : s.fault? = some e) :
    (register s k app chal handle).1 = .error .other ∧ (register s k app chal handle).2.1.items = s.items := by
  unfold register Store.save
  simp only [hf]
  exact ⟨trivial, rfl⟩

/-- **Authentication**: a successful U2F authentication signs application ‖ presence byte ‖ big-endian
counter ‖ challenge with the key of the first credential the store lists for the key handle and the
application, and echoes presence and counter. -/
theorem C17_authenticate (s : Store) (app chal handle : Bytes) (counter : Nat) (presence : UInt8) (r : AuthResp)
    (h : (authenticate s app chal handle counter presence).1 = .ok r) :
    ∃ p rest, (s.find (some [handle]) (rpOfApplication app)).1 = .ok (p :: rest)
      ∧ r.signed.key = p.key ∧ r.signed.message = app ++ [presence] ++ U2f.be32 counter ++ chal
      ∧ r.presence = presence ∧ r.counter = counter
      ∧ (authenticate s app chal handle counter presence).2.1.items = s.items := by
  unfold authenticate at h ⊢
  dsimp only at h ⊢
  split at h
  · rename_i p rest hf
    cases h
    exact ⟨p, rest, hf, rfl, rfl, rfl, rfl, rfl⟩
  · cases h

/-- **An unknown key handle fails**: when the lookup for the key handle and application finds nothing
(or fails), there is no response. -/
theorem C17_unknown_handle_fails (s : Store) (app chal handle : Bytes) (counter : Nat) (presence : UInt8)
    (h : ∀ p rest, (s.find (some [handle]) (rpOfApplication app)).1 ≠ .ok (p :: rest)) :
    (authenticate s app chal handle counter presence).1 = .error .other := by
  unfold authenticate
  dsimp only
  split
  · rename_i p rest hf
    exact absurd hf (h p rest)
  · rfl

/-- **Register, then authenticate**: after a successful registration, an authentication with that key
handle and application (no store fault) signs with the registered key. -/
theorem C17_register_then_authenticate (s : Store) (k : Key) (app chal chal' handle : Bytes) (counter : Nat) (presence : UInt8)
    (r : RegisterResp) (h : (register s k app chal handle).1 = .ok r)
    (hnf : (register s k app chal handle).2.1.fault? = none) :
    ∃ a, (authenticate (register s k app chal handle).2.1 app chal' handle counter presence).1 = .ok a
      ∧ a.signed.key = k ∧ a.signed.message = app ++ [presence] ++ U2f.be32 counter ++ chal' := by
  obtain ⟨_, _, _, _, hitems, _⟩ := C17_register s k app chal handle r h
  have hkind : (register s k app chal handle).2.1.kind = s.kind := by
    unfold register; dsimp only; split <;> exact save_kind _ _ _ _ _ _
  have hfind : ((register s k app chal handle).2.1.find (some [handle]) (rpOfApplication app)).1 = .ok [u2fPasskey app handle k] := by
    unfold Store.find
    simp only [hnf]
    rw [hitems, hkind]
    exact lookup_after_save s.kind s.items (u2fPasskey app handle k)
  unfold authenticate
  dsimp only
  rw [hfind]
  exact ⟨_, rfl, rfl, rfl⟩

/-! ### encodings -/

/-- **Registration response layout**: reserved byte 0x05, the 65-byte public key, the one-byte key-handle
length, the key handle, the certificate, the signature, and the success status word. -/
theorem C17_encode_register (k : Key) (handle cert sig : Bytes) (hl : handle.length ≤ 255) :
    encodeRegister k handle cert sig = [0x05] ++ ([0x04] ++ k.x ++ k.y) ++ [UInt8.ofNat handle.length] ++ handle ++ cert ++ sig ++ [0x90, 0x00]
    ∧ (UInt8.ofNat handle.length).toNat = handle.length := by
  refine ⟨rfl, ?_⟩
  simp [UInt8.toNat_ofNat']
  omega

/-- **Authentication response layout**: presence byte, big-endian counter, signature, success status word;
the counter field reads back as the counter. -/
theorem C17_encode_authenticate (presence : UInt8) (counter : Nat) (sig : Bytes) (hc : counter < 4294967296) :
    encodeAuth presence counter sig = [presence] ++ U2f.be32 counter ++ sig ++ [0x90, 0x00]
    ∧ U2f.ofBe32 (U2f.be32 counter) = counter := by
  refine ⟨rfl, ?_⟩
  unfold U2f.ofBe32 U2f.be32
  simp only [List.foldl_cons, List.foldl_nil, UInt8.toNat_ofNat']
  omega

/-- the version response is "U2F_V2" and the success status word -/
theorem C17_encode_version : encodeVersion = [0x55, 0x32, 0x46, 0x5f, 0x56, 0x32, 0x90, 0x00] := rfl

/-! ### request framing: parsing the raw encoding of a well-formed request returns that request -/

/-- **A well-formed register frame parses to its request** (with or without Le bytes). -/
theorem C17_parse_register (chal app le : Bytes) (hc : chal.length = 32) (ha : app.length = 32) :
    parseRequest (frame 0x01 0x00 (chal ++ app) le) = .register chal app := by
  have hd : (chal ++ app).length = 64 := by simp [hc, ha]
  rw [parse_frame _ _ _ _ (by omega), hd]
  have t1 : (chal ++ app).take 32 = chal := by rw [← hc]; simp
  have t2 : (chal ++ app).drop 32 = app := by rw [← hc]; simp
  rw [t1, t2]
  rfl

/-- **A well-formed version frame parses to the version request.** -/
theorem C17_parse_version (le : Bytes) : parseRequest (frame 0x03 0x00 [] le) = .version := by
  rw [parse_frame _ _ _ _ (by simp)]
  rfl

/-- **A well-formed authenticate frame parses to its request**, for each control byte of the
specification and key handles of 0..255 bytes. -/
theorem C17_parse_authenticate (p1 : UInt8) (chal app handle le : Bytes) (hc : chal.length = 32) (ha : app.length = 32)
    (hh : handle.length ≤ 255) (hp : p1 = 0x03 ∨ p1 = 0x07 ∨ p1 = 0x08) :
    parseRequest (frame 0x02 p1 (chal ++ app ++ [UInt8.ofNat handle.length] ++ handle) le) = .authenticate p1 chal app handle := by
  have hd : (chal ++ app ++ [UInt8.ofNat handle.length] ++ handle).length = 65 + handle.length := by simp [hc, ha]; omega
  rw [parse_frame _ _ _ _ (by omega)]
  have hl : (UInt8.ofNat handle.length).toNat = handle.length := by simp [UInt8.toNat_ofNat']; omega
  have g64 : (chal ++ app ++ [UInt8.ofNat handle.length] ++ handle).getD 64 0 = UInt8.ofNat handle.length := by
    rw [List.getD_eq_getElem?_getD]
    have : (chal ++ app ++ [UInt8.ofNat handle.length] ++ handle)[64]? = some (UInt8.ofNat handle.length) := by
      rw [List.append_assoc, List.getElem?_append_right (by simp [hc, ha])]
      simp [hc, ha]
    rw [this]; rfl
  have t1 : (chal ++ app ++ [UInt8.ofNat handle.length] ++ handle).take 32 = chal := by
    rw [List.append_assoc, List.append_assoc, ← hc]; simp
  have t2 : ((chal ++ app ++ [UInt8.ofNat handle.length] ++ handle).drop 32).take 32 = app := by
    rw [List.append_assoc, List.append_assoc]
    have d := List.drop_left (l₁ := chal) (l₂ := app ++ ([UInt8.ofNat handle.length] ++ handle))
    rw [hc] at d
    rw [d]
    have t := List.take_left (l₁ := app) (l₂ := [UInt8.ofNat handle.length] ++ handle)
    rw [ha] at t
    exact t
  have t3 : ((chal ++ app ++ [UInt8.ofNat handle.length] ++ handle).drop 65).take handle.length = handle := by
    have : (chal ++ app ++ [UInt8.ofNat handle.length]).length = 65 := by simp [hc, ha]
    rw [← this, List.drop_left]; simp
  have hp1 : (!(p1 == 0x07 || p1 == 0x03 || p1 == 0x08)) = false := by rcases hp with rfl | rfl | rfl <;> rfl
  show (if (!(p1 == 0x07 || p1 == 0x03 || p1 == 0x08)) = true then Parsed.err swWrongData else parseAuthPayload _ p1) = _
  rw [hp1]
  simp only [Bool.false_eq_true, if_false]
  unfold parseAuthPayload
  rw [g64, hl, hd, t1, t2]
  have b1 : ¬ (65 + handle.length < 65) := by omega
  have b2 : ¬ (65 + handle.length - 65 < handle.length) := by omega
  simp only [b1, b2, if_false, t3]

end PasskeyVerif.C17
