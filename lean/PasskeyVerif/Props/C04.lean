/-
C04 — No credential is created or used without user consent; flags are truthful.
Property theorems only; for every authenticator configuration, user-validation configuration and answer,
store (kind, content, fault schedule), random draws and request.  Model: Model/Authenticator.lean
(tied to the code by the exhaustive correspondence stream over the finite product of the statement).
-/
import PasskeyVerif.Lemmas.AuthFlags
import PasskeyVerif.Model.Client
namespace PasskeyVerif.C04
open PasskeyVerif.Auth PasskeyVerif.Auth.Spec PasskeyVerif.Generated
open PasskeyVerif.AuthData (Bytes AuthData)

def envOf (cfg : Cfg) (u : UvCfg) (s : Store) : Env := ⟨cfg, s.kind, u, storeObs s, s.faults.any Option.isSome⟩

/-- **Registration: consent before effect.** A credential is saved, or a result returned, only after the
user-validation step was asked with the requested options and reported presence (and verification when
requested). -/
theorem C04_make_effect_after_consent (cfg : Cfg) (u : UvCfg) (s : Store) (dr : Draws) (req : MakeReq) :
    c04_effect_after_consent (envOf cfg u s) (.make req) (obsOfMake (makeCredential cfg u s dr req)) = true := by
  unfold makeCredential
  by_cases hup : req.up = true
  · simp only [hup, Bool.not_true, Bool.false_eq_true, if_false]
    cases hc : checkUser u true req.uv none with
    | mk r ev =>
      cases r with
      | error e =>
        dsimp only
        rcases checkUser_err _ _ _ _ _ _ hc with ⟨rfl, _⟩ | ⟨rfl, _⟩ <;>
          simp [c04_effect_after_consent, obsOfMake, isOk, consentScan, evObsOf, isEffect, askedFor]
      | ok flags =>
        dsimp only
        have hcg : consentGiven (envOf cfg u s) (.make req) = true :=
          consentGiven_of_checkUser_ok (envOf cfg u s) (.make req) none flags ev (by simpa [OpReq.up, OpReq.uvReq, hup, envOf] using hc)
        obtain ⟨rfl, _⟩ := checkUser_ok _ _ _ _ _ _ hc
        simp only [c04_effect_after_consent, hcg, Bool.or_true, Bool.true_and, obsOfMake, Outcome.prepend,
          List.cons_append, List.nil_append, List.map_cons, evObsOf, consentScan, isEffect, Bool.false_eq_true, if_false,
          askedFor, OpReq.up, OpReq.uvReq, hup, beq_self_eq_true, Bool.and_self, Bool.or_true, scan_seen, List.any_cons]
        simp
  · have hup' : req.up = false := by simpa using hup
    simp [hup', c04_effect_after_consent, obsOfMake, isOk, consentScan]

/-- **Registration: flags truthful.** UP and UV of the returned authenticator data are exactly what the
user-validation step reported. -/
theorem C04_make_flags_truthful (cfg : Cfg) (u : UvCfg) (s : Store) (dr : Draws) (req : MakeReq) :
    c04_flags_truthful (envOf cfg u s) (obsOfMake (makeCredential cfg u s dr req)) = true := by
  unfold makeCredential
  by_cases hup : req.up = true
  · simp only [hup, Bool.not_true, Bool.false_eq_true, if_false]
    cases hc : checkUser u true req.uv none with
    | mk r ev =>
      cases r with
      | error e => simp [c04_flags_truthful, obsOfMake]
      | ok flags =>
        dsimp only
        obtain ⟨_, p, v, hans, _, _, _, hf⟩ := checkUser_ok _ _ _ _ _ _ hc
        unfold c04_flags_truthful obsOfMake
        simp only [Outcome.prepend]
        cases hr : (makeAfterConsent cfg s dr req flags).result with
        | error e => simp
        | ok r =>
          have had := makeAfterConsent_ok cfg s dr req flags r hr
          dsimp only
          cases hv : r.authData.toVec with
          | none => simp
          | some bs =>
            have hfb := flagByte_of_toVec r.authData bs (by rw [had]; exact Sha256.sha256_length _) hv
            simp only [answered, envOf, hans]
            rw [hfb, had]
            simp only [makeAuthData, AuthData.setAcd, AuthData.setFlags, AuthData.new, Option.isSome, if_true, hf]
            have := make_flag_bits p v
            simp [this.1, this.2]
  · have hup' : req.up = false := by simpa using hup
    simp [hup', c04_flags_truthful, obsOfMake]


/-- **Registration: the consent errors.** Verification requested but absent or unconfigured →
unsupported-option; presence waived → invalid-option (the user is not even asked); the validation step
fails → its error; the user denies → operation-denied — each leaving the store untouched. -/
theorem C04_make_errors (cfg : Cfg) (u : UvCfg) (s : Store) (dr : Draws) (req : MakeReq) :
    c04_errors (envOf cfg u s) (.make req) (obsOfMake (makeCredential cfg u s dr req)) = true := by
  unfold makeCredential c04_errors
  by_cases hup : req.up = true
  · simp only [hup, Bool.not_true, Bool.false_eq_true, if_false, OpReq.uvReq, envOf]
    by_cases hcap : (req.uv && u.verification != some true) = true
    · rw [checkUser_unsupported u true req.uv none hcap]
      simp [obsOfMake, snapsEq, hcap]
    · have hcap' : (req.uv && u.verification != some true) = false := by simpa using hcap
      simp only [hcap', Bool.false_eq_true, if_false]
      cases ha : u.answer with
      | error e =>
        rw [checkUser_answer_error u true req.uv none e hcap' ha]
        simp [obsOfMake, snapsEq]
      | ok pv =>
        obtain ⟨p, v⟩ := pv
        dsimp only
        by_cases hg : consentGiven ⟨cfg, s.kind, u, storeObs s, s.faults.any Option.isSome⟩ (.make req) = true
        · simp [hg]
        · have hg' : consentGiven ⟨cfg, s.kind, u, storeObs s, s.faults.any Option.isSome⟩ (.make req) = false := by simpa using hg
          simp only [hg', Bool.not_false, if_true]
          have hd : ((!true || p) && (!req.uv || v)) = false := by
            simpa [consentGiven, answered, ha, OpReq.up, OpReq.uvReq, hup] using hg'
          rw [checkUser_denied u true req.uv none p v hcap' ha hd]
          simp [obsOfMake, snapsEq]
  · have hup' : req.up = false := by simpa using hup
    simp [hup', obsOfMake, snapsEq, envOf]

/-- **Registration: no disclosure.** While consent is missing the outcome is the same function of the
request and the user-validation answer for any two stores (any content, any kind, any fault schedule). -/
theorem C04_make_no_disclosure (cfg : Cfg) (u : UvCfg) (s1 s2 : Store) (dr1 dr2 : Draws) (req : MakeReq)
    (hm : consentMissing (envOf cfg u s1) (.make req) = true) :
    outcomeKey (obsOfMake (makeCredential cfg u s1 dr1 req)) = outcomeKey (obsOfMake (makeCredential cfg u s2 dr2 req)) := by
  unfold makeCredential
  by_cases hup : req.up = true
  · simp only [hup, Bool.not_true, Bool.false_eq_true, if_false]
    obtain ⟨e, ev, he⟩ := checkUser_err_of_missing (envOf cfg u s1) (.make req) none hm
    simp only [OpReq.up, OpReq.uvReq, hup, envOf] at he
    rw [he]
    rfl
  · have hup' : req.up = false := by simpa using hup
    simp only [hup', Bool.not_false, if_true]
    rfl


/-- **Assertion: consent before effect.** The counter is advanced, or a result returned, only after the
user-validation step was asked with the requested options and reported what was required. -/
theorem C04_get_effect_after_consent (cfg : Cfg) (u : UvCfg) (s : Store) (req : GetReq) (sig : Bytes) :
    c04_effect_after_consent (envOf cfg u s) (.get req) (obsOfGet (getAssertion cfg u s req) sig) = true := by
  unfold getAssertion
  dsimp only
  by_cases hpin : req.pinAuth = true
  · simp [hpin, c04_effect_after_consent, obsOfGet, isOk, consentScan, evObsOf, isEffect, askedFor, Store.find]
  · rw [if_neg hpin]
    by_cases hrk : req.rk = true
    · simp [hrk, c04_effect_after_consent, obsOfGet, isOk, consentScan, evObsOf, isEffect, askedFor, Store.find]
    · rw [if_neg hrk]
      generalize shownOf (firstCred (s.find (allowIds req) req.rpId).1) = shown
      cases hc : checkUser u req.up req.uv shown with
      | mk r ev =>
        cases r with
        | error e =>
          dsimp only
          rcases checkUser_err _ _ _ _ _ _ hc with ⟨rfl, _⟩ | ⟨rfl, _⟩ <;>
            simp [c04_effect_after_consent, obsOfGet, isOk, consentScan, evObsOf, isEffect, askedFor, Store.find]
        | ok flags =>
          dsimp only
          have hcg : consentGiven (envOf cfg u s) (.get req) = true :=
            consentGiven_of_checkUser_ok (envOf cfg u s) (.get req) shown flags ev (by simpa [OpReq.up, OpReq.uvReq, envOf] using hc)
          obtain ⟨rfl, _⟩ := checkUser_ok _ _ _ _ _ _ hc
          cases hm : firstCred (s.find (allowIds req) req.rpId).1 with
          | error c =>
            simp [c04_effect_after_consent, hcg, obsOfGet, isOk, consentScan, evObsOf, isEffect, askedFor, Store.find,
              OpReq.up, OpReq.uvReq]
          | ok cred =>
            simp only [c04_effect_after_consent, hcg, Bool.or_true, Bool.true_and, obsOfGet, Outcome.prepend,
              List.cons_append, List.nil_append, List.map_cons, evObsOf, consentScan, isEffect, Bool.false_eq_true, if_false,
              askedFor, OpReq.up, OpReq.uvReq, beq_self_eq_true, Bool.and_self, Bool.or_true, scan_seen, List.any_cons, Store.find]
            simp

/-- **Assertion: flags truthful.** -/
theorem C04_get_flags_truthful (cfg : Cfg) (u : UvCfg) (s : Store) (req : GetReq) (sig : Bytes) :
    c04_flags_truthful (envOf cfg u s) (obsOfGet (getAssertion cfg u s req) sig) = true := by
  unfold getAssertion
  dsimp only
  by_cases hpin : req.pinAuth = true
  · simp [hpin, c04_flags_truthful, obsOfGet]
  · rw [if_neg hpin]
    by_cases hrk : req.rk = true
    · simp [hrk, c04_flags_truthful, obsOfGet]
    · rw [if_neg hrk]
      generalize shownOf (firstCred (s.find (allowIds req) req.rpId).1) = shown
      cases hc : checkUser u req.up req.uv shown with
      | mk r ev =>
        cases r with
        | error e => simp [c04_flags_truthful, obsOfGet]
        | ok flags =>
          dsimp only
          obtain ⟨_, p, v, hans, _, _, _, hf⟩ := checkUser_ok _ _ _ _ _ _ hc
          cases hm : firstCred (s.find (allowIds req) req.rpId).1 with
          | error c => simp [c04_flags_truthful, obsOfGet]
          | ok cred =>
            dsimp only
            unfold c04_flags_truthful obsOfGet
            simp only [Outcome.prepend]
            cases hr : (getAfterConsent cfg (s.find (allowIds req) req.rpId).2.1 req flags cred).result with
            | error e => simp
            | ok r =>
              obtain ⟨⟨ctr, had⟩, _⟩ := getAfterConsent_ok _ _ _ _ _ _ hr
              dsimp only
              cases hv : r.authData.toVec with
              | none => simp
              | some bs =>
                have hfb := flagByte_of_toVec r.authData bs (by rw [had]; exact Sha256.sha256_length _) hv
                simp only [answered, envOf, hans]
                rw [hfb, had]
                simp only [AuthData.setFlags, AuthData.new, Option.isSome, hf]
                have := get_flag_bits p v
                simp [this.1, this.2]

/-- **Assertion: the credential shown to the user for consent is the one that signs.** -/
theorem C04_get_shown_is_used (cfg : Cfg) (u : UvCfg) (s : Store) (req : GetReq) (sig : Bytes) :
    c04_shown_is_used (obsOfGet (getAssertion cfg u s req) sig) = true := by
  unfold getAssertion
  dsimp only
  by_cases hpin : req.pinAuth = true
  · simp [hpin, c04_shown_is_used, obsOfGet]
  · rw [if_neg hpin]
    by_cases hrk : req.rk = true
    · simp [hrk, c04_shown_is_used, obsOfGet]
    · rw [if_neg hrk]
      cases hm : firstCred (s.find (allowIds req) req.rpId).1 with
      | error c =>
        simp only [shownOf]
        cases hc : checkUser u req.up req.uv none with
        | mk r ev => cases r <;> simp [c04_shown_is_used, obsOfGet]
      | ok cred =>
        simp only [shownOf]
        cases hc : checkUser u req.up req.uv (some cred.credId) with
        | mk r ev =>
          cases r with
          | error e => simp [c04_shown_is_used, obsOfGet]
          | ok flags =>
            dsimp only
            obtain ⟨rfl, _⟩ := checkUser_ok _ _ _ _ _ _ hc
            unfold c04_shown_is_used obsOfGet
            simp only [Outcome.prepend]
            cases hr : (getAfterConsent cfg (s.find (allowIds req) req.rpId).2.1 req flags cred).result with
            | error e => simp
            | ok r =>
              obtain ⟨_, hid, _⟩ := getAfterConsent_ok _ _ _ _ _ _ hr
              dsimp only
              cases hv : r.authData.toVec with
              | none => simp
              | some bs => simp [evObsOf, hid]

/-- **Assertion: the consent errors**, each leaving the store untouched (pin-auth and rk option errors,
which the code raises before asking the user, likewise leave it untouched). -/
theorem C04_get_errors (cfg : Cfg) (u : UvCfg) (s : Store) (req : GetReq) (sig : Bytes) :
    c04_errors (envOf cfg u s) (.get req) (obsOfGet (getAssertion cfg u s req) sig) = true := by
  unfold getAssertion c04_errors
  dsimp only
  have hst : storeObs (s.find (allowIds req) req.rpId).2.1 = storeObs s := rfl
  by_cases hpin : req.pinAuth = true
  · simp [hpin, obsOfGet, snapsEq, envOf, hst]
  · rw [if_neg hpin]
    have hpin' : req.pinAuth = false := by simpa using hpin
    by_cases hrk : req.rk = true
    · simp [hrk, obsOfGet, snapsEq, envOf, hst]
    · rw [if_neg hrk]
      have hrk' : req.rk = false := by simpa using hrk
      simp only [hpin', hrk', Bool.or_self, Bool.false_eq_true, if_false, OpReq.uvReq, envOf]
      generalize shownOf (firstCred (s.find (allowIds req) req.rpId).1) = shown
      by_cases hcap : (req.uv && u.verification != some true) = true
      · rw [checkUser_unsupported u req.up req.uv shown hcap]
        simp [obsOfGet, snapsEq, hcap, hst]
      · have hcap' : (req.uv && u.verification != some true) = false := by simpa using hcap
        simp only [hcap', Bool.false_eq_true, if_false]
        cases ha : u.answer with
        | error e =>
          rw [checkUser_answer_error u req.up req.uv shown e hcap' ha]
          simp [obsOfGet, snapsEq, hst]
        | ok pv =>
          obtain ⟨p, v⟩ := pv
          dsimp only
          by_cases hg : consentGiven ⟨cfg, s.kind, u, storeObs s, s.faults.any Option.isSome⟩ (.get req) = true
          · simp [hg]
          · have hg' : consentGiven ⟨cfg, s.kind, u, storeObs s, s.faults.any Option.isSome⟩ (.get req) = false := by simpa using hg
            simp only [hg', Bool.not_false, if_true]
            have hd : ((!req.up || p) && (!req.uv || v)) = false := by
              simpa [consentGiven, answered, ha, OpReq.up, OpReq.uvReq] using hg'
            rw [checkUser_denied u req.up req.uv shown p v hcap' ha hd]
            simp [obsOfGet, snapsEq, hst]

/-- **Assertion: no disclosure.** While consent is missing the outcome is the same whether or not a
matching credential exists — for any two stores. -/
theorem C04_get_no_disclosure (cfg : Cfg) (u : UvCfg) (s1 s2 : Store) (req : GetReq) (sig1 sig2 : Bytes)
    (hm : consentMissing (envOf cfg u s1) (.get req) = true) :
    outcomeKey (obsOfGet (getAssertion cfg u s1 req) sig1) = outcomeKey (obsOfGet (getAssertion cfg u s2 req) sig2) := by
  unfold getAssertion
  dsimp only
  by_cases hpin : req.pinAuth = true
  · simp only [hpin, if_true]; rfl
  · rw [if_neg hpin, if_neg hpin]
    by_cases hrk : req.rk = true
    · simp only [hrk, if_true]; rfl
    · rw [if_neg hrk, if_neg hrk]
      generalize shownOf (firstCred (s1.find (allowIds req) req.rpId).1) = c1
      generalize shownOf (firstCred (s2.find (allowIds req) req.rpId).1) = c2
      obtain ⟨e1, ev1, he1⟩ := checkUser_err_of_missing (envOf cfg u s1) (.get req) c1 hm
      obtain ⟨e2, ev2, he2⟩ := checkUser_err_of_missing (envOf cfg u s1) (.get req) c2 hm
      simp only [OpReq.up, OpReq.uvReq, envOf] at he1 he2
      have hind := checkUser_result_indep u req.up req.uv c1 c2
      rw [he1, he2] at hind
      simp only [Except.error.injEq] at hind
      rw [he1, he2, hind]
      rfl

/-! ### seen from the WebAuthn caller: `userVerification` is the request for verification -/

/-- `Client::authenticate` always requires presence and asks for verification exactly when
`userVerification` is not `discouraged`; so with verification asked for (required or preferred) on an
authenticator whose verification is absent or unconfigured the ceremony is an error and the store is
untouched — the client cannot turn the request into an unverified assertion. -/
theorem C04_client_authenticate_unsupported (v : RpId.Verifier) (cfg : Cfg) (u : UvCfg) (s : Store)
    (origin : RpId.Origin) (originStr : String) (req : Client.AuthReq) (mode : Client.ClientDataMode)
    (hreq : req.userVerification ≠ .discouraged) (hcap : u.verification ≠ some true) :
    (∃ e, (Client.authenticate v cfg u s origin originStr req mode).result = .error e)
      ∧ storeObs (Client.authenticate v cfg u s origin originStr req mode).store = storeObs s := by
  have htick : storeObs (getInfo cfg u s).2 = storeObs s := rfl
  unfold Client.authenticate
  simp only
  split
  · exact ⟨⟨_, rfl⟩, htick⟩
  · split
    · exact ⟨⟨_, rfl⟩, htick⟩
    · rename_i rp _ _ ctapExt _
      have huv : (req.userVerification != Client.UvReq.discouraged) = true := by
        cases h : req.userVerification <;> simp_all
      have hcap' : (u.verification != some true) = true := by
        cases h : u.verification with
        | none => rfl
        | some b => cases b <;> simp_all
      have key := C04_get_errors cfg u (getInfo cfg u s).2
        { rpId := rp.map UInt8.ofNat,
          cdh := Client.clientDataHash (Client.clientDataJson "webauthn.get" req.challenge originStr mode) mode,
          allowList := req.allow, ext := ctapExt, rk := false, up := true,
          uv := req.userVerification != Client.UvReq.discouraged, pinAuth := false } []
      simp only [c04_errors, OpReq.uvReq, envOf, huv, hcap', Bool.and_self, Bool.false_or, if_true,
        Bool.false_eq_true, if_false, Bool.and_eq_true, snapsEq, obsOfGet, beq_iff_eq] at key
      obtain ⟨hres, hstore⟩ := key
      simp only [huv]
      generalize getAssertion cfg u (getInfo cfg u s).2
        { rpId := rp.map UInt8.ofNat,
          cdh := Client.clientDataHash (Client.clientDataJson "webauthn.get" req.challenge originStr mode) mode,
          allowList := req.allow, ext := ctapExt, rk := false, up := true, uv := true, pinAuth := false } = out at hres hstore ⊢
      cases hr : out.result with
      | error e => exact ⟨⟨_, rfl⟩, by rw [hstore]; exact htick⟩
      | ok r =>
        rw [hr] at hres
        cases ht : r.authData.toVec <;> simp [ht] at hres

/-- the same for `Client::register` (which also always requires presence): verification asked for on an
authenticator without it is an error, nothing is saved -/
theorem C04_client_register_unsupported (v : RpId.Verifier) (cfg : Cfg) (u : UvCfg) (s : Store) (dr : Draws)
    (origin : RpId.Origin) (originStr : String) (req : Client.RegisterReq) (mode : Client.ClientDataMode)
    (hreq : req.selection.map (·.userVerification) ≠ some .discouraged) (hcap : u.verification ≠ some true) :
    (∃ e, (Client.register v cfg u s dr origin originStr req mode).result = .error e)
      ∧ storeObs (Client.register v cfg u s dr origin originStr req mode).store = storeObs s := by
  have htick : storeObs (getInfo cfg u s).2 = storeObs s := rfl
  unfold Client.register
  simp only
  split
  · exact ⟨⟨_, rfl⟩, htick⟩
  · split
    · exact ⟨⟨_, rfl⟩, htick⟩
    · rename_i rp _ _ ctapExt _
      have huv : ((req.selection.map (·.userVerification)) != some Client.UvReq.discouraged) = true := by
        simpa using hreq
      have hcap' : (u.verification != some true) = true := by
        cases h : u.verification with
        | none => rfl
        | some b => cases b <;> simp_all
      have key := C04_make_errors cfg u (getInfo cfg u s).2 dr
        { cdh := Client.clientDataHash (Client.clientDataJson "webauthn.create" req.challenge originStr mode) mode,
          rpId := rp.map UInt8.ofNat, userId := req.userId, algs := if req.algs.isEmpty then [-7, -257] else req.algs,
          excludeList := req.exclude, ext := ctapExt,
          rk := Client.mapRk req.selection (getInfo cfg u s).1.2.1, up := true,
          uv := (req.selection.map (·.userVerification)) != some Client.UvReq.discouraged, pinAuth := false }
      simp only [c04_errors, OpReq.uvReq, envOf, huv, hcap', Bool.and_self, if_true,
        Bool.not_true, Bool.false_eq_true, if_false, Bool.and_eq_true, snapsEq, obsOfMake, beq_iff_eq] at key
      obtain ⟨hres, hstore⟩ := key
      simp only [huv]
      generalize makeCredential cfg u (getInfo cfg u s).2 dr
        { cdh := Client.clientDataHash (Client.clientDataJson "webauthn.create" req.challenge originStr mode) mode,
          rpId := rp.map UInt8.ofNat, userId := req.userId, algs := if req.algs.isEmpty then [-7, -257] else req.algs,
          excludeList := req.exclude, ext := ctapExt,
          rk := Client.mapRk req.selection (getInfo cfg u s).1.2.1, up := true,
          uv := true, pinAuth := false } = out at hres hstore ⊢
      cases hr : out.result with
      | error e => exact ⟨⟨_, rfl⟩, by rw [hstore]; exact htick⟩
      | ok r =>
        rw [hr] at hres
        cases ht : r.authData.toVec <;> simp [ht] at hres

end PasskeyVerif.C04
