/-
C02 — Registration returns a credential that a standard relying party can verify.
Property theorems only, about the client model composed with the authenticator model.  What a relying
party would recompute from bytes (JSON and CBOR parsing, P-256 point validity, the private key matching
the public key, freshness of the drawn credential id) is evaluated by the Spec on the implementation's
observations (Spec/Client.lean `c02_register`); the theorems say which values the response and the store
are built from, for every request, store, user-validation behaviour and draw.
-/
import PasskeyVerif.Lemmas.Cbor
import PasskeyVerif.Lemmas.Client
import PasskeyVerif.Spec.Client
namespace PasskeyVerif.C02
open PasskeyVerif PasskeyVerif.Auth PasskeyVerif.Auth.Spec PasskeyVerif.Client PasskeyVerif.Spec.Client
open PasskeyVerif.AuthData (Bytes AuthData)

/-- **Algorithm choice**: `choose_algorithm` returns the first entry of the list that the authenticator
supports, and fails with CTAP2_ERR_UNSUPPORTED_ALGORITHM exactly when there is none. -/
theorem C02_choose_algorithm (cfg : Cfg) (params : List Int) :
    chooseAlgorithm cfg params =
      (match params.find? (fun a => cfg.algs.contains a) with
       | some a => .ok a
       | none => .error eUnsupportedAlgorithm) := rfl

/-- the first supported entry: everything before it is unsupported -/
theorem C02_first_supported (cfg : Cfg) (params : List Int) (a : Int) (h : chooseAlgorithm cfg params = .ok a) :
    ∃ pre post, params = pre ++ a :: post ∧ cfg.algs.contains a = true ∧ ∀ b ∈ pre, cfg.algs.contains b = false := by
  unfold chooseAlgorithm at h
  split at h
  · rename_i a' hf
    cases h
    obtain ⟨pre, post, hp, hall⟩ := List.find?_eq_some_iff_append.mp hf |>.2
    exact ⟨pre, post, hp, (List.find?_eq_some_iff_append.mp hf).1, fun b hb => by simpa using hall b hb⟩
  · cases h

/-- **No supported algorithm: nothing is created.** After consent, with no exclusion, a list without a
supported entry fails with the unsupported-algorithm status, the store content is unchanged and no save or
update happened. -/
theorem C02_no_supported_algorithm (cfg : Cfg) (s : Store) (dr : Draws) (req : MakeReq) (flags : UInt8)
    (hex : (excludePhase s req).1 = false) (halg : ∀ a ∈ req.algs, cfg.algs.contains a = false) :
    (makeAfterConsent cfg s dr req flags).result = .error eUnsupportedAlgorithm
      ∧ (makeAfterConsent cfg s dr req flags).store.items = s.items
      ∧ ∀ e ∈ (makeAfterConsent cfg s dr req flags).trace, isEffect (evObsOf e) = false :=
  makeAfterConsent_unsupported_alg cfg s dr req flags hex (by
    rw [List.find?_eq_none]; intro a ha; have := halg a ha; simpa using this)

/-- **The registration response**: when `register` succeeds —
* the effective RP ID `rp` was accepted by the RP-ID verifier (C01);
* the client data is the serialisation of type `webauthn.create`, the request's challenge in base64url and the caller's origin;
* the attestation object wraps byte-identically the authenticator data returned beside it;
* that authenticator data is the encoding of: SHA-256 of `rp`, the flags of the ceremony, the initial
  counter, and attested credential data holding the authenticator's AAGUID, the drawn credential id and the
  COSE form of the drawn key's public half;
* raw id = the drawn credential id, id = its base64url, the DER key is built from the same key's public
  half, the algorithm is ES256;
* the list (or the WebAuthn defaults for an empty list) contains a supported algorithm;
* the store afterwards is the store before with exactly the new passkey saved: credential id and key as
  drawn (private half included), bound to `rp`. -/
theorem C02_register (v : RpId.Verifier) (cfg : Cfg) (u : UvCfg) (s : Store) (dr : Draws) (origin : RpId.Origin)
    (ostr : String) (req : RegisterReq) (mode : ClientDataMode) (resp : RegisterResp)
    (h : (register v cfg u s dr origin ostr req mode).result = .ok resp) :
    ∃ (rp : Psl.Str) (flags : UInt8) (pk : Passkey),
      RpId.assertDomain v origin req.rpId = .ok rp
      ∧ resp.clientDataJson = clientDataJson "webauthn.create" req.challenge ostr mode
      ∧ resp.attestationObject = attestationObject resp.authenticatorData
      ∧ ((((AuthData.new (rp.map UInt8.ofNat) (if cfg.counterOn then some 0 else none)).setFlags flags).setAcd
            ⟨cfg.aaguid, dr.credId, coseKeyBytes dr.key⟩).toVec = some resp.authenticatorData)
      ∧ resp.rawId = dr.credId ∧ resp.id = Base64.encodeUrl dr.credId
      ∧ resp.publicKey = publicKeyDer dr.key ∧ resp.publicKeyAlgorithm = -7
      ∧ (∃ a, chooseAlgorithm cfg (if req.algs.isEmpty then [-7, -257] else req.algs) = .ok a)
      ∧ pk.credId = dr.credId ∧ pk.key = dr.key ∧ pk.rpId = rp.map UInt8.ofNat
      ∧ pk.counter = (if cfg.counterOn then some 0 else none)
      ∧ (register v cfg u s dr origin ostr req mode).store.items = saveRaw s.kind s.items pk := by
  unfold register at h ⊢
  dsimp only at h ⊢
  split at h
  · cases h
  · rename_i rp hrp
    split at h
    · cases h
    · rename_i ctapExt hext
      split at h
      · cases h
      · rename_i r hmk
        split at h
        · cases h
        · rename_i ad had
          simp only [Except.ok.injEq] at h
          obtain ⟨flags, hfl⟩ := makeCredential_ok_authData _ _ _ _ _ _ hmk
          obtain ⟨pk, hk1, hk2, hk3, hk4, _, hst⟩ := makeCredential_ok_store' _ _ _ _ _ _ hmk
          refine ⟨rp, flags, pk, hrp, ?_, ?_, ?_, ?_, ?_, ?_, ?_, ?_, ?_, ?_, ?_, ?_, ?_⟩
          · rw [← h]
          · rw [← h]
          · rw [← h]; dsimp only
            rw [← had, hfl]; rfl
          · rw [← h]
          · rw [← h]
          · rw [← h]
          · rw [← h]
          · -- the algorithm phase passed
            exact makeCredential_ok_alg _ _ _ _ _ _ hmk
          · exact hk1
          · exact hk2
          · exact hk3
          · exact hk4
          · -- the store after: the later get_info only ticks the call counter
            show (Store.info _).2.1.items = _
            exact hst

/-- **Exactly one credential is added**: saving a passkey whose id is fresh into the map or the contract
store appends it and keeps every stored credential as it was. -/
theorem C02_exactly_one_added (kind : StoreKind) (items : List Passkey) (pk : Passkey) (hk : kind ≠ .singleSlot)
    (hfresh : ∀ q ∈ items, q.credId ≠ pk.credId) : saveRaw kind items pk = items ++ [pk] :=
  saveRaw_fresh kind items pk hk hfresh

/-- the configured credential-id length is the requested one clamped to 16..64 -/
theorem C02_id_length_clamped (n : Nat) : 16 ≤ clampIdLen n ∧ clampIdLen n ≤ 64 ∧ (16 ≤ n → n ≤ 64 → clampIdLen n = n) := by
  unfold clampIdLen; omega

/-- **What a relying party reads out of the attestation object**: decoding the bytes with the CBOR reader (whose
round trip is proved in Lemmas/Cbor.lean) gives the map with format "none", an empty statement and exactly the
authenticator data that was wrapped — for authenticator data of any content and any length below 2^64. -/
theorem C02_attestation_object_decodes (ad : Bytes) (h : ad.length < 2 ^ 64) :
    rpAttestation (attestationObject ad) = some ([0x6e, 0x6f, 0x6e, 0x65], ad, .map []) := by
  have hwf : (attestationItem ad).WF = true := by
    have h2 : decide (ad.length < Cbor.two64) = true := decide_eq_true (by simpa [Cbor.two64] using h)
    simp [attestationItem, Cbor.Item.WF, Cbor.wfPairs, kFmt, kNone, kAttStmt, kAuthData, Cbor.two64] at h2 ⊢
    exact h2
  have hdec := Cbor.decode1_encode (attestationItem ad) hwf []
  rw [List.append_nil] at hdec
  unfold rpAttestation attestationObject
  rw [hdec]
  rfl

end PasskeyVerif.C02
