/- SHA-256 (FIPS 180-4), executable, import-free. Used as a run-time oracle and to predict hashes in
the ceremony models; no theorem is proved about it (cryptography is modelled, not verified). -/
namespace PasskeyVerif.Sha256

def K : Array UInt32 := #[
  0x428a2f98, 0x71374491, 0xb5c0fbcf, 0xe9b5dba5, 0x3956c25b, 0x59f111f1, 0x923f82a4, 0xab1c5ed5,
  0xd807aa98, 0x12835b01, 0x243185be, 0x550c7dc3, 0x72be5d74, 0x80deb1fe, 0x9bdc06a7, 0xc19bf174,
  0xe49b69c1, 0xefbe4786, 0x0fc19dc6, 0x240ca1cc, 0x2de92c6f, 0x4a7484aa, 0x5cb0a9dc, 0x76f988da,
  0x983e5152, 0xa831c66d, 0xb00327c8, 0xbf597fc7, 0xc6e00bf3, 0xd5a79147, 0x06ca6351, 0x14292967,
  0x27b70a85, 0x2e1b2138, 0x4d2c6dfc, 0x53380d13, 0x650a7354, 0x766a0abb, 0x81c2c92e, 0x92722c85,
  0xa2bfe8a1, 0xa81a664b, 0xc24b8b70, 0xc76c51a3, 0xd192e819, 0xd6990624, 0xf40e3585, 0x106aa070,
  0x19a4c116, 0x1e376c08, 0x2748774c, 0x34b0bcb5, 0x391c0cb3, 0x4ed8aa4a, 0x5b9cca4f, 0x682e6ff3,
  0x748f82ee, 0x78a5636f, 0x84c87814, 0x8cc70208, 0x90befffa, 0xa4506ceb, 0xbef9a3f7, 0xc67178f2]

def rotr (x : UInt32) (n : UInt32) : UInt32 := (x >>> n) ||| (x <<< (32 - n))

def pad (msg : List UInt8) : List UInt8 :=
  let len := msg.length
  let zeros := (119 - len % 64) % 64    -- so that len + 1 + zeros ≡ 56 (mod 64)
  let bits := len * 8
  msg ++ [(0x80 : UInt8)] ++ List.replicate zeros (0 : UInt8) ++
    (List.range 8).map (fun i => UInt8.ofNat ((bits >>> (8 * (7 - i))) % 256))

def word (b0 b1 b2 b3 : UInt8) : UInt32 :=
  (b0.toUInt32 <<< 24) ||| (b1.toUInt32 <<< 16) ||| (b2.toUInt32 <<< 8) ||| b3.toUInt32

def wordsOf : List UInt8 → List UInt32
  | b0 :: b1 :: b2 :: b3 :: rest => word b0 b1 b2 b3 :: wordsOf rest
  | _ => []

def schedule (block : Array UInt32) : Array UInt32 := Id.run do
  let mut w := block
  for i in [16:64] do
    let w15 := w[i - 15]!
    let w2 := w[i - 2]!
    let s0 := rotr w15 7 ^^^ rotr w15 18 ^^^ (w15 >>> 3)
    let s1 := rotr w2 17 ^^^ rotr w2 19 ^^^ (w2 >>> 10)
    w := w.push (w[i - 16]! + s0 + w[i - 7]! + s1)
  return w

/-- the 64 rounds: the working variables a..h after the last round -/
def rounds (h : Array UInt32) (block : Array UInt32) : Array UInt32 := Id.run do
  let w := schedule block
  let mut a := h[0]!
  let mut b := h[1]!
  let mut c := h[2]!
  let mut d := h[3]!
  let mut e := h[4]!
  let mut f := h[5]!
  let mut g := h[6]!
  let mut hh := h[7]!
  for i in [0:64] do
    let s1 := rotr e 6 ^^^ rotr e 11 ^^^ rotr e 25
    let ch := (e &&& f) ^^^ ((~~~e) &&& g)
    let t1 := hh + s1 + ch + K[i]! + w[i]!
    let s0 := rotr a 2 ^^^ rotr a 13 ^^^ rotr a 22
    let maj := (a &&& b) ^^^ (a &&& c) ^^^ (b &&& c)
    let t2 := s0 + maj
    hh := g; g := f; f := e; e := d + t1; d := c; c := b; b := a; a := t1 + t2
  return #[a, b, c, d, e, f, g, hh]

def compress (h : Array UInt32) (block : Array UInt32) : Array UInt32 :=
  let r := rounds h block
  #[h[0]! + r[0]!, h[1]! + r[1]!, h[2]! + r[2]!, h[3]! + r[3]!, h[4]! + r[4]!, h[5]! + r[5]!, h[6]! + r[6]!, h[7]! + r[7]!]

def blocks : Nat → List UInt32 → List (Array UInt32)
  | 0, _ => []
  | n + 1, ws => if ws.isEmpty then [] else (ws.take 16).toArray :: blocks n (ws.drop 16)

def bytesOfWord (w : UInt32) : List UInt8 :=
  [(w >>> 24).toUInt8, (w >>> 16).toUInt8, (w >>> 8).toUInt8, w.toUInt8]

def sha256 (msg : List UInt8) : List UInt8 :=
  let ws := wordsOf (pad msg)
  let h0 : Array UInt32 := #[0x6a09e667, 0xbb67ae85, 0x3c6ef372, 0xa54ff53a, 0x510e527f, 0x9b05688c, 0x1f83d9ab, 0x5be0cd19]
  let h := (blocks (ws.length / 16 + 1) ws).foldl compress h0
  h.toList.flatMap bytesOfWord

/-- HMAC-SHA-256 (RFC 2104) -/
def hmac (key msg : List UInt8) : List UInt8 :=
  let key := if key.length > 64 then sha256 key else key
  let key := key ++ List.replicate (64 - key.length) 0
  let ipad := key.map (· ^^^ 0x36)
  let opad := key.map (· ^^^ 0x5c)
  sha256 (opad ++ sha256 (ipad ++ msg))

theorem compress_size (h b : Array UInt32) : (compress h b).size = 8 := rfl

theorem foldl_compress_size (bs : List (Array UInt32)) (h : Array UInt32) (hs : h.size = 8) :
    (bs.foldl compress h).size = 8 := by
  induction bs generalizing h with
  | nil => exact hs
  | cons b rest ih => exact ih (compress h b) (compress_size h b)

/-- a SHA-256 digest is 32 bytes -/
theorem sha256_length (msg : List UInt8) : (sha256 msg).length = 32 := by
  unfold sha256
  dsimp only
  generalize hfold : (blocks ((wordsOf (pad msg)).length / 16 + 1) (wordsOf (pad msg))).foldl compress
    #[0x6a09e667, 0xbb67ae85, 0x3c6ef372, 0xa54ff53a, 0x510e527f, 0x9b05688c, 0x1f83d9ab, 0x5be0cd19] = h
  have hsz : h.size = 8 := by rw [← hfold]; exact foldl_compress_size _ _ rfl
  have hl : h.toList.length = 8 := by simpa using hsz
  match h.toList, hl with
  | [_, _, _, _, _, _, _, _], _ => rfl

end PasskeyVerif.Sha256
