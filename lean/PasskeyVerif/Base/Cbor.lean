/-
CBOR (RFC 8949) data items: the definite-length fragment that `ciborium::ser` emits and the
repository's messages use.  Canonical encoder (shortest heads), a decoder with explicit fuel, and a
scanner (`skip`) that returns the length of the first well-formed item.  Import-free, executable.
Indefinite lengths and floats wider than the head are outside the modelled fragment (`none`).
-/
namespace PasskeyVerif.Cbor

abbrev Bytes := List UInt8

inductive Item where
  | uint (n : Nat)                 -- major 0
  | nint (n : Nat)                 -- major 1: the value -1 - n
  | bytes (b : Bytes)              -- major 2
  | text (b : Bytes)               -- major 3 (UTF-8 bytes)
  | array (xs : List Item)         -- major 4
  | map (kvs : List (Item × Item)) -- major 5
  | tag (t : Nat) (x : Item)       -- major 6
  | simple (v : Nat)               -- major 7, simple values 0..23, 32..255 (false=20, true=21, null=22)
  | float (width : Nat) (bits : Nat) -- major 7 additional 25/26/27 with the raw bits
  deriving Repr, BEq, Inhabited

def beBytes (width : Nat) (n : Nat) : Bytes :=
  (List.range width).map (fun i => UInt8.ofNat ((n >>> (8 * (width - 1 - i))) % 256))

/-- head with major type `m` and argument `n`, shortest form -/
def head (m : Nat) (n : Nat) : Bytes :=
  let mt := m * 32
  if n < 24 then [UInt8.ofNat (mt + n)]
  else if n < 256 then UInt8.ofNat (mt + 24) :: beBytes 1 n
  else if n < 65536 then UInt8.ofNat (mt + 25) :: beBytes 2 n
  else if n < 4294967296 then UInt8.ofNat (mt + 26) :: beBytes 4 n
  else UInt8.ofNat (mt + 27) :: beBytes 8 n

mutual
  def encode : Item → Bytes
    | .uint n => head 0 n
    | .nint n => head 1 n
    | .bytes b => head 2 b.length ++ b
    | .text b => head 3 b.length ++ b
    | .array xs => head 4 xs.length ++ encodeList xs
    | .map kvs => head 5 kvs.length ++ encodePairs kvs
    | .tag t x => head 6 t ++ encode x
    | .simple v => head 7 v
    | .float w bits => UInt8.ofNat (7 * 32 + (if w = 2 then 25 else if w = 4 then 26 else 27)) :: beBytes w bits
  def encodeList : List Item → Bytes
    | [] => []
    | x :: xs => encode x ++ encodeList xs
  def encodePairs : List (Item × Item) → Bytes
    | [] => []
    | (k, v) :: kvs => encode k ++ encode v ++ encodePairs kvs
end

def ofBe (bs : Bytes) : Nat := bs.foldl (fun acc b => acc * 256 + b.toNat) 0

/-- parse a head: (major, additional info, argument, rest). `none`: truncated, or reserved/indefinite
additional info 28..31. -/
def readHead (bs : Bytes) : Option (Nat × Nat × Nat × Bytes) :=
  match bs with
  | [] => none
  | b :: rest =>
    let m := b.toNat / 32
    let ai := b.toNat % 32
    if ai < 24 then some (m, ai, ai, rest)
    else
      let w := if ai = 24 then 1 else if ai = 25 then 2 else if ai = 26 then 4 else if ai = 27 then 8 else 0
      if w = 0 then none
      else if rest.length < w then none
      else some (m, ai, ofBe (rest.take w), rest.drop w)

mutual
  /-- decode one item; fuel bounds nesting + element count (input length suffices) -/
  def decode : Nat → Bytes → Option (Item × Bytes)
    | 0, _ => none
    | fuel + 1, bs =>
      match readHead bs with
      | none => none
      | some (m, ai, n, rest) =>
        match m with
        | 0 => some (.uint n, rest)
        | 1 => some (.nint n, rest)
        | 2 => if rest.length < n then none else some (.bytes (rest.take n), rest.drop n)
        | 3 => if rest.length < n then none else some (.text (rest.take n), rest.drop n)
        | 4 => match decodeList fuel n rest with
          | some (xs, r) => some (.array xs, r)
          | none => none
        | 5 => match decodePairs fuel n rest with
          | some (kvs, r) => some (.map kvs, r)
          | none => none
        | 6 => match decode fuel rest with
          | some (x, r) => some (.tag n x, r)
          | none => none
        | _ =>
          if ai < 24 then some (.simple n, rest)
          else if ai = 24 then (if n < 32 then none else some (.simple n, rest))
          else some (.float (if ai = 25 then 2 else if ai = 26 then 4 else 8) n, rest)
  def decodeList : Nat → Nat → Bytes → Option (List Item × Bytes)
    | _, 0, bs => some ([], bs)
    | 0, _ + 1, _ => none
    | fuel + 1, n + 1, bs =>
      match decode fuel bs with
      | none => none
      | some (x, r) =>
        match decodeList fuel n r with
        | none => none
        | some (xs, r2) => some (x :: xs, r2)
  def decodePairs : Nat → Nat → Bytes → Option (List (Item × Item) × Bytes)
    | _, 0, bs => some ([], bs)
    | 0, _ + 1, _ => none
    | fuel + 1, n + 1, bs =>
      match decode fuel bs with
      | none => none
      | some (k, r) =>
        match decode fuel r with
        | none => none
        | some (v, r2) =>
          match decodePairs fuel n r2 with
          | none => none
          | some (kvs, r3) => some ((k, v) :: kvs, r3)
end

/-- decode exactly one item from the front (an array level costs two units of fuel: the item and its element list) -/
def decode1 (bs : Bytes) : Option (Item × Bytes) := decode (2 * bs.length + 2) bs

mutual
  /-- container nesting of an item (ciborium refuses more than 256 levels) -/
  def Item.depth : Item → Nat
    | .array xs => 1 + depthList xs
    | .map kvs => 1 + depthPairs kvs
    | .tag _ x => 1 + x.depth
    | _ => 0
  def depthList : List Item → Nat
    | [] => 0
    | x :: xs => max x.depth (depthList xs)
  def depthPairs : List (Item × Item) → Nat
    | [] => 0
    | (k, v) :: kvs => max (max k.depth v.depth) (depthPairs kvs)
end

/-- length of the first well-formed item -/
def skip (bs : Bytes) : Option Nat := (decode1 bs).map (fun (_, r) => bs.length - r.length)

/-- lookup in a map by integer label (non-negative `uint`, negative `nint`) -/
def mapGetInt (kvs : List (Item × Item)) (label : Int) : Option Item :=
  match kvs.find? (fun (k, _) => match k with
      | .uint n => label == Int.ofNat n
      | .nint n => label == -1 - Int.ofNat n
      | _ => false) with
  | some (_, v) => some v
  | none => none

def mapGetText (kvs : List (Item × Item)) (key : Bytes) : Option Item :=
  match kvs.find? (fun (k, _) => match k with | .text t => t == key | _ => false) with
  | some (_, v) => some v
  | none => none

def intItem (i : Int) : Item := if i ≥ 0 then .uint i.toNat else .nint (-1 - i).toNat

end PasskeyVerif.Cbor
