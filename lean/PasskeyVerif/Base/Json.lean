/-
A small JSON reader (RFC 8259) for the Spec side: what a relying party does with `clientDataJSON`.
Independent of the model's serialiser (`Client.clientDataJson`).  Numbers are kept as their text.
-/
namespace PasskeyVerif.Json

inductive Json where
  | null
  | bool (b : Bool)
  | num (s : String)
  | str (s : String)
  | arr (l : List Json)
  | obj (l : List (String × Json))
  deriving Repr, Inhabited

def skipWs : List Char → List Char
  | c :: cs => if c = ' ' || c = '\n' || c = '\r' || c = '\t' then skipWs cs else c :: cs
  | [] => []

def hexVal (c : Char) : Option Nat :=
  if '0' ≤ c ∧ c ≤ '9' then some (c.toNat - 48)
  else if 'a' ≤ c ∧ c ≤ 'f' then some (c.toNat - 87)
  else if 'A' ≤ c ∧ c ≤ 'F' then some (c.toNat - 55)
  else none

def hex4 : List Char → Option (Nat × List Char)
  | a :: b :: c :: d :: rest =>
    match hexVal a, hexVal b, hexVal c, hexVal d with
    | some a, some b, some c, some d => some (((a * 16 + b) * 16 + c) * 16 + d, rest)
    | _, _, _, _ => none
  | _ => none

/-- the characters after the opening quote up to and including the closing quote -/
def parseStrBody : Nat → List Char → List Char → Option (String × List Char)
  | 0, _, _ => none
  | _ + 1, [], _ => none
  | fuel + 1, c :: cs, acc =>
    if c = '"' then some (String.ofList acc.reverse, cs)
    else if c = '\\' then
      match cs with
      | 'u' :: rest =>
        (match hex4 rest with
         | some (v, rest') =>
           if 0xD800 ≤ v ∧ v < 0xDC00 then
             (match rest' with
              | '\\' :: 'u' :: rest'' =>
                (match hex4 rest'' with
                 | some (w, r3) =>
                   if 0xDC00 ≤ w ∧ w < 0xE000 then
                     parseStrBody fuel r3 (Char.ofNat (0x10000 + (v - 0xD800) * 1024 + (w - 0xDC00)) :: acc)
                   else none
                 | none => none)
              | _ => none)
           else if 0xDC00 ≤ v ∧ v < 0xE000 then none
           else parseStrBody fuel rest' (Char.ofNat v :: acc)
         | none => none)
      | e :: rest =>
        let m : Option Char :=
          if e = '"' then some '"' else if e = '\\' then some '\\' else if e = '/' then some '/'
          else if e = 'b' then some (Char.ofNat 8) else if e = 'f' then some (Char.ofNat 12)
          else if e = 'n' then some '\n' else if e = 'r' then some '\r' else if e = 't' then some '\t' else none
        (match m with
         | some ch => parseStrBody fuel rest (ch :: acc)
         | none => none)
      | [] => none
    else if c.toNat < 0x20 then none
    else parseStrBody fuel cs (c :: acc)

def isNumChar (c : Char) : Bool := ('0' ≤ c ∧ c ≤ '9') || c = '-' || c = '+' || c = '.' || c = 'e' || c = 'E'

def startsWithL (l pre : List Char) : Bool := l.take pre.length == pre

mutual
  def parseValue : Nat → List Char → Option (Json × List Char)
    | 0, _ => none
    | fuel + 1, s =>
      match skipWs s with
      | '"' :: cs => (parseStrBody (cs.length + 1) cs []).map (fun (v, r) => (.str v, r))
      | '{' :: cs =>
        (match skipWs cs with
         | '}' :: r => some (.obj [], r)
         | r => parseMembers fuel r [])
      | '[' :: cs =>
        (match skipWs cs with
         | ']' :: r => some (.arr [], r)
         | r => parseElems fuel r [])
      | c :: cs =>
        let l := c :: cs
        if startsWithL l "true".toList then some (.bool true, l.drop 4)
        else if startsWithL l "false".toList then some (.bool false, l.drop 5)
        else if startsWithL l "null".toList then some (.null, l.drop 4)
        else if isNumChar c then
          let numCs := l.takeWhile isNumChar
          some (.num (String.ofList numCs), l.drop numCs.length)
        else none
      | [] => none
  def parseMembers : Nat → List Char → List (String × Json) → Option (Json × List Char)
    | 0, _, _ => none
    | fuel + 1, s, acc =>
      match skipWs s with
      | '"' :: cs =>
        (match parseStrBody (cs.length + 1) cs [] with
         | some (k, r) =>
           (match skipWs r with
            | ':' :: r2 =>
              (match parseValue fuel r2 with
               | some (v, r3) =>
                 (match skipWs r3 with
                  | ',' :: r4 => parseMembers fuel r4 ((k, v) :: acc)
                  | '}' :: r4 => some (.obj ((k, v) :: acc).reverse, r4)
                  | _ => none)
               | none => none)
            | _ => none)
         | none => none)
      | _ => none
  def parseElems : Nat → List Char → List Json → Option (Json × List Char)
    | 0, _, _ => none
    | fuel + 1, s, acc =>
      match parseValue fuel s with
      | some (v, r) =>
        (match skipWs r with
         | ',' :: r2 => parseElems fuel r2 (v :: acc)
         | ']' :: r2 => some (.arr (v :: acc).reverse, r2)
         | _ => none)
      | none => none
end

/-- a complete JSON text -/
def parse (s : String) : Option Json :=
  let cs := s.toList
  match parseValue (cs.length + 2) cs with
  | some (v, r) => if (skipWs r).isEmpty then some v else none
  | none => none

def Json.get? (j : Json) (k : String) : Option Json :=
  match j with
  | .obj l => (l.find? (fun e => e.1 == k)).map (·.2)
  | _ => none

def Json.str? : Json → Option String
  | .str s => some s
  | _ => none

/-- number of members named `k` (a relying party must not see a duplicated member) -/
def Json.count (j : Json) (k : String) : Nat :=
  match j with
  | .obj l => (l.filter (fun e => e.1 == k)).length
  | _ => 0

end PasskeyVerif.Json
