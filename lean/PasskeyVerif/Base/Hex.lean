/- Hex and small text helpers shared by the driver (import-free). -/
namespace PasskeyVerif

abbrev ByteList := List UInt8

def hexDigit (n : Nat) : Char :=
  if n < 10 then Char.ofNat (48 + n) else Char.ofNat (87 + n)

def hexOfBytes (bs : ByteList) : String :=
  String.ofList (bs.foldr (fun b acc => hexDigit (b.toNat / 16) :: hexDigit (b.toNat % 16) :: acc) [])

def hexVal (c : Char) : Option Nat :=
  if '0' ≤ c ∧ c ≤ '9' then some (c.toNat - 48)
  else if 'a' ≤ c ∧ c ≤ 'f' then some (c.toNat - 87)
  else if 'A' ≤ c ∧ c ≤ 'F' then some (c.toNat - 55)
  else none

def bytesOfHexAux : List Char → ByteList → Option ByteList
  | [], acc => some acc.reverse
  | [_], _ => none
  | a :: b :: rest, acc =>
    match hexVal a, hexVal b with
    | some x, some y => bytesOfHexAux rest (UInt8.ofNat (x * 16 + y) :: acc)
    | _, _ => none

/-- "-" denotes the empty byte string (so that fields are never empty) -/
def bytesOfHex (s : String) : Option ByteList :=
  if s = "-" then some [] else bytesOfHexAux s.toList []

def hexField (bs : ByteList) : String := if bs.isEmpty then "-" else hexOfBytes bs

def splitTab (s : String) : List String := s.splitOn "\t"
def splitSp (s : String) : List String := s.splitOn " "

end PasskeyVerif
