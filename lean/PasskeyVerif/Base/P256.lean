/-
NIST P-256 arithmetic over `Nat` (affine coordinates, textbook formulas) and ECDSA verification with
SHA-256 — an executable oracle for the Spec clauses of C02/C03/C17 ("valid point", "private key matches
public key", "signature verifies").  Nothing is proved about it here: it is part of the trusted oracle,
validated against RFC 6979 A.2.5 (see the `#eval` checks in Driver tests / correspondence corpus).
-/
import PasskeyVerif.Base.Sha256
namespace PasskeyVerif.P256

def p : Nat := 0xffffffff00000001000000000000000000000000ffffffffffffffffffffffff
def n : Nat := 0xffffffff00000000ffffffffffffffffbce6faada7179e84f3b9cac2fc632551
def a : Nat := p - 3
def b : Nat := 0x5ac635d8aa3a93e7b3ebbd55769886bc651d06b0cc53b0f63bce3c3e27d2604b
def gx : Nat := 0x6b17d1f2e12c4247f8bce6e563a440f277037d812deb33a0f4a13945d898c296
def gy : Nat := 0x4fe342e2fe1a7f9b8ee7eb4a7c0f9e162bce33576b315ececbb6406837bf51f5

/-- `b^e mod m` by square-and-multiply; `fuel` bounds the bit length of `e` -/
def powModAux : Nat → Nat → Nat → Nat → Nat → Nat
  | 0, _, _, _, acc => acc
  | fuel + 1, b, e, m, acc =>
    if e = 0 then acc
    else powModAux fuel (b * b % m) (e / 2) m (if e % 2 = 1 then acc * b % m else acc)

def powMod (b e m : Nat) : Nat := powModAux 260 (b % m) e m (1 % m)

/-- inverse modulo a prime (Fermat) -/
def invMod (x m : Nat) : Nat := powMod x (m - 2) m

/-- affine point; `none` = point at infinity -/
abbrev Point := Option (Nat × Nat)

def onCurve (x y : Nat) : Bool :=
  x < p && y < p && (y * y) % p == (x * x % p * x + a * x + b) % p

def subMod (x y : Nat) : Nat := (x + p - y % p) % p

def add (P Q : Point) : Point :=
  match P, Q with
  | none, q => q
  | pt, none => pt
  | some (x1, y1), some (x2, y2) =>
    if x1 == x2 then
      if (y1 + y2) % p == 0 then none
      else
        let l := (3 * x1 % p * x1 + a) % p * invMod (2 * y1 % p) p % p
        let x3 := subMod (l * l % p) (2 * x1)
        some (x3, subMod (l * subMod x1 x3 % p) y1)
    else
      let l := subMod y2 y1 * invMod (subMod x2 x1) p % p
      let x3 := subMod (subMod (l * l % p) x1) x2
      some (x3, subMod (l * subMod x1 x3 % p) y1)

/-- double-and-add, least significant bit first -/
def mulAux : Nat → Nat → Point → Point → Point
  | 0, _, _, acc => acc
  | fuel + 1, k, P, acc =>
    if k = 0 then acc else mulAux fuel (k / 2) (add P P) (if k % 2 = 1 then add acc P else acc)

/-- reference scalar multiplication in affine coordinates (one inversion per step: slow) -/
def mulAffine (k : Nat) (P : Point) : Point := mulAux 260 k P none

/-! Jacobian coordinates `(X, Y, Z)` ~ affine `(X/Z², Y/Z³)`, `Z = 0` for infinity: no inversion per step. -/

def jdouble (P : Nat × Nat × Nat) : Nat × Nat × Nat :=
  let (x, y, z) := P
  if z = 0 || y = 0 then (1, 1, 0) else
  let y2 := y * y % p
  let s := 4 * x % p * y2 % p
  let z2 := z * z % p
  let m := (3 * (x * x % p) + a * (z2 * z2 % p)) % p
  let x' := subMod (m * m % p) (2 * s)
  let y' := subMod (m * subMod s x' % p) (8 * (y2 * y2 % p))
  (x', y', 2 * y % p * z % p)

def jadd (P Q : Nat × Nat × Nat) : Nat × Nat × Nat :=
  let (x1, y1, z1) := P
  let (x2, y2, z2) := Q
  if z1 = 0 then Q else if z2 = 0 then P else
  let z1s := z1 * z1 % p
  let z2s := z2 * z2 % p
  let u1 := x1 * z2s % p
  let u2 := x2 * z1s % p
  let s1 := y1 * (z2s * z2 % p) % p
  let s2 := y2 * (z1s * z1 % p) % p
  if u1 = u2 then (if s1 = s2 then jdouble P else (1, 1, 0)) else
  let h := subMod u2 u1
  let r := subMod s2 s1
  let h2 := h * h % p
  let h3 := h2 * h % p
  let x3 := subMod (subMod (r * r % p) h3) (2 * (u1 * h2 % p))
  let y3 := subMod (r * subMod (u1 * h2 % p) x3 % p) (s1 * h3 % p)
  (x3, y3, h * z1 % p * z2 % p)

def jmulAux : Nat → Nat → (Nat × Nat × Nat) → (Nat × Nat × Nat) → (Nat × Nat × Nat)
  | 0, _, _, acc => acc
  | fuel + 1, k, P, acc =>
    if k = 0 then acc else jmulAux fuel (k / 2) (jdouble P) (if k % 2 = 1 then jadd acc P else acc)

def toAffine (P : Nat × Nat × Nat) : Point :=
  let (x, y, z) := P
  if z = 0 then none else
  let zi := invMod z p
  let zi2 := zi * zi % p
  some (x * zi2 % p, y * (zi2 * zi % p) % p)

def mul (k : Nat) (P : Point) : Point :=
  match P with
  | none => none
  | some (x, y) => toAffine (jmulAux 260 k (x, y, 1) (1, 1, 0))

def G : Point := some (gx, gy)

def natOfBytes (bs : List UInt8) : Nat := bs.foldl (fun acc x => acc * 256 + x.toNat) 0

/-- the public key belonging to private scalar `d` -/
def publicOf (d : Nat) : Point := mul d G

/-- `(x, y)` is a valid public key: on the curve (hence not infinity; cofactor 1) -/
def validPublic (x y : List UInt8) : Bool := x.length == 32 && y.length == 32 && onCurve (natOfBytes x) (natOfBytes y)

/-- private scalar bytes `d` generate exactly `(x, y)` -/
def keyPairMatches (d x y : List UInt8) : Bool :=
  let k := natOfBytes d
  0 < k && k < n && publicOf k == some (natOfBytes x, natOfBytes y)

/-- ASN.1 DER `SEQUENCE { INTEGER r, INTEGER s }` with short-form lengths and minimal positive integers -/
def parseDerSig (sig : List UInt8) : Option (Nat × Nat) :=
  match sig with
  | 0x30 :: len :: rest =>
    if len.toNat != rest.length || len.toNat ≥ 128 then none else
    match rest with
    | 0x02 :: lr :: rest1 =>
      let rb := rest1.take lr.toNat
      let rest2 := rest1.drop lr.toNat
      if rb.length != lr.toNat || lr == 0 then none else
      match rest2 with
      | 0x02 :: ls :: rest3 =>
        if rest3.length != ls.toNat || ls == 0 then none else
        let minimal (l : List UInt8) : Bool := match l with
          | [] => false
          | [x] => x < 0x80
          | x :: y :: _ => x < 0x80 && !(x == 0 && y < 0x80)
        if minimal rb && minimal rest3 then some (natOfBytes rb, natOfBytes rest3) else none
      | _ => none
    | _ => none
  | _ => none

/-- ECDSA verification (FIPS 186-4 §6.4) of `(r, s)` over the SHA-256 of `msg` under public key `(x, y)` -/
def verifyRS (x y : Nat) (msg : List UInt8) (r s : Nat) : Bool :=
  if !(onCurve x y) then false else
  if r = 0 || r ≥ n || s = 0 || s ≥ n then false else
  let e := natOfBytes (Sha256.sha256 msg)
  let w := invMod s n
  let u1 := e * w % n
  let u2 := r * w % n
  match add (mul u1 G) (mul u2 (some (x, y))) with
  | none => false
  | some (x1, _) => x1 % n == r

def verifyDer (x y : List UInt8) (msg sig : List UInt8) : Bool :=
  match parseDerSig sig with
  | some (r, s) => x.length == 32 && y.length == 32 && verifyRS (natOfBytes x) (natOfBytes y) msg r s
  | none => false

end PasskeyVerif.P256
