/-
Base64 (RFC 4648) as used by passkey-types/src/utils/encoding.rs via `data_encoding`:
unpadded encoders for both alphabets, and the decoders behind `Bytes::try_from(&str)`:
trailing `=` trimmed; base64url tried first without the trailing-bits check, then standard base64 with it.
Import-free, executable.
-/
namespace PasskeyVerif.Base64

abbrev Bytes := List UInt8

def stdAlphabet : List Char := "ABCDEFGHIJKLMNOPQRSTUVWXYZabcdefghijklmnopqrstuvwxyz0123456789+/".toList
def urlAlphabet : List Char := "ABCDEFGHIJKLMNOPQRSTUVWXYZabcdefghijklmnopqrstuvwxyz0123456789-_".toList

def sextet (url : Bool) (n : Nat) : Char := (if url then urlAlphabet else stdAlphabet).getD n 'A'

/-- unpadded encoding -/
def encodeChars (url : Bool) : Bytes → List Char
  | a :: b :: c :: rest =>
    let n := a.toNat * 65536 + b.toNat * 256 + c.toNat
    sextet url (n / 262144) :: sextet url (n / 4096 % 64) :: sextet url (n / 64 % 64) :: sextet url (n % 64) :: encodeChars url rest
  | [a, b] =>
    let n := a.toNat * 65536 + b.toNat * 256
    [sextet url (n / 262144), sextet url (n / 4096 % 64), sextet url (n / 64 % 64)]
  | [a] =>
    let n := a.toNat * 65536
    [sextet url (n / 262144), sextet url (n / 4096 % 64)]
  | [] => []

/-- `encoding::base64url` -/
def encodeUrl (bs : Bytes) : String := String.ofList (encodeChars true bs)
/-- `encoding::base64` -/
def encodeStd (bs : Bytes) : String := String.ofList (encodeChars false bs)

def valueOf (url : Bool) (c : Char) : Option Nat :=
  if 'A' ≤ c ∧ c ≤ 'Z' then some (c.toNat - 65)
  else if 'a' ≤ c ∧ c ≤ 'z' then some (c.toNat - 71)
  else if '0' ≤ c ∧ c ≤ '9' then some (c.toNat + 4)
  else if url then (if c = '-' then some 62 else if c = '_' then some 63 else none)
  else (if c = '+' then some 62 else if c = '/' then some 63 else none)

/-- unpadded decoding; `strict`: non-zero trailing bits are an error -/
def decodeVals (strict : Bool) : List Nat → Option Bytes
  | a :: b :: c :: d :: rest =>
    let n := a * 262144 + b * 4096 + c * 64 + d
    match decodeVals strict rest with
    | some bs => some (UInt8.ofNat (n / 65536) :: UInt8.ofNat (n / 256 % 256) :: UInt8.ofNat (n % 256) :: bs)
    | none => none
  | [a, b, c] =>
    let n := a * 262144 + b * 4096 + c * 64
    if strict && c % 4 ≠ 0 then none else some [UInt8.ofNat (n / 65536), UInt8.ofNat (n / 256 % 256)]
  | [a, b] =>
    let n := a * 262144 + b * 4096
    if strict && b % 16 ≠ 0 then none else some [UInt8.ofNat (n / 65536)]
  | [_] => none
  | [] => some []

def trimPad (cs : List Char) : List Char := (cs.reverse.dropWhile (· = '=')).reverse

def decodeWith (url strict : Bool) (cs : List Char) : Option Bytes :=
  match (trimPad cs).mapM (valueOf url) with
  | some vs => decodeVals strict vs
  | none => none

/-- `Bytes::try_from(&str)`: base64url (trailing bits unchecked), else standard base64 -/
def decodeLenient (s : String) : Option Bytes :=
  match decodeWith true false s.toList with
  | some b => some b
  | none => decodeWith false true s.toList

end PasskeyVerif.Base64
