/-
C17 Spec, from the U2F raw message formats (v1.2): what a relying party / FIDO client checks of the
registration and authentication responses, their encodings, and what a well-formed request frame means.
-/
import PasskeyVerif.Model.U2f
import PasskeyVerif.Model.AuthObs
import PasskeyVerif.Base.P256
namespace PasskeyVerif.Spec.U2f
open PasskeyVerif PasskeyVerif.Auth
open PasskeyVerif.AuthData (Bytes)

def be32 (n : Nat) : Bytes := (List.range 4).map (fun i => UInt8.ofNat ((n >>> (8 * (3 - i))) % 256))

/-- an ECDSA signature in X9.62 DER form, or as the fixed 64-byte r‖s -/
def verifies (x y msg sig : Bytes) : Bool :=
  P256.verifyDer x y msg sig
    || (sig.length == 64 && x.length == 32 && y.length == 32
        && P256.verifyRS (P256.natOfBytes x) (P256.natOfBytes y) msg (P256.natOfBytes (sig.take 32)) (P256.natOfBytes (sig.drop 32)))

def rpOf (app : Bytes) : Bytes := (Base64.encodeUrl app).toUTF8.toList

structure RegObs where
  x : Bytes
  y : Bytes
  handle : Bytes
  cert : Bytes
  sig : Bytes
  encoded : Bytes

def c17_register (app chal handle : Bytes) (key : Option Key) (post : List PkSnap) (o : RegObs) : Option String :=
  if !P256.validPublic o.x o.y then some "public-key-not-a-valid-p256-point" else
  if o.handle != handle then some "key-handle-not-the-one-given" else
  if !verifies o.x o.y ([0x00] ++ app ++ chal ++ handle ++ [0x04] ++ o.x ++ o.y) o.sig then
    some "registration-signature-does-not-verify-over-0-application-challenge-handle-key" else
  if o.encoded != [0x05] ++ [0x04] ++ o.x ++ o.y ++ [UInt8.ofNat handle.length] ++ handle ++ o.cert ++ o.sig ++ [0x90, 0x00] || handle.length > 255 then
    some "encoded-registration-response-not-in-the-specified-layout" else
  match post.find? (fun p => p.credId == handle && p.rpId == rpOf app) with
  | none => some "no-credential-stored-for-application-and-key-handle"
  | some p =>
    if p.x != o.x then some "stored-credential-has-another-key" else
    match key with
    | some k => if k.x == o.x && k.y == o.y && P256.keyPairMatches k.d o.x o.y then none else some "stored-private-key-does-not-match-returned-public-key"
    | none => some "nothing-was-saved"

structure AuthObs where
  presence : Nat
  counter : Nat
  sig : Bytes
  encoded : Bytes

def c17_authenticate (app chal handle : Bytes) (counter : Nat) (presence : Nat) (pre : List Passkey) (o : Option AuthObs) : Option String :=
  let known := pre.find? (fun p => p.credId == handle && p.rpId == rpOf app)
  match o with
  | none =>
    -- an error: fine for an unknown key handle; a registered handle of this application must authenticate
    if known.isSome then some "registered-key-handle-refused" else none
  | some r =>
    match known with
    | none => some "unknown-key-handle-or-application-accepted"
    | some p =>
      let pb : UInt8 := UInt8.ofNat presence
      if r.presence != pb.toNat || r.counter != counter then some "presence-or-counter-not-the-ones-given" else
      if !P256.keyPairMatches p.key.d p.key.x p.key.y then some "stored-key-pair-inconsistent" else
      if !P256.verifyDer p.key.x p.key.y (app ++ [pb] ++ be32 counter ++ chal) r.sig then
        some "authentication-signature-does-not-verify-over-application-presence-counter-challenge" else
      if r.encoded != [pb] ++ be32 counter ++ r.sig ++ [0x90, 0x00] then some "encoded-authentication-response-not-in-the-specified-layout"
      else none

/-- the meaning of a well-formed extended-length frame: CLA INS P1 P2 00 Lc1 Lc2 data [Le1 Le2] -/
def meaning (f : Bytes) : Option U2f.Parsed :=
  match f with
  | 0x00 :: ins :: p1 :: 0x00 :: 0x00 :: l1 :: l2 :: rest =>
    let lc := l1.toNat * 256 + l2.toNat
    if rest.length != lc && rest.length != lc + 2 then none else
    let data := rest.take lc
    if ins == 0x01 && p1 == 0x00 && lc == 64 then some (.register (data.take 32) (data.drop 32))
    else if ins == 0x02 && (p1 == 0x03 || p1 == 0x07 || p1 == 0x08) && lc ≥ 65 && lc == 65 + (data.getD 64 0).toNat then
      some (.authenticate p1 (data.take 32) ((data.drop 32).take 32) (data.drop 65))
    else if ins == 0x03 && p1 == 0x00 && lc == 0 then some .version
    else none
  | _ => none

end PasskeyVerif.Spec.U2f
