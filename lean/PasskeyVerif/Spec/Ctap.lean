/-
Specification for C13: the integer keys the CTAP specification assigns to the members of each message
(CTAP 2.1 §6.1, §6.2, §6.4, §12.5 hmac-secret; `unsignedExtensionOutputs` from CTAP 2.2), which members are
required, and the defaults of the options map.  Written from the specification text.
Names are the code's member names in camelCase; CTAP's `pinUvAuthParam` / `pinUvAuthProtocol(s)` appear
in the code as `pinAuth` / `pinProtocol(s)`.
-/
namespace PasskeyVerif.Ctap.Spec

/-- (member, key, required) -/
abbrev Table := List (String × Nat × Bool)

def makeCredentialRequest : Table :=
  [("clientDataHash", 1, true), ("rp", 2, true), ("user", 3, true), ("pubKeyCredParams", 4, true),
   ("excludeList", 5, false), ("extensions", 6, false), ("options", 7, false), ("pinAuth", 8, false),
   ("pinProtocol", 9, false)]

def makeCredentialResponse : Table :=
  [("fmt", 1, true), ("authData", 2, true), ("attStmt", 3, true), ("epAtt", 4, false),
   ("largeBlobKey", 5, false), ("unsignedExtensionOutputs", 6, false)]

def getAssertionRequest : Table :=
  [("rpId", 1, true), ("clientDataHash", 2, true), ("allowList", 3, false), ("extensions", 4, false),
   ("options", 5, false), ("pinAuth", 6, false), ("pinProtocol", 7, false)]

def getAssertionResponse : Table :=
  [("credential", 1, false), ("authData", 2, true), ("signature", 3, true), ("user", 4, false),
   ("numberOfCredentials", 5, false), ("userSelected", 6, false), ("largeBlobKey", 7, false),
   ("unsignedExtensionOutputs", 8, false)]

def getInfoResponse : Table :=
  [("versions", 1, true), ("extensions", 2, false), ("aaguid", 3, true), ("options", 4, false),
   ("maxMsgSize", 5, false), ("pinProtocols", 6, false), ("transports", 9, false)]

def hmacSecretInput : Table :=
  [("keyAgreement", 1, true), ("saltEnc", 2, true), ("saltAuth", 3, true), ("pinUvAuthProtocol", 4, false)]

/-- absent option members: "rk" false, "up" true, "uv" false -/
def defaultOptions : Bool × Bool × Bool := (false, true, false)

end PasskeyVerif.Ctap.Spec
