/-
Specifications for the authenticator-level properties, written from the property statements (C04, C05,
C07, C08, C11 and the CTAP halves of C02/C03/C09) as executable predicates over what can be observed of
one ceremony: the request, the environment it ran in, and the observation (`Obs`: result, event trace,
store afterwards).  `true` = the clause holds.
-/
import PasskeyVerif.Model.AuthObs
import PasskeyVerif.Spec.AuthData
namespace PasskeyVerif.Auth.Spec
open PasskeyVerif.Auth
open PasskeyVerif.AuthData (Bytes)

inductive OpReq where
  | make (r : MakeReq)
  | get (r : GetReq)
  deriving Repr

/-- the environment of one ceremony -/
structure Env where
  cfg : Cfg
  kind : StoreKind
  uv : UvCfg
  /-- the store before the ceremony -/
  pre : List PkSnap
  /-- some store call was made to fail -/
  faulty : Bool

def OpReq.up : OpReq → Bool | .make r => r.up | .get r => r.up
def OpReq.uvReq : OpReq → Bool | .make r => r.uv | .get r => r.uv
def OpReq.rpId : OpReq → Bytes | .make r => r.rpId | .get r => r.rpId

def isOk : ResObs → Bool
  | .makeOk _ _ => true
  | .getOk _ _ _ _ _ => true
  | _ => false

def isEffect : EvObs → Bool
  | .save _ _ _ _ _ _ _ _ _ => true
  | .update _ _ _ => true
  | _ => false

def snapsEq (a b : List PkSnap) : Bool := a == b

instance : BEq PkSnap := ⟨fun a b => decide (a = b)⟩

/-- what the user-validation step reported, if it answered -/
def answered (e : Env) : Option (Bool × Bool) := match e.uv.answer with | .ok a => some a | .error _ => none

/-- consent as the statement defines it: presence reported when presence was required and verification
reported when verification was required -/
def consentGiven (e : Env) (op : OpReq) : Bool :=
  match answered e with
  | some (p, v) => (!op.up || p) && (!op.uvReq || v)
  | none => false

def authDataFlags (ad : Bytes) : UInt8 := ad.getD 32 0

/-! ### C04 — no credential created or used without consent; flags truthful -/

/-- the user-validation step was asked with exactly the requested options -/
def askedFor (up uv : Bool) (ev : EvObs) : Bool := match ev with | .uv _ a b => a == up && b == uv | _ => false

/-- every effect in the trace comes after such a question (`seen`: already asked) -/
def consentScan (up uv : Bool) : List EvObs → Bool → Bool
  | [], _ => true
  | ev :: rest, seen => if isEffect ev then seen && consentScan up uv rest seen else consentScan up uv rest (seen || askedFor up uv ev)

/-- a credential is created (save), a counter advanced (update) or a result returned only after the
user-validation step was asked with the requested (up, uv) and consent was given -/
def c04_effect_after_consent (e : Env) (op : OpReq) (o : Obs) : Bool :=
  let effectOrOk := isOk o.res || o.trace.any isEffect
  (!effectOrOk || consentGiven e op) && consentScan op.up op.uvReq o.trace false
    && (!isOk o.res || o.trace.any (askedFor op.up op.uvReq))

/-- UP and UV in the authenticator data are exactly what the user-validation step reported -/
def c04_flags_truthful (e : Env) (o : Obs) : Bool :=
  let check (ad : Bytes) : Bool :=
    match answered e with
    | some (p, v) =>
      ((authDataFlags ad &&& AuthData.Spec.bitUP != 0) == p) && ((authDataFlags ad &&& AuthData.Spec.bitUV != 0) == v)
    | none => false
  match o.res with
  | .makeOk ad _ => check ad
  | .getOk _ ad _ _ _ => check ad
  | _ => true

/-- the errors the statement names, each leaving the store untouched:
verification requested but absent/unconfigured; a registration that waives presence; the user denies;
the validation step fails -/
def c04_errors (e : Env) (op : OpReq) (o : Obs) : Bool :=
  let untouched := snapsEq o.store e.pre
  let isErr (c : Nat) : Bool := match o.res with | .err c' => c == c' | _ => false
  let anyErr : Bool := match o.res with | .err _ => true | _ => false
  let makeNoUp := match op with | .make r => !r.up | .get _ => false
  -- option errors the code raises before asking the user (outside the statement, but they pre-empt it)
  let preempted := match op with | .get r => r.pinAuth || r.rk | .make _ => false
  if makeNoUp then isErr eInvalidOption && untouched && !o.trace.any (fun ev => match ev with | .uv _ _ _ => true | _ => false)
  else if preempted then anyErr && untouched
  else if op.uvReq && e.uv.verification != some true then isErr eUnsupportedOption && untouched
  else match e.uv.answer with
    | .error c => isErr c && untouched
    | .ok _ => if !consentGiven e op then isErr eOperationDenied && untouched else true

/-- the credential shown to the user for consent is the one that signs -/
def c04_shown_is_used (o : Obs) : Bool :=
  match o.res with
  | .getOk cred _ _ _ _ => o.trace.any (fun ev => match ev with | .uv (some c) _ _ => c == cred | _ => false)
  | _ => true

/-- whether the ceremony is in the "consent missing" regime in which the outcome must not depend on
the store content -/
def consentMissing (e : Env) (op : OpReq) : Bool :=
  !consentGiven e op || (op.uvReq && e.uv.verification != some true)

/-- the part of an outcome that must coincide with and without a matching credential while consent is missing -/
def outcomeKey (o : Obs) : String :=
  match o.res with
  | .err c => s!"err:{c}"
  | .makeOk _ _ => "ok"
  | .getOk _ _ _ _ _ => "ok"
  | .cancelled => "cancelled"
  | .panic => "panic"


/-! ### C05 — credentials used only for their own RP and as the allow / exclude lists say -/

/-- the documented lookup contract, on the store content before the call: the stored credentials bound
to `rp` and, if an id list is given, named in it -/
def contractMatches (pre : List PkSnap) (ids : Option (List Bytes)) (rp : Bytes) : List Bytes :=
  (pre.filter (fun p => p.rpId == rp && (match ids with | none => true | some l => l.any (· == p.credId)))).map (·.credId)

def sameSet (a b : List Bytes) : Bool := a.all (fun x => b.any (· == x)) && b.all (fun x => a.any (· == x))

inductive ContractBreach where
  | none
  | foundOtherRp        -- a credential bound to another RP was returned, its id being listed
  | foundOtherRpNoList  -- a credential bound to another RP was returned although no id list was given
  | foundUnlisted       -- a credential not named in the id list was returned
  | nothingWithoutList  -- no id list given, credentials for the RP exist, none returned
  | missedListed        -- an id list given, a listed credential of the RP exists, not returned
  deriving DecidableEq, Repr

/-- does every (un-faulted) lookup of the trace answer as the contract says? -/
def c05_store_contract (pre : List PkSnap) (trace : List EvObs) : ContractBreach :=
  match trace.find? (fun ev => match ev with | .find _ _ _ => true | _ => false) with
  | some (.find ids rp res) =>
    let want := contractMatches pre ids rp
    let got := match res with | .ok l => l | .error _ => []
    let isNoCred := match res with | .error c => c == eNoCredentials | .ok _ => true
    let listed (x : Bytes) : Bool := match ids with | none => true | some l => l.any (· == x)
    if !isNoCred then .none          -- an injected fault, not the store's answer
    else if !(got.all listed) then .foundUnlisted
    else if !(got.all (fun x => want.any (· == x))) then (if ids.isNone then .foundOtherRpNoList else .foundOtherRp)
    else if !(want.all (fun x => got.any (· == x))) then (if ids.isNone then .nothingWithoutList else .missedListed)
    else .none
  | _ => .none

/-- an assertion is produced only with a credential the lookup returned first, the lookup being made for
the request's RP ID and its non-empty allow list (an empty list counts as absent) -/
def c05_assert_uses_lookup (req : GetReq) (o : Obs) : Bool :=
  match o.res with
  | .getOk cred _ _ _ _ =>
    o.trace.any (fun ev => match ev with
      | .find ids rp (.ok (first :: _)) =>
        rp == req.rpId && first == cred
          && (match req.allowList with
              | some l => if l.isEmpty then ids.isNone else ids == some l
              | none => ids.isNone)
      | _ => false)
  | _ => true

/-- with a store that keeps the contract: the credential used is bound to the RP and named in a non-empty allow list -/
def c05_assert_bound (pre : List PkSnap) (req : GetReq) (o : Obs) : Bool :=
  match o.res with
  | .getOk cred _ _ _ _ =>
    pre.any (fun p => p.credId == cred && p.rpId == req.rpId)
      && (match req.allowList with | some l => l.isEmpty || l.any (· == cred) | none => true)
  | _ => true

/-- the assertion request got past option checks and consent (so the lookup is what decides next) -/
def pastConsentGet (e : Env) (r : GetReq) : Bool :=
  !r.pinAuth && !r.rk && consentGiven e (.get r) && !(r.uv && e.uv.verification != some true)

/-- an absent or empty allow list selects the first credential the store lists for the RP: when the store
holds one, the assertion is produced (with which one: `c05_assert_uses_lookup`) -/
def c05_assert_selects (e : Env) (r : GetReq) (o : Obs) : Bool :=
  if !pastConsentGet e r || e.faulty || r.ext.isSome then true else
  let noList := match r.allowList with | some l => l.isEmpty | none => true
  if noList && e.pre.any (fun p => p.rpId == r.rpId) then isOk o.res else true

/-- the ceremony got past the consent stage (so the exclude list is what decides next) -/
def pastConsentMake (e : Env) (r : MakeReq) : Bool :=
  r.up && consentGiven e (.make r) && !(r.uv && e.uv.verification != some true)

/-- registration fails with credential-excluded, creating nothing, exactly when a non-empty exclude list
names a credential already held for the same RP -/
def c05_excluded_iff (e : Env) (r : MakeReq) (o : Obs) : Bool :=
  if !pastConsentMake e r || e.faulty then true else
  let expected := match r.excludeList with
    | some l => !l.isEmpty && e.pre.any (fun p => p.rpId == r.rpId && l.any (· == p.credId))
    | none => false
  let isExcluded := match o.res with | .err c => c == eCredentialExcluded | _ => false
  (isExcluded == expected) && (!isExcluded || (o.store == e.pre && !o.trace.any isEffect))


/-! ### C08 — signature counters strictly increase and equal what the store holds -/

def u32Max : Nat := 4294967295

/-- the big-endian counter field of an authenticator-data encoding (bytes 33..36) -/
def counterField (ad : Bytes) : Nat :=
  (ad.getD 33 0).toNat * 16777216 + (ad.getD 34 0).toNat * 65536 + (ad.getD 35 0).toNat * 256 + (ad.getD 36 0).toNat

def counterIn (st : List PkSnap) (cred : Bytes) : Option (Option Nat) := (st.find? (fun p => p.credId == cred)).map (·.counter)

/-- registration: a credential created with a counter reports zero and stores zero; without one it
reports zero and stores none -/
def c08_register (e : Env) (o : Obs) : Bool :=
  match o.res with
  | .makeOk ad _ =>
    counterField ad == 0
      && o.trace.all (fun ev => match ev with
          | .save _ _ _ ctr _ _ _ _ _ => ctr == (if e.cfg.counterOn then some 0 else none)
          | _ => true)
  | .panic => false
  | _ => true

/-- assertion: below the maximum the reported counter is the previous one plus one and equals the stored
one; without a counter zero is reported and the credential is not rewritten; at the maximum nothing
wraps and nothing crashes -/
def c08_assert (e : Env) (o : Obs) : Bool :=
  match o.res with
  | .getOk cred ad _ _ _ =>
    match counterIn e.pre cred with
    | some (some c) =>
      let reported := counterField ad
      let stored := counterIn o.store cred
      if c < u32Max then reported == c + 1 && stored == some (some (c + 1))
      else reported ≥ c && reported ≤ u32Max && (match stored with | some (some s) => decide (s ≥ c) | _ => false)
    | some none =>
      counterField ad == 0 && o.store == e.pre
        && !o.trace.any (fun ev => match ev with | .update _ _ _ => true | _ => false)
    | none => true     -- the credential used is not in the store: another property's concern (C05)
  | .panic => false
  | _ => true

/-! ### C11 — discoverability follows request and store capability -/

/-- the statement's table: full: as requested; non-discoverable only: never; forced: always -/
def discoverableUnder (k : StoreKind) (rk : Bool) : Bool :=
  match discOf k with
  | .full => rk
  | .onlyNonDiscoverable => false
  | .forcedDiscoverable => true

def refusesResidentKeys (k : StoreKind) : Bool :=
  match discOf k with | .onlyNonDiscoverable => true | _ => false

def savesOf (t : List EvObs) : List (Bytes × Option Bytes × Bytes × Bool) :=
  t.filterMap (fun ev => match ev with
    | .save c _ uh _ user rk _ _ _ => some (c, uh, user, rk)
    | _ => none)

/-- registration at CTAP level: a resident key asked of a store that holds only non-discoverable
credentials is refused with nothing stored; otherwise the one credential stored holds the user handle
exactly when it is discoverable under the store's capability, and the store saw the rk option asked for -/
def c11_make (e : Env) (r : MakeReq) (o : Obs) : Bool :=
  if r.rk && refusesResidentKeys e.kind then
    !isOk o.res && (savesOf o.trace).isEmpty && o.store == e.pre
      && (match o.res with | .panic => false | _ => true)
  else
    match o.res with
    | .makeOk _ _ =>
      (match savesOf o.trace with
        | [(c, uh, user, rk)] =>
          rk == r.rk && user == r.userId
            && uh == (if discoverableUnder e.kind r.rk then some r.userId else none)
            && (match o.store.find? (fun p => p.credId == c) with
                | some p => p.userHandle == uh
                | none => e.faulty)
        | _ => false)
    | .panic => false
    | _ => true

/-- assertion: a user handle is returned exactly when the credential used stores one (and it is that one);
and what is stored stays stored: no assertion adds, removes or changes the user handle of a credential
(the handle is stored exactly when the credential was created discoverable) -/
def c11_get (e : Env) (o : Obs) : Bool :=
  let kept := e.pre.all (fun p => match o.store.find? (fun q => q.credId == p.credId) with
    | some q => q.userHandle == p.userHandle
    | none => true)
  match o.res with
  | .getOk cred _ uh _ _ =>
    kept && (match e.pre.find? (fun p => p.credId == cred) with
      | some p => uh == p.userHandle
      | none => true)
  | .panic => false
  | _ => kept

/-! ### C09 — PRF results are the specified HMAC, per credential, gated on verification -/

/-- HMAC-SHA-256 outputs for one pair of salts under one secret, as the statement specifies them -/
def prfMatches (secret : Bytes) (salts : PrfValues) (out : PrfValues) : Bool :=
  out.first == Sha256.hmac secret salts.first
    && (match out.second with
        | none => true
        | some o2 => (match salts.second with | some s2 => o2 == Sha256.hmac secret s2 | none => false))

/-- the secret a ceremony must use: the verification-gated one iff the user was verified, else the
non-gated one (absent = the ceremony must fail) -/
def secretFor (h : HmacSecret) (verified : Bool) : Option Bytes := if verified then some h.withUv else h.withoutUv

def uvPerformed (ad : Bytes) : Bool := authDataFlags ad &&& 0x04 != 0

/-- at registration the statement only bounds the choice: the gated secret only if the user was verified,
the non-gated one otherwise (a verified registration may use either) -/
def secretsAtCreation (h : HmacSecret) (verified : Bool) : List Bytes :=
  (if verified then [h.withUv] else []) ++ h.withoutUv.toList

/-- salts for the credential used: the entry listed under its id, else the default -/
def saltsFor (cred : Bytes) (i : PrfIn) : Option PrfValues :=
  match i.evalByCred.bind (fun l => l.find? (fun e => e.1 == cred)) with
  | some (_, v) => some v
  | none => i.eval

def newSnap (pre post : List PkSnap) : Option PkSnap :=
  match post.filter (fun p => !pre.any (fun q => q.credId == p.credId)) with
  | [p] => some p
  | _ => none

/-- CTAP registration -/
def c09_make (e : Env) (r : MakeReq) (o : Obs) : Option String :=
  match o.res with
  | .panic => some "panic"
  | .makeOk ad prf =>
    let stored := (newSnap e.pre o.store).bind (·.hmac)
    match e.cfg.hmac with
    | none => if prf.isSome then some "prf-output-without-capability" else if stored.isSome then some "secret-stored-without-capability" else none
    | some h =>
      let reported := (prf.map (·.enabled)).getD false
      if (r.ext.bind (·.prf)).isSome && prf.isNone then some "prf-requested-but-no-output"
      else if (r.ext.bind (·.prf)).isSome && reported != stored.isSome then some "enabled-reported-not-iff-secrets-stored"
      else if !(r.ext.bind (·.prf)).isSome && prf.isSome then some "prf-output-without-request"
      else match prf.bind (·.results) with
        | none =>
          -- evaluation at creation: results are due when configured, asked for, and a secret may be used
          (match stored, (r.ext.bind (·.prf)).bind (·.eval) with
           | some sec, some _ => if h.onMake && sec.withoutUv.isSome then some "no-results-although-evaluation-at-creation-is-on" else none
           | _, _ => none)
        | some out =>
          if !h.onMake then some "results-although-evaluation-at-creation-is-off" else
          match stored, (r.ext.bind (·.prf)).bind (·.eval) with
          | some sec, some salts =>
            if (secretsAtCreation sec (uvPerformed ad)).any (fun k => prfMatches k salts out) then none
            else some "prf-result-is-not-the-hmac-of-the-salt-under-a-permitted-secret"
          | _, _ => some "results-without-secret-or-input"
  | _ => none

/-- CTAP assertion -/
def c09_get (e : Env) (r : GetReq) (preItems : List Passkey) (o : Obs) : Option String :=
  match o.res with
  | .panic => some "panic"
  | .getOk cred ad _ prf _ =>
    match e.cfg.hmac with
    | none => if prf.isSome then some "prf-output-without-capability" else none
    | some _ =>
      match r.ext.bind (·.prf) with
      | none => if prf.isSome then some "prf-output-without-request" else none
      | some inp =>
        match saltsFor cred inp with
        | none => if prf.isSome then some "prf-output-without-input" else none
        | some salts =>
          match (preItems.find? (fun p => p.credId == cred)).bind (·.hmac) with
          | none => some "assertion-succeeded-although-the-credential-has-no-secret"
          | some sec =>
            match secretFor sec (uvPerformed ad) with
            | none => some "assertion-succeeded-without-an-eligible-secret"
            | some k =>
              match prf with
              | none => some "prf-requested-but-no-output"
              | some out => if prfMatches k salts out then none else some "prf-result-is-not-the-hmac-of-the-salt-under-the-right-secret"
  | _ => none

/-! ### C07 — failed or cancelled ceremonies leave the store consistent -/

def storeFaultOf (t : List EvObs) : Option Nat :=
  t.findSome? (fun ev => match ev with
    | .save _ _ _ _ _ _ _ _ (some f) => some f
    | .update _ _ (some f) => some f
    | _ => none)

def lookupErrorOf (t : List EvObs) : Option Nat :=
  t.findSome? (fun ev => match ev with
    | .find _ _ (.error f) => some f
    | _ => none)

def acceptedSaves (t : List EvObs) : List (Bytes × Bytes × Option Bytes × Option Nat) :=
  t.filterMap (fun ev => match ev with
    | .save c rp uh ctr _ _ _ _ none => some (c, rp, uh, ctr)
    | _ => none)

def acceptedUpdates (t : List EvObs) : List (Bytes × Option Nat) :=
  t.filterMap (fun ev => match ev with
    | .update c ctr none => some (c, ctr)
    | _ => none)

def keptAll (pre post : List PkSnap) : Bool := pre.all (fun q => post.any (fun p => p == q))

/-- the store is the one before plus exactly the complete credential the store accepted (for the
single-slot store: that credential alone) -/
def plusAccepted (kind : StoreKind) (pre post : List PkSnap) (acc : Bytes × Bytes × Option Bytes × Option Nat) (rp : Bytes) : Bool :=
  match post.find? (fun p => p.credId == acc.1) with
  | some p =>
    p.rpId == acc.2.1 && p.rpId == rp && p.userHandle == acc.2.2.1 && p.counter == acc.2.2.2 && p.x.length == 32
      && (match kind with
          | .singleSlot => post.length == 1
          | _ => keptAll (pre.filter (fun q => q.credId != acc.1)) post && post.length == (pre.filter (fun q => q.credId != acc.1)).length + 1)
  | none => false

def c07_make (e : Env) (r : MakeReq) (o : Obs) : Option String :=
  match o.res with
  | .panic => some "panic"
  | .err code =>
    if o.store != e.pre then some "failed-registration-changed-the-store"
    else match storeFaultOf o.trace with
      | some f => if code != f then some "store-error-not-reported-to-the-caller" else none
      | none => none
  | .cancelled =>
    if o.store == e.pre then (if (acceptedSaves o.trace).isEmpty then none else some "accepted-save-lost") else
    (match acceptedSaves o.trace with
     | [acc] => if plusAccepted e.kind e.pre o.store acc r.rpId then none else some "cancelled-registration-left-a-partial-or-altered-record"
     | _ => some "cancelled-registration-changed-the-store-without-an-accepted-save")
  | .makeOk _ _ =>
    if (storeFaultOf o.trace).isSome then some "store-error-turned-into-success" else
    (match acceptedSaves o.trace with
     | [acc] => if plusAccepted e.kind e.pre o.store acc r.rpId then none else some "success-but-the-store-does-not-hold-the-new-credential"
     | _ => some "success-without-exactly-one-accepted-save")
  | _ => none

/-- unchanged, or only the counter of one credential advanced by one (saturating at 2^32-1) -/
def onlyCounterAdvanced (pre post : List PkSnap) : Bool :=
  post == pre
    || (pre.length == post.length
        && (pre.filter (fun q => !post.any (fun p => p == q))).length == 1
        && pre.all (fun q => match post.find? (fun p => p.credId == q.credId) with
            | some p => p == q || (match q.counter with
                | some c => p == { q with counter := some (min (c + 1) u32Max) }
                | none => false)
            | none => false))

def c07_get (e : Env) (o : Obs) : Option String :=
  match o.res with
  | .panic => some "panic"
  | .err code =>
    if !onlyCounterAdvanced e.pre o.store then some "failed-authentication-changed-the-store-beyond-one-counter-step"
    else match storeFaultOf o.trace with
      | some f => if code != f then some "store-error-not-reported-to-the-caller" else none
      | none => none
  | .cancelled =>
    if !onlyCounterAdvanced e.pre o.store then some "cancelled-authentication-changed-the-store-beyond-one-counter-step" else none
  | .getOk cred ad _ _ _ =>
    if (storeFaultOf o.trace).isSome then some "store-error-turned-into-success"
    else if (lookupErrorOf o.trace).isSome then some "lookup-error-turned-into-success"
    else if !onlyCounterAdvanced e.pre o.store then some "authentication-changed-the-store-beyond-one-counter-step"
    else match counterIn e.pre cred with
      | some (some _) =>
        -- an assertion is never returned unless the store accepted its counter value
        if !(acceptedUpdates o.trace).any (fun u => u.1 == cred && u.2 == some (counterField ad)) then
          some "assertion-returned-without-the-store-accepting-its-counter"
        -- ... and "accepted" means held: the store now has that value (a wrapper that answers Ok without writing has not accepted it)
        else if counterIn o.store cred != some (some (counterField ad)) then some "assertion-returned-but-the-store-does-not-hold-its-counter"
        else none
      | _ => none
  | _ => none

end PasskeyVerif.Auth.Spec
