/-
Specification for C01, written from the property statement and the HTML "is a registrable domain suffix
of or is equal to" notion, not from the code.  Executable.
-/
import PasskeyVerif.Model.RpId
import PasskeyVerif.Spec.Psl
namespace PasskeyVerif.RpId.Spec
open PasskeyVerif.Psl (Str dot)
open PasskeyVerif.RpId

/-- `d` equals `host` or is a suffix of it that begins at a label boundary -/
def LabelSuffix (d host : Str) : Prop := host = d ∨ ∃ p, host = p ++ dot :: d

instance (d host : Str) : Decidable (LabelSuffix d host) :=
  if h : host = d then isTrue (Or.inl h)
  else if h2 : d.length + 1 ≤ host.length ∧ host.drop (host.length - d.length - 1) = dot :: d then
    isTrue (Or.inr ⟨host.take (host.length - d.length - 1), by
      have := List.take_append_drop (host.length - d.length - 1) host
      rw [h2.2] at this; exact this.symm⟩)
  else isFalse (by
    intro hh
    rcases hh with hh | ⟨p, hp⟩
    · exact h hh
    · apply h2
      subst hp
      refine ⟨by simp, ?_⟩
      have : (p ++ dot :: d).length - d.length - 1 = p.length := by simp; omega
      rw [this, List.drop_left])

/-- what "registrable domain, not a public suffix" means for the shipped list: the (ASCII form of the)
name has no empty label and has more labels than its public suffix under the PSL algorithm -/
def registrableUnder (rules : List Psl.Spec.Rule) (a : Str) : Bool :=
  !Psl.Spec.hasEmptyLabel a
    && decide (Psl.Spec.suffixLabels rules (Psl.Spec.revLabels a) < (Psl.Spec.splitDots a).length)

/-- The property, as a predicate on an accepted result `d` for (origin, requested RP ID):
`reg d` says whether the suffix provider in use counts `d` as registrable. -/
def Accepted (allowLocalhost : Bool) (reg : Str → Bool) (o : Origin) (rp : Option Str) (d : Str) : Prop :=
  match o with
  | .web scheme domain =>
    ∃ host, domain = some host ∧ d = rp.getD host ∧ LabelSuffix d host
      ∧ ((d = localhost ∧ allowLocalhost = true) ∨ (eqIgnoreAsciiCase scheme https = true ∧ reg d = true))
  | .android host =>
    d = rp.getD host ∧ LabelSuffix d host ∧ reg d = true

instance (al : Bool) (reg : Str → Bool) (o : Origin) (rp : Option Str) (d : Str) : Decidable (Accepted al reg o rp d) := by
  unfold Accepted
  cases o with
  | web scheme domain =>
    cases domain with
    | none => exact isFalse (by intro ⟨h, hh, _⟩; cases hh)
    | some host =>
      exact decidable_of_iff (d = rp.getD host ∧ LabelSuffix d host
        ∧ ((d = localhost ∧ al = true) ∨ (eqIgnoreAsciiCase scheme https = true ∧ reg d = true)))
        ⟨fun h => ⟨host, rfl, h⟩, fun ⟨h, hh, rest⟩ => by cases hh; exact rest⟩
  | android host => exact inferInstance

end PasskeyVerif.RpId.Spec
