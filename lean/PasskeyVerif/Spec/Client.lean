/-
Specifications for the client-level properties (C02, C03, C09, C11), as executable predicates over the
request, the environment and what the implementation returned / did (parsed from the observation text).
-/
import PasskeyVerif.Driver.AuthText
import PasskeyVerif.Model.Client
import PasskeyVerif.Spec.Auth
import PasskeyVerif.Base.Json
import PasskeyVerif.Base.P256
namespace PasskeyVerif.Spec.Client
open PasskeyVerif PasskeyVerif.Auth PasskeyVerif.Client PasskeyVerif.Driver.AuthText
open PasskeyVerif.AuthData (Bytes)

structure RegOk where
  id : String
  rawId : Bytes
  clientDataJson : Bytes
  authData : Bytes
  publicKey : Option Bytes
  alg : Int
  attObj : Bytes
  credProps : Option Bool
  prf : Option PrfMakeOut

structure AuthOk where
  id : String
  rawId : Bytes
  clientDataJson : Bytes
  authData : Bytes
  userHandle : Option Bytes
  prf : Option PrfValues
  signature : Bytes

inductive CRes (α : Type) where
  | ok (v : α)
  | err (name : String)
  | panic

structure CObs (α : Type) where
  res : CRes α
  trace : List EvObs
  store : List PkSnap

def parseTraceStore (s : String) : Option (List EvObs × List PkSnap) :=
  match fieldOf s "ev", fieldOf s "store" with
  | some ev, some st =>
    match (if ev = "-" then some [] else (ev.splitOn ";").mapM parseEv), (if st = "EMPTY" then some [] else (st.splitOn ";").mapM parseSnap) with
    | some ev, some st => some (ev, st)
    | _, _ => none
  | _, _ => none

def utf8Str (b : Bytes) : Option String := String.fromUTF8? (ByteArray.mk b.toArray)

def parseRegObs (s : String) : Option (CObs RegOk) :=
  match fieldOf s "res", parseTraceStore s with
  | some r, some (ev, st) =>
    if r = "panic" then some ⟨.panic, ev, st⟩
    else if r.startsWith "err:" then some ⟨.err (r.drop 4).toString, ev, st⟩
    else match r.splitOn ":" with
      | ["ok", id, raw, cdj, ad, pk, alg, att, cp, prf] =>
        match (bytesOfHex id).bind utf8Str, bytesOfHex raw, bytesOfHex cdj, bytesOfHex ad, parseOptHex pk, alg.toInt?, bytesOfHex att with
        | some id, some raw, some cdj, some ad, some pk, some alg, some att =>
          let cpV : Option (Option Bool) := if cp = "N" then some none else if cp = "0" then some (some false) else if cp = "1" then some (some true) else none
          let prfV : Option (Option PrfMakeOut) :=
            if prf = "N" then some none else
            match prf.splitOn "+" with
            | [e, "N"] => (if e = "N" then none else parseBit e).map (fun e => some ⟨e, none⟩)
            | [e, a, b] => match parseBit e, parsePrfValues a b with
              | some e, some v => some (some ⟨e, some v⟩)
              | _, _ => none
            | _ => none
          match cpV, prfV with
          | some cp, some prf => some ⟨.ok ⟨id, raw, cdj, ad, pk, alg, att, cp, prf⟩, ev, st⟩
          | _, _ => none
        | _, _, _, _, _, _, _ => none
      | _ => none
  | _, _ => none

def parseAuthObs (s : String) : Option (CObs AuthOk) :=
  match fieldOf s "res", parseTraceStore s with
  | some r, some (ev, st) =>
    if r = "panic" then some ⟨.panic, ev, st⟩
    else if r.startsWith "err:" then some ⟨.err (r.drop 4).toString, ev, st⟩
    else match r.splitOn ":" with
      | ["ok", id, raw, cdj, ad, uh, prf, sig] =>
        match (bytesOfHex id).bind utf8Str, bytesOfHex raw, bytesOfHex cdj, bytesOfHex ad, parseOptHex uh, bytesOfHex sig with
        | some id, some raw, some cdj, some ad, some uh, some sig =>
          let prfV : Option (Option PrfValues) :=
            if prf = "N" then some none else
            match prf.splitOn "+" with
            | [a, b] => (parsePrfValues a b).map some
            | _ => none
          prfV.map (fun prf => ⟨.ok ⟨id, raw, cdj, ad, uh, prf, sig⟩, ev, st⟩)
        | _, _, _, _, _, _ => none
      | _ => none
  | _, _ => none

/-! ### C11 — discoverability follows request and store capability and is reported truthfully -/

/-- the WebAuthn mapping of residentKey / requireResidentKey and authenticator capability to the CTAP
"rk" option (WebAuthn L3 §5.1.3 step 21: required → true; preferred → capability; discouraged → false;
absent → requireResidentKey) -/
def webauthnRk (sel : Option Selection) (capable : Bool) : Bool :=
  match sel with
  | none => false
  | some s =>
    match s.residentKey with
    | some .required => true
    | some .preferred => capable
    | some .discouraged => false
    | none => s.requireResidentKey

/-- registration: rk sent = WebAuthn mapping; a required resident key is refused by a store that only
holds non-discoverable credentials; the stored credential holds the user handle exactly when it is
discoverable under the store's capability; credProps, when requested, says exactly that -/
def c11_register (kind : StoreKind) (uv : UvCfg) (req : RegisterReq) (o : CObs RegOk) : Option String :=
  let refuses := Auth.Spec.refusesResidentKeys kind
  let capable := !refuses
  let rkWant := webauthnRk req.selection capable
  let cpRequested := (req.ext.bind (·.credProps)) == some true
  let saves := o.trace.filterMap (fun ev => match ev with
    | .save _ _ uh _ user rk _ _ _ => some (uh, user, rk)
    | _ => none)
  match o.res with
  | .panic => some "panic"
  | .err name =>
    if rkWant && refuses then
      (if name = s!"AuthenticatorError({eUnsupportedOption})" && saves.isEmpty then none else some "required-resident-key-not-refused-as-unsupported-option")
    else
      -- the client sends no pinAuth, so the authenticator answers "unsupported option" only for a user
      -- verification it cannot do or for a resident key the store cannot hold: seeing it here without
      -- the first reason means rk=true was sent although the mapping says false
      let uvAsked := (req.selection.map (·.userVerification)) != some .discouraged
      if name = s!"AuthenticatorError({eUnsupportedOption})" && !(uvAsked && uv.verification != some true) then
        some "refused-as-unsupported-option-although-the-mapping-asks-for-no-resident-key-the-store-cannot-hold"
      else none      -- failed for another reason: nothing to say here
  | .ok r =>
    if rkWant && refuses then some "required-resident-key-accepted-by-non-discoverable-store" else
    match saves with
    | [(uh, user, rk)] =>
      let disc := Auth.Spec.discoverableUnder kind rkWant
      if rk != rkWant then some "rk-option-differs-from-webauthn-mapping"
      else if uh != (if disc then some user else none) then some "user-handle-stored-not-iff-discoverable"
      else if r.credProps != (if cpRequested then some disc else none) then some "credprops-not-truthful"
      else none
    | _ => some "not-exactly-one-save"

/-- assertion: a user handle is returned exactly when the credential used stores one -/
def c11_assert (pre : List PkSnap) (o : CObs AuthOk) : Option String :=
  match o.res with
  | .panic => some "panic"
  | .err _ => none
  | .ok r =>
    match pre.find? (fun p => p.credId == r.rawId) with
    | some p => if r.userHandle == p.userHandle then none else some "user-handle-returned-not-iff-stored"
    | none => none

/-! ### what a relying party reads (WebAuthn §6.1 authenticator data, §5.8.1 client data) -/

structure RpAcd where
  aaguid : Bytes
  credId : Bytes
  key : Cbor.Item
  deriving Repr

structure RpView where
  rpIdHash : Bytes
  flags : UInt8
  counter : Nat
  acd : Option RpAcd
  rest : Bytes
  deriving Repr

def rpParseAuthData (ad : Bytes) : Option RpView :=
  if ad.length < 37 then none else
  let hash := ad.take 32
  let flags := ad.getD 32 0
  let counter := Cbor.ofBe ((ad.drop 33).take 4)
  let rest := ad.drop 37
  if flags &&& 0x40 != 0 then
    if rest.length < 18 then none else
    let l := Cbor.ofBe ((rest.drop 16).take 2)
    let r2 := rest.drop 18
    if r2.length < l then none else
    match Cbor.decode1 (r2.drop l) with
    | some (key, r3) => some ⟨hash, flags, counter, some ⟨rest.take 16, r2.take l, key⟩, r3⟩
    | none => none
  else some ⟨hash, flags, counter, none, rest⟩

/-- an ES256 COSE public key: exactly kty=EC2, alg=-7, crv=P-256, x, y (32 bytes each) — in
particular no private member -/
def rpCoseEs256 (k : Cbor.Item) : Option (Bytes × Bytes) :=
  match k with
  | .map kvs =>
    match Cbor.mapGetInt kvs 1, Cbor.mapGetInt kvs 3, Cbor.mapGetInt kvs (-1), Cbor.mapGetInt kvs (-2), Cbor.mapGetInt kvs (-3) with
    | some (.uint 2), some (.nint 6), some (.uint 1), some (.bytes x), some (.bytes y) =>
      if kvs.length == 5 && x.length == 32 && y.length == 32 then some (x, y) else none
    | _, _, _, _, _ => none
  | _ => none

def isUrlChar (c : Char) : Bool := c.isAlphanum || c = '-' || c = '_'

/-- client data as the relying party checks it: a JSON object whose `type`, `challenge` (unpadded
base64url of the request's challenge) and `origin` members are as expected, each present once -/
def extraKeysOf (mode : ClientDataMode) : Option (List String) :=
  match mode with
  | .extra members => if members.isEmpty then some [] else
      match Json.parse ("{" ++ members ++ "}") with | some (.obj l) => some (l.map (·.1)) | _ => none
  | _ => some []

/-- ... and (C14's order clause, on what the client emits) whose members are type, challenge, origin, crossOrigin in that
order followed by the caller's extra members in the order the caller gave them -/
def rpClientData (cdj : Bytes) (ty : String) (challenge : Bytes) (origin : String) (mode : ClientDataMode := .default) : Option String :=
  match (utf8Str cdj).bind Json.parse with
  | none => some "client-data-not-json"
  | some j =>
    if j.count "type" != 1 || j.count "challenge" != 1 || j.count "origin" != 1 then some "client-data-member-missing-or-duplicated"
    else if (j.get? "type").bind Json.Json.str? != some ty then some "client-data-type"
    else match (j.get? "challenge").bind Json.Json.str? with
      | none => some "client-data-challenge"
      | some c =>
        if !(c.toList.all isUrlChar) || Base64.decodeLenient c != some challenge || c != Base64.encodeUrl challenge then some "client-data-challenge-not-unpadded-base64url-of-the-request-challenge"
        else if (j.get? "origin").bind Json.Json.str? != some origin then some "client-data-origin"
        else match j.get? "crossOrigin" with
          | some (.bool true) => some "client-data-cross-origin-true"
          | _ =>
            match extraKeysOf mode, j with
            | some ks, .obj l =>
              if l.map (·.1) != ["type", "challenge", "origin", "crossOrigin"] ++ ks then some "client-data-members-not-in-the-specified-order" else none
            | _, _ => none

def hostOf (o : RpId.Origin) : Option Psl.Str := match o with | .web _ d => d | .android h => some h
def effectiveRp (o : RpId.Origin) (rp : Option Psl.Str) : Option Bytes := (rp.orElse (fun _ => hostOf o)).map (·.map UInt8.ofNat)

def spkiP256Header : Bytes :=
  [0x30, 0x59, 0x30, 0x13, 0x06, 0x07, 0x2a, 0x86, 0x48, 0xce, 0x3d, 0x02, 0x01, 0x06, 0x08, 0x2a, 0x86, 0x48,
   0xce, 0x3d, 0x03, 0x01, 0x07, 0x03, 0x42, 0x00, 0x04]

/-- the "none" attestation object, read with the CBOR decoder -/
def rpAttestation (att : Bytes) : Option (Bytes × Bytes × Cbor.Item) :=
  match Cbor.decode1 att with
  | some (.map kvs, []) =>
    -- member names "fmt", "attStmt", "authData" as bytes
    match Cbor.mapGetText kvs [0x66, 0x6d, 0x74], Cbor.mapGetText kvs [0x61, 0x74, 0x74, 0x53, 0x74, 0x6d, 0x74],
        Cbor.mapGetText kvs [0x61, 0x75, 0x74, 0x68, 0x44, 0x61, 0x74, 0x61] with
    | some (.text f), some st, some (.bytes ad) => some (f, ad, st)
    | _, _, _ => none
  | _ => none

/-! ### C02 — registration returns a credential a standard relying party can verify -/

/-- the algorithm the statement asks for: first entry of the preference list (empty = WebAuthn defaults
ES256, RS256) that the authenticator supports -/
def expectedAlg (cfg : Cfg) (algs : List Int) : Option Int :=
  (if algs.isEmpty then [-7, -257] else algs).find? (fun a => cfg.algs.any (· == a))

def c02_register (cfg : Cfg) (kind : StoreKind) (origin : RpId.Origin) (originStr : String) (req : RegisterReq) (mode : ClientDataMode)
    (draws : Option Draws) (pre : List PkSnap) (o : CObs RegOk) : Option String :=
  let _ := mode
  let saves := o.trace.filter Auth.Spec.isEffect
  match o.res with
  | .panic => some "panic"
  | .err name =>
    -- a failed registration creates nothing
    if !saves.isEmpty || o.store != pre then some "failed-registration-changed-the-store"
    -- only a list with no supported entry fails for the algorithm
    else if name == s!"AuthenticatorError({eUnsupportedAlgorithm})" && (expectedAlg cfg req.algs).isSome then
      some "refused-as-unsupported-algorithm-although-a-listed-algorithm-is-supported"
    else none
  | .ok r =>
    match expectedAlg cfg req.algs with
    | none => some "registered-although-no-listed-algorithm-is-supported"
    | some alg =>
    match effectiveRp origin req.rpId with
    | none => some "no-effective-rp-id"
    | some rp =>
    match rpClientData r.clientDataJson "webauthn.create" req.challenge originStr mode with
    | some f => some f
    | none =>
    match rpAttestation r.attObj with
    | none => some "attestation-object-unreadable"
    | some (fmt, adIn, stmt) =>
    if fmt != [0x6e, 0x6f, 0x6e, 0x65] || stmt != .map [] then some "attestation-not-none" else
    if adIn != r.authData then some "authenticator-data-inside-and-outside-attestation-object-differ" else
    match rpParseAuthData r.authData with
    | none => some "authenticator-data-unreadable"
    | some v =>
    if v.rpIdHash != Sha256.sha256 rp then some "rp-id-hash-is-not-sha256-of-effective-rp-id" else
    match v.acd with
    | none => some "no-attested-credential-data"
    | some acd =>
    if acd.aaguid != cfg.aaguid then some "attested-aaguid-is-not-the-authenticators" else
    if acd.credId != r.rawId then some "attested-credential-id-differs-from-raw-id" else
    if r.id != Base64.encodeUrl r.rawId then some "id-is-not-base64url-of-raw-id" else
    match rpCoseEs256 acd.key with
    | none => some "attested-key-is-not-a-bare-es256-public-key"
    | some (x, y) =>
    if !P256.validPublic x y then some "public-key-not-a-valid-p256-point" else
    if r.publicKey != some (spkiP256Header ++ x ++ y) then some "der-public-key-differs-from-cose-key" else
    if r.alg != alg || alg != -7 then some "reported-algorithm-not-the-first-supported-entry" else
    -- exactly one credential added, with the matching private key, the effective RP ID, a fresh id of the configured length
    let added := o.store.filter (fun p => !pre.any (fun q => q.credId == p.credId))
    -- the single-slot store holds the newest credential only; every other store keeps what it held
    let slot := match kind with | .singleSlot => true | _ => false
    let kept := slot || pre.all (fun q => o.store.any (fun p => p == q))
    match added with
    | [p] =>
      if !kept || o.store.length != (if slot then 1 else pre.length + 1) then some "store-not-previous-plus-one-credential" else
      if p.credId != r.rawId then some "stored-credential-id-differs-from-returned-id" else
      if p.rpId != rp then some "stored-credential-not-bound-to-effective-rp-id" else
      if p.x != x then some "stored-key-differs-from-returned-public-key" else
      if p.credId.length != cfg.credIdLen then some "credential-id-length-not-as-configured" else
      match draws with
      | some d =>
        if d.credId != r.rawId || d.key.x != x || d.key.y != y then some "saved-passkey-differs-from-returned-credential"
        else if !P256.keyPairMatches d.key.d x y then some "stored-private-key-does-not-match-returned-public-key"
        else none
      | none => some "nothing-was-saved"
    | _ => some "not-exactly-one-credential-added"

/-! ### C03 — authentication returns a signature that verifies and is bound to the ceremony -/

def eligible (pre : List Passkey) (rp : Bytes) (allow : Option (List Bytes)) : List Passkey :=
  pre.filter (fun p => p.rpId == rp && (match allow with
    | some l => l.isEmpty || l.any (· == p.credId)
    | none => true))

def c03_authenticate (kind : StoreKind) (uv : UvCfg) (origin : RpId.Origin) (originStr : String) (req : AuthReq) (mode : ClientDataMode)
    (pre : List Passkey) (o : CObs AuthOk) : Option String :=
  match o.res with
  | .panic => some "panic"
  | .err name =>
    match effectiveRp origin req.rpId with
    | none => none
    | some rp =>
      -- the user consents but no eligible credential exists: credential-not-found
      let uvAsked := req.userVerification != .discouraged
      let consents := (match uv.answer with | .ok (p, v) => p && (!uvAsked || v) | .error _ => false) && (!uvAsked || uv.verification == some true)
      if consents && (eligible pre rp req.allow).isEmpty && !name.startsWith "rp." && name != "CredentialNotFound"
          && name != "NotSupportedError" && name != "SyntaxError" && name != "ValidationError" then
        some "no-eligible-credential-but-not-credential-not-found"
      else none
  | .ok r =>
    match effectiveRp origin req.rpId with
    | none => some "no-effective-rp-id"
    | some rp =>
    match rpClientData r.clientDataJson "webauthn.get" req.challenge originStr mode with
    | some f => some f
    | none =>
    match rpParseAuthData r.authData with
    | none => some "authenticator-data-unreadable"
    | some v =>
    if v.rpIdHash != Sha256.sha256 rp then some "rp-id-hash-is-not-sha256-of-effective-rp-id" else
    if v.acd.isSome || v.flags &&& 0x40 != 0 then some "attested-credential-data-in-assertion" else
    if r.id != Base64.encodeUrl r.rawId then some "id-is-not-base64url-of-raw-id" else
    match pre.find? (fun p => p.credId == r.rawId) with
    | none => some "credential-id-names-no-registered-credential"
    | some p =>
    if p.rpId != rp then
      some ("credential-registered-for-another-rp:" ++ (match kind with | .memoryMap => "in-memory-map-store" | .singleSlot => "single-slot-store" | .reference _ => "contract-store")) else
    if !(eligible pre rp req.allow).any (fun c => c.credId == r.rawId) then some "signature-produced-with-a-credential-the-allow-list-does-not-name" else
    if r.userHandle != p.userHandle then some "user-handle-is-not-the-stored-one" else
    let hash := match mode with | .customHash h => h | _ => Sha256.sha256 r.clientDataJson
    if !P256.keyPairMatches p.key.d p.key.x p.key.y then some "stored-key-pair-inconsistent" else
    if !P256.verifyDer p.key.x p.key.y (r.authData ++ hash) r.signature then some "signature-does-not-verify-over-authenticator-data-and-client-data-hash"
    else none

/-! ### C09 — PRF through the client -/

/-- the ASCII bytes of "WebAuthn PRF" followed by 0x00 -/
def prfPrefix : Bytes := [0x57, 0x65, 0x62, 0x41, 0x75, 0x74, 0x68, 0x6e, 0x20, 0x50, 0x52, 0x46, 0x00]

/-- the salt the statement specifies: SHA-256("WebAuthn PRF" ‖ 0x00 ‖ input), or the input itself when pre-hashed -/
def saltOf (preHashed : Bool) (v : Bytes) : Bytes := if preHashed then v else Sha256.sha256 (prfPrefix ++ v)
def saltsOf (preHashed : Bool) (v : PrfVals) : PrfValues := ⟨saltOf preHashed v.first, v.second.map (saltOf preHashed)⟩

/-- the PRF request in effect: `prf`, else `prfAlreadyHashed` (flag = pre-hashed) -/
def effectivePrf (ext : Option ExtIn) : Option (PrfInputs × Bool) :=
  match ext.bind (·.prf) with
  | some p => some (p, false)
  | none => (ext.bind (·.prfAlreadyHashed)).map (fun p => (p, true))

def badLengths (preHashed : Bool) (v : PrfVals) : Bool :=
  preHashed && (v.first.length != 32 || (match v.second with | some s => s.length != 32 | none => false))

/-- only `info` events: the authenticator was asked for its capabilities and nothing else -/
def notInvoked (t : List EvObs) : Bool := t.all (fun ev => match ev with | .info => true | _ => false)

/-- malformed at registration: per-credential inputs; pre-hashed inputs that are not 32 bytes -/
def malformedReg (p : PrfInputs) (preHashed : Bool) : Bool :=
  p.evalByCred.isSome || (match p.eval with | some v => badLengths preHashed v | none => false)

/-- malformed at authentication: per-credential inputs without an allow list; empty, undecodable or
unlisted credential keys; pre-hashed inputs that are not 32 bytes -/
def malformedAuth (p : PrfInputs) (preHashed : Bool) (allow : Option (List Bytes)) : Bool :=
  let allowL := allow.getD []
  (match p.evalByCred with
   | some l => (!l.isEmpty && allowL.isEmpty)
       || l.any (fun kv => match Base64.decodeLenient kv.1 with
            | none => true
            | some k => k.isEmpty || !allowL.any (· == k) || badLengths preHashed kv.2)
   | none => false)
  || (match p.eval with | some v => badLengths preHashed v | none => false)

def c09_register (cfg : Cfg) (req : RegisterReq) (pre : List PkSnap) (o : CObs RegOk) : Option String :=
  let eff := effectivePrf req.ext
  match o.res with
  | .panic => some "panic"
  | .err name =>
    match cfg.hmac, eff with
    | some _, some (p, ph) =>
      if malformedReg p ph then
        (if !(name == "NotSupportedError" || name == "SyntaxError" || name == "ValidationError") then some "malformed-prf-request-not-rejected-as-such"
         else if !notInvoked o.trace then some "malformed-prf-request-reached-the-authenticator" else none)
      else none
    | _, _ => none
  | .ok r =>
    let stored := ((o.store.filter (fun p => p.credId == r.rawId)).head?).bind (·.hmac)
    let _ := pre
    match cfg.hmac with
    | none => if r.prf.isSome then some "prf-output-without-capability" else if stored.isSome then some "secret-stored-without-capability" else none
    | some h =>
      match eff with
      | none => if r.prf.isSome then some "prf-output-without-request" else if stored.isSome then some "secret-stored-without-request" else none
      | some (p, ph) =>
        if malformedReg p ph then some "malformed-prf-request-accepted" else
        match r.prf with
        | none => some "prf-requested-but-no-output"
        | some out =>
          if out.enabled != stored.isSome then some "enabled-reported-not-iff-secrets-stored" else
          let verified := Auth.Spec.uvPerformed r.authData
          match out.results with
          | none =>
            (match stored, p.eval with
             | some sec, some _ => if h.onMake && sec.withoutUv.isSome then some "no-results-although-evaluation-at-creation-is-on" else none
             | _, _ => none)
          | some res =>
            if !h.onMake then some "results-although-evaluation-at-creation-is-off" else
            match stored, p.eval with
            | some sec, some v =>
              if (Auth.Spec.secretsAtCreation sec verified).any (fun k => Auth.Spec.prfMatches k (saltsOf ph v) res) then none
              else some "prf-result-is-not-the-hmac-of-the-specified-salt-under-a-permitted-secret"
            | _, _ => some "results-without-secret-or-input"

def c09_authenticate (cfg : Cfg) (req : AuthReq) (pre : List Passkey) (o : CObs AuthOk) : Option String :=
  let eff := effectivePrf req.ext
  match o.res with
  | .panic => some "panic"
  | .err name =>
    match cfg.hmac, eff with
    | some _, some (p, ph) =>
      if malformedAuth p ph req.allow then
        (if !(name == "NotSupportedError" || name == "SyntaxError" || name == "ValidationError") then some "malformed-prf-request-not-rejected-as-such"
         else if !notInvoked o.trace then some "malformed-prf-request-reached-the-authenticator" else none)
      else none
    | _, _ => none
  | .ok r =>
    match cfg.hmac with
    | none => if r.prf.isSome then some "prf-output-without-capability" else none
    | some _ =>
      match eff with
      | none => if r.prf.isSome then some "prf-output-without-request" else none
      | some (p, ph) =>
        if malformedAuth p ph req.allow then some "malformed-prf-request-accepted" else
        -- inputs listed under the used credential's id take precedence over the default inputs
        let listed := (p.evalByCred.getD []).find? (fun kv => Base64.decodeLenient kv.1 == some r.rawId)
        let chosen : Option PrfVals := match listed with | some kv => some kv.2 | none => p.eval
        match chosen with
        | none => if r.prf.isSome then some "prf-output-without-input" else none
        | some v =>
          match (pre.find? (fun c => c.credId == r.rawId)).bind (·.hmac) with
          | none => some "assertion-succeeded-although-the-credential-has-no-secret"
          | some sec =>
            match Auth.Spec.secretFor sec (Auth.Spec.uvPerformed r.authData) with
            | none => some "assertion-succeeded-without-an-eligible-secret"
            | some k =>
              match r.prf with
              | none => some "prf-requested-but-no-output"
              | some out => if Auth.Spec.prfMatches k (saltsOf ph v) out then none else some "prf-result-is-not-the-hmac-of-the-specified-salt-under-the-right-secret"

/-! ### C04 — consent, seen from the WebAuthn caller (`userVerification` as the request for verification) -/

/-- clauses of C04 for a client ceremony: `required` is the request for verification the statement speaks
of (how the client maps `preferred` is left to the model comparison); presence is always required.
`ad`: authenticator data of a successful ceremony -/
def c04_client (uvReq : UvReq) (uv : UvCfg) (pre post : List PkSnap) (trace : List EvObs) (ad : Option Bytes) (failedOrPanic : Bool)
    (errName : Option String := none) : Option String :=
  -- while consent is missing the outcome is the same whether or not a matching credential exists: an answer that only
  -- a matching (or a missing) credential can cause - credential-excluded, credential-not-found - discloses it
  let consentMissing := match uv.answer with
    | .ok (p, v) => !p || (uvReq == .required && !v)
    | .error _ => true
  if consentMissing && (errName == some "AuthenticatorError(25)" || errName == some "CredentialNotFound") then
    some "store-content-disclosed-while-consent-is-missing" else
  let effects := trace.any (fun e => match e with | .save .. => true | .update .. => true | _ => false)
  let asked := trace.any (fun e => match e with | .uv .. => true | _ => false)
  if failedOrPanic && uvReq == .required && uv.verification != some true && (decide (pre ≠ post) || effects) then
    some "verification-required-from-an-authenticator-without-it-but-store-touched"
  else match ad with
  | none => if effects && !asked then some "store-written-without-asking-the-user" else none
  | some ad =>
    if uvReq == .required && uv.verification != some true then some "verification-required-from-an-authenticator-without-it-is-not-an-error" else
    match uv.answer with
    | .error _ => some "result-although-the-user-validation-step-failed"
    | .ok (p, v) =>
      if !asked then some "result-without-asking-the-user" else
      if !p then some "result-without-user-presence" else
      if uvReq == .required && !v then some "result-without-the-required-user-verification" else
      let flags := ad.getD 32 0
      if (flags &&& 0x01 != 0) != p then some "up-flag-is-not-what-the-user-validation-step-reported" else
      if (flags &&& 0x04 != 0) != v then some "uv-flag-is-not-what-the-user-validation-step-reported" else none

/-! ### C07 — a ceremony that reports an error has not changed the store (seen from the WebAuthn caller) -/

def c07_client_reg (pre post : List PkSnap) (failed : Bool) : Option String :=
  if failed && decide (pre ≠ post) then some "registration-reported-as-failed-but-the-store-changed" else none

/-- after a failed authentication every credential is as it was, except that one counter may be one higher -/
def c07_client_auth (pre post : List PkSnap) (failed : Bool) : Option String :=
  if !failed then none else
  let same (p q : PkSnap) : Bool := p.credId == q.credId && p.rpId == q.rpId && p.userHandle == q.userHandle && p.x == q.x && decide (p.hmac = q.hmac)
  let stepOk (p q : PkSnap) : Bool := same p q && (p.counter == q.counter || (match p.counter, q.counter with | some a, some b => b == a + 1 | _, _ => false))
  if pre.length == post.length && (pre.zip post).all (fun pq => stepOk pq.1 pq.2)
      && ((pre.zip post).filter (fun pq => pq.1.counter != pq.2.counter)).length ≤ 1 then none
  else some "authentication-reported-as-failed-but-the-store-changed-beyond-one-counter-step"

def verdictReg (prop : String) (cfg : Cfg) (kind : StoreKind) (uv : UvCfg) (origin : RpId.Origin) (originStr : String)
    (req : RegisterReq) (mode : ClientDataMode) (draws : Option Draws) (pre : List PkSnap) (impl : String) : String :=
  match parseRegObs impl with
  | none => "fail:unparsable-or-crashed"
  | some o =>
    if prop = "C11" then (match c11_register kind uv req o with | none => "ok" | some f => "fail:" ++ f)
    else if prop = "C02" then (match c02_register cfg kind origin originStr req mode draws pre o with | none => "ok" | some f => "fail:" ++ f)
    else if prop = "C09" then (match c09_register cfg req pre o with | none => "ok" | some f => "fail:" ++ f)
    else if prop = "C07" then (match c07_client_reg pre o.store (match o.res with | .ok _ => false | _ => true) with | none => "ok" | some f => "fail:" ++ f)
    else if prop = "C04" then
      (match c04_client ((req.selection.map (·.userVerification)).getD .preferred) uv pre o.store o.trace
          (match o.res with | .ok r => some r.authData | _ => none) (match o.res with | .ok _ => false | _ => true)
          (match o.res with | .err n => some n | _ => none) with
        | none => "ok" | some f => "fail:" ++ f)
    else "na"

/-! ### C13 — during authentication "no credentials" is credential-not-found -/

/-- an authentication never ends with `AuthenticatorError(0x2E)`: that status is reported as
credential-not-found (which byte the authenticator answered is decided by the model comparison) -/
def c13_authenticate (o : CObs AuthOk) : Option String :=
  match o.res with
  | .panic => some "panic"
  | .err name => if name = "AuthenticatorError(46)" then some "no-credentials-passed-through-as-authenticator-error" else none
  | .ok _ => none

def verdictAuth (prop : String) (cfg : Cfg) (_kind : StoreKind) (uv : UvCfg) (origin : RpId.Origin) (originStr : String)
    (req : AuthReq) (mode : ClientDataMode) (pre : List PkSnap) (preItems : List Passkey) (impl : String) : String :=
  match parseAuthObs impl with
  | none => "fail:unparsable-or-crashed"
  | some o =>
    if prop = "C11" then (match c11_assert pre o with | none => "ok" | some f => "fail:" ++ f)
    else if prop = "C03" then (match c03_authenticate _kind uv origin originStr req mode preItems o with | none => "ok" | some f => "fail:" ++ f)
    else if prop = "C09" then (match c09_authenticate cfg req preItems o with | none => "ok" | some f => "fail:" ++ f)
    else if prop = "C13" then (match c13_authenticate o with | none => "ok" | some f => "fail:" ++ f)
    else if prop = "C07" then (match c07_client_auth pre o.store (match o.res with | .ok _ => false | _ => true) with | none => "ok" | some f => "fail:" ++ f)
    else if prop = "C04" then
      (match c04_client req.userVerification uv pre o.store o.trace
          (match o.res with | .ok r => some r.authData | _ => none) (match o.res with | .ok _ => false | _ => true)
          (match o.res with | .err n => some n | _ => none) with
        | none => "ok" | some f => "fail:" ++ f)
    else "na"

end PasskeyVerif.Spec.Client
