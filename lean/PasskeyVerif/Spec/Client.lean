/-
Specifications for the client-level properties (C02, C03, C09, C11), as executable predicates over the
request, the environment and what the implementation returned / did (parsed from the observation text).
-/
import PasskeyVerif.Driver.AuthText
import PasskeyVerif.Model.Client
import PasskeyVerif.Spec.Auth
namespace PasskeyVerif.Spec.Client
open PasskeyVerif PasskeyVerif.Auth PasskeyVerif.Client PasskeyVerif.Driver.AuthText
open PasskeyVerif.AuthData (Bytes)

structure RegOk where
  id : String
  rawId : Bytes
  clientDataJson : Bytes
  authData : Bytes
  publicKey : Option Bytes
  alg : Int
  attObj : Bytes
  credProps : Option Bool
  prf : Option PrfMakeOut

structure AuthOk where
  id : String
  rawId : Bytes
  clientDataJson : Bytes
  authData : Bytes
  userHandle : Option Bytes
  prf : Option PrfValues
  signature : Bytes

inductive CRes (α : Type) where
  | ok (v : α)
  | err (name : String)
  | panic

structure CObs (α : Type) where
  res : CRes α
  trace : List EvObs
  store : List PkSnap

def parseTraceStore (s : String) : Option (List EvObs × List PkSnap) :=
  match fieldOf s "ev", fieldOf s "store" with
  | some ev, some st =>
    match (if ev = "-" then some [] else (ev.splitOn ";").mapM parseEv), (if st = "EMPTY" then some [] else (st.splitOn ";").mapM parseSnap) with
    | some ev, some st => some (ev, st)
    | _, _ => none
  | _, _ => none

def utf8Str (b : Bytes) : Option String := String.fromUTF8? (ByteArray.mk b.toArray)

def parseRegObs (s : String) : Option (CObs RegOk) :=
  match fieldOf s "res", parseTraceStore s with
  | some r, some (ev, st) =>
    if r = "panic" then some ⟨.panic, ev, st⟩
    else if r.startsWith "err:" then some ⟨.err (r.drop 4).toString, ev, st⟩
    else match r.splitOn ":" with
      | ["ok", id, raw, cdj, ad, pk, alg, att, cp, prf] =>
        match (bytesOfHex id).bind utf8Str, bytesOfHex raw, bytesOfHex cdj, bytesOfHex ad, parseOptHex pk, alg.toInt?, bytesOfHex att with
        | some id, some raw, some cdj, some ad, some pk, some alg, some att =>
          let cpV : Option (Option Bool) := if cp = "N" then some none else if cp = "0" then some (some false) else if cp = "1" then some (some true) else none
          let prfV : Option (Option PrfMakeOut) :=
            if prf = "N" then some none else
            match prf.splitOn "+" with
            | [e, "N"] => (if e = "N" then none else parseBit e).map (fun e => some ⟨e, none⟩)
            | [e, a, b] => match parseBit e, parsePrfValues a b with
              | some e, some v => some (some ⟨e, some v⟩)
              | _, _ => none
            | _ => none
          match cpV, prfV with
          | some cp, some prf => some ⟨.ok ⟨id, raw, cdj, ad, pk, alg, att, cp, prf⟩, ev, st⟩
          | _, _ => none
        | _, _, _, _, _, _, _ => none
      | _ => none
  | _, _ => none

def parseAuthObs (s : String) : Option (CObs AuthOk) :=
  match fieldOf s "res", parseTraceStore s with
  | some r, some (ev, st) =>
    if r = "panic" then some ⟨.panic, ev, st⟩
    else if r.startsWith "err:" then some ⟨.err (r.drop 4).toString, ev, st⟩
    else match r.splitOn ":" with
      | ["ok", id, raw, cdj, ad, uh, prf, sig] =>
        match (bytesOfHex id).bind utf8Str, bytesOfHex raw, bytesOfHex cdj, bytesOfHex ad, parseOptHex uh, bytesOfHex sig with
        | some id, some raw, some cdj, some ad, some uh, some sig =>
          let prfV : Option (Option PrfValues) :=
            if prf = "N" then some none else
            match prf.splitOn "+" with
            | [a, b] => (parsePrfValues a b).map some
            | _ => none
          prfV.map (fun prf => ⟨.ok ⟨id, raw, cdj, ad, uh, prf, sig⟩, ev, st⟩)
        | _, _, _, _, _, _ => none
      | _ => none
  | _, _ => none

/-! ### C11 — discoverability follows request and store capability and is reported truthfully -/

/-- the WebAuthn mapping of residentKey / requireResidentKey and authenticator capability to the CTAP
"rk" option (WebAuthn L3 §5.1.3 step 21: required → true; preferred → capability; discouraged → false;
absent → requireResidentKey) -/
def webauthnRk (sel : Option Selection) (capable : Bool) : Bool :=
  match sel with
  | none => false
  | some s =>
    match s.residentKey with
    | some .required => true
    | some .preferred => capable
    | some .discouraged => false
    | none => s.requireResidentKey

/-- registration: rk sent = WebAuthn mapping; a required resident key is refused by a store that only
holds non-discoverable credentials; the stored credential holds the user handle exactly when it is
discoverable under the store's capability; credProps, when requested, says exactly that -/
def c11_register (kind : StoreKind) (uv : UvCfg) (req : RegisterReq) (o : CObs RegOk) : Option String :=
  let refuses := Auth.Spec.refusesResidentKeys kind
  let capable := !refuses
  let rkWant := webauthnRk req.selection capable
  let cpRequested := (req.ext.bind (·.credProps)) == some true
  let saves := o.trace.filterMap (fun ev => match ev with
    | .save _ _ uh _ user rk _ _ _ => some (uh, user, rk)
    | _ => none)
  match o.res with
  | .panic => some "panic"
  | .err name =>
    if rkWant && refuses then
      (if name = s!"AuthenticatorError({eUnsupportedOption})" && saves.isEmpty then none else some "required-resident-key-not-refused-as-unsupported-option")
    else
      -- the client sends no pinAuth, so the authenticator answers "unsupported option" only for a user
      -- verification it cannot do or for a resident key the store cannot hold: seeing it here without
      -- the first reason means rk=true was sent although the mapping says false
      let uvAsked := (req.selection.map (·.userVerification)) != some .discouraged
      if name = s!"AuthenticatorError({eUnsupportedOption})" && !(uvAsked && uv.verification != some true) then
        some "refused-as-unsupported-option-although-the-mapping-asks-for-no-resident-key-the-store-cannot-hold"
      else none      -- failed for another reason: nothing to say here
  | .ok r =>
    if rkWant && refuses then some "required-resident-key-accepted-by-non-discoverable-store" else
    match saves with
    | [(uh, user, rk)] =>
      let disc := Auth.Spec.discoverableUnder kind rkWant
      if rk != rkWant then some "rk-option-differs-from-webauthn-mapping"
      else if uh != (if disc then some user else none) then some "user-handle-stored-not-iff-discoverable"
      else if r.credProps != (if cpRequested then some disc else none) then some "credprops-not-truthful"
      else none
    | _ => some "not-exactly-one-save"

/-- assertion: a user handle is returned exactly when the credential used stores one -/
def c11_assert (pre : List PkSnap) (o : CObs AuthOk) : Option String :=
  match o.res with
  | .panic => some "panic"
  | .err _ => none
  | .ok r =>
    match pre.find? (fun p => p.credId == r.rawId) with
    | some p => if r.userHandle == p.userHandle then none else some "user-handle-returned-not-iff-stored"
    | none => none

def verdictReg (prop : String) (_cfg : Cfg) (kind : StoreKind) (uv : UvCfg) (_origin : RpId.Origin) (_originStr : String)
    (req : RegisterReq) (_mode : ClientDataMode) (_pre : List PkSnap) (impl : String) : String :=
  match parseRegObs impl with
  | none => "fail:unparsable-or-crashed"
  | some o =>
    if prop = "C11" then (match c11_register kind uv req o with | none => "ok" | some f => "fail:" ++ f)
    else "na"

def verdictAuth (prop : String) (_cfg : Cfg) (_kind : StoreKind) (_uv : UvCfg) (_origin : RpId.Origin) (_originStr : String)
    (_req : AuthReq) (_mode : ClientDataMode) (pre : List PkSnap) (_preItems : List Passkey) (impl : String) : String :=
  match parseAuthObs impl with
  | none => "fail:unparsable-or-crashed"
  | some o =>
    if prop = "C11" then (match c11_assert pre o with | none => "ok" | some f => "fail:" ++ f)
    else "na"

end PasskeyVerif.Spec.Client
