/-
Specification of CTAPHID framing (CTAP 2.1 §11.2.4), written from the protocol text and the property
statement C16, not from the code.  Executable: also used as the oracle on what the implementation wrote.
-/
import PasskeyVerif.Model.Hid
namespace PasskeyVerif.Hid.Spec
open PasskeyVerif.Hid

/-- HID report size -/
def packetSize : Nat := 64
/-- payload bytes in an initialisation packet: 64 - (4 CID + 1 CMD + 2 BCNT) -/
def initData : Nat := 57
/-- payload bytes in a continuation packet: 64 - (4 CID + 1 SEQ) -/
def contData : Nat := 59
/-- largest payload of the protocol: 57 + 128 * 59 -/
def maxPayload : Nat := 7609

/-- zero padding up to the report size -/
def pad (bs : Bytes) : Bytes := bs ++ List.replicate (packetSize - bs.length) 0

/-- CID(4) ‖ CMD with bit 7 set ‖ BCNTH ‖ BCNTL ‖ first 57 payload bytes ‖ zero padding -/
def initPacket (ch : Chan) (cmd : Command) (data : Bytes) : Bytes :=
  pad (ch.bytes ++ [0x80 ||| cmd.toByte] ++ [UInt8.ofNat (data.length / 256), UInt8.ofNat (data.length % 256)]
        ++ data.take initData)

/-- CID(4) ‖ SEQ (bit 7 clear) ‖ up to 59 payload bytes ‖ zero padding -/
def contPacket (ch : Chan) (seq : Nat) (chunk : Bytes) : Bytes :=
  pad (ch.bytes ++ [UInt8.ofNat seq] ++ chunk)

/-- continuation packets for the bytes `rest`, numbered from `seq` -/
def contPackets (ch : Chan) (seq : Nat) (rest : Bytes) : List Bytes :=
  if h : rest = [] then [] else
    contPacket ch seq (rest.take contData) :: contPackets ch (seq + 1) (rest.drop contData)
termination_by rest.length
decreasing_by
  have : 0 < rest.length := List.length_pos_iff.mpr h
  simp only [List.length_drop, contData]; omega

/-- the packets of one message -/
def packets (ch : Chan) (cmd : Command) (data : Bytes) : List Bytes :=
  initPacket ch cmd data :: contPackets ch 0 (data.drop initData)

/-- number of continuation packets needed for `n` payload bytes -/
def numCont (n : Nat) : Nat := (n - initData + contData - 1) / contData

/-- the channel a packet belongs to: its first four bytes (packets shorter than a header belong to none) -/
def chanOf : Bytes → Option Chan
  | b0 :: b1 :: b2 :: b3 :: _ :: _ => some ⟨b0, b1, b2, b3⟩
  | _ => none

/-- the sub-stream of channel `c` -/
def sub (c : Chan) (pkts : List Bytes) : List Bytes := pkts.filter (fun p => chanOf p = some c)

/-- what the receiver returned for the packets of channel `c` (one entry per such packet) -/
def outsOf (c : Chan) : List Bytes → List (Option Msg) → List (Option Msg)
  | p :: ps, o :: os => if chanOf p = some c then o :: outsOf c ps os else outsOf c ps os
  | _, _ => []

/-- the messages delivered, in order -/
def delivered (os : List (Option Msg)) : List Msg := os.filterMap id

/-- what a receiver must deliver for a sent message: same channel, command and payload -/
def sameMessage (m : Msg) (ch : Chan) (cmd : Command) (data : Bytes) : Prop :=
  m.channel = ch ∧ m.command = cmd ∧ m.payload = data ∧ m.payloadLen = data.length

/-- what is compared between a sent and a delivered message -/
def view (m : Msg) : Chan × Command × Bytes := (m.channel, m.command, m.payload)

/-- what the receiver must return, packet by packet, for the packets of the messages `msgs` sent
one after the other on channel `c`: nothing until each message's last packet, then that message -/
def expectedOuts (c : Chan) : List (Command × Bytes) → List (Option (Chan × Command × Bytes))
  | [] => []
  | (cmd, d) :: rest =>
    List.replicate ((packets c cmd d).length - 1) none ++ [some (c, cmd, d)] ++ expectedOuts c rest

/-- the packet stream of the messages `msgs` sent one after the other on channel `c` -/
def streamOf (c : Chan) (msgs : List (Command × Bytes)) : List Bytes :=
  (msgs.map (fun x => packets c x.1 x.2)).flatten

/-- a continuation-shaped report: 64 bytes with bit 7 of the fifth byte clear -/
def isContPacket (p : Bytes) : Bool := p.length == packetSize && (match p[4]? with | some b => b.toNat < 128 | none => false)

/-- the statement's reading of a channel's *whole* stream when it consists of the declared messages, each possibly followed
by stray continuation packets: no message was ever left unfinished on the channel, so nothing is in progress once a
message was delivered and each stray yields nothing.  What the receiver must return packet by packet, or `none` if the
stream is not of that shape.  (After an abandoned transfer the statement does not say whether that transfer is still
"in progress" when a later single-packet message has been delivered — the library keeps it, and strays then complete
it — so streams with an abandoned prefix are judged on their messages only, `allowStrays = false`.) -/
def expectedWithStrays (allowStrays : Bool) (c : Chan) : List (Command × Bytes) → List Bytes → Option (List (Option (Chan × Command × Bytes)))
  | [], s => if s.isEmpty then some [] else none
  | (cmd, d) :: rest, s =>
    let e := packets c cmd d
    if s.take e.length == e then
      let after := s.drop e.length
      let strays := if allowStrays then after.takeWhile isContPacket else []
      match expectedWithStrays allowStrays c rest (after.drop strays.length) with
      | some tail => some (expectedOuts c [(cmd, d)] ++ strays.map (fun _ => none) ++ tail)
      | none => none
    else none

/-- `pkts` is an interleaving of the labelled streams `ss` that keeps each stream's own order -/
inductive IsMerge : List (Chan × List Bytes) → List Bytes → Prop
  | done (ss : List (Chan × List Bytes)) : (∀ s ∈ ss, s.2 = []) → IsMerge ss []
  | step (pre : List (Chan × List Bytes)) (c : Chan) (p : Bytes) (s : List Bytes)
      (post : List (Chan × List Bytes)) (rest : List Bytes) :
      IsMerge (pre ++ (c, s) :: post) rest → IsMerge (pre ++ (c, p :: s) :: post) (p :: rest)

end PasskeyVerif.Hid.Spec
