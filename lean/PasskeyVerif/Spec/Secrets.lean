/-
C06 Spec: a returned value (any serialisation: CBOR, JSON, Debug text, raw message) must not contain a
secret (private scalar, PRF secret) in raw, hex, decimal-list, base64 or base64url form.
-/
import PasskeyVerif.Base.Base64
import PasskeyVerif.Base.Hex
namespace PasskeyVerif.Spec.Secrets
abbrev Bytes := List UInt8

def isPrefixOf (n h : Bytes) : Bool :=
  match n, h with
  | [], _ => true
  | _ :: _, [] => false
  | a :: as, b :: bs => a == b && isPrefixOf as bs

/-- naive sub-list search -/
def containsSub (h n : Bytes) : Bool :=
  match h with
  | [] => n.isEmpty
  | _ :: t => isPrefixOf n h || containsSub t n

def ascii (s : String) : Bytes := s.toUTF8.toList

def hexDigit (n : Nat) (upper : Bool) : UInt8 :=
  if n < 10 then UInt8.ofNat (48 + n) else UInt8.ofNat ((if upper then 55 else 87) + n)

def hexOf (b : Bytes) (upper : Bool) : Bytes := b.flatMap (fun x => [hexDigit (x.toNat / 16) upper, hexDigit (x.toNat % 16) upper])

def decimalOf (n : Nat) : Bytes := (toString n).toUTF8.toList

/-- `1,2,3` — matched against the text with blanks and line breaks removed, so it covers `[1, 2, 3]`,
`[1,2,3]` and the pretty-printed form -/
def decimalList (b : Bytes) : Bytes := (b.map (fun x => decimalOf x.toNat)).intersperse [44] |>.flatten

def stripBlanks (h : Bytes) : Bytes := h.filter (fun c => c != 32 && c != 10 && c != 13 && c != 9)

/-- the renderings of one secret that are searched for (a base64 rendering is searched without its final,
length-dependent characters so that a secret embedded in a longer encoded string at offset 0 is found too) -/
def forms (s : Bytes) : List (String × Bytes) :=
  let b64 := (Base64.encodeStd s).toUTF8.toList
  let b64u := (Base64.encodeUrl s).toUTF8.toList
  [("raw", s), ("hex", hexOf s false), ("HEX", hexOf s true), ("decimal-list", decimalList s),
   ("base64", b64.take (b64.length - 2)), ("base64url", b64u.take (b64u.length - 2))]

/-- first (secret index, form) found in the blob -/
def scan (secrets : List Bytes) (blob : Bytes) : Option String :=
  let stripped := stripBlanks blob
  (secrets.zipIdx.findSome? (fun (s, i) =>
    if s.length < 16 then none else
    (forms s).findSome? (fun (name, f) =>
      if containsSub (if name == "decimal-list" then stripped else blob) f then some s!"secret-{i}-appears-as-{name}" else none)))

end PasskeyVerif.Spec.Secrets
