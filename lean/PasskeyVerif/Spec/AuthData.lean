/-
Specification for C12, from WebAuthn §6.1 (authenticator data) and §6.5.1 (attested credential data):
layout, flag bit positions, and the inputs a decoder must reject.  Executable.
-/
import PasskeyVerif.Base.Cbor
import PasskeyVerif.Base.Sha256
namespace PasskeyVerif.AuthData.Spec

abbrev Bytes := List UInt8

def bitUP : UInt8 := 0x01
def bitUV : UInt8 := 0x04
def bitBE : UInt8 := 0x08
def bitBS : UInt8 := 0x10
def bitAT : UInt8 := 0x40
def bitED : UInt8 := 0x80
def reserved : UInt8 := 0x22

def be (width n : Nat) : Bytes := (List.range width).map (fun i => UInt8.ofNat ((n >>> (8 * (width - 1 - i))) % 256))

/-- the encoding the WebAuthn layout prescribes: `userFlags` are the UP/UV/BE/BS bits in force -/
def layout (rpId : Bytes) (userFlags : UInt8) (counter : Option Nat)
    (acd : Option (Bytes × Bytes × Bytes)) (ext : Option Bytes) : Bytes :=
  let flags := userFlags ||| (if acd.isSome then bitAT else 0) ||| (if ext.isSome then bitED else 0)
  Sha256.sha256 rpId ++ [flags] ++ be 4 (counter.getD 0)
    ++ (match acd with
        | some (aaguid, credId, key) => aaguid ++ be 2 credId.length ++ credId ++ key
        | none => [])
    ++ ext.getD []

/-- inputs the statement says must be rejected: shorter than 37 bytes, reserved flag bits, or a flagged
section that is missing or truncated (judged with the RFC 8949 item scanner) -/
def mustReject (v : Bytes) : Bool :=
  if v.length < 37 then true else
  let flags := v.getD 32 0
  if flags &&& reserved ≠ 0 then true else
  let rest := v.drop 37
  let afterAcd : Option Bytes :=
    if flags &&& bitAT ≠ 0 then
      if rest.length < 18 then none else
      let len := (rest.getD 16 0).toNat * 256 + (rest.getD 17 0).toNat
      let r := rest.drop 18
      if r.length < len then none else
      match Cbor.skip (r.drop len) with
      | none => none
      | some n => some ((r.drop len).drop n)
    else some rest
  match afterAcd with
  | none => true
  | some r => if flags &&& bitED ≠ 0 then (Cbor.skip r).isNone else false

end PasskeyVerif.AuthData.Spec
