/-
Specification for C10: the publicsuffix.org algorithm over a rule list, written from
https://github.com/publicsuffix/list/wiki/Format#algorithm, not from the code.  Executable.

A rule is its labels in reverse order (TLD first) and a kind: normal, exception (`!`), wildcard
(`*.` in front of the labels).  Labels are compared bytewise as given (the crate documents that callers
pass lower-case punycode; no case folding here, as in the code).
-/
import PasskeyVerif.Model.Psl
namespace PasskeyVerif.Psl.Spec
open PasskeyVerif.Psl

abbrev Label := List Nat

inductive Kind where
  | normal | exception | wildcard
  deriving DecidableEq, Repr

structure Rule where
  labels : List Label     -- TLD first
  kind : Kind
  deriving DecidableEq, Repr

/-- split a name into labels at every dot (so "a..b" has an empty label, "" has one empty label) -/
def splitDots : Str → List Label
  | [] => [[]]
  | c :: cs =>
    if c = dot then [] :: splitDots cs
    else match splitDots cs with
      | l :: ls => (c :: l) :: ls
      | [] => [[c]]

/-- labels of a name, TLD first -/
def revLabels (d : Str) : List Label := (splitDots d).reverse

/-- "A domain is said to match a rule if and only if all of the following conditions are met: when the
domain and rule are split into corresponding labels, that the domain contains as many or more labels
than the rule; beginning with the right-most labels of both the domain and the rule, and continuing
for all labels in the rule, one finds that for every pair, either they are identical, or that the
label from the rule is `*`." -/
def Rule.matches (r : Rule) (ls : List Label) : Bool :=
  r.labels.isPrefixOf ls && (r.kind != .wildcard || decide (r.labels.length < ls.length))

/-- number of labels of a rule, the `*` included -/
def Rule.len (r : Rule) : Nat :=
  match r.kind with
  | .wildcard => r.labels.length + 1
  | _ => r.labels.length

def maxOf : List Nat → Nat
  | [] => 0
  | a :: as => max a (maxOf as)

/-- Number of labels of the public suffix of a name with reversed labels `ls`:
"1. Match domain against all rules and take note of the matching ones. 2. If no rules match, the
prevailing rule is `*`. 3. If more than one rule matches, the prevailing rule is the one which is an
exception rule. 4. If there is no matching exception rule, the prevailing rule is the one with the most
labels. 5. If the prevailing rule is a exception rule, modify it by removing the leftmost label.
6. The public suffix is the set of labels from the domain which match the labels of the prevailing
rule." -/
def suffixLabels (rules : List Rule) (ls : List Label) : Nat :=
  let ms := rules.filter (fun r => r.matches ls)
  match ms.filter (fun r => r.kind = .exception) with
  | e :: _ => e.labels.length - 1
  | [] =>
    let m := maxOf ((ms.filter (fun r => r.kind ≠ .exception)).map Rule.len)
    if m = 0 then 1 else m

/-- join labels with dots -/
def joinDots : List Label → Str
  | [] => []
  | [l] => l
  | l :: ls => l ++ dot :: joinDots ls

/-- the last `n` labels of a name, as a name -/
def lastLabels (n : Nat) (d : Str) : Str :=
  let ls := splitDots d
  joinDots (ls.drop (ls.length - n))

def publicSuffix (rules : List Rule) (d : Str) : Str :=
  lastLabels (suffixLabels rules (revLabels d)) d

def hasEmptyLabel (d : Str) : Bool := (splitDots d).any (fun l => l.isEmpty)

/-- eTLD+1, as a predicate on the outcome: names with an empty label are rejected (some error); a
name that is itself a public suffix has none (some error); otherwise the result is the public suffix
plus exactly one more label. -/
def etldPlusOneOk (rules : List Rule) (d : Str) (r : Except Error Str) : Bool :=
  let n := suffixLabels rules (revLabels d)
  if hasEmptyLabel d || decide ((splitDots d).length ≤ n) then
    match r with | .error _ => true | .ok _ => false
  else
    match r with | .ok x => x == lastLabels (n + 1) d | .error _ => false

/-- decidable well-formedness of a rule list: the situations in which "the exception rule prevails"
is unambiguous (no exception rule's labels are a prefix of another exception rule's labels), no
empty labels, exception rules have at least two labels. -/
def wfRules (rules : List Rule) : Bool :=
  rules.all (fun r => r.labels.all (fun l => !l.isEmpty) && !r.labels.isEmpty
    && (r.kind != .exception || decide (2 ≤ r.labels.length)))
  && (rules.filter (fun r => r.kind = .exception)).all (fun e =>
      (rules.filter (fun r => r.kind = .exception)).all (fun e' =>
        e.labels == e'.labels || !(e.labels.isPrefixOf e'.labels)))

/-! ### decoding the packed rule blob of `Generated/PslRules.lean` -/

/-- the first `len` bytes of the chunked packing, as a list -/
def unpack (chunks : List Nat) (len : Nat) : List Nat :=
  (List.range len).map (packedByte chunks)

/-- split off exactly `n` elements -/
def takeExact : Nat → List Nat → Option (List Nat × List Nat)
  | 0, bs => some ([], bs)
  | _ + 1, [] => none
  | n + 1, b :: bs =>
    match takeExact n bs with
    | none => none
    | some (a, r) => some (b :: a, r)

def readLabels : Nat → List Nat → Option (List Label × List Nat)
  | 0, bs => some ([], bs)
  | n + 1, bs =>
    match bs with
    | [] => none
    | len :: rest =>
      match takeExact len rest with
      | none => none
      | some (l, rest) =>
        match readLabels n rest with
        | none => none
        | some (ls, r) => some (l :: ls, r)

def kindOfByte : Nat → Option Kind
  | 0 => some .normal | 1 => some .exception | 2 => some .wildcard | _ => none

/-- per rule: kind, number of labels, then (length, bytes) per label, TLD first -/
def readRules : Nat → List Nat → Option (List Rule)
  | 0, bs => if bs.isEmpty then some [] else none
  | fuel + 1, bs =>
    match bs with
    | [] => some []
    | [_] => none
    | k :: n :: rest =>
      match kindOfByte k, readLabels n rest with
      | some k, some (ls, r) =>
        match readRules fuel r with
        | none => none
        | some rs => some ({ labels := ls, kind := k } :: rs)
      | _, _ => none

end PasskeyVerif.Psl.Spec
