/- Strings vs label lists: `rfindDot`/slicing of the Rust code against `splitDots` of the specification. -/
import PasskeyVerif.Spec.Psl
namespace PasskeyVerif.Psl
open Spec

theorem splitDots_ne_nil (s : Str) : splitDots s ≠ [] := by
  cases s with
  | nil => simp [splitDots]
  | cons c cs =>
    unfold splitDots
    split
    · simp
    · split <;> simp

/-- no dot: a single label -/
theorem splitDots_of_rfind_none (s : Str) (h : rfindDot s = none) : splitDots s = [s] := by
  induction s with
  | nil => rfl
  | cons c cs ih =>
    unfold rfindDot at h
    cases hr : rfindDot cs with
    | some i => rw [hr] at h; cases h
    | none =>
      rw [hr] at h
      dsimp only at h
      split at h
      · cases h
      · rename_i hc
        unfold splitDots
        rw [if_neg hc, ih hr]

theorem rfind_lt (s : Str) (d : Nat) (h : rfindDot s = some d) : d < s.length := by
  induction s generalizing d with
  | nil => cases h
  | cons c cs ih =>
    unfold rfindDot at h
    cases hr : rfindDot cs with
    | some i =>
      rw [hr] at h; cases h
      have := ih i hr
      simp; omega
    | none =>
      rw [hr] at h
      dsimp only at h
      split at h
      · cases h; simp
      · cases h

/-- last dot at `d`: the labels are those of the part before it, then the part after it -/
theorem splitDots_of_rfind_some (s : Str) (d : Nat) (h : rfindDot s = some d) :
    splitDots s = splitDots (s.take d) ++ [s.drop (d + 1)] := by
  induction s generalizing d with
  | nil => cases h
  | cons c cs ih =>
    unfold rfindDot at h
    cases hr : rfindDot cs with
    | some i =>
      rw [hr] at h; cases h
      have hi := ih i hr
      simp only [List.take_succ_cons, List.drop_succ_cons]
      unfold splitDots
      by_cases hc : c = dot
      · rw [if_pos hc, if_pos hc, hi]; rfl
      · rw [if_neg hc, if_neg hc, hi]
        cases hsp : splitDots (cs.take i) with
        | nil => exact absurd hsp (splitDots_ne_nil _)
        | cons l ls => rfl
    | none =>
      rw [hr] at h
      dsimp only at h
      split at h
      · rename_i hc
        cases h
        simp only [List.take_zero, List.drop_succ_cons, List.drop_zero]
        unfold splitDots
        rw [if_pos hc, splitDots_of_rfind_none cs hr]
        rfl
      · cases h

/-- the label the loop looks up, and the labels that remain -/
theorem revLabels_step (s : Str) :
    revLabels s = s.drop (afterOrAll (rfindDot s)) ::
      (match rfindDot s with
       | some d => revLabels (s.take d)
       | none => []) := by
  unfold revLabels
  cases h : rfindDot s with
  | none => rw [splitDots_of_rfind_none s h]; rfl
  | some d => rw [splitDots_of_rfind_some s d h]; simp [afterOrAll]

/-- length of the suffix made of the first `j` reversed labels, dots included -/
def sufLen : Nat → List Label → Nat
  | 0, _ => 0
  | _ + 1, [] => 0
  | 1, l :: _ => l.length
  | j + 2, l :: rest => l.length + 1 + sufLen (j + 1) rest

theorem length_decomp (s : Str) (d : Nat) (h : rfindDot s = some d) :
    s.length = d + 1 + (s.drop (d + 1)).length := by
  have := rfind_lt s d h
  simp [List.length_drop]; omega

theorem joinDots_append_single (ls : List Label) (l : Label) (h : ls ≠ []) :
    joinDots (ls ++ [l]) = joinDots ls ++ dot :: l := by
  induction ls with
  | nil => exact absurd rfl h
  | cons a as ih =>
    cases as with
    | nil => simp [joinDots]
    | cons b bs =>
      have := ih (by simp)
      simp only [List.cons_append, joinDots] at this ⊢
      rw [this]; simp

/-- joining all labels gives the string back -/
theorem joinDots_splitDots (s : Str) : joinDots (splitDots s) = s := by
  induction s with
  | nil => rfl
  | cons c cs ih =>
    unfold splitDots
    by_cases hc : c = dot
    · rw [if_pos hc]
      cases hsp : splitDots cs with
      | nil => exact absurd hsp (splitDots_ne_nil _)
      | cons l ls =>
        rw [hsp] at ih
        simp only [joinDots, List.nil_append]
        rw [hc]
        cases ls with
        | nil => simp [joinDots] at ih ⊢; exact ih
        | cons l2 ls2 => simp only [joinDots] at ih ⊢; rw [ih]
    · rw [if_neg hc]
      cases hsp : splitDots cs with
      | nil => exact absurd hsp (splitDots_ne_nil _)
      | cons l ls =>
        rw [hsp] at ih
        cases ls with
        | nil => simp only [joinDots] at ih ⊢; rw [ih]
        | cons l2 ls2 => simp only [joinDots, List.cons_append] at ih ⊢; rw [ih]


theorem drop_at_rfind (s : Str) (d : Nat) (h : rfindDot s = some d) : s.drop d = dot :: s.drop (d + 1) := by
  induction s generalizing d with
  | nil => cases h
  | cons c cs ih =>
    unfold rfindDot at h
    cases hr : rfindDot cs with
    | some i =>
      rw [hr] at h; cases h
      simp only [List.drop_succ_cons]
      exact ih i hr
    | none =>
      rw [hr] at h
      dsimp only at h
      split at h
      · rename_i hc; cases h; simp [hc]
      · cases h

theorem drop_split (s : Str) (k d : Nat) (h : k ≤ d) : s.drop k = (s.take d).drop k ++ s.drop d := by
  induction s generalizing k d with
  | nil => simp
  | cons c cs ih =>
    cases k with
    | zero => simp
    | succ k =>
      cases d with
      | zero => omega
      | succ d => simp only [List.drop_succ_cons, List.take_succ_cons]; exact ih k d (by omega)

/-- the last `n` labels of `s`, as a slice of `s` -/
theorem drop_eq_lastLabels (n : Nat) : ∀ (s : Str), 1 ≤ n → n ≤ (splitDots s).length →
    s.drop (s.length - sufLen n (revLabels s)) = lastLabels n s := by
  induction n with
  | zero => intro s h; omega
  | succ m ih =>
    intro s _ hn
    rw [revLabels_step]
    unfold lastLabels
    dsimp only
    cases hr : rfindDot s with
    | none =>
      rw [splitDots_of_rfind_none s hr] at hn ⊢
      simp only [List.length_cons, List.length_nil] at hn
      have : m = 0 := by omega
      subst this
      simp [sufLen, afterOrAll, joinDots]
    | some d =>
      have hsp := splitDots_of_rfind_some s d hr
      have hlen := length_decomp s d hr
      rw [hsp] at hn ⊢
      simp only [List.length_append, List.length_cons, List.length_nil] at hn ⊢
      dsimp only [afterOrAll]
      cases m with
      | zero =>
        simp only [sufLen]
        have : (splitDots (s.take d)).length + (0 + 1) - (0 + 1) = (splitDots (s.take d)).length := by omega
        rw [this, List.drop_left, hlen]
        simp only [joinDots]
        congr 1; omega
      | succ m =>
        simp only [sufLen]
        have hA : m + 1 ≤ (splitDots (s.take d)).length := by omega
        have hk : (splitDots (s.take d)).length + (0 + 1) - (m + 1 + 1) = (splitDots (s.take d)).length - (m + 1) := by omega
        rw [hk, List.drop_append_of_le_length (by omega)]
        have hne : (splitDots (s.take d)).drop ((splitDots (s.take d)).length - (m + 1)) ≠ [] := by
          intro e
          have := congrArg List.length e
          simp [List.length_drop] at this; omega
        rw [joinDots_append_single _ _ hne]
        have hrec := ih (s.take d) (by omega) hA
        unfold lastLabels at hrec
        dsimp only at hrec
        rw [← hrec]
        have htl : (s.take d).length = d := by
          have := rfind_lt s d hr
          simp [List.length_take]; omega
        rw [htl]
        have hsub : s.length - ((s.drop (d + 1)).length + 1 + sufLen (m + 1) (revLabels (s.take d)))
            = d - sufLen (m + 1) (revLabels (s.take d)) := by omega
        rw [hsub, drop_split s _ d (by omega), drop_at_rfind s d hr]


/-! ### label alignment of `lastLabels` -/

theorem splitDots_labels_no_dot (s : Str) : ∀ l ∈ splitDots s, dot ∉ l := by
  induction s with
  | nil => intro l hl; simp [splitDots] at hl; subst hl; simp
  | cons c cs ih =>
    intro l hl
    unfold splitDots at hl
    split at hl
    · rw [List.mem_cons] at hl
      rcases hl with rfl | hl
      · simp
      · exact ih l hl
    · rename_i hc
      split at hl
      · rename_i l0 ls hsp
        rw [hsp] at ih
        rw [List.mem_cons] at hl
        rcases hl with rfl | hl
        · intro hm
          rw [List.mem_cons] at hm
          rcases hm with hm | hm
          · exact hc hm.symm
          · exact ih l0 (List.mem_cons_self) hm
        · exact ih l (List.mem_cons_of_mem _ hl)
      · simp at hl; subst hl
        intro hm; simp at hm; exact hc hm.symm

theorem splitDots_append_dot (l : Label) (x : Str) (h : dot ∉ l) :
    splitDots (l ++ dot :: x) = l :: splitDots x := by
  induction l with
  | nil => simp [splitDots]
  | cons c cs ih =>
    have hc : c ≠ dot := fun e => h (by simp [e])
    have hcs : dot ∉ cs := fun hm => h (List.mem_cons_of_mem _ hm)
    simp only [List.cons_append]
    conv => lhs; unfold splitDots
    rw [if_neg hc, ih hcs]

theorem splitDots_no_dot (l : Label) (h : dot ∉ l) : splitDots l = [l] := by
  induction l with
  | nil => rfl
  | cons c cs ih =>
    have hc : c ≠ dot := fun e => h (by simp [e])
    have hcs : dot ∉ cs := fun hm => h (List.mem_cons_of_mem _ hm)
    conv => lhs; unfold splitDots
    rw [if_neg hc, ih hcs]

theorem splitDots_joinDots (ls : List Label) (hne : ls ≠ []) (h : ∀ l ∈ ls, dot ∉ l) :
    splitDots (joinDots ls) = ls := by
  induction ls with
  | nil => exact absurd rfl hne
  | cons l rest ih =>
    cases rest with
    | nil => simp only [joinDots]; exact splitDots_no_dot l (h l (List.mem_cons_self))
    | cons l2 rest2 =>
      simp only [joinDots]
      rw [splitDots_append_dot l _ (h l (List.mem_cons_self)),
        ih (by simp) (fun x hx => h x (List.mem_cons_of_mem _ hx))]

/-- the last `n` labels of `d`, as a name, have exactly those labels -/
theorem splitDots_lastLabels (n : Nat) (d : Str) (h1 : 1 ≤ n) :
    splitDots (lastLabels n d) = (splitDots d).drop ((splitDots d).length - n) := by
  unfold lastLabels
  dsimp only
  have hne := splitDots_ne_nil d
  apply splitDots_joinDots
  · intro e
    have := congrArg List.length e
    simp only [List.length_drop, List.length_nil] at this
    have hpos : 1 ≤ (splitDots d).length := by
      cases hsp : splitDots d with
      | nil => exact absurd hsp hne
      | cons a as => simp
    omega
  · intro l hl
    exact splitDots_labels_no_dot d l (List.mem_of_mem_drop hl)

end PasskeyVerif.Psl
