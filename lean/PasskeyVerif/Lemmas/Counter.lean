/- Lemmas for the n-step counter history of Props/C08: one assertion on a store holding one credential. -/
import PasskeyVerif.Lemmas.AuthCancel
namespace PasskeyVerif.Auth
open PasskeyVerif.Auth.Spec
open PasskeyVerif.AuthData (Bytes AuthData)

theorem foundRaw_mem (kind : StoreKind) (items : List Passkey) (ids : Option (List Bytes)) (rp : Bytes) :
    ∀ p ∈ foundRaw kind items ids rp, p ∈ items := by
  intro p hp
  cases kind with
  | memoryMap =>
    cases ids with
    | none => cases hp
    | some l =>
      simp only [foundRaw, List.mem_filterMap] at hp
      obtain ⟨id, _, hf⟩ := hp
      exact List.mem_of_find?_eq_some hf
  | singleSlot =>
    cases items with
    | nil =>
      cases ids with
      | none => simp [foundRaw, Option.filter] at hp
      | some l =>
        have hn : List.findSome? (fun (_ : Bytes) => (none : Option Passkey)) l = none := by
          induction l with
          | nil => rfl
          | cons a as ih => simp [List.findSome?, ih]
        simp [foundRaw, Option.filter, hn] at hp
    | cons q qs =>
      cases ids with
      | none =>
        simp only [foundRaw, List.head?_cons, Option.filter] at hp
        split at hp
        · simp at hp; subst hp; simp
        · cases hp
      | some l =>
        simp only [foundRaw, List.head?_cons] at hp
        split at hp
        · rename_i p' hfs
          simp only [List.mem_singleton] at hp
          subst hp
          obtain ⟨id, _, hid⟩ := List.exists_of_findSome?_eq_some hfs
          simp only [Option.filter] at hid
          split at hid
          · simp at hid; subst hid; simp
          · cases hid
        · cases hp
  | reference d =>
    simp only [foundRaw] at hp
    exact (List.mem_filter.mp hp).1

/-- every store rewrites its only credential in place -/
theorem updateRaw_single (kind : StoreKind) (p p' : Passkey) (hid : p'.credId = p.credId) :
    updateRaw kind [p] p' = .ok [p'] := by
  cases kind with
  | memoryMap => simp [updateRaw, hid]
  | singleSlot => rfl
  | reference d => simp [updateRaw, hid]

/-- **one successful assertion on a store holding exactly `p` (counter `c`)**: it reports `c+1` (saturating)
and leaves exactly `p` with that counter -/
theorem getAssertion_single (cfg : Cfg) (u : UvCfg) (s : Store) (req : GetReq) (p : Passkey) (c : Nat) (r : GetResp)
    (hitems : s.items = [p]) (hc : p.counter = some c) (h : (getAssertion cfg u s req).result = .ok r) :
    r.authData.counter = some (bump c)
      ∧ (getAssertion cfg u s req).store.items = [{ p with counter := some (bump c) }]
      ∧ (getAssertion cfg u s req).store.kind = s.kind := by
  have hkind : (getAssertion cfg u s req).store.kind = s.kind := by
    unfold getAssertion
    dsimp only
    split
    · rfl
    · split
      · rfl
      · split
        · rfl
        · split
          · rfl
          · simp only [Outcome.prepend]
            rename_i cred _
            have : ∀ (st : Store), (getAfterConsent cfg st req ‹UInt8› cred).store.kind = st.kind := by
              intro st
              unfold getAfterConsent
              cases hcc : cred.counter with
              | none => simp only; rw [(signPhase_trace _ _ _ _ _).2]
              | some c' =>
                simp only
                unfold Store.update
                cases hf : st.fault? with
                | some f => rfl
                | none =>
                  simp only
                  cases hu : updateRaw st.kind st.items { cred with counter := some (bump c') } with
                  | error e => rfl
                  | ok l => simp only [Outcome.prepend]; rw [(signPhase_trace _ _ _ _ _).2]; rfl
            rw [this]; rfl
  obtain ⟨p0, rest, hfind, hid⟩ := getAssertion_first_of_lookup cfg u s req r h
  -- the credential found is the one stored
  have hp0 : p0 = p := by
    unfold Store.find at hfind
    cases hf : s.fault? with
    | some e => simp only [hf] at hfind; cases hfind
    | none =>
      simp only [hf] at hfind
      unfold findRaw at hfind
      split at hfind
      · cases hfind
      · simp only [Except.ok.injEq] at hfind
        have hm : p0 ∈ foundRaw s.kind s.items (allowIds req) req.rpId := by rw [hfind]; exact List.mem_cons_self
        have := foundRaw_mem _ _ _ _ p0 hm
        rw [hitems] at this
        simpa using this
  subst hp0
  rcases getAssertion_effects cfg u s req _ rfl with h1 | ⟨q, rest', c', l, hq, hqc, _, hu, hl⟩ | ⟨q, rest', c', f, _, _, _, _, herr⟩
  · -- no effect: only possible without a counter, or on failure
    exfalso
    -- a successful assertion with a counter has the update in its trace (C08_assert_step's content)
    have hupd : ∃ e ∈ (getAssertion cfg u s req).trace, e.isEffect = true := by
      unfold getAssertion at h ⊢
      dsimp only at h ⊢
      split at h
      · cases h
      · rename_i hpin
        split at h
        · cases h
        · rename_i hrk
          split at h
          · cases h
          · rename_i flags ev2 hcu
            split at h
            · cases h
            · rename_i cred hm
              simp only [Outcome.prepend] at h
              simp only [hpin, hrk, if_false, hcu, hm, Outcome.prepend, Bool.false_eq_true]
              have hcred : cred = p0 := by
                unfold firstCred at hm
                rw [hfind] at hm
                simpa using hm.symm
              subst hcred
              rcases getAfterConsent_effects cfg (s.find (allowIds req) req.rpId).2.1 req flags cred _ rfl with g1 | ⟨c2, l2, _, g2, _, _⟩ | ⟨c2, f2, _, _, _, g4⟩
              · rw [hc] at g1; cases g1.2.2
              · refine ⟨Event.update cred.credId (some (bump c2)) none, ?_, rfl⟩
                have : Event.update cred.credId (some (bump c2)) none ∈ effects (getAfterConsent cfg (s.find (allowIds req) req.rpId).2.1 req flags cred).trace := by
                  rw [g2]; exact List.mem_singleton.mpr rfl
                exact List.mem_append_right _ (List.mem_filter.mp this).1
              · rw [g4] at h; cases h
    obtain ⟨e, he, hee⟩ := hupd
    have : e ∈ effects (getAssertion cfg u s req).trace := List.mem_filter.mpr ⟨he, hee⟩
    rw [h1.1] at this; cases this
  · rw [hfind] at hq
    simp only [Except.ok.injEq, List.cons.injEq] at hq
    obtain ⟨hq1, _⟩ := hq
    subst hq1
    rw [hc] at hqc; cases hqc
    have hrep : r.authData.counter = some (bump c) := by
      -- C08_assert_step's first half, re-derived through the effect lemma's witness
      unfold getAssertion at h
      dsimp only at h
      split at h
      · cases h
      · split at h
        · cases h
        · split at h
          · cases h
          · split at h
            · cases h
            · rename_i cred hm
              simp only [Outcome.prepend] at h
              have hcred : cred = p0 := by
                unfold firstCred at hm
                rw [hfind] at hm
                simpa using hm.symm
              subst hcred
              unfold getAfterConsent at h
              simp only [hc] at h
              split at h
              · cases h
              · simp only [Outcome.prepend] at h
                obtain ⟨ha, _⟩ := signPhase_ok _ _ _ _ _ _ h
                rw [ha]; rfl
    refine ⟨hrep, ?_, hkind⟩
    rw [hl]
    rw [hitems, updateRaw_single s.kind p0 { p0 with counter := some (bump c) } rfl] at hu
    cases hu; rfl
  · rw [herr] at h; cases h

end PasskeyVerif.Auth
