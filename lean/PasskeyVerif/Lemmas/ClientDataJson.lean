/-
Helper lemmas for the value-level client-data model (Model/ClientDataJson.lean): `IndexMap::insert` over a member list
(names stay distinct, nothing but the inserted names appears, distinct input is kept as it is), what an accepted
parse says about its input, and the fixed point `reser (serialise p) = some (serialise p)`.
-/
import PasskeyVerif.Model.ClientDataJson
namespace PasskeyVerif.ClientDataJson
open PasskeyVerif.Json

theorem indexInsert_keys (m : Members) (k : String) (v : Json) (q : String × Json) (h : q ∈ indexInsert m k v) :
    q.1 = k ∨ q.1 ∈ m.map (·.1) := by
  unfold indexInsert at h
  split at h
  · rw [List.mem_map] at h
    obtain ⟨p, hp, rfl⟩ := h
    by_cases hk : (p.1 == k) = true
    · simp [hk]
    · simp [hk]; right; exact ⟨_, hp⟩
  · rw [List.mem_append] at h
    rcases h with h | h
    · right; exact List.mem_map.mpr ⟨q, h, rfl⟩
    · simp at h; left; rw [h]

theorem foldl_indexInsert_keys (l acc : Members) (q : String × Json)
    (h : q ∈ l.foldl (fun m p => indexInsert m p.1 p.2) acc) :
    q.1 ∈ acc.map (·.1) ∨ q.1 ∈ l.map (·.1) := by
  induction l generalizing acc with
  | nil => left; exact List.mem_map.mpr ⟨q, h, rfl⟩
  | cons p l ih =>
    simp only [List.foldl_cons] at h
    rcases ih _ h with h' | h'
    · rw [List.mem_map] at h'
      obtain ⟨r, hr, hrq⟩ := h'
      rcases indexInsert_keys _ _ _ _ hr with h'' | h''
      · right; simp [← hrq, h'']
      · left; rw [← hrq]; exact h''
    · right; simp only [List.map_cons, List.mem_cons]; right; exact h'

theorem foldl_indexInsert_nodup (l acc : Members) (h : ((acc ++ l).map (·.1)).Nodup) :
    l.foldl (fun m p => indexInsert m p.1 p.2) acc = acc ++ l := by
  induction l generalizing acc with
  | nil => simp
  | cons p l ih =>
    simp only [List.foldl_cons]
    have hnot : (acc.any fun q => q.1 == p.1) = false := by
      rw [Bool.eq_false_iff]; intro hc
      rw [List.any_eq_true] at hc
      obtain ⟨q, hq, hqk⟩ := hc
      have hqk' : q.1 = p.1 := by simpa using hqk
      simp only [List.map_append, List.map_cons] at h
      rw [List.nodup_append] at h
      exact h.2.2 q.1 (List.mem_map.mpr ⟨q, hq, rfl⟩) p.1 (by simp) hqk'
    have : indexInsert acc p.1 p.2 = acc ++ [p] := by
      unfold indexInsert; simp [hnot]
    rw [this, ih]
    · simp
    · simpa using h

theorem parse_some (ms : Members) (p : Parsed) (h : parseClientData ms = some p) :
    (∀ k ∈ fixedKeys, countKey ms k ≤ 1)
    ∧ lookup ms "type" = some (.str p.ty) ∧ clientDataTypes.contains p.ty = true
    ∧ lookup ms "challenge" = some (.str p.challenge) ∧ lookup ms "origin" = some (.str p.origin)
    ∧ (p.crossOrigin = some true ↔ lookup ms "crossOrigin" = some (.bool true))
    ∧ p.unknown = collectUnknown ms := by
  unfold parseClientData at h
  split at h
  · cases h
  · rename_i hdup
    split at h
    · rename_i ty ch orig h1 h2 h3
      split at h
      · cases h
      · rename_i hty
        have hfix : ∀ k ∈ fixedKeys, countKey ms k ≤ 1 := by
          intro k hk
          have h' : (fixedKeys.any fun k => decide (countKey ms k > 1)) = false := by simpa using hdup
          have := List.any_eq_false.mp h' k hk
          simpa using this
        have hty' : clientDataTypes.contains ty = true := by simpa using hty
        split at h <;> simp at h
        all_goals (subst h; refine ⟨hfix, h1, hty', h2, h3, ?_, rfl⟩; simp_all)
    · cases h

/-- members of `out` after the first four are never one of the four fixed names -/
theorem reser_shape (ms out : Members) (h : reser ms = some out) :
    ∃ p, parseClientData ms = some p ∧ out = serialiseClientData p := by
  unfold reser at h
  cases hp : parseClientData ms with
  | none => rw [hp] at h; cases h
  | some p => rw [hp] at h; exact ⟨p, rfl, by cases h; rfl⟩

theorem collectUnknown_not_fixed (ms : Members) (q : String × Json) (h : q ∈ collectUnknown ms) : isFixed q.1 = false := by
  unfold collectUnknown at h
  rcases foldl_indexInsert_keys _ _ _ h with h' | h'
  · simp at h'
  · rw [List.mem_map] at h'
    obtain ⟨r, hr, hrq⟩ := h'
    rw [List.mem_filter] at hr
    rw [← hrq]; simpa using hr.2

theorem collectUnknown_nodup (ms : Members) (h : (ms.map (·.1)).Nodup) :
    collectUnknown ms = ms.filter (fun p => !isFixed p.1) := by
  unfold collectUnknown
  rw [foldl_indexInsert_nodup]
  · simp
  · simp only [List.nil_append]
    exact List.Nodup.sublist (List.Sublist.map _ List.filter_sublist) h

theorem filter_not_fixed_self (U : Members) (h : ∀ q ∈ U, isFixed q.1 = false) :
    U.filter (fun p => !isFixed p.1) = U := by
  rw [List.filter_eq_self]; intro q hq; simp [h q hq]

theorem countKey_unknown (U : Members) (h : ∀ q ∈ U, isFixed q.1 = false) (k : String) (hk : isFixed k = true) :
    countKey U k = 0 := by
  unfold countKey
  rw [List.length_eq_zero_iff, List.filter_eq_nil_iff]
  intro q hq hc
  have : q.1 = k := by simpa using hc
  rw [← this, h q hq] at hk; cases hk

theorem lookup_unknown (U : Members) (h : ∀ q ∈ U, isFixed q.1 = false) (k : String) (hk : isFixed k = true) :
    lookup U k = none := by
  unfold lookup
  rw [Option.map_eq_none_iff, List.find?_eq_none]
  intro q hq hc
  have : q.1 = k := by simpa using hc
  rw [← this, h q hq] at hk; cases hk

/-- what the serialiser writes for a value whose unknown members are distinct and none of the four is read back as
the same value, and written again as the same members -/
theorem reser_serialise (p : Parsed) (hty : clientDataTypes.contains p.ty = true)
    (hu : ∀ q ∈ p.unknown, isFixed q.1 = false) (hn : (p.unknown.map (·.1)).Nodup) :
    reser (serialiseClientData p) = some (serialiseClientData p) := by
  have hc : ∀ k, isFixed k = true → countKey p.unknown k = 0 := fun k hk => countKey_unknown _ hu k hk
  have hl : ∀ k, isFixed k = true → lookup p.unknown k = none := fun k hk => lookup_unknown _ hu k hk
  have c1 := hc "type" (by decide); have c2 := hc "challenge" (by decide)
  have c3 := hc "origin" (by decide); have c4 := hc "crossOrigin" (by decide)
  have hcu : collectUnknown (serialiseClientData p) = p.unknown := by
    have : (serialiseClientData p).filter (fun q => !isFixed q.1) = p.unknown := by
      unfold serialiseClientData
      rw [List.filter_append, filter_not_fixed_self _ hu]
      simp [isFixed, fixedKeys]
    unfold collectUnknown
    rw [this, foldl_indexInsert_nodup _ _ (by simpa using hn)]; simp
  unfold reser parseClientData
  rw [hcu]
  unfold countKey at c1 c2 c3 c4
  simp [serialiseClientData, fixedKeys, countKey, lookup, List.filter_cons, c1, c2, c3, c4]
  simpa using hty


theorem indexInsert_nodup (m : Members) (k : String) (v : Json) (h : (m.map (·.1)).Nodup) :
    ((indexInsert m k v).map (·.1)).Nodup := by
  unfold indexInsert
  split
  · have : (m.map (fun p => if p.1 == k then (k, v) else p)).map (·.1) = m.map (·.1) := by
      rw [List.map_map]; apply List.map_congr_left; intro p _
      show (if p.1 == k then (k, v) else p).1 = p.1
      by_cases hk : p.1 = k
      · simp [hk]
      · simp [hk]
    rw [this]; exact h
  · rename_i hno
    rw [List.map_append, List.nodup_append]
    refine ⟨h, by simp, ?_⟩
    intro a ha b hb
    simp at hb; subst hb
    intro hab; apply hno
    rw [List.any_eq_true]
    rw [List.mem_map] at ha
    obtain ⟨q, hq, rfl⟩ := ha
    exact ⟨q, hq, by simp [hab]⟩

theorem foldl_indexInsert_keys_nodup (l acc : Members) (h : (acc.map (·.1)).Nodup) :
    ((l.foldl (fun m p => indexInsert m p.1 p.2) acc).map (·.1)).Nodup := by
  induction l generalizing acc with
  | nil => exact h
  | cons p l ih => exact ih _ (indexInsert_nodup acc p.1 p.2 h)

theorem collectUnknown_keys_nodup (ms : Members) : ((collectUnknown ms).map (·.1)).Nodup :=
  foldl_indexInsert_keys_nodup _ [] (by simp)

end PasskeyVerif.ClientDataJson
