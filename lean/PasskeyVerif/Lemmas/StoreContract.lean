/- The documented lookup contract (definitions used by the statements of Props/C05) and helper lemmas about
the single-slot store. -/
import PasskeyVerif.Lemmas.Auth
namespace PasskeyVerif.C05
open PasskeyVerif.Auth PasskeyVerif.Auth.Spec
open PasskeyVerif.AuthData (Bytes)

/-- the documented contract: exactly the stored passkeys bound to `rp` and, if a list is given, named in
it, in store order -/
def contractFound (items : List Passkey) (ids : Option (List Bytes)) (rp : Bytes) : List Passkey :=
  items.filter (fun p => p.rpId == rp && (match ids with | none => true | some l => l.any (· == p.credId)))

/-- … and "no credentials" iff there is none -/
def contract (items : List Passkey) (ids : Option (List Bytes)) (rp : Bytes) : Except Nat (List Passkey) :=
  if (contractFound items ids rp).isEmpty then .error eNoCredentials else .ok (contractFound items ids rp)

theorem contract_of_found (kind : StoreKind) (items : List Passkey) (ids : Option (List Bytes)) (rp : Bytes)
    (h : foundRaw kind items ids rp = contractFound items ids rp) : findRaw kind items ids rp = contract items ids rp := by
  unfold findRaw contract; rw [h]

theorem filter_some_slot (p : Passkey) (a rp : Bytes) :
    (some p).filter (fun q => q.credId == a && q.rpId == rp) = if (p.credId == a && p.rpId == rp) = true then some p else none := rfl

theorem findSome_slot (p : Passkey) (rp : Bytes) (l : List Bytes) :
    l.findSome? (fun id => (some p).filter (fun q => q.credId == id && q.rpId == rp))
      = if (p.rpId == rp && l.any (· == p.credId)) = true then some p else none := by
  induction l with
  | nil => simp
  | cons a as ih =>
    rw [List.findSome?_cons, filter_some_slot]
    by_cases h1 : (p.credId == a && p.rpId == rp) = true
    · rw [if_pos h1]
      simp only [Bool.and_eq_true, beq_iff_eq] at h1
      have : (p.rpId == rp && (a :: as).any (· == p.credId)) = true := by simp [h1.1, h1.2]
      rw [if_pos this]
    · rw [if_neg h1, ih]
      have h1' : (p.credId == a && p.rpId == rp) = false := by simpa using h1
      by_cases hr : (p.rpId == rp) = true
      · have hne : p.credId ≠ a := by
          intro e; rw [e] at h1'; simp [hr] at h1'
        have this2 : (a == p.credId) = false := by
          rw [Bool.eq_false_iff]; intro h; simp only [beq_iff_eq] at h; exact hne h.symm
        simp only [List.any_cons, this2, Bool.false_or]
      · have hr' : (p.rpId == rp) = false := by simpa using hr
        simp only [hr', Bool.false_and]

end PasskeyVerif.C05
