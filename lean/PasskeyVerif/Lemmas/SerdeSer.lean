/- The round trip of the serde model: what the serialiser model writes, the parser model reads back. -/
import PasskeyVerif.Model.SerdeSer
import PasskeyVerif.Lemmas.Serde
import PasskeyVerif.Lemmas.Decimal
import PasskeyVerif.Lemmas.Base64
namespace PasskeyVerif.Serde
open PasskeyVerif.Json

/-- the (rust name, value) pairs of the members that are written -/
def presentPairs : List Field → List (String × Val) → List (String × Val)
  | fd :: fds, (_, v) :: vs =>
    (if fd.skipNone && v.isNone then [] else [(fd.rust, v)]) ++ presentPairs fds vs
  | _, _ => []

theorem serTy_ne_null (S : Schema) (b64 : Bool) (d : Nat) (t : Ty) (x : Val) (j : Json) (ht : notOpt t = true)
    (h : serTy S b64 d t x = some j) : j ≠ .null := by
  cases d with
  | zero => simp [serTy] at h
  | succ d =>
    cases t with
    | opt t => simp [notOpt] at ht
    | bytes =>
      cases x <;> simp only [serTy, Option.some.injEq, reduceCtorEq] at h
      subst h; cases b64 <;> simp [serBytes]
    | str => cases x <;> simp only [serTy, Option.some.injEq, reduceCtorEq] at h; subst h; simp
    | bool => cases x <;> simp only [serTy, Option.some.injEq, reduceCtorEq] at h; subst h; simp
    | u32 => cases x <;> simp only [serTy, Option.some.injEq, reduceCtorEq] at h; subst h; simp
    | alg => cases x <;> simp only [serTy, Option.some.injEq, reduceCtorEq] at h; subst h; simp
    | i64 => cases x <;> simp only [serTy, Option.some.injEq, reduceCtorEq] at h; subst h; simp
    | enum n => cases x <;> simp only [serTy, Option.some.injEq, reduceCtorEq] at h; subst h; simp
    | mapStr t => cases x <;> simp only [serTy, reduceCtorEq] at h
    | vec t =>
      cases x <;> simp only [serTy, reduceCtorEq] at h
      rename_i l
      cases hl : serList (serTy S b64 d t) l with
      | none => simp [hl] at h
      | some js => simp [hl] at h; subst h; simp
    | struct n =>
      cases x <;> simp only [serTy, reduceCtorEq] at h
      rename_i n' fs
      split at h
      · cases hs : S.struct? n with
        | none => simp [hs] at h
        | some sd =>
          simp only [hs, Option.bind_some] at h
          cases hf : serFields (serTy S b64 d) sd.fields fs with
          | none => simp [hf] at h
          | some js => simp [hf] at h; subst h; simp
      · cases h

theorem mapM_serList (ser : Val → Option Json) (p : Json → R Val) :
    ∀ (l : List Val) (js : List Json), serList ser l = some js →
      (∀ x ∈ l, ∀ j, ser x = some j → p j = .ok x) → R.mapM p js = .ok l
  | [], js, h, _ => by simp only [serList, Option.some.injEq] at h; subst h; rfl
  | x :: xs, js, h, hp => by
    simp only [serList] at h
    cases hx : ser x with
    | none => simp [hx] at h
    | some j =>
      cases hxs : serList ser xs with
      | none => simp [hx, hxs] at h
      | some js' =>
        simp only [hx, hxs, Option.some.injEq] at h
        subst h
        have ih := mapM_serList ser p xs js' hxs (fun y hy => hp y (List.mem_cons_of_mem _ hy))
        simp only [R.mapM, hp x List.mem_cons_self j hx, ih, R.map]

theorem lenient_serList (ser : Val → Option Json) (p : Json → R Val) :
    ∀ (l : List Val) (js : List Json), serList ser l = some js →
      (∀ x ∈ l, ∀ j, ser x = some j → p j = .ok x) → lenientList p js = .ok l
  | [], js, h, _ => by simp only [serList, Option.some.injEq] at h; subst h; rfl
  | x :: xs, js, h, hp => by
    simp only [serList] at h
    cases hx : ser x with
    | none => simp [hx] at h
    | some j =>
      cases hxs : serList ser xs with
      | none => simp [hx, hxs] at h
      | some js' =>
        simp only [hx, hxs, Option.some.injEq] at h
        subst h
        have ih := lenient_serList ser p xs js' hxs (fun y hy => hp y (List.mem_cons_of_mem _ hy))
        simp only [lenientList, hp x List.mem_cons_self j hx, ih, R.map]

/-- reading back the members that were written: each is found under its own name, none twice -/
theorem memberList_serFields (sd : StructDef) (ser : Ty → Val → Option Json) (w : Ty → Val → Bool) (p : Field → Json → R Val)
    (hff : ∀ fd ∈ sd.fields, sd.fieldFor fd.json = some fd)
    (hp : ∀ fd ∈ sd.fields, ∀ v j, w fd.ty v = true → ser fd.ty v = some j → ¬(v = .none ∧ fd.skipNone = true) → p fd j = .ok v) :
    ∀ (fds : List Field) (vs : List (String × Val)) (js : List (String × Json)) (seen : List (String × Val)),
      (∀ fd ∈ fds, fd ∈ sd.fields) → (fds.map (·.rust)).Nodup → (∀ fd ∈ fds, seen.any (·.1 == fd.rust) = false) →
      wtFields w fds vs = true → serFields ser fds vs = some js →
      memberList sd p js seen = .ok (seen ++ presentPairs fds vs)
  | [], [], js, seen, _, _, _, _, h => by
    simp only [serFields, Option.some.injEq] at h; subst h
    simp [memberList, presentPairs]
  | [], _ :: _, _, _, _, _, _, hw, _ => by simp [wtFields] at hw
  | _ :: _, [], _, _, _, _, _, hw, _ => by simp [wtFields] at hw
  | fd :: fds, (k, v) :: vs, js, seen, hin, hnd, hseen, hw, h => by
    simp only [wtFields, Bool.and_eq_true, beq_iff_eq] at hw
    obtain ⟨⟨hk, hwv⟩, hwrest⟩ := hw
    subst hk
    have hnd' : (fds.map (·.rust)).Nodup := (List.nodup_cons.mp hnd).2
    have hfresh : ∀ g ∈ fds, g.rust ≠ fd.rust := by
      intro g hg he
      exact (List.nodup_cons.mp hnd).1 (by show fd.rust ∈ fds.map (·.rust); rw [← he]; exact List.mem_map_of_mem (f := (·.rust)) hg)
    simp only [serFields, bne_self_eq_false, Bool.false_eq_true, if_false] at h
    by_cases hskip : v = .none ∧ fd.skipNone = true
    · obtain ⟨hv, hs⟩ := hskip
      subst hv
      have hc : (fd.skipNone && Val.none.isNone) = true := by simp [hs, Val.isNone]
      simp only [hc, if_true] at h
      have := memberList_serFields sd ser w p hff hp fds vs js seen (fun g hg => hin g (List.mem_cons_of_mem _ hg)) hnd'
        (fun g hg => hseen g (List.mem_cons_of_mem _ hg)) hwrest h
      simpa [presentPairs, hc] using this
    · have hc : (fd.skipNone && v.isNone) = false := by
        cases hsn : fd.skipNone with
        | false => rfl
        | true =>
          cases hvn : v.isNone with
          | false => rfl
          | true => exact absurd ⟨(Val.isNone_iff v).mp hvn, hsn⟩ hskip
      simp only [hc, Bool.false_eq_true, if_false] at h
      cases hj : ser fd.ty v with
      | none => simp [hj] at h
      | some j =>
        cases hr : serFields ser fds vs with
        | none => simp [hj, hr] at h
        | some rest =>
          simp only [hj, hr, Option.some.injEq] at h
          subst h
          have hfd := hin fd List.mem_cons_self
          have hpj := hp fd hfd v j hwv hj hskip
          have hs0 := hseen fd List.mem_cons_self
          have ih := memberList_serFields sd ser w p hff hp fds vs rest (seen ++ [(fd.rust, v)])
            (fun g hg => hin g (List.mem_cons_of_mem _ hg)) hnd'
            (by
              intro g hg
              have h1 := hseen g (List.mem_cons_of_mem _ hg)
              have h2 := hfresh g hg
              simp only [List.any_append, h1, List.any_cons, List.any_nil, Bool.or_false, Bool.false_or, beq_eq_false_iff_ne, ne_eq]
              exact fun he => h2 he.symm)
            hwrest hr
          have hpres : presentPairs (fd :: fds) ((fd.rust, v) :: vs) = (fd.rust, v) :: presentPairs fds vs := by
            simp [presentPairs, hc]
          simp only [memberList, hff fd hfd, hs0, Bool.false_eq_true, if_false, hpj, ih, hpres, List.append_assoc, List.singleton_append]



theorem names_presentPairs : ∀ (fds : List Field) (vs : List (String × Val)), ∀ kv ∈ presentPairs fds vs, kv.1 ∈ fds.map (·.rust)
  | [], _, kv, h => by simp [presentPairs] at h
  | _ :: _, [], kv, h => by simp [presentPairs] at h
  | fd :: fds, (k, v) :: vs, kv, h => by
    simp only [presentPairs, List.mem_append] at h
    rcases h with h | h
    · split at h
      · cases h
      · simp only [List.mem_singleton] at h
        subst h; simp
    · exact List.mem_cons_of_mem _ (names_presentPairs fds vs kv h)

theorem find_none_of_names (l : List (String × Val)) (name : String) (h : ∀ kv ∈ l, kv.1 ≠ name) :
    l.find? (·.1 == name) = none := by
  apply List.find?_eq_none.mpr
  intro kv hkv
  simpa using h kv hkv

/-- putting the struct back together from the members that were written gives the value that was written -/
theorem assemble_present (S : Schema) (w : Ty → Val → Bool) (seen : List (String × Val)) :
    ∀ (fds : List Field) (vs : List (String × Val)) (front : List (String × Val)),
      seen = front ++ presentPairs fds vs → (∀ kv ∈ front, kv.1 ∉ fds.map (·.rust)) → (fds.map (·.rust)).Nodup →
      wtFields w fds vs = true → (∀ f ∈ fds, fieldOk f = true) →
      R.mapM (assembleField S seen) fds = .ok vs
  | [], [], _, _, _, _, _, _ => rfl
  | [], _ :: _, _, _, _, _, hw, _ => by simp [wtFields] at hw
  | _ :: _, [], _, _, _, _, hw, _ => by simp [wtFields] at hw
  | fd :: fds, (k, v) :: vs, front, hseen, hfront, hnd, hw, hok => by
    simp only [wtFields, Bool.and_eq_true, beq_iff_eq] at hw
    obtain ⟨⟨hk, _⟩, hwrest⟩ := hw
    subst hk
    have hnd' : (fds.map (·.rust)).Nodup := (List.nodup_cons.mp hnd).2
    have hnotin : fd.rust ∉ fds.map (·.rust) := (List.nodup_cons.mp hnd).1
    have hfront_fd : ∀ kv ∈ front, kv.1 ≠ fd.rust := fun kv hkv he => hfront kv hkv (by rw [he]; simp)
    have hrest_fd : ∀ kv ∈ presentPairs fds vs, kv.1 ≠ fd.rust := fun kv hkv he => hnotin (by rw [← he]; exact names_presentPairs fds vs kv hkv)
    by_cases hskip : v = .none ∧ fd.skipNone = true
    · obtain ⟨hv, hs⟩ := hskip
      subst hv
      have hpp : presentPairs (fd :: fds) ((fd.rust, Val.none) :: vs) = presentPairs fds vs := by simp [presentPairs, hs, Val.isNone]
      have hfind : seen.find? (·.1 == fd.rust) = none := by
        rw [hseen, hpp]
        apply find_none_of_names
        intro kv hkv
        rcases List.mem_append.mp hkv with h | h
        · exact hfront_fd kv h
        · exact hrest_fd kv h
      have hfo := hok fd List.mem_cons_self
      simp only [fieldOk, Bool.and_eq_true, hs, Bool.not_true, Bool.false_or, Bool.or_eq_true, beq_iff_eq] at hfo
      obtain ⟨_, hopt, hdp⟩ := hfo
      have hfield : assembleField S seen fd = .ok (fd.rust, Val.none) := by
        unfold assembleField
        rw [hfind]
        simp only
        cases hty : fd.ty with
        | opt t =>
          rcases hdp with hd | hpl
          · simp [hd, defaultOf]
          · by_cases hd : fd.dflt = true
            · simp [hd, defaultOf]
            · simp [hd, hty, isOpt, hpl]
        | _ => simp [hty, isOpt] at hopt
      have ih := assemble_present S w seen fds vs front (by rw [hseen, hpp])
        (fun kv hkv hm => hfront kv hkv (List.mem_cons_of_mem _ hm)) hnd' hwrest (fun f hf => hok f (List.mem_cons_of_mem _ hf))
      simp only [R.mapM, hfield, ih, R.map]
    · have hc : (fd.skipNone && v.isNone) = false := by
        cases hsn : fd.skipNone with
        | false => rfl
        | true =>
          cases hvn : v.isNone with
          | false => rfl
          | true => exact absurd ⟨(Val.isNone_iff v).mp hvn, hsn⟩ hskip
      have hpp : presentPairs (fd :: fds) ((fd.rust, v) :: vs) = (fd.rust, v) :: presentPairs fds vs := by
        simp [presentPairs, hc]
      have hfind : seen.find? (·.1 == fd.rust) = some (fd.rust, v) := by
        rw [hseen, hpp, List.find?_append, find_none_of_names front fd.rust hfront_fd]
        simp
      have hfield : assembleField S seen fd = .ok (fd.rust, v) := by
        unfold assembleField
        rw [hfind]
      have ih := assemble_present S w seen fds vs (front ++ [(fd.rust, v)]) (by rw [hseen, hpp]; simp)
        (by
          intro kv hkv hm
          rcases List.mem_append.mp hkv with h | h
          · exact hfront kv h (List.mem_cons_of_mem _ hm)
          · simp only [List.mem_singleton] at h
            subst h; exact hnotin hm)
        hnd' hwrest (fun f hf => hok f (List.mem_cons_of_mem _ hf))
      simp only [R.mapM, hfield, ih, R.map]



theorem u32Of_toString (i : Int) (h : 0 ≤ i ∧ i ≤ 4294967295) : WJson.u32Of (.num (toString i)) = some (some i) := by
  have hr : WJson.i64Min ≤ i ∧ i ≤ WJson.i64Max := by
    simp only [WJson.i64Min, WJson.i64Max]; omega
  simp only [WJson.u32Of, WJson.numOf, WJson.ofToken_toString i hr, WJson.finish]
  simp [h.1, h.2]

theorem i64Of_toString (i : Int) (h : WJson.i64Min ≤ i ∧ i ≤ WJson.i64Max) : WJson.i64Of (.num (toString i)) = some (some i) := by
  simp only [WJson.i64Of, WJson.numOf, WJson.ofToken_toString i h, WJson.finish]
  simp [h.1, h.2]

/-- what `Bytes::serialize` writes, `Bytes::deserialize` reads back, in either form -/
theorem tokens_bytes : ∀ (b : List UInt8),
    (b.map (fun x => Json.num (toString x.toNat))).mapM (fun x => match x with
      | .num s => (match WJson.parseDecimal s.toList false with
          | .int v => if 0 ≤ v ∧ v ≤ 255 then some (UInt8.ofNat v.toNat) else none
          | _ => none)
      | _ => none) = some b
  | [] => rfl
  | x :: xs => by
    have hx : WJson.parseDecimal (toString x.toNat).toList false = .int (Int.ofNat x.toNat) := WJson.parseDecimal_nat x.toNat false
    have hlt : x.toNat < 256 := x.toNat_lt
    have h0 : (0 : Int) ≤ Int.ofNat x.toNat ∧ Int.ofNat x.toNat ≤ 255 := ⟨Int.natCast_nonneg _, by show (x.toNat : Int) ≤ 255; omega⟩
    have ih := tokens_bytes xs
    simp only [List.map_cons, List.mapM_cons, hx, h0, and_self, if_true, Option.bind_eq_bind, Option.bind_some, ih]
    simp

theorem bytesOf_serBytes (b64 : Bool) (b : List UInt8) : WJson.bytesOf (serBytes b64 b) = some b := by
  cases b64 with
  | true => simp only [serBytes, if_true, WJson.bytesOf, Base64.decodeLenient_encodeUrl]
  | false =>
    simp only [serBytes, Bool.false_eq_true, if_false, WJson.bytesOf]
    exact tokens_bytes b

/-- the statement proved by induction on the depth of the value -/
def RoundTrips (S : Schema) (b64 : Bool) (kA : Int → Bool) (d : Nat) : Prop :=
  ∀ (ty : Ty) (v : Val) (j : Json) (F : Nat) (buffered : Bool),
    plainTy ty = true → wt S kA d ty v = true → serTy S b64 d ty v = some j → 3 * d ≤ F →
    parseTy S kA F buffered ty j = .ok v

/-- a member written by the serialiser is read back by the member's helper -/
theorem member_roundtrip (S : Schema) (b64 : Bool) (kA : Int → Bool) (d : Nat) (ih : ∀ d' ≤ d, RoundTrips S b64 kA d')
    (fd : Field) (hok : fieldOk fd = true) (v : Val) (j : Json) (F : Nat) (buffered : Bool)
    (hw : wt S kA d fd.ty v = true) (hs : serTy S b64 d fd.ty v = some j) (hskip : ¬(v = .none ∧ fd.skipNone = true))
    (hF : 3 * d + 1 ≤ F) : parseMember S kA F buffered fd j = .ok v := by
  obtain ⟨F', rfl⟩ : ∃ F', F = F' + 1 := ⟨F - 1, by omega⟩
  simp only [fieldOk, Bool.and_eq_true] at hok
  obtain ⟨hwrap, _⟩ := hok
  cases hwr : fd.wrap with
  | plain =>
    simp only [hwr] at hwrap
    simp only [parseMember, hwr]
    exact ih d (Nat.le_refl _) fd.ty v j F' buffered hwrap hw hs (by omega)
  | ignoreUnknown =>
    simp only [hwr] at hwrap
    simp only [parseMember, hwr, ih d (Nat.le_refl _) fd.ty v j F' buffered hwrap hw hs (by omega)]
  | maybeStringified =>
    simp only [hwr, Bool.and_eq_true, beq_iff_eq] at hwrap
    obtain ⟨hty, hsk⟩ := hwrap
    rw [hty] at hw hs
    cases d with
    | zero => simp [wt] at hw
    | succ d =>
      cases v with
      | none => exact absurd ⟨rfl, hsk⟩ hskip
      | some x =>
        simp only [wt, Bool.and_eq_true] at hw
        simp only [serTy] at hs
        cases d with
        | zero => simp [wt] at hw
        | succ d =>
          cases x with
          | int i =>
            simp only [wt, decide_eq_true_eq] at hw
            simp only [serTy, Option.some.injEq] at hs
            subst hs
            simp only [parseMember, hwr, u32Of_toString i hw.2]
          | _ => simp [wt] at hw
      | _ => simp [wt] at hw
  | i64ToIana =>
    simp only [hwr, beq_iff_eq] at hwrap
    rw [hwrap] at hw hs
    cases d with
    | zero => simp [wt] at hw
    | succ d =>
      cases v with
      | int i =>
        simp only [wt, Bool.and_eq_true, decide_eq_true_eq] at hw
        simp only [serTy, Option.some.injEq] at hs
        subst hs
        simp only [parseMember, hwr, i64Of_toString i hw.2, hw.1, if_true]
      | _ => simp [wt] at hw
  | ignoreUnknownOptVec =>
    simp only [hwr, Bool.and_eq_true] at hwrap
    obtain ⟨hty, hsk⟩ := hwrap
    cases hfty : fd.ty with
    | opt t0 =>
      cases t0 with
      | vec t =>
        simp only [hfty] at hty
        rw [hfty] at hw hs
        cases d with
        | zero => simp [wt] at hw
        | succ d =>
          cases v with
          | none => exact absurd ⟨rfl, hsk⟩ hskip
          | some x =>
            simp only [wt, Bool.and_eq_true] at hw
            simp only [serTy] at hs
            cases d with
            | zero => simp [wt] at hw
            | succ d =>
              cases x with
              | list l =>
                simp only [wt, List.all_eq_true] at hw
                simp only [serTy] at hs
                cases hl : serList (serTy S b64 d t) l with
                | none => simp [hl] at hs
                | some js =>
                  simp only [hl, Option.map_some, Option.some.injEq] at hs
                  subst hs
                  have hel := lenient_serList (serTy S b64 d t) (parseTy S kA F' true t) l js hl
                    (fun x hx jx hjx => ih d (by omega) t x jx F' true hty (hw.2 x hx) hjx (by omega))
                  simp only [parseMember, hwr, hfty, elemTy, hel, R.map]
              | _ => simp [wt] at hw
          | _ => simp [wt] at hw
      | _ => simp [hfty] at hty
    | _ => simp [hfty] at hty
  | ignoreUnknownVec =>
    simp only [hwr] at hwrap
    cases hfty : fd.ty with
    | vec t =>
      simp only [hfty] at hwrap
      rw [hfty] at hw hs
      cases d with
      | zero => simp [wt] at hw
      | succ d =>
        cases v with
        | list l =>
          simp only [wt, List.all_eq_true] at hw
          simp only [serTy] at hs
          cases hl : serList (serTy S b64 d t) l with
          | none => simp [hl] at hs
          | some js =>
            simp only [hl, Option.map_some, Option.some.injEq] at hs
            subst hs
            have hel := lenient_serList (serTy S b64 d t) (parseTy S kA F' true t) l js hl
              (fun x hx jx hjx => ih d (by omega) t x jx F' true hwrap (hw x hx) hjx (by omega))
            simp only [parseMember, hwr, hfty, elemTy, hel, R.map]
        | _ => simp [wt] at hw
    | _ => simp [hfty] at hwrap



theorem structOk_of (S : Schema) (hS : SchemaOk S = true) (n : String) (sd : StructDef) (h : S.struct? n = some sd) :
    structOk sd = true := by
  unfold Schema.struct? at h
  have hm := List.mem_of_find?_eq_some h
  exact List.all_eq_true.mp hS sd hm

theorem find_json : ∀ (fs : List Field), (fs.flatMap (fun f => f.json :: f.aliases)).Nodup →
    ∀ fd ∈ fs, fs.find? (fun f => f.json == fd.json || f.aliases.contains fd.json) = some fd
  | [], _, fd, hfd => by cases hfd
  | g :: gs, hnd, fd, hfd => by
    have hsplit : (g :: gs).flatMap (fun f => f.json :: f.aliases) = (g.json :: g.aliases) ++ gs.flatMap (fun f => f.json :: f.aliases) := by
      simp [List.flatMap_cons]
    rw [hsplit] at hnd
    have hnd' := (List.nodup_append.mp hnd).2.1
    have hdis := (List.nodup_append.mp hnd).2.2
    rcases List.mem_cons.mp hfd with rfl | hin
    · simp [List.find?]
    · have hne : ¬((g.json == fd.json || g.aliases.contains fd.json) = true) := by
        intro hc
        have hmem : fd.json ∈ g.json :: g.aliases := by
          simp only [Bool.or_eq_true, beq_iff_eq, List.contains_iff_mem] at hc
          rcases hc with hc | hc
          · rw [hc]; exact List.mem_cons_self
          · exact List.mem_cons_of_mem _ hc
        have hmem2 : fd.json ∈ gs.flatMap (fun f => f.json :: f.aliases) :=
          List.mem_flatMap.mpr ⟨fd, hin, List.mem_cons_self⟩
        exact hdis fd.json hmem fd.json hmem2 rfl
      simp only [List.find?, hne]
      exact find_json gs hnd' fd hin

theorem fieldFor_json (sd : StructDef) (hnd : (sd.fields.flatMap (fun f => f.json :: f.aliases)).Nodup) :
    ∀ fd ∈ sd.fields, sd.fieldFor fd.json = some fd := by
  intro fd hfd
  unfold StructDef.fieldFor
  exact find_json sd.fields hnd fd hfd

/-- **Round trip**: for a schema meeting `SchemaOk`, every value of a helper-free member type, written by the
model of the serialiser, is read back by the model of the derived parser as the same value — reading from the
text as well as from a buffered list element. -/
theorem roundtrip (S : Schema) (b64 : Bool) (kA : Int → Bool) (hS : SchemaOk S = true) : ∀ d, RoundTrips S b64 kA d := by
  intro d
  induction d using Nat.strongRecOn with
  | _ d ih =>
    intro ty v j F buffered hpl hw hs hF
    cases d with
    | zero => simp [wt] at hw
    | succ d =>
      obtain ⟨F', rfl⟩ : ∃ F', F = F' + 1 := ⟨F - 1, by omega⟩
      have ihd : ∀ d' ≤ d, RoundTrips S b64 kA d' := fun d' hd' => ih d' (by omega)
      cases ty with
      | bytes =>
        cases v <;> simp only [wt, Bool.false_eq_true] at hw
        rename_i b
        simp only [serTy, Option.some.injEq] at hs
        subst hs
        simp only [parseTy, bytesOf_serBytes]
      | str =>
        cases v <;> simp only [wt, Bool.false_eq_true] at hw
        simp only [serTy, Option.some.injEq] at hs
        subst hs; simp only [parseTy]
      | bool =>
        cases v <;> simp only [wt, Bool.false_eq_true] at hw
        simp only [serTy, Option.some.injEq] at hs
        subst hs; simp only [parseTy]
      | u32 => simp [plainTy] at hpl
      | alg => simp [plainTy] at hpl
      | mapStr t => simp [plainTy] at hpl
      | i64 =>
        cases v <;> simp only [wt, Bool.false_eq_true] at hw
        rename_i i
        simp only [decide_eq_true_eq] at hw
        simp only [serTy, Option.some.injEq] at hs
        subst hs
        simp only [parseTy, WJson.ofToken_toString i hw, hw.1, hw.2, and_self, if_true]
      | enum n =>
        cases v <;> simp only [wt, Bool.false_eq_true] at hw
        rename_i s
        simp only [serTy, Option.some.injEq] at hs
        subst hs
        cases he : S.enum? n with
        | none => simp [he] at hw
        | some e =>
          simp only [he, beq_iff_eq] at hw
          simp only [parseTy, he, Option.bind_some, hw]
      | opt t =>
        simp only [plainTy, Bool.and_eq_true] at hpl
        cases v <;> simp only [wt, Bool.false_eq_true] at hw
        · simp only [serTy, Option.some.injEq] at hs
          subst hs; simp only [parseTy]
        · rename_i x
          simp only [Bool.and_eq_true] at hw
          simp only [serTy] at hs
          have hnn := serTy_ne_null S b64 d t x j hpl.1 hs
          have hx := ihd d (Nat.le_refl _) t x j F' buffered hpl.2 hw.2 hs (by omega)
          cases j <;> first | exact absurd rfl hnn | simp only [parseTy, hx, R.map]
      | vec t =>
        simp only [plainTy] at hpl
        cases v <;> simp only [wt, Bool.false_eq_true] at hw
        rename_i l
        simp only [List.all_eq_true] at hw
        simp only [serTy] at hs
        cases hl : serList (serTy S b64 d t) l with
        | none => simp [hl] at hs
        | some js =>
          simp only [hl, Option.map_some, Option.some.injEq] at hs
          subst hs
          have hel := mapM_serList (serTy S b64 d t) (parseTy S kA F' buffered t) l js hl
            (fun x hx jx hjx => ihd d (Nat.le_refl _) t x jx F' buffered hpl (hw x hx) hjx (by omega))
          simp only [parseTy, hel, R.map]
      | struct n =>
        cases v <;> simp only [wt, Bool.false_eq_true] at hw
        rename_i n' fs
        simp only [Bool.and_eq_true, beq_iff_eq] at hw
        obtain ⟨hn, hw⟩ := hw
        subst hn
        cases hsd : S.struct? n with
        | none => simp [hsd] at hw
        | some sd =>
          simp only [hsd] at hw
          simp only [serTy, beq_self_eq_true, if_true, hsd, Option.bind_some] at hs
          cases hf : serFields (serTy S b64 d) sd.fields fs with
          | none => simp [hf] at hs
          | some js =>
            simp only [hf, Option.map_some, Option.some.injEq] at hs
            subst hs
            have hsok := structOk_of S hS n sd hsd
            simp only [structOk, Bool.and_eq_true, decide_eq_true_eq, List.all_eq_true] at hsok
            obtain ⟨⟨hfok, hndr⟩, hndj⟩ := hsok
            obtain ⟨F'', rfl⟩ : ∃ F'', F' = F'' + 1 := ⟨F' - 1, by omega⟩
            have hml := memberList_serFields sd (serTy S b64 d) (wt S kA d) (parseMember S kA F'' buffered)
              (fieldFor_json sd hndj)
              (fun fd hfd v j hwv hsv hsk => member_roundtrip S b64 kA d ihd fd (hfok fd hfd) v j F'' buffered hwv hsv hsk (by omega))
              sd.fields fs js [] (fun _ h => h) hndr (fun _ _ => rfl) hw hf
            have hasm := assemble_present S (wt S kA d) (presentPairs sd.fields fs) sd.fields fs [] (by simp)
              (fun _ h => by cases h) hndr hw hfok
            simp only [parseTy, parseStruct, hsd, hml, List.nil_append, assemble, hasm, R.map]
            -- the record name: `sd.name = n`
            have hname : sd.name = n := by
              unfold Schema.struct? at hsd
              have := List.find?_some hsd
              simpa using this
            rw [hname]


end PasskeyVerif.Serde
