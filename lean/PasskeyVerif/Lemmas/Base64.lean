/- Base64 (RFC 4648) round trip for the model of passkey-types/src/utils/encoding.rs and `Bytes::try_from(&str)`. -/
import PasskeyVerif.Base.Base64
namespace PasskeyVerif.Base64

/-- the 6-bit groups of a byte string (the indices `encodeChars` looks up) -/
def sextets : Bytes → List Nat
  | a :: b :: c :: rest =>
    let n := a.toNat * 65536 + b.toNat * 256 + c.toNat
    (n / 262144) :: (n / 4096 % 64) :: (n / 64 % 64) :: (n % 64) :: sextets rest
  | [a, b] =>
    let n := a.toNat * 65536 + b.toNat * 256
    [n / 262144, n / 4096 % 64, n / 64 % 64]
  | [a] =>
    let n := a.toNat * 65536
    [n / 262144, n / 4096 % 64]
  | [] => []

theorem encodeChars_eq (url : Bool) (bs : Bytes) : encodeChars url bs = (sextets bs).map (sextet url) := by
  fun_induction sextets bs with
  | case1 a b c rest n ih => simp only [encodeChars, List.map_cons, ih]; rfl
  | case2 a b n => rfl
  | case3 a n => rfl
  | case4 => rfl

theorem sextets_lt (bs : Bytes) : ∀ v ∈ sextets bs, v < 64 := by
  fun_induction sextets bs with
  | case1 a b c rest n ih =>
    intro v hv
    simp only [List.mem_cons] at hv
    have ha := a.toNat_lt; have hb := b.toNat_lt; have hc := c.toNat_lt
    rcases hv with rfl | rfl | rfl | rfl | hv
    · omega
    · omega
    · omega
    · omega
    · exact ih v hv
  | case2 a b n =>
    intro v hv
    simp only [List.mem_cons, List.not_mem_nil, or_false] at hv
    have ha := a.toNat_lt; have hb := b.toNat_lt
    rcases hv with rfl | rfl | rfl <;> omega
  | case3 a n =>
    intro v hv
    simp only [List.mem_cons, List.not_mem_nil, or_false] at hv
    have ha := a.toNat_lt
    rcases hv with rfl | rfl <;> omega
  | case4 => intro v hv; cases hv

/-- every symbol decodes to its index, in both alphabets (64 cases each, by evaluation) -/
theorem valueOf_sextet (url : Bool) (n : Nat) (h : n < 64) : valueOf url (sextet url n) = some n := by
  have key : ∀ u : Bool, ∀ k : Fin 64, valueOf u (sextet u k.val) = some k.val := by decide +kernel
  exact key url ⟨n, h⟩

theorem mapM_valueOf (url : Bool) (vs : List Nat) (h : ∀ v ∈ vs, v < 64) :
    (vs.map (sextet url)).mapM (valueOf url) = some vs := by
  induction vs with
  | nil => rfl
  | cons v vs ih =>
    simp only [List.map_cons, List.mapM_cons]
    rw [valueOf_sextet url v (h v (by simp)), ih (fun x hx => h x (by simp [hx]))]
    rfl

/-- decoding the 6-bit groups gives the bytes back; no trailing bits are set, so the strict check passes too -/
theorem decodeVals_sextets (strict : Bool) (bs : Bytes) : decodeVals strict (sextets bs) = some bs := by
  fun_induction sextets bs with
  | case1 a b c rest n ih =>
    have ha := a.toNat_lt; have hb := b.toNat_lt; have hc := c.toNat_lt
    simp only [decodeVals, ih]
    have e : n / 262144 * 262144 + n / 4096 % 64 * 4096 + n / 64 % 64 * 64 + n % 64 = n := by omega
    rw [e]
    have h1 : UInt8.ofNat (n / 65536) = a := by
      have : n / 65536 = a.toNat := by omega
      rw [this]; exact UInt8.ofNat_toNat
    have h2 : UInt8.ofNat (n / 256 % 256) = b := by
      have : n / 256 % 256 = b.toNat := by omega
      rw [this]; exact UInt8.ofNat_toNat
    have h3 : UInt8.ofNat (n % 256) = c := by
      have : n % 256 = c.toNat := by omega
      rw [this]; exact UInt8.ofNat_toNat
    rw [h1, h2, h3]
  | case2 a b n =>
    have ha := a.toNat_lt; have hb := b.toNat_lt
    simp only [decodeVals]
    have hz : n / 64 % 64 % 4 = 0 := by omega
    have e : n / 262144 * 262144 + n / 4096 % 64 * 4096 + n / 64 % 64 * 64 = n := by omega
    rw [e]
    have h1 : UInt8.ofNat (n / 65536) = a := by
      have : n / 65536 = a.toNat := by omega
      rw [this]; exact UInt8.ofNat_toNat
    have h2 : UInt8.ofNat (n / 256 % 256) = b := by
      have : n / 256 % 256 = b.toNat := by omega
      rw [this]; exact UInt8.ofNat_toNat
    simp [hz, h1, h2]
  | case3 a n =>
    have ha := a.toNat_lt
    simp only [decodeVals]
    have hz : n / 4096 % 64 % 16 = 0 := by omega
    have e : n / 262144 * 262144 + n / 4096 % 64 * 4096 = n := by omega
    rw [e]
    have h1 : UInt8.ofNat (n / 65536) = a := by
      have : n / 65536 = a.toNat := by omega
      rw [this]; exact UInt8.ofNat_toNat
    simp [hz, h1]
  | case4 => rfl

/-- no symbol of either alphabet is the padding character -/
theorem sextet_ne_pad (url : Bool) (n : Nat) (h : n < 64) : sextet url n ≠ '=' := by
  have key : ∀ u : Bool, ∀ k : Fin 64, (sextet u k.val == '=') = false := by decide +kernel
  intro e
  have := key url ⟨n, h⟩
  simp [e] at this

theorem encodeChars_no_pad (url : Bool) (bs : Bytes) : ∀ c ∈ encodeChars url bs, c ≠ '=' := by
  rw [encodeChars_eq]
  intro c hc
  obtain ⟨v, hv, rfl⟩ := List.mem_map.mp hc
  exact sextet_ne_pad url v (sextets_lt bs v hv)

theorem dropWhile_pad_replicate (k : Nat) (l : List Char) (h : ∀ c, l.head? = some c → c ≠ '=') :
    (List.replicate k '=' ++ l).dropWhile (· = '=') = l := by
  induction k with
  | zero =>
    cases l with
    | nil => rfl
    | cons c cs =>
      have := h c rfl
      simp [List.dropWhile, this]
  | succ k ih => simp [List.replicate_succ, List.dropWhile, ih]

/-- stripping the padding of an encoding followed by any number of `=` gives the encoding back -/
theorem trimPad_encode (url : Bool) (bs : Bytes) (k : Nat) :
    trimPad (encodeChars url bs ++ List.replicate k '=') = encodeChars url bs := by
  unfold trimPad
  rw [List.reverse_append, List.reverse_replicate]
  rw [dropWhile_pad_replicate k (encodeChars url bs).reverse]
  · simp
  · intro c hc
    have hm : c ∈ (encodeChars url bs).reverse := by
      cases hl : (encodeChars url bs).reverse with
      | nil => rw [hl] at hc; cases hc
      | cons x xs => rw [hl] at hc; simp only [List.head?_cons, Option.some.injEq] at hc; subst hc; simp
    exact encodeChars_no_pad url bs c (List.mem_reverse.mp hm)

/-- **decoding an encoding, padded or not, strictly or leniently, gives the bytes back** -/
theorem decodeWith_encode (url strict : Bool) (bs : Bytes) (k : Nat) :
    decodeWith url strict (encodeChars url bs ++ List.replicate k '=') = some bs := by
  unfold decodeWith
  rw [trimPad_encode, encodeChars_eq, mapM_valueOf url _ (sextets_lt bs)]
  exact decodeVals_sextets strict bs

/-- a standard-alphabet symbol read with the url alphabet is the same index or not a symbol at all -/
theorem valueOf_url_of_std (n : Nat) (h : n < 64) : valueOf true (sextet false n) = some n ∨ valueOf true (sextet false n) = none := by
  have key : ∀ k : Fin 64, valueOf true (sextet false k.val) = some k.val ∨ valueOf true (sextet false k.val) = none := by decide +kernel
  exact key ⟨n, h⟩

theorem mapM_url_of_std (vs : List Nat) (h : ∀ v ∈ vs, v < 64) :
    (vs.map (sextet false)).mapM (valueOf true) = some vs ∨ (vs.map (sextet false)).mapM (valueOf true) = none := by
  induction vs with
  | nil => exact Or.inl rfl
  | cons v vs ih =>
    simp only [List.map_cons, List.mapM_cons]
    rcases valueOf_url_of_std v (h v (by simp)) with hv | hv
    · rw [hv]
      rcases ih (fun x hx => h x (by simp [hx])) with hr | hr
      · rw [hr]; exact Or.inl rfl
      · rw [hr]; exact Or.inr rfl
    · rw [hv]; exact Or.inr rfl

/-- **`Bytes::try_from(&str)` inverts both encoders**: base64url text, and standard base64 text with or
without padding, decode to the bytes they encode — for every byte string. -/
theorem decodeLenient_encodeUrl (bs : Bytes) : decodeLenient (encodeUrl bs) = some bs := by
  unfold decodeLenient encodeUrl
  rw [String.toList_ofList]
  have := decodeWith_encode true false bs 0
  simp only [List.replicate_zero, List.append_nil] at this
  rw [this]

theorem decodeLenient_encodeStd (bs : Bytes) (k : Nat) :
    decodeLenient (String.ofList (encodeChars false bs ++ List.replicate k '=')) = some bs := by
  unfold decodeLenient
  rw [String.toList_ofList]
  have hstd := decodeWith_encode false true bs k
  -- first attempt: the url alphabet, trailing bits unchecked
  have hurl : decodeWith true false (encodeChars false bs ++ List.replicate k '=') = some bs
      ∨ decodeWith true false (encodeChars false bs ++ List.replicate k '=') = none := by
    unfold decodeWith
    rw [trimPad_encode, encodeChars_eq]
    rcases mapM_url_of_std (sextets bs) (sextets_lt bs) with h | h
    · rw [h]; exact Or.inl (decodeVals_sextets false bs)
    · rw [h]; exact Or.inr rfl
  rcases hurl with h | h
  · rw [h]
  · rw [h]; exact hstd

end PasskeyVerif.Base64
