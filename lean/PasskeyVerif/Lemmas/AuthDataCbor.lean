/-
The CBOR interface of C12 instantiated with the reader the driver runs (Model/AuthDataCbor.lean):
an item is the encoding of a well-formed `Cbor.Item` nested at most 256 deep.
-/
import PasskeyVerif.Lemmas.Cbor
import PasskeyVerif.Lemmas.AuthData
import PasskeyVerif.Model.AuthDataCbor
namespace PasskeyVerif.AuthData
open PasskeyVerif.Cbor

theorem or_right_comm8 (a b c : UInt8) : a ||| b ||| c = a ||| c ||| b := by
  rw [UInt8.or_assoc, UInt8.or_comm b c, ← UInt8.or_assoc]

/-- encodings of well-formed items that ciborium's recursion limit lets through -/
def IsCborItem (bs : Bytes) : Prop := ∃ x : Item, x.WF = true ∧ x.depth ≤ 256 ∧ bs = encode x

theorem skip_item (item rest : Bytes) (h : IsCborItem item) : skip (item ++ rest) = some item.length := by
  obtain ⟨x, hwf, hd, rfl⟩ := h
  unfold skip
  rw [decode1_encode x hwf rest]
  have : ¬ x.depth > 256 := by omega
  simp only [this, if_false, List.length_append]
  congr 1; omega

theorem skip_prefix (item p q : Bytes) (h : IsCborItem item) (he : item = p ++ q) (hq : q ≠ []) : skip p = none := by
  obtain ⟨x, hwf, _, rfl⟩ := h
  unfold skip decode1
  rw [decode_prefix x hwf p q he hq]

/-- the reader of Model/AuthDataCbor.lean meets the interface the C12 theorems are stated over -/
def cborIface : CborIface where
  skip := skip
  validKey := validKey
  IsItem := IsCborItem
  skip_item := skip_item
  skip_prefix := skip_prefix

/-- a COSE key: the encoding of a well-formed map with a key type is accepted -/
theorem validKey_encode (kvs : List (Item × Item)) (h : (Item.map kvs).WF = true) (h1 : (mapGetInt kvs 1).isSome = true) :
    validKey (encode (.map kvs)) = true := by
  unfold validKey
  have := decode1_encode (.map kvs) h []
  rw [List.append_nil] at this
  rw [this]
  exact h1

end PasskeyVerif.AuthData
