/- Lemmas about the client model and what a successful registration leaves in the store (Props/C02, C03). -/
import PasskeyVerif.Lemmas.AuthRk
import PasskeyVerif.Model.Client
namespace PasskeyVerif.Auth
open PasskeyVerif.Auth.Spec
open PasskeyVerif.AuthData (Bytes AuthData)

theorem excludePhase_calls_items (s : Store) (req : MakeReq) : (excludePhase s req).2.1.items = s.items := excludePhase_items s req

/-- a successful `finishMake` stored exactly the new passkey (the store's own save semantics) -/
theorem finishMake_ok_store (cfg : Cfg) (s : Store) (dr : Draws) (req : MakeReq) (flags : UInt8)
    (prf : Option PrfMakeOut) (st : Option HmacSecret) (r : MakeResp)
    (h : (finishMake cfg s dr req flags prf st).result = .ok r) :
    (finishMake cfg s dr req flags prf st).store.items = saveRaw s.kind s.items (newPasskey cfg (discOf s.kind) dr req st) := by
  unfold finishMake at h ⊢
  dsimp only at h ⊢
  unfold Store.save at h ⊢
  cases hf : s.info.2.1.fault? with
  | some e => simp only [hf] at h; cases h
  | none => rfl

/-- a successful registration (after consent) stored exactly one passkey: the one built from the draws -/
theorem makeAfterConsent_ok_store (cfg : Cfg) (s : Store) (dr : Draws) (req : MakeReq) (flags : UInt8) (r : MakeResp)
    (h : (makeAfterConsent cfg s dr req flags).result = .ok r) :
    ∃ stored, (makeAfterConsent cfg s dr req flags).store.items = saveRaw s.kind s.items (newPasskey cfg (discOf s.kind) dr req stored) := by
  unfold makeAfterConsent at h ⊢
  dsimp only at h ⊢
  split at h
  · cases h
  · rename_i h1
    split at h
    · cases h
    · rename_i alg h2
      split at h
      · cases h
      · rename_i h3
        split at h
        · cases h
        · rename_i h4
          split at h
          · cases h
          · rename_i prfOut stored h5
            simp only [h1, h3, h4, if_false, Outcome.prepend, Bool.false_eq_true] at h ⊢
            refine ⟨stored, ?_⟩
            rw [finishMake_ok_store _ _ _ _ _ _ _ _ h, rkPhase_kind, excludePhase_kind, rkPhase_items, excludePhase_items]

theorem makeCredential_ok_store (cfg : Cfg) (u : UvCfg) (s : Store) (dr : Draws) (req : MakeReq) (r : MakeResp)
    (h : (makeCredential cfg u s dr req).result = .ok r) :
    ∃ stored, (makeCredential cfg u s dr req).store.items = saveRaw s.kind s.items (newPasskey cfg (discOf s.kind) dr req stored) := by
  unfold makeCredential at h ⊢
  split at h
  · cases h
  · rename_i hup
    split at h
    · cases h
    · rename_i flags ev hc
      simp only [Outcome.prepend] at h
      obtain ⟨stored, hs⟩ := makeAfterConsent_ok_store _ _ _ _ _ _ h
      refine ⟨stored, ?_⟩
      simp only [hup, Outcome.prepend, if_false, Bool.false_eq_true]
      exact hs

/-- the same, naming only what the passkey holds -/
theorem makeCredential_ok_store' (cfg : Cfg) (u : UvCfg) (s : Store) (dr : Draws) (req : MakeReq) (r : MakeResp)
    (h : (makeCredential cfg u s dr req).result = .ok r) :
    ∃ pk : Passkey, pk.credId = dr.credId ∧ pk.key = dr.key ∧ pk.rpId = req.rpId
      ∧ pk.counter = (if cfg.counterOn then some 0 else none)
      ∧ pk.userHandle = (if (discOf s.kind).isDiscoverable req.rk then some req.userId else none)
      ∧ (makeCredential cfg u s dr req).store.items = saveRaw s.kind s.items pk := by
  obtain ⟨stored, hs⟩ := makeCredential_ok_store cfg u s dr req r h
  exact ⟨_, rfl, rfl, rfl, rfl, rfl, hs⟩

/-- the authenticator data of a successful `make_credential` -/
theorem makeCredential_ok_authData (cfg : Cfg) (u : UvCfg) (s : Store) (dr : Draws) (req : MakeReq) (r : MakeResp)
    (h : (makeCredential cfg u s dr req).result = .ok r) :
    ∃ flags, r.authData = makeAuthData cfg dr req flags (if cfg.counterOn then some 0 else none) := by
  unfold makeCredential at h
  split at h
  · cases h
  · split at h
    · cases h
    · rename_i flags ev hc
      simp only [Outcome.prepend] at h
      exact ⟨flags, makeAfterConsent_ok _ _ _ _ _ _ h⟩

/-- a successful registration passed the algorithm phase -/
theorem makeCredential_ok_alg (cfg : Cfg) (u : UvCfg) (s : Store) (dr : Draws) (req : MakeReq) (r : MakeResp)
    (h : (makeCredential cfg u s dr req).result = .ok r) : ∃ a, chooseAlgorithm cfg req.algs = .ok a := by
  unfold makeCredential at h
  split at h
  · cases h
  · split at h
    · cases h
    · simp only [Outcome.prepend] at h
      unfold makeAfterConsent at h
      dsimp only at h
      split at h
      · cases h
      · split at h
        · cases h
        · rename_i a ha
          exact ⟨a, ha⟩

/-- a failed registration saves nothing: every save event belongs to a ceremony whose result is ok or a
store failure at that very save -/
theorem makeAfterConsent_unsupported_alg (cfg : Cfg) (s : Store) (dr : Draws) (req : MakeReq) (flags : UInt8)
    (hex : (excludePhase s req).1 = false) (halg : req.algs.find? (fun a => cfg.algs.contains a) = none) :
    (makeAfterConsent cfg s dr req flags).result = .error eUnsupportedAlgorithm
      ∧ (makeAfterConsent cfg s dr req flags).store.items = s.items
      ∧ ∀ e ∈ (makeAfterConsent cfg s dr req flags).trace, isEffect (evObsOf e) = false := by
  unfold makeAfterConsent chooseAlgorithm
  simp only [hex, halg, Bool.false_eq_true, if_false]
  exact ⟨trivial, excludePhase_items s req, excludePhase_no_effect s req⟩

/-- what a successful assertion signs: the encoding of the returned authenticator data followed by the
client data hash, with the key of the credential located -/
theorem getAfterConsent_ok_signed (cfg : Cfg) (s : Store) (req : GetReq) (flags : UInt8) (cred : Passkey) (r : GetResp)
    (h : (getAfterConsent cfg s req flags cred).result = .ok r) :
    r.signed.key = cred.key ∧ (∃ ad, r.authData.toVec = some ad ∧ r.signed.message = ad ++ req.cdh)
      ∧ (∃ ctr, r.authData = (AuthData.new req.rpId ctr).setFlags flags) := by
  unfold getAfterConsent at h
  split at h
  · dsimp only at h
    split at h
    · cases h
    · obtain ⟨h1, _, _, h4, h5⟩ := signPhase_ok _ _ _ _ _ _ h
      exact ⟨h4, h5, ⟨_, h1⟩⟩
  · obtain ⟨h1, _, _, h4, h5⟩ := signPhase_ok _ _ _ _ _ _ h
    exact ⟨h4, h5, ⟨_, h1⟩⟩

/-- a successful assertion was made with the first credential of the lookup -/
theorem getAssertion_first_of_lookup (cfg : Cfg) (u : UvCfg) (s : Store) (req : GetReq) (r : GetResp)
    (h : (getAssertion cfg u s req).result = .ok r) :
    ∃ p rest, (s.find (allowIds req) req.rpId).1 = .ok (p :: rest) ∧ r.credId = p.credId := by
  unfold getAssertion at h
  dsimp only at h
  split at h
  · cases h
  · split at h
    · cases h
    · split at h
      · cases h
      · split at h
        · cases h
        · rename_i cred hm
          simp only [Outcome.prepend] at h
          obtain ⟨_, hid, _, _⟩ := getAfterConsent_ok _ _ _ _ _ _ h
          unfold firstCred at hm
          cases hf : (s.find (allowIds req) req.rpId).1 with
          | error e => rw [hf] at hm; cases hm
          | ok l =>
            rw [hf] at hm
            cases l with
            | nil => cases hm
            | cons p rest =>
              simp only [Except.ok.injEq] at hm
              subst hm
              exact ⟨p, rest, rfl, hid⟩

/-- saving a passkey with a fresh id into a map-like store appends it and keeps everything else -/
theorem saveRaw_fresh (kind : StoreKind) (items : List Passkey) (p : Passkey) (hk : kind ≠ .singleSlot)
    (hfresh : ∀ q ∈ items, q.credId ≠ p.credId) : saveRaw kind items p = items ++ [p] := by
  have hf : items.filter (fun q => q.credId != p.credId) = items := by
    rw [List.filter_eq_self]
    intro q hq
    simpa using hfresh q hq
  cases kind with
  | memoryMap => simp [saveRaw, hf]
  | singleSlot => exact absurd rfl hk
  | reference d => simp [saveRaw, hf]

end PasskeyVerif.Auth
