/-
Checked decoding of the packed table into the abstract trie, and the theorem that the model of
`public_suffix`'s loop over the table is the trie walk over the decoded trie.
-/
import PasskeyVerif.Lemmas.PslTrie
import PasskeyVerif.Lemmas.PslOrder
import PasskeyVerif.Lemmas.PslStr
namespace PasskeyVerif.Psl
open Spec

/-- node type as the loop's `match` reads it (normal is tested first) -/
def kindOf (t : Table) (ty : Nat) : NKind :=
  if ty = t.typeNormal then .normal else if ty = t.typeException then .exception else .parentOnly

/-- Decode `n` sibling nodes starting at index `i`; `dec` decodes a child range. Fails (`none`) if an
index is out of range, a child range is reversed, labels are not strictly increasing, or (`top`) a
top-level node is an exception node. -/
def decodeSibs (t : Table) (dec : Nat → Nat → Option Forest) (top : Bool) : Nat → Nat → Option Forest
  | 0, _ => some .nil
  | n + 1, i =>
    match nodeLabel? t i, childInfo? t i with
    | some l, some (lo, hi, ty, w) =>
      if top && (kindOf t ty == .exception) then none else
      match dec lo hi, decodeSibs t dec top n (i + 1) with
      | some ch, some sib =>
        match sib with
        | .nil => some (.cons l (kindOf t ty) w ch sib)
        | .cons l2 _ _ _ _ => if strLt l l2 then some (.cons l (kindOf t ty) w ch sib) else none
      | _, _ => none
    | _, _ => none

/-- decode the nodes `lo..hi` and everything below them, to the given depth -/
def decodeRange (t : Table) : Nat → Nat → Nat → Option Forest
  | 0, lo, hi => if lo = hi then some .nil else none
  | fuel + 1, lo, hi => if hi < lo then none else decodeSibs t (decodeRange t fuel) false (hi - lo) lo

/-- the whole table -/
def decodeTable (t : Table) (depth : Nat) : Option Forest :=
  decodeSibs t (decodeRange t depth) true t.numTld 0

/-- `f` is the decoding of the node range `lo..hi` -/
def IsDec (t : Table) (f : Forest) (lo hi : Nat) (top : Bool) : Prop :=
  ∃ depth, lo ≤ hi ∧ decodeSibs t (decodeRange t depth) top (hi - lo) lo = some f

theorem isDec_of_decodeRange (t : Table) (depth lo hi : Nat) (f : Forest)
    (h : decodeRange t depth lo hi = some f) : IsDec t f lo hi false := by
  cases depth with
  | zero =>
    simp only [decodeRange] at h
    split at h
    · rename_i e; cases h; subst e
      exact ⟨0, Nat.le_refl _, by simp [decodeSibs]⟩
    · cases h
  | succ d =>
    simp only [decodeRange] at h
    split at h
    · cases h
    · exact ⟨d, by omega, h⟩

def Forest.nth : Forest → Nat → Option (Label × NKind × Bool × Forest)
  | .nil, _ => none
  | .cons l k w ch _, 0 => some (l, k, w, ch)
  | .cons _ _ _ _ sib, j + 1 => sib.nth j

/-- head label below every later sibling's label, recursively -/
def Forest.Sorted : Forest → Prop
  | .nil => True
  | .cons l _ _ _ sib => (∀ l' ∈ sib.labels, strLt l l' = true) ∧ sib.Sorted

/-- what decoding `n` siblings at `i` establishes about the table -/
theorem decodeSibs_facts (t : Table) (dec : Nat → Nat → Option Forest) (top : Bool) :
    ∀ (n i : Nat) (f : Forest), decodeSibs t dec top n i = some f →
      f.labels.length = n ∧ f.Sorted ∧
      ∀ j l k w ch, f.nth j = some (l, k, w, ch) →
        nodeLabel? t (i + j) = some l ∧
        ∃ lo hi ty, childInfo? t (i + j) = some (lo, hi, ty, w) ∧ kindOf t ty = k ∧ dec lo hi = some ch
          ∧ (top = true → k ≠ .exception) := by
  intro n
  induction n with
  | zero =>
    intro i f h
    simp only [decodeSibs] at h; cases h
    exact ⟨rfl, trivial, fun j l k w ch hn => by simp [Forest.nth] at hn⟩
  | succ n ih =>
    intro i f h
    simp only [decodeSibs] at h
    split at h
    · rename_i l lo hi ty w hl hc
      split at h
      · cases h
      · rename_i htop
        split at h
        · rename_i ch sib hch hsib
          obtain ⟨hlen, hsorted, hfacts⟩ := ih (i + 1) sib hsib
          have hnode : ∀ f', f' = Forest.cons l (kindOf t ty) w ch sib →
              (∀ l' ∈ sib.labels, strLt l l' = true) →
              f'.labels.length = n + 1 ∧ f'.Sorted ∧
              ∀ j l0 k w0 ch0, f'.nth j = some (l0, k, w0, ch0) →
                nodeLabel? t (i + j) = some l0 ∧
                ∃ lo hi ty, childInfo? t (i + j) = some (lo, hi, ty, w0) ∧ kindOf t ty = k ∧ dec lo hi = some ch0
                  ∧ (top = true → k ≠ .exception) := by
            intro f' hf' hlt
            subst hf'
            refine ⟨by simp [Forest.labels, hlen], ⟨hlt, hsorted⟩, ?_⟩
            intro j l0 k w0 ch0 hn
            cases j with
            | zero =>
              simp only [Forest.nth] at hn
              cases hn
              refine ⟨hl, lo, hi, ty, hc, rfl, hch, ?_⟩
              intro ht e
              apply htop
              simp [ht, e]
            | succ j =>
              simp only [Forest.nth] at hn
              have := hfacts j l0 k w0 ch0 hn
              rwa [show i + 1 + j = i + (j + 1) by omega] at this
          split at h
          · cases h
            exact hnode _ rfl (by intro l' hl'; simp [Forest.labels] at hl')
          · rename_i l2 k2 w2 ch2 sib2
            split at h
            · rename_i hlt
              cases h
              apply hnode _ rfl
              intro l' hl'
              simp only [Forest.labels, List.mem_cons] at hl'
              rcases hl' with rfl | hl'
              · exact hlt
              · exact strLt_trans l l2 l' hlt (hsorted.1 l' hl')
            · cases h
        · cases h
    · cases h

theorem labels_getElem?_eq_nth (f : Forest) (j : Nat) : f.labels[j]? = (f.nth j).map (·.1) := by
  induction f generalizing j with
  | nil => simp [Forest.labels, Forest.nth]
  | cons l k w ch sib _ ihs =>
    cases j with
    | zero => simp [Forest.labels, Forest.nth]
    | succ j => simp only [Forest.labels, List.getElem?_cons_succ, Forest.nth]; exact ihs j

theorem sortedLabels_of_sorted (f : Forest) (h : f.Sorted) : SortedLabels f.labels := by
  induction f with
  | nil => intro j j' a b _ ha; simp [Forest.labels] at ha
  | cons l k w ch sib _ ihs =>
    intro j j' a b hjj ha hb
    cases j' with
    | zero => omega
    | succ j' =>
      simp only [Forest.labels, List.getElem?_cons_succ] at hb
      cases j with
      | zero =>
        simp only [Forest.labels, List.getElem?_cons_zero] at ha
        cases ha
        exact h.1 b (List.mem_of_getElem? hb)
      | succ j =>
        simp only [Forest.labels, List.getElem?_cons_succ] at ha
        exact ihs h.2 j j' a b (by omega) ha hb

theorem notin_of_sorted_head (l : Label) (sib : Forest) (h : ∀ l' ∈ sib.labels, strLt l l' = true) :
    l ∉ sib.labels := by
  intro hm
  have := h l hm
  rw [strLt_irrefl] at this; cases this

theorem lookup_of_nth (f : Forest) (hs : f.Sorted) (j : Nat) (l : Label) (k : NKind) (w : Bool) (ch : Forest)
    (hn : f.nth j = some (l, k, w, ch)) : f.lookup l = some (k, w, ch) := by
  induction f generalizing j with
  | nil => simp [Forest.nth] at hn
  | cons l0 k0 w0 ch0 sib _ ihs =>
    cases j with
    | zero => simp only [Forest.nth] at hn; cases hn; simp [Forest.lookup]
    | succ j =>
      simp only [Forest.nth] at hn
      have hmem : l ∈ sib.labels := by
        have := labels_getElem?_eq_nth sib j
        rw [hn] at this
        exact List.mem_of_getElem? this
      have hne : l0 ≠ l := fun e => notin_of_sorted_head l0 sib hs.1 (e ▸ hmem)
      simp only [Forest.lookup, hne, if_false]
      exact ihs hs.2 j hn

theorem notin_of_lookup_none (f : Forest) (l : Label) (h : f.lookup l = none) : l ∉ f.labels := by
  induction f with
  | nil => simp [Forest.labels]
  | cons l0 k w ch sib _ ihs =>
    simp only [Forest.lookup] at h
    split at h
    · cases h
    · rename_i hne
      simp only [Forest.labels, List.mem_cons, not_or]
      exact ⟨fun e => hne e.symm, ihs h⟩

theorem WF_of_sorted (f : Forest) (hs : f.Sorted)
    (hch : ∀ j l k w ch, f.nth j = some (l, k, w, ch) → ch.WF) : f.WF := by
  induction f with
  | nil => trivial
  | cons l k w ch sib _ ihs =>
    refine ⟨notin_of_sorted_head l sib hs.1, hch 0 l k w ch rfl, ihs hs.2 ?_⟩
    intro j l0 k0 w0 ch0 hn
    exact hch (j + 1) l0 k0 w0 ch0 hn

/-- decoded forests are well formed (sibling labels distinct, at every level) -/
theorem decodeRange_WF (t : Table) : ∀ (depth lo hi : Nat) (f : Forest), decodeRange t depth lo hi = some f → f.WF := by
  intro depth
  induction depth with
  | zero =>
    intro lo hi f h
    simp only [decodeRange] at h
    split at h
    · cases h; trivial
    · cases h
  | succ d ih =>
    intro lo hi f h
    simp only [decodeRange] at h
    split at h
    · cases h
    · obtain ⟨_, hs, hfacts⟩ := decodeSibs_facts t (decodeRange t d) false (hi - lo) lo f h
      apply WF_of_sorted f hs
      intro j l k w ch hn
      obtain ⟨_, lo', hi', ty, _, _, hd, _⟩ := hfacts j l k w ch hn
      exact ih lo' hi' ch hd

theorem isDec_WF (t : Table) (f : Forest) (lo hi : Nat) (top : Bool) (h : IsDec t f lo hi top) : f.WF := by
  obtain ⟨depth, _, hd⟩ := h
  obtain ⟨_, hs, hfacts⟩ := decodeSibs_facts t (decodeRange t depth) top (hi - lo) lo f hd
  apply WF_of_sorted f hs
  intro j l k w ch hn
  obtain ⟨_, lo', hi', ty, _, _, hdd, _⟩ := hfacts j l k w ch hn
  exact decodeRange_WF t depth lo' hi' ch hdd

/-- what `find` returns on a decoded range, in terms of `lookup` on the decoded forest -/
theorem find_of_isDec (t : Table) (f : Forest) (lo hi : Nat) (top : Bool) (h : IsDec t f lo hi top) (lab : Str) :
    (f.lookup lab = none ∧ find t lab (hi - lo + 1) lo hi = some none)
    ∨ (∃ k w ch idx lo' hi' ty, f.lookup lab = some (k, w, ch)
        ∧ find t lab (hi - lo + 1) lo hi = some (some idx)
        ∧ childInfo? t idx = some (lo', hi', ty, w) ∧ kindOf t ty = k ∧ IsDec t ch lo' hi' false
        ∧ (top = true → k ≠ .exception)) := by
  obtain ⟨depth, hle, hd⟩ := h
  obtain ⟨hlen, hs, hfacts⟩ := decodeSibs_facts t (decodeRange t depth) top (hi - lo) lo f hd
  have hlab : ∀ j l, f.labels[j]? = some l → nodeLabel? t (lo + j) = some l := by
    intro j l hj
    rw [labels_getElem?_eq_nth] at hj
    cases hn : f.nth j with
    | none => rw [hn] at hj; cases hj
    | some x =>
      obtain ⟨l0, k, w, ch⟩ := x
      rw [hn] at hj; cases hj
      exact (hfacts j l0 k w ch hn).1
  have hsp := find_spec t f.labels lo hlab (sortedLabels_of_sorted f hs) lab (hi - lo + 1) lo hi
    (Nat.le_refl _) hle (by rw [hlen]; omega) (by omega)
    (by intro j l hj; omega)
    (by intro j l hj hl
        have : j < f.labels.length := by
          cases hlt : decide (j < f.labels.length) with
          | true => simpa using hlt
          | false =>
            have : f.labels.length ≤ j := by simpa using hlt
            rw [List.getElem?_eq_none this] at hl; cases hl
        omega)
  rcases hsp with ⟨j, hj, hfind⟩ | ⟨hnot, hfind⟩
  · right
    rw [labels_getElem?_eq_nth] at hj
    cases hn : f.nth j with
    | none => rw [hn] at hj; cases hj
    | some x =>
      obtain ⟨l0, k, w, ch⟩ := x
      rw [hn] at hj
      simp only [Option.map_some, Option.some.injEq] at hj
      subst hj
      obtain ⟨_, lo', hi', ty, hc, hk, hdd, htop⟩ := hfacts j l0 k w ch hn
      exact ⟨k, w, ch, lo + j, lo', hi', ty, lookup_of_nth f hs j l0 k w ch hn, hfind, hc, hk,
        isDec_of_decodeRange t depth lo' hi' ch hdd, htop⟩
  · left
    exact ⟨lookup_none_of_notin f lab hnot, hfind⟩

/-! ### positions -/

/-- the position `suffix.start` a relative walk result stands for, within the string `s` walked -/
def posOf (s : Str) (suffix : Nat) : Option Nat → Nat
  | none => suffix
  | some 0 => 1 + s.length
  | some (j + 1) => s.length - sufLen (j + 1) (revLabels s)

theorem afterOrAll_eq (s : Str) : afterOrAll (rfindDot s) = s.length - (s.drop (afterOrAll (rfindDot s))).length := by
  cases h : rfindDot s with
  | none => simp [afterOrAll]
  | some d =>
    have := rfind_lt s d h
    simp [afterOrAll, List.length_drop]; omega

theorem posOf_one (s : Str) (suffix : Nat) : posOf s suffix (some 1) = afterOrAll (rfindDot s) := by
  show s.length - sufLen 1 (revLabels s) = _
  rw [revLabels_step]
  simp only [sufLen]
  exact (afterOrAll_eq s).symm

theorem revLabels_ne_nil (s : Str) : revLabels s ≠ [] := by
  unfold revLabels
  intro h
  have := congrArg List.length h
  simp at this
  exact splitDots_ne_nil s this

/-- lifting a result of the walk on the part before the last dot -/
theorem posOf_lift (s : Str) (d : Nat) (h : rfindDot s = some d) (sfx sfx' : Nat) (j : Nat) :
    posOf (s.take d) sfx' (some j) = posOf s sfx (some (j + 1)) := by
  have hlen := length_decomp s d h
  have htl : (s.take d).length = d := by
    have := rfind_lt s d h
    simp [List.length_take]; omega
  cases j with
  | zero =>
    show 1 + (s.take d).length = posOf s sfx (some 1)
    rw [posOf_one, htl, h]; simp [afterOrAll]; omega
  | succ j =>
    show (s.take d).length - sufLen (j + 1) (revLabels (s.take d)) = s.length - sufLen (j + 2) (revLabels s)
    rw [htl]
    conv => rhs; rw [revLabels_step s, h]
    simp only [sufLen, afterOrAll]
    omega

/-- **The loop of `public_suffix` over a decoded range is the trie walk.** -/
theorem walk_eq_walkO (t : Table) : ∀ (fuel : Nat) (s : Str) (lo hi suffix : Nat) (wild : Bool) (f : Forest) (top : Bool),
    IsDec t f lo hi top → (splitDots s).length ≤ fuel →
    walk t fuel s lo hi suffix wild = some (posOf s suffix (walkO f wild (revLabels s))) := by
  intro fuel
  induction fuel with
  | zero =>
    intro s lo hi suffix wild f top _ hf
    have := splitDots_ne_nil s
    cases hsp : splitDots s with
    | nil => exact absurd hsp this
    | cons a as => rw [hsp] at hf; simp at hf
  | succ fuel ih =>
    intro s lo hi suffix wild f top hdec hfuel
    unfold walk
    dsimp only
    rw [revLabels_step]
    unfold walkO
    dsimp only
    -- the current suffix after the wildcard update
    have hcur : (some (if wild = true then afterOrAll (rfindDot s) else suffix))
        = some (posOf s suffix (if wild = true then some 1 else none)) := by
      cases wild
      · rfl
      · simp only [if_true]; rw [posOf_one]
    by_cases hlohi : lo = hi
    · rw [if_pos hlohi]
      obtain ⟨depth, _, hd⟩ := hdec
      rw [hlohi, Nat.sub_self] at hd
      simp only [decodeSibs] at hd
      cases hd
      simp only [Forest.lookup]
      exact hcur
    · rw [if_neg hlohi]
      rcases find_of_isDec t f lo hi top hdec (s.drop (afterOrAll (rfindDot s))) with
        ⟨hlk, hfind⟩ | ⟨k, w, ch, idx, lo', hi', ty, hlk, hfind, hci, hk, hdch, htop⟩
      · rw [hfind, hlk]
        dsimp only
        exact hcur
      · rw [hfind, hlk]
        dsimp only
        rw [hci]
        dsimp only
        unfold kindOf at hk
        by_cases hn : ty = t.typeNormal
        · rw [if_pos hn] at hk ⊢
          subst hk
          dsimp only
          have hp1 := posOf_one s suffix
          cases hr : rfindDot s with
          | none =>
            dsimp only
            rw [hr] at hp1
            rw [hp1]
          | some d =>
            dsimp only
            have hfu : (splitDots (s.take d)).length ≤ fuel := by
              rw [splitDots_of_rfind_some s d hr] at hfuel
              simp at hfuel; omega
            rw [hr] at hp1
            rw [ih (s.take d) lo' hi' (afterOrAll (some d)) w ch false hdch hfu]
            cases hrl : revLabels (s.take d) with
            | nil => exact absurd hrl (revLabels_ne_nil _)
            | cons a as =>
              dsimp only
              rw [← hrl]
              congr 1
              cases hw : walkO ch w (revLabels (s.take d)) with
              | none => simp only [posOf]; exact hp1.symm
              | some j => exact posOf_lift s d hr suffix _ j
        · rw [if_neg hn] at hk ⊢
          by_cases he : ty = t.typeException
          · rw [if_pos he] at hk ⊢
            subst hk
            rfl
          · rw [if_neg he] at hk ⊢
            subst hk
            dsimp only
            cases hr : rfindDot s with
            | none =>
              dsimp only
              rw [hr] at hcur
              exact hcur
            | some d =>
              dsimp only
              have hfu : (splitDots (s.take d)).length ≤ fuel := by
                rw [splitDots_of_rfind_some s d hr] at hfuel
                simp at hfuel; omega
              rw [hr] at hcur
              cases hrl : revLabels (s.take d) with
              | nil => exact absurd hrl (revLabels_ne_nil _)
              | cons a as =>
                dsimp only
                rw [← hrl]
                rw [ih (s.take d) lo' hi' _ w ch false hdch hfu]
                congr 1
                cases hw : walkO ch w (revLabels (s.take d)) with
                | none => simp only [posOf]; exact Option.some.inj hcur
                | some j => exact posOf_lift s d hr suffix _ j

end PasskeyVerif.Psl
