/-
Size bounds for the decoders' models (helper lemmas for C15): what a decoder returns is no larger than
what it consumed.  CBOR items (`Item.size`: one unit per item plus its payload bytes), base64 text,
authenticator data.
-/
import PasskeyVerif.Lemmas.Cbor
import PasskeyVerif.Base.Base64
import PasskeyVerif.Model.AuthData
namespace PasskeyVerif.Cbor

mutual
  /-- what a decoded item occupies: one unit per item plus its payload bytes -/
  def Item.size : Item → Nat
    | .bytes b => 1 + b.length
    | .text b => 1 + b.length
    | .array xs => 1 + sizeList xs
    | .map kvs => 1 + sizePairs kvs
    | .tag _ x => 1 + x.size
    | _ => 1
  def sizeList : List Item → Nat
    | [] => 0
    | x :: xs => x.size + sizeList xs
  def sizePairs : List (Item × Item) → Nat
    | [] => 0
    | (k, v) :: kvs => k.size + v.size + sizePairs kvs
end

theorem readHead_shrinks (bs : Bytes) (m ai n : Nat) (rest : Bytes) (h : readHead bs = some (m, ai, n, rest)) :
    rest.length + 1 ≤ bs.length := by
  unfold readHead at h
  cases bs with
  | nil => simp at h
  | cons b t =>
    simp only at h
    generalize (if b.toNat % 32 = 24 then 1 else if b.toNat % 32 = 25 then 2 else if b.toNat % 32 = 26 then 4
      else if b.toNat % 32 = 27 then 8 else 0) = w at h
    split at h
    · simp only [Option.some.injEq, Prod.mk.injEq] at h; obtain ⟨_, _, _, rfl⟩ := h; simp
    · split at h
      · simp at h
      · split at h
        · simp at h
        · simp only [Option.some.injEq, Prod.mk.injEq] at h; obtain ⟨_, _, _, rfl⟩ := h
          simp

theorem decode_size_all : ∀ f : Nat,
    (∀ bs x r, decode f bs = some (x, r) → x.size + r.length ≤ bs.length) ∧
    (∀ n bs xs r, decodeList f n bs = some (xs, r) → sizeList xs + r.length ≤ bs.length) ∧
    (∀ n bs kvs r, decodePairs f n bs = some (kvs, r) → sizePairs kvs + r.length ≤ bs.length) := by
  intro f
  induction f with
  | zero =>
    refine ⟨?_, ?_, ?_⟩
    · intro bs x r h; simp [decode] at h
    · intro n bs xs r h
      cases n with
      | zero => simp [decodeList] at h; obtain ⟨rfl, rfl⟩ := h; simp [sizeList]
      | succ n => simp [decodeList] at h
    · intro n bs kvs r h
      cases n with
      | zero => simp [decodePairs] at h; obtain ⟨rfl, rfl⟩ := h; simp [sizePairs]
      | succ n => simp [decodePairs] at h
  | succ f ih =>
    obtain ⟨ihd, ihl, ihp⟩ := ih
    refine ⟨?_, ?_, ?_⟩
    · intro bs x r h
      unfold decode at h
      split at h
      · simp at h
      · rename_i m ai n rest hh
        have hs := readHead_shrinks bs m ai n rest hh
        split at h
        · simp only [Option.some.injEq, Prod.mk.injEq] at h; obtain ⟨rfl, rfl⟩ := h; simp [Item.size]; omega
        · simp only [Option.some.injEq, Prod.mk.injEq] at h; obtain ⟨rfl, rfl⟩ := h; simp [Item.size]; omega
        · split at h
          · simp at h
          · simp only [Option.some.injEq, Prod.mk.injEq] at h; obtain ⟨rfl, rfl⟩ := h
            simp [Item.size]; omega
        · split at h
          · simp at h
          · simp only [Option.some.injEq, Prod.mk.injEq] at h; obtain ⟨rfl, rfl⟩ := h
            simp [Item.size]; omega
        · split at h
          · rename_i xs r' hl
            simp only [Option.some.injEq, Prod.mk.injEq] at h; obtain ⟨rfl, rfl⟩ := h
            have := ihl _ _ _ _ hl; simp [Item.size]; omega
          · simp at h
        · split at h
          · rename_i kvs r' hl
            simp only [Option.some.injEq, Prod.mk.injEq] at h; obtain ⟨rfl, rfl⟩ := h
            have := ihp _ _ _ _ hl; simp [Item.size]; omega
          · simp at h
        · split at h
          · rename_i x' r' hl
            simp only [Option.some.injEq, Prod.mk.injEq] at h; obtain ⟨rfl, rfl⟩ := h
            have := ihd _ _ _ hl; simp [Item.size]; omega
          · simp at h
        · split at h
          · simp only [Option.some.injEq, Prod.mk.injEq] at h; obtain ⟨rfl, rfl⟩ := h; simp [Item.size]; omega
          · split at h
            · split at h
              · simp at h
              · simp only [Option.some.injEq, Prod.mk.injEq] at h; obtain ⟨rfl, rfl⟩ := h; simp [Item.size]; omega
            · simp only [Option.some.injEq, Prod.mk.injEq] at h; obtain ⟨rfl, rfl⟩ := h; simp [Item.size]; omega
    · intro n bs xs r h
      cases n with
      | zero => simp [decodeList] at h; obtain ⟨rfl, rfl⟩ := h; simp [sizeList]
      | succ n =>
        unfold decodeList at h
        split at h
        · simp at h
        · rename_i x r1 h1
          split at h
          · simp at h
          · rename_i xs' r2 h2
            simp only [Option.some.injEq, Prod.mk.injEq] at h; obtain ⟨rfl, rfl⟩ := h
            have a := ihd _ _ _ h1; have b := ihl _ _ _ _ h2; simp [sizeList]; omega
    · intro n bs kvs r h
      cases n with
      | zero => simp [decodePairs] at h; obtain ⟨rfl, rfl⟩ := h; simp [sizePairs]
      | succ n =>
        unfold decodePairs at h
        split at h
        · simp at h
        · rename_i k r1 h1
          split at h
          · simp at h
          · rename_i v r2 h2
            split at h
            · simp at h
            · rename_i kvs' r3 h3
              simp only [Option.some.injEq, Prod.mk.injEq] at h; obtain ⟨rfl, rfl⟩ := h
              have a := ihd _ _ _ h1; have b := ihd _ _ _ h2; have c := ihp _ _ _ _ h3; simp [sizePairs]; omega

end PasskeyVerif.Cbor

namespace PasskeyVerif

namespace Base64

theorem decodeVals_length (strict : Bool) : ∀ (vs : List Nat) (bs : Bytes), decodeVals strict vs = some bs → 4 * bs.length ≤ 3 * vs.length
  | a :: b :: c :: d :: rest, bs, h => by
    unfold decodeVals at h
    split at h
    · rename_i bs' hr
      have := decodeVals_length strict rest bs' hr
      simp only [Option.some.injEq] at h; subst h; simp; omega
    · simp at h
  | [a, b, c], bs, h => by
    unfold decodeVals at h
    split at h
    · simp at h
    · simp only [Option.some.injEq] at h; subst h; simp
  | [a, b], bs, h => by
    unfold decodeVals at h
    split at h
    · simp at h
    · simp only [Option.some.injEq] at h; subst h; simp
  | [_], bs, h => by simp [decodeVals] at h
  | [], bs, h => by simp [decodeVals] at h; subst h; simp

theorem mapM_length {α β : Type} (f : α → Option β) : ∀ (l : List α) (r : List β), l.mapM f = some r → r.length = l.length
  | [], r, h => by simp at h; subst h; rfl
  | x :: xs, r, h => by
    rw [List.mapM_cons] at h
    cases hx : f x with
    | none => simp [hx] at h
    | some y =>
      cases hxs : xs.mapM f with
      | none => simp [hx, hxs] at h
      | some ys =>
        simp [hx, hxs] at h; subst h
        simp [mapM_length f xs ys hxs]

theorem trimPad_length (cs : List Char) : (trimPad cs).length ≤ cs.length := by
  unfold trimPad
  rw [List.length_reverse]
  have := (List.dropWhile_sublist (fun x => decide (x = '=')) (l := cs.reverse)).length_le
  simpa using this

theorem decodeWith_length (url strict : Bool) (cs : List Char) (bs : Bytes) (h : decodeWith url strict cs = some bs) :
    4 * bs.length ≤ 3 * cs.length := by
  unfold decodeWith at h
  split at h
  · rename_i vs hv
    have a := decodeVals_length strict vs bs h
    have b := mapM_length _ _ _ hv
    have c := trimPad_length cs
    omega
  · simp at h

theorem decodeLenient_length (s : String) (bs : Bytes) (h : decodeLenient s = some bs) : 4 * bs.length ≤ 3 * s.toList.length := by
  unfold decodeLenient at h
  split at h
  · rename_i b hb
    simp only [Option.some.injEq] at h; subst h
    exact decodeWith_length _ _ _ _ hb
  · exact decodeWith_length _ _ _ _ h

end Base64

namespace AuthData
open PasskeyVerif.Generated

theorem Acd.fromReader_bound (skip : Bytes → Option Nat) (vk : Bytes → Bool) (v : Bytes) (c : Acd) (r : Bytes)
    (h : Acd.fromReader skip vk v = .ok (c, r)) :
    c.aaguid.length + 2 + c.credId.length + c.key.length + r.length ≤ v.length := by
  unfold Acd.fromReader at h
  split at h
  · simp at h
  · rename_i h16
    simp only at h
    split at h
    · rename_i l0 l1 v' hv
      split at h
      · simp at h
      · rename_i hlen
        split at h
        · simp at h
        · rename_i n hn
          split at h
          · simp only [Except.ok.injEq, Prod.mk.injEq] at h
            obtain ⟨rfl, rfl⟩ := h
            have hl : (v.drop 16).length = v'.length + 2 := by rw [hv]; simp
            simp only [List.length_take, List.length_drop] at *
            omega
          · simp at h
    · simp at h

/-- bytes a parsed value holds -/
def Acd.held (c : Acd) : Nat := c.aaguid.length + 2 + c.credId.length + c.key.length
def acdHeld : Option Acd → Nat
  | some c => c.held
  | none => 0
def AuthData.held (a : AuthData) : Nat := a.rpIdHash.length + 5 + acdHeld a.acd + (a.ext.getD []).length

theorem AuthData.fromSlice_bound (skip : Bytes → Option Nat) (vk : Bytes → Bool) (v : Bytes) (a : AuthData)
    (h : AuthData.fromSlice skip vk v = .ok a) : a.held ≤ v.length := by
  unfold AuthData.fromSlice at h
  split at h
  · simp at h
  · rename_i h37
    simp only at h
    split at h
    · rename_i fb c0 c1 c2 c3 rest hv
      have hl : (v.drop 32).length = rest.length + 5 := by rw [hv]; simp
      simp only [List.length_drop] at hl
      split at h
      · simp at h
      · rename_i flags hf
        split at h
        · simp at h
        · rename_i acd rest' hacd
          have hacd' : acdHeld acd + rest'.length ≤ rest.length := by
            by_cases hat : flags &&& Flags.AT = Flags.AT
            · rw [if_pos hat] at hacd
              cases hr : Acd.fromReader skip vk rest with
              | error e => simp [hr] at hacd
              | ok p =>
                obtain ⟨c, r⟩ := p
                simp only [hr, Except.ok.injEq, Prod.mk.injEq] at hacd
                obtain ⟨rfl, rfl⟩ := hacd
                have := Acd.fromReader_bound skip vk rest c r hr
                simp only [acdHeld, Acd.held]; omega
            · rw [if_neg hat] at hacd
              simp only [Except.ok.injEq, Prod.mk.injEq] at hacd
              obtain ⟨rfl, rfl⟩ := hacd
              simp [acdHeld]
          split at h
          · split at h
            · simp at h
            · rename_i n hn
              simp only [Except.ok.injEq] at h; subst h
              simp only [AuthData.held, Option.getD_some, List.length_take]
              omega
          · simp only [Except.ok.injEq] at h; subst h
            simp only [AuthData.held, Option.getD_none, List.length_take, List.length_nil]
            omega
    · simp at h

end AuthData
end PasskeyVerif
