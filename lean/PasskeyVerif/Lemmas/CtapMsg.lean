import PasskeyVerif.Model.CtapMsg
namespace PasskeyVerif.CtapMsg
open PasskeyVerif.Generated.Ctap PasskeyVerif.Cbor

/-- keys strictly ascending -/
def Ascending : List Field → Prop
  | [] => True
  | [_] => True
  | f :: g :: rest => f.key < g.key ∧ Ascending (g :: rest)

instance : (s : List Field) → Decidable (Ascending s)
  | [] => isTrue trivial
  | [_] => isTrue trivial
  | f :: g :: rest =>
    match (inferInstance : Decidable (f.key < g.key)), (instDecidableAscending (g :: rest)) with
    | isTrue h1, isTrue h2 => isTrue ⟨h1, h2⟩
    | isFalse h1, _ => isFalse (fun h => h1 h.1)
    | _, isFalse h2 => isFalse (fun h => h2 h.2)

/-- the schema properties the theorems need; decidable, checked on every regenerated schema -/
structure SchemaOk (s : List Field) : Prop where
  asc : Ascending s
  small : ∀ f ∈ s, f.key ≤ 255
  skipHasDefault : ∀ f ∈ s, f.skipIfNone = true → f.hasDefault = true

theorem ascending_tail (f : Field) (fs : List Field) (h : Ascending (f :: fs)) : Ascending fs := by
  cases fs with
  | nil => trivial
  | cons g rest => exact h.2

theorem ascending_head_lt (f : Field) (fs : List Field) (h : Ascending (f :: fs)) : ∀ g ∈ fs, f.key < g.key := by
  induction fs generalizing f with
  | nil => intro g hg; cases hg
  | cons g rest ih =>
    intro x hx
    rw [List.mem_cons] at hx
    rcases hx with rfl | hx
    · exact h.1
    · have := ih g h.2 x hx
      have := h.1
      omega

/-- value of the member with key `k` -/
def valOf : List Field → Vals → Nat → Option Item
  | f :: fs, v :: vs, k => if f.key = k then v else valOf fs vs k
  | _, _, _ => none

theorem valOf_none_of_notin (fs : List Field) (vs : Vals) (k : Nat) (h : ∀ g ∈ fs, g.key ≠ k) : valOf fs vs k = none := by
  induction fs generalizing vs with
  | nil => cases vs <;> rfl
  | cons f rest ih =>
    cases vs with
    | nil => rfl
    | cons v vs =>
      simp only [valOf]
      rw [if_neg (h f (List.mem_cons_self))]
      exact ih vs (fun g hg => h g (List.mem_cons_of_mem _ hg))

theorem identOf_field (schema : List Field) (f : Field) (hf : f ∈ schema) (hs : f.key ≤ 255) :
    identOf schema (.uint f.key) = some (.field f.key) := by
  unfold identOf
  dsimp only
  rw [if_pos hs]
  have : schema.any (fun g => g.key == f.key) = true := by
    rw [List.any_eq_true]; exact ⟨f, hf, by simp⟩
  rw [this]; rfl

/-- the loop over the entries a serialisation produced -/
theorem collect_entries (schema : List Field) (validVal : Nat → Item → Bool) :
    ∀ (fs : List Field) (vs : Vals) (acc : Acc),
      (∀ f ∈ fs, f ∈ schema ∧ f.key ≤ 255) → Ascending fs →
      (∀ f ∈ fs, acc f.key = none) →
      (∀ f v, (f, some v) ∈ fs.zip vs → validVal f.key v = true) →
      collect schema validVal (entriesOf fs vs) acc
        = .ok (fun k => match valOf fs vs k with | some i => some i | none => acc k) := by
  intro fs
  induction fs with
  | nil =>
    intro vs acc _ _ _ _
    cases vs <;> simp [entriesOf, collect, valOf]
  | cons f rest ih =>
    intro vs acc hmem hasc hacc hval
    cases vs with
    | nil => simp [entriesOf, collect, valOf]
    | cons v vs =>
      have hlt := ascending_head_lt f rest hasc
      have hrest_mem : ∀ g ∈ rest, g ∈ schema ∧ g.key ≤ 255 := fun g hg => hmem g (List.mem_cons_of_mem _ hg)
      have hrest_val : ∀ g w, (g, some w) ∈ rest.zip vs → validVal g.key w = true :=
        fun g w hgw => hval g w (by simp [List.zip_cons_cons, hgw])
      cases v with
      | none =>
        simp only [entriesOf]
        rw [ih vs acc hrest_mem (ascending_tail f rest hasc) (fun g hg => hacc g (List.mem_cons_of_mem _ hg)) hrest_val]
        congr 1
        funext k
        simp only [valOf]
        by_cases hk : f.key = k
        · rw [if_pos hk]
          have : valOf rest vs k = none := valOf_none_of_notin rest vs k (fun g hg => by have := hlt g hg; omega)
          rw [this]
        · rw [if_neg hk]
      | some i =>
        simp only [entriesOf, collect]
        obtain ⟨hfm, hfs⟩ := hmem f (List.mem_cons_self)
        rw [identOf_field schema f hfm hfs]
        have ha : acc f.key = none := hacc f (List.mem_cons_self)
        have hv : validVal f.key i = true := hval f i (by simp [List.zip_cons_cons])
        simp only [ha, Option.isSome_none, Bool.false_eq_true, if_false, hv, Bool.not_true]
        rw [ih vs (acc.set f.key i) hrest_mem (ascending_tail f rest hasc)
          (fun g hg => by
            have := hlt g hg
            simp only [Acc.set]
            rw [if_neg (by omega)]
            exact hacc g (List.mem_cons_of_mem _ hg)) hrest_val]
        congr 1
        funext k
        simp only [valOf]
        by_cases hk : f.key = k
        · rw [if_pos hk]
          have : valOf rest vs k = none := valOf_none_of_notin rest vs k (fun g hg => by have := hlt g hg; omega)
          rw [this]
          simp [Acc.set, hk]
        · rw [if_neg hk]
          cases valOf rest vs k with
          | some x => rfl
          | none => simp only [Acc.set]; rw [if_neg (fun e => hk e.symm)]

/-- well-formed message values for a schema: one value per member; a member may be absent only if it is a
`skip_serializing_if = Option::is_none` member (an `Option` whose default is `None`) -/
structure ValsOk (schema : List Field) (dflt : Nat → Option Item) (validVal : Nat → Item → Bool) (vals : Vals) : Prop where
  len : vals.length = schema.length
  absent : ∀ f, (f, none) ∈ schema.zip vals → f.skipIfNone = true ∧ dflt f.key = none
  valid : ∀ f v, (f, some v) ∈ schema.zip vals → validVal f.key v = true

theorem finish_vals (dflt : Nat → Option Item) (acc : Acc) :
    ∀ (fs : List Field) (vs : Vals), vs.length = fs.length →
      (∀ f v, (f, v) ∈ fs.zip vs → (acc f.key = v) ∧ (v = none → f.hasDefault = true ∧ dflt f.key = none)) →
      finish dflt fs acc = .ok vs := by
  intro fs
  induction fs with
  | nil => intro vs hl _; cases vs with | nil => rfl | cons _ _ => simp at hl
  | cons f rest ih =>
    intro vs hl h
    cases vs with
    | nil => simp at hl
    | cons v vs =>
      obtain ⟨h1, h2⟩ := h f v (by simp [List.zip_cons_cons])
      have hrec := ih vs (by simpa using hl) (fun g w hgw => h g w (by simp [List.zip_cons_cons, hgw]))
      simp only [finish, h1, hrec]
      cases v with
      | some i => rfl
      | none =>
        obtain ⟨hd, hn⟩ := h2 rfl
        simp [hd, hn]

theorem valOf_at (fs : List Field) (vs : Vals) (hasc : Ascending fs) (hl : vs.length = fs.length) :
    ∀ f v, (f, v) ∈ fs.zip vs → valOf fs vs f.key = v := by
  induction fs generalizing vs with
  | nil => intro f v h; simp at h
  | cons g rest ih =>
    intro f v h
    cases vs with
    | nil => simp at h
    | cons w ws =>
      simp only [List.zip_cons_cons, List.mem_cons, Prod.mk.injEq] at h
      rcases h with ⟨rfl, rfl⟩ | h
      · simp [valOf]
      · have hlt := ascending_head_lt g rest hasc f (List.of_mem_zip h).1
        simp only [valOf]
        rw [if_neg (by omega)]
        exact ih ws (ascending_tail g rest hasc) (by simpa using hl) f v h

/-- **Round trip of the macro**: deserialising the serialisation of a well-formed value returns it. -/
theorem deserialize_serialize (schema : List Field) (hs : SchemaOk schema) (validVal : Nat → Item → Bool)
    (dflt : Nat → Option Item) (vals : Vals) (hv : ValsOk schema dflt validVal vals) :
    deserialize schema validVal dflt (serialize schema vals) = .ok vals := by
  unfold deserialize serialize
  dsimp only
  rw [collect_entries schema validVal schema vals Acc.empty (fun f hf => ⟨hf, hs.small f hf⟩) hs.asc
    (fun _ _ => rfl) hv.valid]
  dsimp only
  apply finish_vals dflt _ schema vals hv.len
  intro f v hfv
  have hval := valOf_at schema vals hs.asc hv.len f v hfv
  refine ⟨?_, ?_⟩
  · rw [hval]; cases v <;> rfl
  · intro hn
    subst hn
    obtain ⟨h1, h2⟩ := hv.absent f hfv
    exact ⟨hs.skipHasDefault f (List.of_mem_zip hfv).1 h1, h2⟩

theorem keys_of_entries (fs : List Field) (vs : Vals) :
    keysOf (entriesOf fs vs) = ((fs.zip vs).filter (fun p => p.2.isSome)).map (fun p => p.1.key) := by
  induction fs generalizing vs with
  | nil => cases vs <;> rfl
  | cons f rest ih =>
    cases vs with
    | nil => rfl
    | cons v vs =>
      cases v with
      | none => simp [entriesOf, ih]
      | some i => simp [entriesOf, keysOf, ih]

/-- an unknown key (integer up to 255 not in the schema, or a string naming no member) is skipped -/
theorem collect_unknown (schema : List Field) (validVal : Nat → Item → Bool) (k v : Item)
    (rest : List (Item × Item)) (acc : Acc) (hk : identOf schema k = some .unknown) :
    collect schema validVal ((k, v) :: rest) acc = collect schema validVal rest acc := by
  simp [collect, hk]

/-- a key naming a member that was already seen is an error -/
theorem collect_duplicate (schema : List Field) (validVal : Nat → Item → Bool) (k v : Item) (key : Nat)
    (rest : List (Item × Item)) (acc : Acc) (hk : identOf schema k = some (.field key)) (hset : (acc key).isSome = true) :
    collect schema validVal ((k, v) :: rest) acc = .error (.duplicate key) := by
  simp [collect, hk, hset]

/-- a member without `default` that was not seen is an error -/
theorem finish_missing (dflt : Nat → Option Item) (fs : List Field) (acc : Acc) (f : Field) (hf : f ∈ fs)
    (hd : f.hasDefault = false) (ha : acc f.key = none) : ∃ e, finish dflt fs acc = .error e := by
  induction fs with
  | nil => cases hf
  | cons g rest ih =>
    rw [List.mem_cons] at hf
    simp only [finish]
    rcases hf with rfl | hf
    · simp only [ha, hd, Bool.false_eq_true, if_false]
      cases finish dflt rest acc <;> exact ⟨_, rfl⟩
    · obtain ⟨e, he⟩ := ih hf
      rw [he]
      split
      · rename_i h1 h2; cases h2
      · exact ⟨_, rfl⟩
      · exact ⟨_, rfl⟩

end PasskeyVerif.CtapMsg
