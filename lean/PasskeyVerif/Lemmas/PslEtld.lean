/- `effective_tld_plus_one` / `is_effective_tld` on top of `public_suffix`. -/
import PasskeyVerif.Lemmas.PslFinal
namespace PasskeyVerif.Psl
open Spec

theorem take_take_le (s : Str) (a b : Nat) (h : a ≤ b) : (s.take b).take a = s.take a := by
  rw [List.take_take]; congr 1; omega

/-- the dot in front of the last `n` labels, and the start of the label before it -/
theorem dot_before_suffix (n : Nat) : ∀ (s : Str), 1 ≤ n → n < (splitDots s).length →
    sufLen n (revLabels s) < s.length
    ∧ s[s.length - sufLen n (revLabels s) - 1]? = some dot
    ∧ afterOrAll (rfindDot (s.take (s.length - sufLen n (revLabels s) - 1)))
        = s.length - sufLen (n + 1) (revLabels s) := by
  induction n with
  | zero => intro s h; omega
  | succ m ih =>
    intro s _ hn
    cases hr : rfindDot s with
    | none =>
      rw [splitDots_of_rfind_none s hr] at hn
      simp at hn
    | some d0 =>
      have hsp := splitDots_of_rfind_some s d0 hr
      have hlen := length_decomp s d0 hr
      have hd0 := rfind_lt s d0 hr
      have htl : (s.take d0).length = d0 := by simp [List.length_take]; omega
      have hdot : s[d0]? = some dot := by
        have := drop_at_rfind s d0 hr
        have h2 : s[d0]? = (s.drop d0)[0]? := by simp
        rw [h2, this]; rfl
      rw [revLabels_step s, hr]
      rw [show afterOrAll (some d0) = d0 + 1 from rfl]
      dsimp only
      cases m with
      | zero =>
        simp only [sufLen]
        have hp : s.length - (s.drop (d0 + 1)).length - 1 = d0 := by omega
        rw [hp]
        refine ⟨by omega, hdot, ?_⟩
        rw [afterOrAll_eq (s.take d0), htl]
        have hrl := revLabels_step (s.take d0)
        cases hrl2 : revLabels (s.take d0) with
        | nil => exact absurd hrl2 (revLabels_ne_nil _)
        | cons a as =>
          rw [hrl2] at hrl
          have ha : a = (s.take d0).drop (afterOrAll (rfindDot (s.take d0))) := by
            have := congrArg List.head? hrl; simpa using this
          simp only [sufLen]
          rw [← ha]; omega
      | succ m =>
        rw [hsp] at hn
        simp only [List.length_append, List.length_cons, List.length_nil] at hn
        obtain ⟨h1, h2, h3⟩ := ih (s.take d0) (by omega) (by omega)
        rw [htl] at h1 h2 h3
        simp only [sufLen]
        have hp : s.length - ((s.drop (d0 + 1)).length + 1 + sufLen (m + 1) (revLabels (s.take d0))) - 1
            = d0 - sufLen (m + 1) (revLabels (s.take d0)) - 1 := by omega
        rw [hp]
        refine ⟨by omega, ?_, ?_⟩
        · rw [← h2, List.getElem?_take]
          rw [if_pos (by omega)]
        · rw [take_take_le s _ d0 (by omega)] at h3
          rw [h3]; omega

/-! ### empty labels -/

theorem splitDots_cons_ne (c : Nat) (cs : Str) (h : c ≠ dot) :
    ∃ l ls, splitDots (c :: cs) = (c :: l) :: ls ∧ splitDots cs = l :: ls := by
  cases hsp : splitDots cs with
  | nil => exact absurd hsp (splitDots_ne_nil _)
  | cons l ls =>
    refine ⟨l, ls, ?_, rfl⟩
    conv => lhs; unfold splitDots
    rw [if_neg h, hsp]

theorem specEmpty_cons_ne (c : Nat) (cs : Str) (h : c ≠ dot) :
    Spec.hasEmptyLabel (c :: cs)
      = (match splitDots cs with | _ :: ls => ls.any (fun l => l.isEmpty) | [] => false) := by
  obtain ⟨l, ls, h1, h2⟩ := splitDots_cons_ne c cs h
  unfold Spec.hasEmptyLabel
  rw [h1, h2]
  simp

theorem containsDotDot_cons_ne (c : Nat) (cs : Str) (h : c ≠ dot) : containsDotDot (c :: cs) = containsDotDot cs := by
  cases cs with
  | nil => rfl
  | cons c2 cs => simp [containsDotDot, h]

theorem getLast?_cons_ne_nil (c : Nat) (cs : Str) (h : cs ≠ []) : (c :: cs).getLast? = cs.getLast? := by
  cases cs with
  | nil => exact absurd rfl h
  | cons a as => simp [List.getLast?_cons_cons]

/-- the three string tests of the code find exactly the names with an empty label (the empty name aside) -/
theorem hasEmptyLabel_iff : ∀ (n : Nat) (d : Str), d.length = n → d ≠ [] →
    Psl.hasEmptyLabel d = Spec.hasEmptyLabel d := by
  intro n
  induction n using Nat.strongRecOn with
  | _ n ih =>
    intro d hlen hne
    cases d with
    | nil => exact absurd rfl hne
    | cons c cs =>
      by_cases hc : c = dot
      · -- leading dot: first label empty
        have h1 : Psl.hasEmptyLabel (c :: cs) = true := by simp [Psl.hasEmptyLabel, hc]
        have h2 : Spec.hasEmptyLabel (c :: cs) = true := by
          unfold Spec.hasEmptyLabel splitDots; rw [if_pos hc]; simp
        rw [h1, h2]
      · cases cs with
        | nil =>
          have : c ≠ 46 := hc
          simp [Psl.hasEmptyLabel, Spec.hasEmptyLabel, splitDots, containsDotDot, hc, dot, this]
        | cons c2 cs2 =>
          have hsplit := specEmpty_cons_ne c (c2 :: cs2) hc
          have hmodel : Psl.hasEmptyLabel (c :: c2 :: cs2)
              = ((c2 :: cs2).getLast? = some dot || containsDotDot (c2 :: cs2)) := by
            unfold Psl.hasEmptyLabel
            rw [getLast?_cons_ne_nil c (c2 :: cs2) (by simp), containsDotDot_cons_ne c _ hc]
            simp [hc]
          rw [hsplit, hmodel]
          by_cases hc2 : c2 = dot
          · -- the label starting at c ends at c2; the rest of the labels are those of cs2
            have hsp2 : splitDots (c2 :: cs2) = [] :: splitDots cs2 := by
              conv => lhs; unfold splitDots
              rw [if_pos hc2]
            rw [hsp2]
            dsimp only
            cases cs2 with
            | nil => simp [splitDots, hc2, containsDotDot]
            | cons c3 cs3 =>
              have hrec := ih (c3 :: cs3).length (by simp at hlen ⊢; omega) (c3 :: cs3) rfl (by simp)
              unfold Spec.hasEmptyLabel at hrec
              rw [← hrec]
              unfold Psl.hasEmptyLabel
              rw [getLast?_cons_ne_nil c2 (c3 :: cs3) (by simp)]
              simp only [containsDotDot, hc2, List.head?_cons]
              cases h3 : decide (c3 = dot) <;> simp_all <;> cases (c3 :: cs3).getLast? <;> simp [Bool.or_comm]
          · have hrec := ih (c2 :: cs2).length (by simp at hlen ⊢; omega) (c2 :: cs2) rfl (by simp)
            obtain ⟨l, ls, h1, h2⟩ := splitDots_cons_ne c2 cs2 hc2
            have hsplit2 : Spec.hasEmptyLabel (c2 :: cs2)
                = (match splitDots (c2 :: cs2) with | _ :: ls => ls.any (fun l => l.isEmpty) | [] => false) := by
              unfold Spec.hasEmptyLabel
              rw [h1]; simp
            rw [← hsplit2, ← hrec]
            unfold Psl.hasEmptyLabel
            simp [hc2]


theorem sufLen_all (d : Str) : d.length ≤ sufLen (splitDots d).length (revLabels d) := by
  have hne := splitDots_ne_nil d
  have hpos : 1 ≤ (splitDots d).length := by
    cases hsp : splitDots d with
    | nil => exact absurd hsp hne
    | cons a as => simp
  have h := drop_eq_lastLabels (splitDots d).length d hpos (Nat.le_refl _)
  unfold lastLabels at h
  simp only [Nat.sub_self, List.drop_zero] at h
  rw [joinDots_splitDots] at h
  have := congrArg List.length h
  simp only [List.length_drop] at this
  omega

/-- closed form of `effective_tld_plus_one` over a table that decodes to the trie `f` -/
theorem etld1_of_decodes (t : Table) (depth : Nat) (f : Forest)
    (hdec : decodeTable t depth = some f) (d : Str) :
    effectiveTldPlusOne t d = some
      (if d ≠ [] ∧ Spec.hasEmptyLabel d = true then .error .emptyLabel
       else if (splitDots d).length ≤ suffixLabels f.rules (revLabels d) then .error .cannotDeriveETldPlus1
       else .ok (lastLabels (suffixLabels f.rules (revLabels d) + 1) d)) := by
  obtain ⟨h1, h2, h3⟩ := start_of_decodes t depth f hdec d
  generalize suffixLabels f.rules (revLabels d) = n at h1 h2 h3 ⊢
  unfold effectiveTldPlusOne
  by_cases hd : d = []
  · subst hd
    have : (splitDots ([] : Str)).length = 1 := rfl
    rw [h3]
    simp [Psl.hasEmptyLabel, containsDotDot, this, h1]
  · rw [hasEmptyLabel_iff d.length d rfl hd]
    by_cases he : Spec.hasEmptyLabel d = true
    · rw [if_pos he, if_pos ⟨hd, he⟩]
    · rw [if_neg he, if_neg (fun h => he h.2), h3]
      dsimp only
      by_cases hL : (splitDots d).length ≤ n
      · have hn : n = (splitDots d).length := by omega
        have := sufLen_all d
        rw [← hn] at this
        rw [if_pos hL, if_pos (by omega)]
      · obtain ⟨e1, e2, e3⟩ := dot_before_suffix n d h1 (by omega)
        rw [if_neg hL, if_neg (by omega)]
        have hi : d.length - (d.length - (d.length - sufLen n (revLabels d))) - 1
            = d.length - sufLen n (revLabels d) - 1 := by omega
        rw [hi, e2]
        dsimp only
        rw [if_neg (by simp), e3, drop_eq_lastLabels (n + 1) d (by omega) (by omega)]

/-- the outcome satisfies the specification predicate -/
theorem etld1_ok_of_decodes (t : Table) (depth : Nat) (f : Forest)
    (hdec : decodeTable t depth = some f) (d : Str) :
    ∃ r, effectiveTldPlusOne t d = some r ∧ Spec.etldPlusOneOk f.rules d r = true := by
  refine ⟨_, etld1_of_decodes t depth f hdec d, ?_⟩
  obtain ⟨h1, _, _⟩ := start_of_decodes t depth f hdec d
  unfold Spec.etldPlusOneOk
  dsimp only
  by_cases hd : d = []
  · subst hd
    have : (splitDots ([] : Str)).length = 1 := rfl
    simp [Spec.hasEmptyLabel, splitDots, this, h1]
  · by_cases he : Spec.hasEmptyLabel d = true
    · simp [he, hd]
    · have he' : Spec.hasEmptyLabel d = false := by simpa using he
      by_cases hL : (splitDots d).length ≤ suffixLabels f.rules (revLabels d)
      · simp [he', hL]
      · simp [he', hL]

/-- `is_effective_tld` -/
theorem isTld_of_decodes (t : Table) (depth : Nat) (f : Forest)
    (hdec : decodeTable t depth = some f) (d : Str) (hd : d ≠ []) :
    isEffectiveTld t d = some (!Spec.hasEmptyLabel d && decide (Spec.publicSuffix f.rules d = d)) := by
  unfold isEffectiveTld
  rw [hasEmptyLabel_iff d.length d rfl hd, publicSuffix_of_decodes t depth f hdec d]
  cases Spec.hasEmptyLabel d <;> simp

end PasskeyVerif.Psl
