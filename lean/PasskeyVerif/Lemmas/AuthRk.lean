/- Lemmas about discoverability in the authenticator model (used by Props/C11). -/
import PasskeyVerif.Lemmas.Auth
namespace PasskeyVerif.Auth
open PasskeyVerif.Auth.Spec
open PasskeyVerif.AuthData (Bytes AuthData)

theorem excludePhase_kind (s : Store) (req : MakeReq) : (excludePhase s req).2.1.kind = s.kind := by
  unfold excludePhase
  split
  · split <;> rfl
  · rfl

theorem rkPhase_kind (s : Store) (req : MakeReq) : (rkPhase s req).2.1.kind = s.kind := by
  unfold rkPhase; split <;> rfl

theorem rkPhase_refused (s : Store) (req : MakeReq) :
    (rkPhase s req).1 = (req.rk && refusesResidentKeys s.kind) := by
  unfold rkPhase refusesResidentKeys Store.info
  cases req.rk <;> cases discOf s.kind <;> rfl

/-- every save event of a registration carries the passkey built from the request under the store's
capability, and the request's own options -/
theorem save_of_makeAfterConsent (cfg : Cfg) (s : Store) (dr : Draws) (req : MakeReq) (flags : UInt8)
    (p : Passkey) (uid : Bytes) (rk up uv : Bool) (f : Option Nat)
    (h : Event.save p uid rk up uv f ∈ (makeAfterConsent cfg s dr req flags).trace) :
    (∃ stored, p = newPasskey cfg (discOf s.kind) dr req stored) ∧ uid = req.userId ∧ rk = req.rk
      ∧ (req.rk && refusesResidentKeys s.kind) = false := by
  unfold makeAfterConsent at h
  dsimp only at h
  have hex : ∀ e ∈ (excludePhase s req).2.2, e ≠ Event.save p uid rk up uv f := by
    intro e he heq
    have := excludePhase_no_effect s req e he
    rw [heq] at this; cases this
  have hrk : ∀ e ∈ (rkPhase (excludePhase s req).2.1 req).2.2, e ≠ Event.save p uid rk up uv f := by
    intro e he heq
    have := rkPhase_no_effect (excludePhase s req).2.1 req e he
    rw [heq] at this; cases this
  have hpre : Event.save p uid rk up uv f ∉ (excludePhase s req).2.2 ++ (rkPhase (excludePhase s req).2.1 req).2.2 := by
    intro hm
    rw [List.mem_append] at hm
    rcases hm with hm | hm
    · exact hex _ hm rfl
    · exact hrk _ hm rfl
  split at h
  · exact absurd h (fun hm => hex _ hm rfl)
  · split at h
    · exact absurd h (fun hm => hex _ hm rfl)
    · split at h
      · exact absurd h hpre
      · rename_i hnot
        split at h
        · exact absurd h hpre
        · split at h
          · exact absurd h hpre
          · rename_i prfOut stored _
            simp only [Outcome.prepend, List.mem_append] at h
            rcases h with h | h
            · exact absurd (List.mem_append.mpr h) hpre
            · unfold finishMake at h
              dsimp only at h
              have hsv : ∀ st : Store, ∀ pk : Passkey, (st.save pk req.userId req.rk req.up req.uv).2.2 = Event.save p uid rk up uv f →
                  pk = p ∧ req.userId = uid ∧ req.rk = rk := by
                intro st pk hh
                unfold Store.save at hh
                split at hh <;> (simp only [Event.save.injEq] at hh; exact ⟨hh.1, hh.2.1, hh.2.2.1⟩)
              have hk : discOf (rkPhase (excludePhase s req).2.1 req).2.1.kind = discOf s.kind := by
                rw [rkPhase_kind, excludePhase_kind]
              have hrf : (req.rk && refusesResidentKeys s.kind) = false := by
                have := rkPhase_refused (excludePhase s req).2.1 req
                rw [excludePhase_kind] at this
                rw [← this]
                simpa using hnot
              split at h <;>
              · simp only [List.mem_cons, List.not_mem_nil, or_false] at h
                rcases h with h | h
                · unfold Store.info at h; cases h
                · obtain ⟨h1, h2, h3⟩ := hsv _ _ h.symm
                  refine ⟨⟨stored, ?_⟩, h2.symm, h3.symm, hrf⟩
                  rw [← h1]
                  show newPasskey cfg (discOf _) dr req stored = _
                  rw [hk]

theorem finishMake_ok_save (cfg : Cfg) (s : Store) (dr : Draws) (req : MakeReq) (flags : UInt8)
    (prf : Option PrfMakeOut) (st : Option HmacSecret) (r : MakeResp)
    (h : (finishMake cfg s dr req flags prf st).result = .ok r) :
    Event.save (newPasskey cfg s.info.1 dr req st) req.userId req.rk req.up req.uv none
      ∈ (finishMake cfg s dr req flags prf st).trace := by
  unfold finishMake at h ⊢
  dsimp only at h ⊢
  unfold Store.save at h ⊢
  cases hf : s.info.2.1.fault? with
  | some e => simp only [hf] at h; cases h
  | none => simp

/-- a successful registration did save -/
theorem save_exists_of_makeAfterConsent_ok (cfg : Cfg) (s : Store) (dr : Draws) (req : MakeReq) (flags : UInt8) (r : MakeResp)
    (h : (makeAfterConsent cfg s dr req flags).result = .ok r) :
    ∃ p, Event.save p req.userId req.rk req.up req.uv none ∈ (makeAfterConsent cfg s dr req flags).trace := by
  unfold makeAfterConsent at h ⊢
  dsimp only at h ⊢
  split at h
  · cases h
  · rename_i h1
    split at h
    · cases h
    · rename_i alg h2
      split at h
      · cases h
      · rename_i h3
        split at h
        · cases h
        · rename_i h4
          split at h
          · cases h
          · rename_i prfOut stored h5
            simp only [h1, h3, h4, if_false, Outcome.prepend, Bool.false_eq_true] at h ⊢
            exact ⟨_, List.mem_append_right _ (finishMake_ok_save _ _ _ _ _ _ _ _ h)⟩

/-- no event of the user-validation step is a save -/
theorem checkUser_no_save (u : UvCfg) (up uv : Bool) (c : Option Bytes) (r : Except Nat UInt8) (ev : List Event)
    (h : checkUser u up uv c = (r, ev)) (p : Passkey) (uid : Bytes) (rk a b : Bool) (f : Option Nat) :
    Event.save p uid rk a b f ∉ ev := by
  cases r with
  | ok fl =>
    obtain ⟨hev, _⟩ := checkUser_ok _ _ _ _ _ _ h
    subst hev; simp
  | error e =>
    rcases checkUser_err _ _ _ _ _ _ h with ⟨hev, _⟩ | ⟨hev, _⟩ <;> (subst hev; simp)

/-- every save event of `make_credential` -/
theorem save_of_makeCredential (cfg : Cfg) (u : UvCfg) (s : Store) (dr : Draws) (req : MakeReq)
    (p : Passkey) (uid : Bytes) (rk up uv : Bool) (f : Option Nat)
    (h : Event.save p uid rk up uv f ∈ (makeCredential cfg u s dr req).trace) :
    (∃ stored, p = newPasskey cfg (discOf s.kind) dr req stored) ∧ uid = req.userId ∧ rk = req.rk
      ∧ (req.rk && refusesResidentKeys s.kind) = false := by
  unfold makeCredential at h
  split at h
  · cases h
  · split at h
    · rename_i e ev hc
      exact absurd h (checkUser_no_save _ _ _ _ _ _ hc _ _ _ _ _ _)
    · rename_i flags ev hc
      simp only [Outcome.prepend, List.mem_append] at h
      rcases h with h | h
      · exact absurd h (checkUser_no_save _ _ _ _ _ _ hc _ _ _ _ _ _)
      · exact save_of_makeAfterConsent _ _ _ _ _ _ _ _ _ _ _ h

theorem save_exists_of_makeCredential_ok (cfg : Cfg) (u : UvCfg) (s : Store) (dr : Draws) (req : MakeReq) (r : MakeResp)
    (h : (makeCredential cfg u s dr req).result = .ok r) :
    ∃ p, Event.save p req.userId req.rk req.up req.uv none ∈ (makeCredential cfg u s dr req).trace := by
  unfold makeCredential at h ⊢
  split at h
  · cases h
  · rename_i hup
    split at h
    · cases h
    · rename_i flags ev hc
      simp only [Outcome.prepend] at h
      obtain ⟨p, hp⟩ := save_exists_of_makeAfterConsent_ok _ _ _ _ _ _ h
      refine ⟨p, ?_⟩
      simp only [hup, Outcome.prepend, if_false, Bool.false_eq_true]
      exact List.mem_append_right _ hp

/-! ### the store kind never changes -/

theorem save_kind (s : Store) (p : Passkey) (uid : Bytes) (rk up uv : Bool) : (s.save p uid rk up uv).2.1.kind = s.kind := by
  unfold Store.save; split <;> rfl

theorem finishMake_kind (cfg : Cfg) (s : Store) (dr : Draws) (req : MakeReq) (flags : UInt8)
    (prf : Option PrfMakeOut) (st : Option HmacSecret) : (finishMake cfg s dr req flags prf st).store.kind = s.kind := by
  unfold finishMake
  dsimp only
  split <;> exact save_kind _ _ _ _ _ _

theorem makeAfterConsent_kind (cfg : Cfg) (s : Store) (dr : Draws) (req : MakeReq) (flags : UInt8) :
    (makeAfterConsent cfg s dr req flags).store.kind = s.kind := by
  unfold makeAfterConsent
  dsimp only
  split
  · exact excludePhase_kind s req
  · split
    · exact excludePhase_kind s req
    · split
      · rw [rkPhase_kind, excludePhase_kind]
      · split
        · rw [rkPhase_kind, excludePhase_kind]
        · split
          · rw [rkPhase_kind, excludePhase_kind]
          · simp only [Outcome.prepend]
            rw [finishMake_kind, rkPhase_kind, excludePhase_kind]

theorem makeCredential_kind (cfg : Cfg) (u : UvCfg) (s : Store) (dr : Draws) (req : MakeReq) :
    (makeCredential cfg u s dr req).store.kind = s.kind := by
  unfold makeCredential
  split
  · rfl
  · split
    · rfl
    · simp only [Outcome.prepend]
      exact makeAfterConsent_kind _ _ _ _ _

end PasskeyVerif.Auth
