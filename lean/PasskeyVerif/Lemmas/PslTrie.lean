/-
Abstract label trie between the packed table and the rule list, and the theorem that walking the trie
is the publicsuffix.org algorithm over the trie's rules (for every label list, every trie).
-/
import PasskeyVerif.Spec.Psl
namespace PasskeyVerif.Psl
open Spec

inductive NKind where
  | normal | exception | parentOnly
  deriving DecidableEq, Repr

/-- first-child / next-sibling forest of label nodes -/
inductive Forest where
  | nil : Forest
  | cons (label : Label) (kind : NKind) (wild : Bool) (children : Forest) (sibs : Forest) : Forest
  deriving Repr

def Forest.lookup : Forest → Label → Option (NKind × Bool × Forest)
  | .nil, _ => none
  | .cons l k w ch sib, x => if l = x then some (k, w, ch) else sib.lookup x

def Forest.labels : Forest → List Label
  | .nil => []
  | .cons l _ _ _ sib => l :: sib.labels

/-- sibling labels pairwise distinct, recursively -/
def Forest.WF : Forest → Prop
  | .nil => True
  | .cons l _ _ ch sib => l ∉ sib.labels ∧ ch.WF ∧ sib.WF

/-- The walk of `public_suffix` on a trie, relative to the current node: `none` = the suffix is not
updated, `some j` = the suffix becomes the last `j` labels of the name walked so far (`some 0`:
an exception node at the first label). `wild` is the wildcard bit of the parent. -/
def walkO : Forest → Bool → List Label → Option Nat
  | _, _, [] => none
  | f, wild, l :: rest =>
    let cur := if wild then some 1 else none
    match f.lookup l with
    | none => cur
    | some (kind, w, ch) =>
      match kind with
      | .exception => some 0
      | .normal =>
        match rest with
        | [] => some 1
        | _ :: _ => match walkO ch w rest with
          | some j => some (j + 1)
          | none => some 1
      | .parentOnly =>
        match rest with
        | [] => cur
        | _ :: _ => match walkO ch w rest with
          | some j => some (j + 1)
          | none => cur

def prepend (l : Label) (r : Rule) : Rule := { r with labels := l :: r.labels }

def ownRules (k : NKind) (l : Label) : List Rule :=
  match k with
  | .normal => [⟨[l], .normal⟩]
  | .exception => [⟨[l], .exception⟩]
  | .parentOnly => []

/-- the rules a forest stands for, in pre-order: own rule, wildcard rule, children, then siblings -/
def Forest.rules : Forest → List Rule
  | .nil => []
  | .cons l k w ch sib =>
    ownRules k l ++ (if w then [⟨[l], .wildcard⟩] else []) ++ ch.rules.map (prepend l) ++ sib.rules

/-- the wildcard rule contributed by the parent's wildcard bit, relative to the parent -/
def wildRule (w : Bool) : List Rule := if w then [⟨[], .wildcard⟩] else []

/-! ### the specification, decomposed -/

def matching (R : List Rule) (ls : List Label) : List Rule := R.filter (fun r => r.matches ls)

def excOf (M : List Rule) : Option Nat :=
  match M.filter (fun r => r.kind = .exception) with
  | e :: _ => some e.labels.length
  | [] => none

def lensOf (M : List Rule) : List Nat := (M.filter (fun r => r.kind ≠ .exception)).map Rule.len

def maxO : List Nat → Option Nat
  | [] => none
  | xs => some (maxOf xs)

/-- relative form of `Spec.suffixLabels` (before the implicit `*` rule) -/
def specO (M : List Rule) : Option Nat :=
  match excOf M with
  | some e => some (e - 1)
  | none => maxO (lensOf M)

theorem maxOf_ge_one (xs : List Nat) (h : ∀ x ∈ xs, 1 ≤ x) (hne : xs ≠ []) : 1 ≤ maxOf xs := by
  cases xs with
  | nil => exact absurd rfl hne
  | cons a as =>
    have := h a (List.mem_cons_self)
    simp only [maxOf]; omega

theorem suffixLabels_eq (R : List Rule) (ls : List Label) (hlen : ∀ r ∈ R, 1 ≤ r.len) :
    suffixLabels R ls = match specO (matching R ls) with | some n => n | none => 1 := by
  unfold suffixLabels specO excOf matching
  dsimp only
  split
  · rename_i e es he
    simp only [he]
  · rename_i he
    simp only [he]
    unfold lensOf
    generalize hxs : (List.filter (fun r => r.kind ≠ Kind.exception) (List.filter (fun r => r.matches ls) R)).map Rule.len = xs
    have hall : ∀ x ∈ xs, 1 ≤ x := by
      intro x hx
      rw [← hxs, List.mem_map] at hx
      obtain ⟨r, hr, rfl⟩ := hx
      exact hlen r (List.mem_filter.mp (List.mem_filter.mp hr).1).1
    cases xs with
    | nil => simp [maxOf, maxO]
    | cons a as =>
      have := maxOf_ge_one (a :: as) hall (by simp)
      simp only [maxO]
      rw [if_neg (by omega)]

/-! ### algebra of matching -/

theorem matches_prepend_same (l : Label) (r : Rule) (rest : List Label) :
    (prepend l r).matches (l :: rest) = r.matches rest := by
  simp [Rule.matches, prepend, List.isPrefixOf]

theorem matches_prepend_diff (l l0 : Label) (r : Rule) (rest : List Label) (h : l ≠ l0) :
    (prepend l r).matches (l0 :: rest) = false := by
  simp [Rule.matches, prepend, List.isPrefixOf, h]

theorem matching_map_same (l : Label) (R : List Rule) (rest : List Label) :
    matching (R.map (prepend l)) (l :: rest) = (matching R rest).map (prepend l) := by
  induction R with
  | nil => rfl
  | cons r rs ih =>
    simp only [matching, List.map_cons, List.filter_cons, matches_prepend_same] at ih ⊢
    split <;> simp [ih]

theorem matching_map_diff (l l0 : Label) (R : List Rule) (rest : List Label) (h : l ≠ l0) :
    matching (R.map (prepend l)) (l0 :: rest) = [] := by
  induction R with
  | nil => rfl
  | cons r rs ih =>
    simp only [matching, List.map_cons, List.filter_cons, matches_prepend_diff l l0 r rest h] at ih ⊢
    simpa using ih

theorem matching_append (A B : List Rule) (ls : List Label) :
    matching (A ++ B) ls = matching A ls ++ matching B ls := by
  simp [matching]

theorem matching_own_same (k : NKind) (l : Label) (rest : List Label) :
    matching (ownRules k l) (l :: rest) = ownRules k l := by
  cases k <;> simp [ownRules, matching, Rule.matches, List.isPrefixOf]

theorem matching_own_diff (k : NKind) (l l0 : Label) (rest : List Label) (h : l ≠ l0) :
    matching (ownRules k l) (l0 :: rest) = [] := by
  cases k <;> simp [ownRules, matching, Rule.matches, List.isPrefixOf, h]

theorem matching_wild_same (w : Bool) (l : Label) (rest : List Label) :
    matching (if w then [⟨[l], Kind.wildcard⟩] else []) (l :: rest)
      = if w ∧ rest ≠ [] then [⟨[l], Kind.wildcard⟩] else [] := by
  cases w
  · simp [matching]
  · cases rest <;> simp [matching, Rule.matches, List.isPrefixOf]

theorem matching_wild_diff (w : Bool) (l l0 : Label) (rest : List Label) (h : l ≠ l0) :
    matching (if w then [⟨[l], Kind.wildcard⟩] else []) (l0 :: rest) = [] := by
  cases w <;> simp [matching, Rule.matches, List.isPrefixOf, h]

/-- rules of a forest never match a name none of whose... first label is not among the forest's labels -/
theorem matching_notin (f : Forest) (l0 : Label) (rest : List Label) (h : l0 ∉ f.labels) :
    matching f.rules (l0 :: rest) = [] := by
  induction f with
  | nil => rfl
  | cons l k w ch sib _ ihs =>
    simp only [Forest.labels, List.mem_cons, not_or] at h
    have hne : l ≠ l0 := fun e => h.1 e.symm
    simp only [Forest.rules, matching_append, matching_own_diff k l l0 rest hne,
      matching_wild_diff w l l0 rest hne, matching_map_diff l l0 _ rest hne, ihs h.2, List.append_nil]

theorem lookup_none_of_notin (f : Forest) (l0 : Label) (h : l0 ∉ f.labels) : f.lookup l0 = none := by
  induction f with
  | nil => rfl
  | cons l k w ch sib _ ihs =>
    simp only [Forest.labels, List.mem_cons, not_or] at h
    have hne : l ≠ l0 := fun e => h.1 e.symm
    simp only [Forest.lookup, hne, if_false, ihs h.2]

theorem matching_nil (f : Forest) : matching f.rules [] = [] := by
  induction f with
  | nil => rfl
  | cons l k w ch sib _ ihs =>
    simp only [Forest.rules, matching_append, ihs, List.append_nil]
    have h1 : matching (ownRules k l) [] = [] := by
      cases k <;> simp [ownRules, matching, Rule.matches, List.isPrefixOf]
    have h2 : matching (if w then [⟨[l], Kind.wildcard⟩] else []) [] = [] := by
      cases w <;> simp [matching, Rule.matches, List.isPrefixOf]
    have h3 : matching (ch.rules.map (prepend l)) [] = [] := by
      generalize ch.rules = R
      induction R with
      | nil => rfl
      | cons r rs ih =>
        simp only [matching, List.map_cons, List.filter_cons] at ih ⊢
        simp [Rule.matches, prepend, List.isPrefixOf, ih]
    rw [h1, h2, h3]; rfl

/-- the rules of a well-formed forest that match `l0 :: rest` are those of the node `lookup` finds -/
theorem matching_lookup (f : Forest) (hf : f.WF) (l0 : Label) (rest : List Label) :
    matching f.rules (l0 :: rest) =
      match f.lookup l0 with
      | none => []
      | some (k, w, ch) =>
        ownRules k l0 ++ (if w ∧ rest ≠ [] then [⟨[l0], Kind.wildcard⟩] else [])
          ++ (matching ch.rules rest).map (prepend l0) := by
  induction f with
  | nil => rfl
  | cons l k w ch sib _ ihs =>
    obtain ⟨hnot, _, hsib⟩ := hf
    by_cases he : l = l0
    · subst he
      simp only [Forest.lookup, if_true, Forest.rules, matching_append, matching_own_same,
        matching_wild_same, matching_map_same, matching_notin sib l rest hnot, List.append_nil]
    · simp only [Forest.lookup, he, if_false, Forest.rules, matching_append,
        matching_own_diff k l l0 rest he, matching_wild_diff w l l0 rest he,
        matching_map_diff l l0 _ rest he, List.nil_append]
      exact ihs hsib

/-! ### exception / length components over the pieces -/

theorem excOf_append (A B : List Rule) : excOf (A ++ B) = (excOf A).orElse (fun _ => excOf B) := by
  unfold excOf
  rw [List.filter_append]
  cases h : A.filter (fun r => r.kind = Kind.exception) with
  | nil => simp
  | cons a as => simp

theorem lensOf_append (A B : List Rule) : lensOf (A ++ B) = lensOf A ++ lensOf B := by
  simp [lensOf]

theorem filter_kind_map_prepend (p : Rule → Bool) (hp : ∀ l r, p (prepend l r) = p r) (l : Label) (M : List Rule) :
    (M.map (prepend l)).filter p = (M.filter p).map (prepend l) := by
  induction M with
  | nil => rfl
  | cons r rs ih =>
    simp only [List.map_cons, List.filter_cons, hp l r]
    split
    · rw [List.map_cons, ih]
    · exact ih

theorem excOf_map_prepend (l : Label) (M : List Rule) :
    excOf (M.map (prepend l)) = (excOf M).map (· + 1) := by
  unfold excOf
  rw [filter_kind_map_prepend _ (fun _ _ => rfl)]
  cases M.filter (fun r => r.kind = Kind.exception) with
  | nil => rfl
  | cons a as => simp [prepend]

theorem len_prepend (l : Label) (r : Rule) : (prepend l r).len = r.len + 1 := by
  unfold Rule.len prepend
  cases r.kind <;> simp

theorem lensOf_map_prepend (l : Label) (M : List Rule) :
    lensOf (M.map (prepend l)) = (lensOf M).map (· + 1) := by
  unfold lensOf
  rw [filter_kind_map_prepend _ (fun _ _ => rfl), List.map_map, List.map_map]
  apply List.map_congr_left
  intro r _
  exact len_prepend l r

theorem maxOf_map_succ (xs : List Nat) (h : xs ≠ []) : maxOf (xs.map (· + 1)) = maxOf xs + 1 := by
  induction xs with
  | nil => exact absurd rfl h
  | cons a as ih =>
    cases as with
    | nil => simp [maxOf]
    | cons b bs =>
      have := ih (by simp)
      simp only [List.map_cons, maxOf] at this ⊢
      omega

theorem maxO_map_succ (xs : List Nat) : maxO (xs.map (· + 1)) = (maxO xs).map (· + 1) := by
  cases xs with
  | nil => rfl
  | cons a as =>
    show some (maxOf ((a :: as).map (· + 1))) = some (maxOf (a :: as) + 1)
    rw [maxOf_map_succ (a :: as) (by simp)]

theorem maxOf_append (xs ys : List Nat) : maxOf (xs ++ ys) = max (maxOf xs) (maxOf ys) := by
  induction xs with
  | nil => simp [maxOf]
  | cons a as ih => simp only [List.cons_append, maxOf, ih]; omega

theorem excOf_wildRule (w : Bool) (ls : List Label) : excOf (matching (wildRule w) ls) = none := by
  cases w
  · rfl
  · simp only [wildRule, matching, if_true, List.filter_cons, List.filter_nil]
    split <;> simp [excOf]

theorem lensOf_wildRule (w : Bool) (l0 : Label) (rest : List Label) :
    lensOf (matching (wildRule w) (l0 :: rest)) = if w then [1] else [] := by
  cases w
  · rfl
  · simp [wildRule, matching, Rule.matches, lensOf, Rule.len, List.isPrefixOf]

theorem matching_wildRule_nil (w : Bool) : matching (wildRule w) [] = [] := by
  cases w <;> simp [wildRule, matching, Rule.matches, List.isPrefixOf]

theorem excOf_own (k : NKind) (l : Label) :
    excOf (ownRules k l) = if k = .exception then some 1 else none := by
  cases k <;> simp [ownRules, excOf]

theorem lensOf_own (k : NKind) (l : Label) :
    lensOf (ownRules k l) = if k = .normal then [1] else [] := by
  cases k <;> simp [ownRules, lensOf, Rule.len]

theorem maxO_cons (a : Nat) (as : List Nat) : maxO (a :: as) = some (maxOf (a :: as)) := rfl

theorem maxO_ne (xs : List Nat) (h : xs ≠ []) : maxO xs = some (maxOf xs) := by
  cases xs with
  | nil => exact absurd rfl h
  | cons a as => rfl

/-- arithmetic of the normal-node step -/
theorem step_normal (xs : List Nat) (w wild : Bool) :
    (match maxO (xs ++ if w then [1] else []) with
      | some j => some (j + 1)
      | none => some 1)
    = maxO ([1] ++ (if w then [2] else []) ++ xs.map (· + 1) ++ (if wild then [1] else [])) := by
  by_cases hx : xs = []
  · subst hx; cases w <;> cases wild <;> simp [maxO, maxOf]
  · have h1 := maxOf_map_succ xs hx
    rw [maxO_ne (xs ++ if w then [1] else []) (by simp [hx])]
    cases w <;> cases wild <;>
      simp only [if_true, if_false, List.append_nil, List.singleton_append, List.cons_append, List.nil_append,
        maxO_cons, maxOf, maxOf_append, h1, Bool.false_eq_true] <;> exact congrArg some (by omega)

/-- arithmetic of the parent-only-node step -/
theorem step_parentOnly (xs : List Nat) (w wild : Bool) :
    (match maxO (xs ++ if w then [1] else []) with
      | some j => some (j + 1)
      | none => if wild then some 1 else none)
    = maxO ([] ++ (if w then [2] else []) ++ xs.map (· + 1) ++ (if wild then [1] else [])) := by
  by_cases hx : xs = []
  · subst hx; cases w <;> cases wild <;> simp [maxO, maxOf]
  · have h1 := maxOf_map_succ xs hx
    rw [maxO_ne (xs ++ if w then [1] else []) (by simp [hx])]
    rw [maxO_ne _ (by simp [hx])]
    cases w <;> cases wild <;>
      simp only [if_true, if_false, List.append_nil, List.singleton_append, List.cons_append, List.nil_append,
        maxOf, maxOf_append, h1, Bool.false_eq_true] <;> exact congrArg some (by omega)

theorem forest_rule_labels_ne_nil (f : Forest) (r : Rule) (h : r ∈ f.rules) (hl : r.labels = []) : False := by
  induction f with
  | nil => simp [Forest.rules] at h
  | cons l k w ch sib _ ihs =>
    simp only [Forest.rules, List.mem_append] at h
    rcases h with ((h | h) | h) | h
    · cases k <;> simp [ownRules] at h <;> (subst h; simp at hl)
    · cases w <;> simp at h
      subst h; simp at hl
    · rw [List.mem_map] at h
      obtain ⟨r', _, rfl⟩ := h
      simp [prepend] at hl
    · exact ihs h

/-- **Trie walk = PSL algorithm over the trie's rules**, relative form, for every label list. -/
theorem walkO_spec (ls : List Label) : ∀ (f : Forest) (wild : Bool), f.WF →
    walkO f wild ls = specO (matching (f.rules ++ wildRule wild) ls) := by
  induction ls with
  | nil =>
    intro f wild _
    simp [walkO, matching_append, matching_nil, matching_wildRule_nil, specO, excOf, lensOf, maxO]
  | cons l0 rest ih =>
    intro f wild hf
    rw [matching_append, matching_lookup f hf l0 rest]
    unfold walkO
    dsimp only
    cases hl : f.lookup l0 with
    | none =>
      simp only [List.nil_append, specO, excOf_wildRule, lensOf_wildRule]
      cases wild <;> simp [maxO, maxOf]
    | some x =>
      obtain ⟨k, w, ch⟩ := x
      dsimp only
      have hch : ch.WF := by
        clear ih
        induction f with
        | nil => simp [Forest.lookup] at hl
        | cons l k' w' ch' sib _ ihs =>
          simp only [Forest.lookup] at hl
          split at hl
          · cases hl; exact hf.2.1
          · exact ihs hf.2.2 hl
      -- exception and length components of the three groups
      have hexc : excOf (ownRules k l0 ++ (if w ∧ rest ≠ [] then [⟨[l0], Kind.wildcard⟩] else [])
            ++ (matching ch.rules rest).map (prepend l0) ++ matching (wildRule wild) (l0 :: rest))
          = (if k = .exception then some 1 else none).orElse
              (fun _ => (excOf (matching ch.rules rest)).map (· + 1)) := by
        rw [excOf_append, excOf_append, excOf_append, excOf_own, excOf_wildRule, excOf_map_prepend]
        have : excOf (if w ∧ rest ≠ [] then [(⟨[l0], Kind.wildcard⟩ : Rule)] else []) = none := by
          split <;> simp [excOf]
        rw [this]
        cases k <;> simp
        all_goals (cases excOf (matching ch.rules rest) <;> rfl)
      have hlens : lensOf (ownRules k l0 ++ (if w ∧ rest ≠ [] then [⟨[l0], Kind.wildcard⟩] else [])
            ++ (matching ch.rules rest).map (prepend l0) ++ matching (wildRule wild) (l0 :: rest))
          = (if k = .normal then [1] else []) ++ (if w ∧ rest ≠ [] then [2] else [])
            ++ (lensOf (matching ch.rules rest)).map (· + 1) ++ (if wild then [1] else []) := by
        rw [lensOf_append, lensOf_append, lensOf_append, lensOf_own, lensOf_wildRule, lensOf_map_prepend]
        have : lensOf (if w ∧ rest ≠ [] then [(⟨[l0], Kind.wildcard⟩ : Rule)] else [])
            = if w ∧ rest ≠ [] then [2] else [] := by
          by_cases hc : w = true ∧ rest ≠ []
          · rw [if_pos hc, if_pos hc]; rfl
          · rw [if_neg hc, if_neg hc]; rfl
        rw [this]
      unfold specO
      rw [hexc, hlens]
      cases rest with
      | nil =>
        -- no further labels: children cannot match
        have hm : matching ch.rules [] = [] := matching_nil ch
        rw [hm]
        cases k <;> cases wild <;> simp [excOf, lensOf, maxO, maxOf]
      | cons l1 rest' =>
        have hrec := ih ch w hch
        rw [matching_append] at hrec
        unfold specO at hrec
        rw [excOf_append, excOf_wildRule, lensOf_append, lensOf_wildRule] at hrec
        have hor : ∀ o : Option Nat, o.orElse (fun _ => none) = o := by intro o; cases o <;> rfl
        rw [hor] at hrec
        cases k with
        | exception => simp
        | normal =>
          simp only [reduceCtorEq, if_false, if_true, Option.orElse]
          rw [hrec]
          cases he : excOf (matching ch.rules (l1 :: rest')) with
          | some e =>
            simp only [Option.map_some]
            have : 1 ≤ e := by
              unfold excOf at he
              split at he
              · rename_i r rs hr
                cases he
                have hmem : r ∈ (matching ch.rules (l1 :: rest')).filter (fun r => r.kind = Kind.exception) := by
                  rw [hr]; exact List.mem_cons_self
                have hmat := (List.mem_filter.mp (List.mem_filter.mp hmem).1).2
                simp only [Rule.matches, Bool.and_eq_true] at hmat
                cases hlab : r.labels with
                | nil =>
                  -- a forest rule has at least one label
                  exfalso
                  have hmem2 := (List.mem_filter.mp (List.mem_filter.mp hmem).1).1
                  exact forest_rule_labels_ne_nil ch r hmem2 hlab
                | cons a as => simp
              · cases he
            congr 1; omega
          | none =>
            simp only [Option.map_none]
            have hw : (w = true ∧ l1 :: rest' ≠ []) ↔ w = true := by simp
            simp only [hw]
            exact step_normal _ w wild
        | parentOnly =>
          simp only [reduceCtorEq, if_false, Option.orElse]
          rw [hrec]
          cases he : excOf (matching ch.rules (l1 :: rest')) with
          | some e =>
            simp only [Option.map_some]
            have : 1 ≤ e := by
              unfold excOf at he
              split at he
              · rename_i r rs hr
                cases he
                have hmem : r ∈ (matching ch.rules (l1 :: rest')).filter (fun r => r.kind = Kind.exception) := by
                  rw [hr]; exact List.mem_cons_self
                cases hlab : r.labels with
                | nil =>
                  exfalso
                  have hmem2 := (List.mem_filter.mp (List.mem_filter.mp hmem).1).1
                  exact forest_rule_labels_ne_nil ch r hmem2 hlab
                | cons a as => simp
              · cases he
            congr 1; omega
          | none =>
            simp only [Option.map_none]
            have hw : (w = true ∧ l1 :: rest' ≠ []) ↔ w = true := by simp
            simp only [hw]
            exact step_parentOnly _ w wild

end PasskeyVerif.Psl
