/- Helper lemmas for Props/C17: lookup after save on the three stores, and the slices of a request frame. -/
import PasskeyVerif.Lemmas.Client
import PasskeyVerif.Model.U2f
namespace PasskeyVerif.C17
open PasskeyVerif PasskeyVerif.Auth PasskeyVerif.U2f
open PasskeyVerif.AuthData (Bytes)

/-- looking up a passkey just saved, by its id and RP, returns exactly it — on each of the three stores -/
theorem lookup_after_save (kind : StoreKind) (items : List Passkey) (p : Passkey) :
    findRaw kind (saveRaw kind items p) (some [p.credId]) p.rpId = .ok [p] := by
  have hfound : foundRaw kind (saveRaw kind items p) (some [p.credId]) p.rpId = [p] := by
    cases kind with
    | singleSlot => simp [foundRaw, saveRaw, Option.filter]
    | memoryMap =>
      have hfind : (items.filter (fun q => q.credId != p.credId) ++ [p]).find? (fun q => q.credId == p.credId) = some p := by
        rw [List.find?_append]
        have : (items.filter (fun q => q.credId != p.credId)).find? (fun q => q.credId == p.credId) = none := by
          rw [List.find?_eq_none]
          intro q hq
          have := (List.mem_filter.mp hq).2
          simpa using this
        rw [this]; simp
      show [p.credId].filterMap (fun id => (items.filter (fun q => q.credId != p.credId) ++ [p]).find? (fun q => q.credId == id)) = [p]
      simp only [List.filterMap_cons, List.filterMap_nil, hfind]
    | reference d =>
      show (items.filter (fun q => q.credId != p.credId) ++ [p]).filter
          (fun q => q.rpId == p.rpId && (match some [p.credId] with | none => true | some l => l.any (· == q.credId))) = [p]
      rw [List.filter_append]
      have : (items.filter (fun q => q.credId != p.credId)).filter
          (fun q => q.rpId == p.rpId && (match some [p.credId] with | none => true | some l => l.any (· == q.credId))) = [] := by
        rw [List.filter_eq_nil_iff]
        intro q hq
        have hne := (List.mem_filter.mp hq).2
        simp only [bne_iff_ne, ne_eq] at hne
        simp only [List.any_cons, List.any_nil, Bool.or_false, Bool.and_eq_true, beq_iff_eq, not_and]
        intro _ h2; exact hne h2.symm
      rw [this]; simp
  unfold findRaw
  rw [hfound]; rfl

theorem ofBe32_len (n : Nat) (h : n < 65536) :
    U2f.ofBe32 [0x00, 0x00, UInt8.ofNat (n / 256), UInt8.ofNat (n % 256)] = n := by
  unfold U2f.ofBe32
  simp only [List.foldl_cons, List.foldl_nil, UInt8.toNat_ofNat']
  have : (0 : UInt8).toNat = 0 := rfl
  omega

/-- the header and payload of a frame, as `Request::try_from` slices them -/
theorem frame_parts (ins p1 : UInt8) (data le : Bytes) (h : data.length < 65536) :
    (frame ins p1 data le).length = 7 + data.length + le.length
    ∧ (frame ins p1 data le).getD 0 0 = 0 ∧ (frame ins p1 data le).getD 1 0 = ins ∧ (frame ins p1 data le).getD 2 0 = p1
    ∧ U2f.ofBe32 (((frame ins p1 data le).drop 3).take 4) = data.length
    ∧ ((frame ins p1 data le).drop 7).take data.length = data := by
  unfold frame
  refine ⟨by simp; omega, rfl, rfl, rfl, ?_, ?_⟩
  · show U2f.ofBe32 [0x00, 0x00, UInt8.ofNat (data.length / 256), UInt8.ofNat (data.length % 256)] = data.length
    exact ofBe32_len _ h
  · show (data ++ le).take data.length = data
    simp

/-- parsing a frame looks at the instruction, the parameter and exactly the data -/
theorem parse_frame (ins p1 : UInt8) (data le : Bytes) (h : data.length < 65536) :
    parseRequest (frame ins p1 data le) =
      (if ins == 0x01 then
        (if data.length != 64 then .err swWrongLength else .register (data.take 32) (data.drop 32))
       else if ins == 0x02 then
        (if !(p1 == 0x07 || p1 == 0x03 || p1 == 0x08) then .err swWrongData else parseAuthPayload data p1)
       else if ins == 0x03 then .version
       else .err swInsNotSupported) := by
  obtain ⟨hlen, h0, h1, h2, hbe, hpay⟩ := frame_parts ins p1 data le h
  unfold parseRequest
  rw [h0, h1, h2, hbe, hlen]
  have a2 : ¬ (7 + data.length + le.length < 7) := by omega
  have a3 : ¬ (7 + data.length + le.length < 7 + data.length) := by omega
  simp only [a2, a3, if_false, hpay]
  rfl

end PasskeyVerif.C17
