/-
Effects of a ceremony on the store, event by event (used by Props/C07): a registration has at most one
effect event — the save of the complete new passkey — and an authentication at most one — the update of
the selected credential's counter; replaying the effects of any prefix of the trace therefore gives the
store before, or the store before with that one effect applied.
-/
import PasskeyVerif.Lemmas.Client
import PasskeyVerif.Model.AuthCancel
namespace PasskeyVerif.Auth
open PasskeyVerif.Auth.Spec
open PasskeyVerif.AuthData (Bytes AuthData)

def Event.isEffect : Event → Bool
  | .save _ _ _ _ _ _ => true
  | .update _ _ _ => true
  | _ => false

def effects (evs : List Event) : List Event := evs.filter Event.isEffect

theorem isEffect_obs (e : Event) : isEffect (evObsOf e) = e.isEffect := by cases e <;> rfl

theorem applyEvent_noeffect (kind : StoreKind) (items : List Passkey) (e : Event) (h : e.isEffect = false) :
    applyEvent kind items e = items := by
  cases e <;> first | rfl | (simp [Event.isEffect] at h)

theorem applyEvents_effects (kind : StoreKind) (items : List Passkey) (evs : List Event) :
    applyEvents kind items evs = applyEvents kind items (effects evs) := by
  induction evs generalizing items with
  | nil => rfl
  | cons e es ih =>
    unfold applyEvents effects at *
    simp only [List.foldl_cons, List.filter_cons]
    cases he : e.isEffect with
    | true => simp only [if_true, List.foldl_cons]; exact ih _
    | false => simp only [Bool.false_eq_true, if_false]; rw [applyEvent_noeffect _ _ _ he]; exact ih _

theorem effects_append (a b : List Event) : effects (a ++ b) = effects a ++ effects b := List.filter_append ..

theorem effects_of_none (evs : List Event) (h : ∀ e ∈ evs, e.isEffect = false) : effects evs = [] := by
  unfold effects
  rw [List.filter_eq_nil_iff]
  intro e he; simp [h e he]

/-- the effects of a prefix are a prefix of the effects -/
theorem effects_take_prefix (evs : List Event) (j : Nat) : effects (evs.take j) <+: effects evs := by
  unfold effects
  exact List.IsPrefix.filter _ (List.take_prefix j evs)

/-- with at most one effect in the whole trace, a prefix has replayed nothing or exactly that effect -/
theorem applyEvents_take_of_single (kind : StoreKind) (items : List Passkey) (evs : List Event) (j : Nat) (e : Event)
    (h : effects evs = [] ∨ effects evs = [e]) :
    applyEvents kind items (evs.take j) = items ∨ applyEvents kind items (evs.take j) = applyEvent kind items e := by
  rw [applyEvents_effects]
  have hp := effects_take_prefix evs j
  rcases h with h | h
  · rw [h] at hp
    have : effects (evs.take j) = [] := List.prefix_nil.mp hp
    rw [this]; exact Or.inl rfl
  · rw [h] at hp
    obtain ⟨t, ht⟩ := hp
    cases hx : effects (evs.take j) with
    | nil => exact Or.inl rfl
    | cons a as =>
      rw [hx] at ht
      simp only [List.cons_append, List.cons.injEq] at ht
      obtain ⟨ha, hrest⟩ := ht
      have : as = [] := by
        cases as with
        | nil => rfl
        | cons b bs => simp at hrest
      subst this; subst ha
      exact Or.inr rfl

theorem checkUser_no_effect (u : UvCfg) (up uv : Bool) (c : Option Bytes) (r : Except Nat UInt8) (ev : List Event)
    (h : checkUser u up uv c = (r, ev)) : ∀ e ∈ ev, e.isEffect = false := by
  intro e he
  cases r with
  | ok fl =>
    obtain ⟨hev, _⟩ := checkUser_ok _ _ _ _ _ _ h
    subst hev; simp at he; subst he; rfl
  | error x =>
    rcases checkUser_err _ _ _ _ _ _ h with ⟨hev, _⟩ | ⟨hev, _⟩
    · subst hev; cases he
    · subst hev; simp at he; subst he; rfl

theorem excludePhase_no_effect' (s : Store) (req : MakeReq) : ∀ e ∈ (excludePhase s req).2.2, e.isEffect = false := by
  intro e he; rw [← isEffect_obs]; exact excludePhase_no_effect s req e he

theorem rkPhase_no_effect' (s : Store) (req : MakeReq) : ∀ e ∈ (rkPhase s req).2.2, e.isEffect = false := by
  intro e he; rw [← isEffect_obs]; exact rkPhase_no_effect s req e he

/-- the three ways a registration (after consent) can go, with its effects and the store it leaves -/
theorem makeAfterConsent_effects (cfg : Cfg) (s : Store) (dr : Draws) (req : MakeReq) (flags : UInt8) :
    ∀ o, o = makeAfterConsent cfg s dr req flags →
    (effects o.trace = [] ∧ o.store.items = s.items ∧ ∃ e, o.result = .error e)
    ∨ (∃ stored r, effects o.trace = [Event.save (newPasskey cfg (discOf s.kind) dr req stored) req.userId req.rk req.up req.uv none]
        ∧ o.store.items = saveRaw s.kind s.items (newPasskey cfg (discOf s.kind) dr req stored) ∧ o.result = .ok r)
    ∨ (∃ stored f, effects o.trace = [Event.save (newPasskey cfg (discOf s.kind) dr req stored) req.userId req.rk req.up req.uv (some f)]
        ∧ o.store.items = s.items ∧ o.result = .error f) := by
  intro o ho
  subst ho
  have hpre : effects ((excludePhase s req).2.2 ++ (rkPhase (excludePhase s req).2.1 req).2.2) = [] := by
    rw [effects_append, effects_of_none _ (excludePhase_no_effect' s req), effects_of_none _ (rkPhase_no_effect' _ req)]; rfl
  have hitems : (rkPhase (excludePhase s req).2.1 req).2.1.items = s.items := by rw [rkPhase_items, excludePhase_items]
  have hkind : (rkPhase (excludePhase s req).2.1 req).2.1.kind = s.kind := by rw [rkPhase_kind, excludePhase_kind]
  unfold makeAfterConsent
  dsimp only
  split
  · exact Or.inl ⟨effects_of_none _ (excludePhase_no_effect' s req), excludePhase_items s req, _, rfl⟩
  · split
    · exact Or.inl ⟨effects_of_none _ (excludePhase_no_effect' s req), excludePhase_items s req, _, rfl⟩
    · split
      · exact Or.inl ⟨hpre, hitems, _, rfl⟩
      · split
        · exact Or.inl ⟨hpre, hitems, _, rfl⟩
        · split
          · exact Or.inl ⟨hpre, hitems, _, rfl⟩
          · rename_i prfOut stored _
            simp only [Outcome.prepend]
            rw [effects_append, hpre, List.nil_append]
            unfold finishMake
            dsimp only
            unfold Store.save
            cases hf : (rkPhase (excludePhase s req).2.1 req).2.1.info.2.1.fault? with
            | some f =>
              refine Or.inr (Or.inr ⟨stored, f, ?_, ?_, rfl⟩)
              · show effects [Event.info, Event.save (newPasskey cfg (discOf (rkPhase (excludePhase s req).2.1 req).2.1.kind) dr req stored) _ _ _ _ (some f)] = _
                rw [hkind]; rfl
              · exact hitems
            | none =>
              refine Or.inr (Or.inl ⟨stored, _, ?_, ?_, rfl⟩)
              · show effects [Event.info, Event.save (newPasskey cfg (discOf (rkPhase (excludePhase s req).2.1 req).2.1.kind) dr req stored) _ _ _ _ none] = _
                rw [hkind]; rfl
              · show saveRaw (rkPhase (excludePhase s req).2.1 req).2.1.kind (rkPhase (excludePhase s req).2.1 req).2.1.items
                    (newPasskey cfg (discOf (rkPhase (excludePhase s req).2.1 req).2.1.kind) dr req stored) = _
                rw [hkind, hitems]

/-- the same for the whole `make_credential` (the user-validation step has no effect on the store) -/
theorem makeCredential_effects (cfg : Cfg) (u : UvCfg) (s : Store) (dr : Draws) (req : MakeReq) :
    ∀ o, o = makeCredential cfg u s dr req →
    (effects o.trace = [] ∧ o.store.items = s.items ∧ ∃ e, o.result = .error e)
    ∨ (∃ stored r, effects o.trace = [Event.save (newPasskey cfg (discOf s.kind) dr req stored) req.userId req.rk req.up req.uv none]
        ∧ o.store.items = saveRaw s.kind s.items (newPasskey cfg (discOf s.kind) dr req stored) ∧ o.result = .ok r)
    ∨ (∃ stored f, effects o.trace = [Event.save (newPasskey cfg (discOf s.kind) dr req stored) req.userId req.rk req.up req.uv (some f)]
        ∧ o.store.items = s.items ∧ o.result = .error f) := by
  intro o ho
  subst ho
  unfold makeCredential
  split
  · exact Or.inl ⟨rfl, rfl, _, rfl⟩
  · split
    · rename_i e ev hc
      exact Or.inl ⟨effects_of_none _ (checkUser_no_effect _ _ _ _ _ _ hc), rfl, _, rfl⟩
    · rename_i flags ev hc
      simp only [Outcome.prepend]
      rw [effects_append, effects_of_none _ (checkUser_no_effect _ _ _ _ _ _ hc), List.nil_append]
      exact makeAfterConsent_effects cfg s dr req flags _ rfl

theorem signPhase_effects (cfg : Cfg) (s : Store) (req : GetReq) (flags : UInt8) (cred : Passkey) :
    effects (signPhase cfg s req flags cred).trace = [] ∧ (signPhase cfg s req flags cred).store = s := by
  obtain ⟨h1, h2⟩ := signPhase_trace cfg s req flags cred
  rw [h1]; exact ⟨rfl, h2⟩

/-- the three ways an assertion (after consent, credential located) can go -/
theorem getAfterConsent_effects (cfg : Cfg) (s : Store) (req : GetReq) (flags : UInt8) (cred : Passkey) :
    ∀ o, o = getAfterConsent cfg s req flags cred →
    (effects o.trace = [] ∧ o.store.items = s.items ∧ cred.counter = none)
    ∨ (∃ c l, cred.counter = some c ∧ effects o.trace = [Event.update cred.credId (some (bump c)) none]
        ∧ updateRaw s.kind s.items { cred with counter := some (bump c) } = .ok l ∧ o.store.items = l)
    ∨ (∃ c f, cred.counter = some c ∧ effects o.trace = [Event.update cred.credId (some (bump c)) (some f)]
        ∧ o.store.items = s.items ∧ o.result = .error f) := by
  intro o ho
  subst ho
  unfold getAfterConsent
  cases hc : cred.counter with
  | none =>
    simp only
    obtain ⟨h1, h2⟩ := signPhase_effects cfg s req flags cred
    exact Or.inl ⟨h1, by rw [h2], trivial⟩
  | some c =>
    simp only
    unfold Store.update
    cases hf : s.fault? with
    | some f =>
      simp only
      exact Or.inr (Or.inr ⟨c, f, rfl, rfl, rfl, rfl⟩)
    | none =>
      simp only
      cases hu : updateRaw s.kind s.items { cred with counter := some (bump c) } with
      | error e =>
        simp only
        exact Or.inr (Or.inr ⟨c, e, rfl, rfl, rfl, rfl⟩)
      | ok l =>
        simp only [Outcome.prepend]
        refine Or.inr (Or.inl ⟨c, l, rfl, ?_, hu, ?_⟩)
        · rw [show ([Event.update cred.credId (some (bump c)) none] ++ (signPhase cfg _ req flags { cred with counter := some (bump c) }).trace)
              = [Event.update cred.credId (some (bump c)) none] ++ (signPhase cfg _ req flags { cred with counter := some (bump c) }).trace from rfl,
            effects_append, (signPhase_effects _ _ _ _ _).1]
          rfl
        · rw [(signPhase_effects _ _ _ _ _).2]

/-- the same for the whole `get_assertion` -/
theorem getAssertion_effects (cfg : Cfg) (u : UvCfg) (s : Store) (req : GetReq) :
    ∀ o, o = getAssertion cfg u s req →
    (effects o.trace = [] ∧ o.store.items = s.items)
    ∨ (∃ p rest c l, (s.find (allowIds req) req.rpId).1 = .ok (p :: rest) ∧ p.counter = some c
        ∧ effects o.trace = [Event.update p.credId (some (bump c)) none]
        ∧ updateRaw s.kind s.items { p with counter := some (bump c) } = .ok l ∧ o.store.items = l)
    ∨ (∃ p rest c f, (s.find (allowIds req) req.rpId).1 = .ok (p :: rest) ∧ p.counter = some c
        ∧ effects o.trace = [Event.update p.credId (some (bump c)) (some f)]
        ∧ o.store.items = s.items ∧ o.result = .error f) := by
  intro o ho
  subst ho
  have hfe : (s.find (allowIds req) req.rpId).2.2.isEffect = false := rfl
  unfold getAssertion
  dsimp only
  split
  · exact Or.inl ⟨by simp [effects, hfe], rfl⟩
  · split
    · exact Or.inl ⟨by simp [effects, hfe], rfl⟩
    · split
      · rename_i c ev2 hc
        refine Or.inl ⟨?_, rfl⟩
        rw [show (s.find (allowIds req) req.rpId).2.2 :: ev2 = [(s.find (allowIds req) req.rpId).2.2] ++ ev2 from rfl, effects_append,
          effects_of_none _ (checkUser_no_effect _ _ _ _ _ _ hc)]
        simp [effects, hfe]
      · rename_i flags ev2 hc
        have hev : effects ((s.find (allowIds req) req.rpId).2.2 :: ev2) = [] := by
          rw [show (s.find (allowIds req) req.rpId).2.2 :: ev2 = [(s.find (allowIds req) req.rpId).2.2] ++ ev2 from rfl, effects_append,
            effects_of_none _ (checkUser_no_effect _ _ _ _ _ _ hc)]
          simp [effects, hfe]
        split
        · exact Or.inl ⟨hev, rfl⟩
        · rename_i cred hm
          simp only [Outcome.prepend]
          rw [effects_append, hev, List.nil_append]
          -- the credential is the first of the lookup
          have hfirst : ∃ rest, (s.find (allowIds req) req.rpId).1 = .ok (cred :: rest) := by
            unfold firstCred at hm
            cases hf : (s.find (allowIds req) req.rpId).1 with
            | error e => rw [hf] at hm; cases hm
            | ok l =>
              rw [hf] at hm
              cases l with
              | nil => cases hm
              | cons p rest => simp only [Except.ok.injEq] at hm; subst hm; exact ⟨rest, rfl⟩
          obtain ⟨rest, hrest⟩ := hfirst
          rcases getAfterConsent_effects cfg (s.find (allowIds req) req.rpId).2.1 req flags cred _ rfl with h | h | h
          · exact Or.inl ⟨h.1, h.2.1⟩
          · obtain ⟨c, l, h1, h2, h3, h4⟩ := h
            exact Or.inr (Or.inl ⟨cred, rest, c, l, hrest, h1, h2, h3, h4⟩)
          · obtain ⟨c, f, h1, h2, h3, h4⟩ := h
            exact Or.inr (Or.inr ⟨cred, rest, c, f, hrest, h1, h2, h3, h4⟩)

end PasskeyVerif.Auth
