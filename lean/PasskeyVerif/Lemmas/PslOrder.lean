/- `strLt` is a strict total order; binary search over a strictly sorted range of node labels. -/
import PasskeyVerif.Model.Psl
namespace PasskeyVerif.Psl

theorem strLt_irrefl (a : Str) : strLt a a = false := by
  induction a with
  | nil => rfl
  | cons x xs ih => simp [strLt, ih]

theorem strLt_trans : ∀ (a b c : Str), strLt a b = true → strLt b c = true → strLt a c = true := by
  intro a
  induction a with
  | nil =>
    intro b c h1 h2
    cases b with
    | nil => simp [strLt] at h1
    | cons y ys =>
      cases c with
      | nil => simp [strLt] at h2
      | cons z zs => rfl
  | cons x xs ih =>
    intro b c h1 h2
    cases b with
    | nil => simp [strLt] at h1
    | cons y ys =>
      cases c with
      | nil => simp [strLt] at h2
      | cons z zs =>
        simp only [strLt] at h1 h2 ⊢
        by_cases hxy : x < y
        · by_cases hyz : y < z
          · rw [if_pos (by omega)]
          · rw [if_neg hyz] at h2
            by_cases hzy : z < y
            · rw [if_pos hzy] at h2; cases h2
            · have : y = z := by omega
              subst this; rw [if_pos hxy]
        · rw [if_neg hxy] at h1
          by_cases hyx : y < x
          · rw [if_pos hyx] at h1; cases h1
          · rw [if_neg hyx] at h1
            have : x = y := by omega
            subst this
            by_cases hxz : x < z
            · rw [if_pos hxz]
            · rw [if_neg hxz] at h2 ⊢
              by_cases hzx : z < x
              · rw [if_pos hzx] at h2; cases h2
              · rw [if_neg hzx] at h2 ⊢
                exact ih ys zs h1 h2

theorem strLt_total : ∀ (a b : Str), strLt a b = false → a ≠ b → strLt b a = true := by
  intro a
  induction a with
  | nil =>
    intro b h1 h2
    cases b with
    | nil => exact absurd rfl h2
    | cons y ys => simp [strLt] at h1
  | cons x xs ih =>
    intro b h1 h2
    cases b with
    | nil => rfl
    | cons y ys =>
      simp only [strLt] at h1 ⊢
      by_cases hxy : x < y
      · rw [if_pos hxy] at h1; cases h1
      · rw [if_neg hxy] at h1
        by_cases hyx : y < x
        · rw [if_pos hyx]
        · rw [if_neg hyx] at h1 ⊢
          rw [if_neg hxy]
          have : x = y := by omega
          subst this
          exact ih ys h1 (fun e => h2 (by rw [e]))

theorem strLt_asymm (a b : Str) (h : strLt a b = true) : strLt b a = false := by
  cases hb : strLt b a with
  | false => rfl
  | true =>
    have := strLt_trans a b a h hb
    rw [strLt_irrefl] at this; cases this

theorem strLt_ne (a b : Str) (h : strLt a b = true) : a ≠ b := by
  intro e; subst e; rw [strLt_irrefl] at h; cases h

/-- strictly increasing by index -/
def SortedLabels (labels : List Str) : Prop :=
  ∀ (j j' : Nat) (a b : Str), j < j' → labels[j]? = some a → labels[j']? = some b → strLt a b = true

/-- Binary search over a strictly sorted window finds the index of the label iff it occurs. -/
theorem find_spec (t : Table) (labels : List Str) (i : Nat)
    (hlab : ∀ j l, labels[j]? = some l → nodeLabel? t (i + j) = some l)
    (hs : SortedLabels labels) (label : Str) :
    ∀ fuel lo hi, i ≤ lo → lo ≤ hi → hi ≤ i + labels.length → hi - lo < fuel →
      (∀ j l, j < lo - i → labels[j]? = some l → strLt l label = true) →
      (∀ j l, hi - i ≤ j → labels[j]? = some l → strLt label l = true) →
      (∃ j, labels[j]? = some label ∧ find t label fuel lo hi = some (some (i + j)))
        ∨ (label ∉ labels ∧ find t label fuel lo hi = some none) := by
  intro fuel
  induction fuel with
  | zero => intro lo hi _ _ _ h; omega
  | succ fuel ih =>
    intro lo hi hilo hlohi hhi hfuel hbelow habove
    unfold find
    by_cases hlt : lo < hi
    · rw [if_pos hlt]
      dsimp only
      have hmid1 : lo ≤ lo + (hi - lo) / 2 := by omega
      have hmid2 : lo + (hi - lo) / 2 < hi := by omega
      generalize hm : lo + (hi - lo) / 2 = mid at hmid1 hmid2
      have hidx : mid - i < labels.length := by omega
      obtain ⟨s, hsj⟩ : ∃ s, labels[mid - i]? = some s := ⟨labels[mid - i], by simp [hidx]⟩
      have hnl : nodeLabel? t mid = some s := by
        have := hlab (mid - i) s hsj
        rwa [show i + (mid - i) = mid by omega] at this
      rw [hnl]
      dsimp only
      by_cases h1 : strLt s label = true
      · rw [if_pos h1]
        apply ih (mid + 1) hi (by omega) (by omega) hhi (by omega)
        · intro j l hj hl
          by_cases hjm : j = mid - i
          · subst hjm; rw [hsj] at hl; cases hl; exact h1
          · have : strLt l s = true := hs j (mid - i) l s (by omega) hl hsj
            exact strLt_trans l s label this h1
        · exact habove
      · rw [if_neg h1]
        by_cases h2 : s = label
        · rw [if_pos h2]
          left
          refine ⟨mid - i, by rw [hsj, h2], ?_⟩
          rw [show i + (mid - i) = mid by omega]
        · rw [if_neg h2]
          have h3 : strLt label s = true := strLt_total s label (by simpa using h1) h2
          apply ih lo mid hilo (by omega) (by omega) (by omega) hbelow
          intro j l hj hl
          by_cases hjm : j = mid - i
          · subst hjm; rw [hsj] at hl; cases hl; exact h3
          · have : strLt s l = true := hs (mid - i) j s l (by omega) hsj hl
            exact strLt_trans label s l h3 this
    · rw [if_neg hlt]
      right
      refine ⟨?_, rfl⟩
      intro hmem
      obtain ⟨j, hj, hjl⟩ := List.getElem_of_mem hmem
      have hjs : labels[j]? = some label := by simp [hj, hjl]
      have hlohi' : lo = hi := by omega
      by_cases hjlo : j < lo - i
      · have := hbelow j label hjlo hjs
        rw [strLt_irrefl] at this; cases this
      · have := habove j label (by omega) hjs
        rw [strLt_irrefl] at this; cases this

end PasskeyVerif.Psl
