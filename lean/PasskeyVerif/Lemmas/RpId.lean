import PasskeyVerif.Spec.RpId
import PasskeyVerif.Props.C10
namespace PasskeyVerif.RpId
open PasskeyVerif.Psl (Str dot)

theorem stripSuffix_some (s suf rest : Str) (h : stripSuffix s suf = some rest) : s = rest ++ suf := by
  unfold stripSuffix at h
  split at h
  · rename_i hc
    cases h
    have := List.take_append_drop (s.length - suf.length) s
    rw [hc.2] at this
    exact this.symm
  · cases h

theorem getLast?_eq_some_append {α} (l : List α) (a : α) (h : l.getLast? = some a) : ∃ p, l = p ++ [a] := by
  induction l with
  | nil => simp at h
  | cons x xs ih =>
    cases xs with
    | nil => simp at h; subst h; exact ⟨[], rfl⟩
    | cons y ys =>
      rw [List.getLast?_cons_cons] at h
      obtain ⟨p, hp⟩ := ih h
      exact ⟨x :: p, by rw [hp]; rfl⟩

theorem labelSuffix_of_check (host rp : Str) (h : isEqualOrLabelSuffix host rp = true) :
    Spec.LabelSuffix rp host := by
  unfold isEqualOrLabelSuffix at h
  split at h
  · rename_i rest hs
    have hh := stripSuffix_some host rp rest hs
    simp only [Bool.or_eq_true, List.isEmpty_iff, decide_eq_true_eq] at h
    rcases h with h | h
    · left; rw [hh, h]; rfl
    · right
      obtain ⟨p, hp⟩ := getLast?_eq_some_append rest dot h
      exact ⟨p, by rw [hh, hp]; simp⟩
  · cases h

theorem labelSuffix_refl (d : Str) : Spec.LabelSuffix d d := Or.inl rfl

/-- the default provider: `DEFAULT_PROVIDER.effective_tld_plus_one(a).is_ok()` over the regenerated table -/
def defaultProvider (a : Str) : Bool :=
  match Psl.effectiveTldPlusOne Psl.TABLE a with
  | some (.ok _) => true
  | _ => false

theorem defaultProvider_eq (a : Str) : defaultProvider a = Spec.registrableUnder Psl.RULES a := by
  unfold defaultProvider Spec.registrableUnder
  rw [C10.C10_etld1]
  by_cases ha : a = []
  · subst ha
    have : (Psl.Spec.splitDots ([] : Str)).length = 1 := rfl
    have h1 : Psl.Spec.hasEmptyLabel ([] : Str) = true := rfl
    have h2 := (C10.C10_suffix_label_count []).1
    simp [h1, this, h2]
  · by_cases he : Psl.Spec.hasEmptyLabel a = true
    · simp [he, ha]
    · have he' : Psl.Spec.hasEmptyLabel a = false := by simpa using he
      simp only [he', Bool.false_eq_true, and_false, if_false, Bool.not_false, Bool.true_and]
      by_cases hL : (Psl.Spec.splitDots a).length ≤ Psl.Spec.suffixLabels Psl.RULES (Psl.Spec.revLabels a)
      · simp [hL]
      · simp [hL]; omega

end PasskeyVerif.RpId
