/- An assertion leaves the user handle of every stored credential as it was. -/
import PasskeyVerif.Lemmas.AuthCancel
namespace PasskeyVerif.Auth
open PasskeyVerif.AuthData (Bytes)

theorem foundRaw_mem (kind : StoreKind) (items : List Passkey) (ids : Option (List Bytes)) (rp : Bytes) (p : Passkey)
    (h : p ∈ foundRaw kind items ids rp) : p ∈ items := by
  unfold foundRaw at h
  cases kind with
  | memoryMap =>
    cases ids with
    | none => cases h
    | some l =>
      simp only [List.mem_filterMap] at h
      obtain ⟨id, _, hf⟩ := h
      exact List.mem_of_find?_eq_some hf
  | singleSlot =>
    cases ids with
    | some l =>
      simp only at h
      split at h
      · rename_i q hq
        simp only [List.mem_singleton] at h
        subst h
        obtain ⟨id, _, hid⟩ := List.exists_of_findSome?_eq_some hq
        cases hh : items.head? with
        | none => simp [hh] at hid
        | some x =>
          simp only [hh, Option.filter] at hid
          split at hid
          · cases hid; exact List.mem_of_mem_head? hh
          · cases hid
      · cases h
    | none =>
      simp only at h
      cases hh : items.head? with
      | none => simp [hh] at h
      | some x =>
        simp only [hh, Option.filter] at h
        split at h
        · simp only [Option.toList, List.mem_singleton] at h
          subst h; exact List.mem_of_mem_head? hh
        · cases h
  | reference d =>
    exact (List.mem_filter.mp h).1

/-- rewriting one stored credential with a copy that has the same id and user handle keeps every handle -/
theorem updateRaw_keeps_handles (kind : StoreKind) (items l : List Passkey) (p p' : Passkey)
    (hp : p ∈ items) (hid : p'.credId = p.credId) (huh : p'.userHandle = p.userHandle)
    (hu : updateRaw kind items p' = .ok l) :
    ∀ q ∈ l, ∃ r ∈ items, r.credId = q.credId ∧ r.userHandle = q.userHandle := by
  intro q hq
  unfold updateRaw at hu
  cases kind with
  | memoryMap =>
    simp only [Except.ok.injEq] at hu
    subst hu
    rcases List.mem_append.mp hq with h | h
    · exact ⟨q, (List.mem_filter.mp h).1, rfl, rfl⟩
    · simp only [List.mem_singleton] at h
      subst h; exact ⟨p, hp, hid.symm, huh.symm⟩
  | singleSlot =>
    simp only [Except.ok.injEq] at hu
    subst hu
    simp only [List.mem_singleton] at hq
    subst hq; exact ⟨p, hp, hid.symm, huh.symm⟩
  | reference d =>
    simp only at hu
    split at hu
    · simp only [Except.ok.injEq] at hu
      subst hu
      obtain ⟨r, hr, hrq⟩ := List.mem_map.mp hq
      by_cases hc : (r.credId == p'.credId) = true
      · rw [if_pos hc] at hrq
        subst hrq; exact ⟨p, hp, hid.symm, huh.symm⟩
      · rw [if_neg hc] at hrq
        subst hrq; exact ⟨r, hr, rfl, rfl⟩
    · cases hu

/-- **an assertion keeps the stored user handles**: every credential in the store after `get_assertion` has the id
and the user handle of a credential that was in the store before -/
theorem getAssertion_keeps_handles (cfg : Cfg) (u : UvCfg) (s : Store) (req : GetReq) :
    ∀ q ∈ (getAssertion cfg u s req).store.items, ∃ r ∈ s.items, r.credId = q.credId ∧ r.userHandle = q.userHandle := by
  intro q hq
  rcases getAssertion_effects cfg u s req _ rfl with ⟨_, h⟩ | ⟨p, rest, c, l, hf, _, _, hu, hl⟩ | ⟨_, _, _, _, _, _, _, h, _⟩
  · rw [h] at hq; exact ⟨q, hq, rfl, rfl⟩
  · rw [hl] at hq
    have hp : p ∈ s.items := by
      unfold Store.find at hf
      simp only at hf
      cases hft : s.fault? with
      | some e => rw [hft] at hf; cases hf
      | none =>
        rw [hft] at hf
        simp only [findRaw] at hf
        split at hf
        · cases hf
        · simp only [Except.ok.injEq] at hf
          exact foundRaw_mem _ _ _ _ p (by rw [hf]; exact List.mem_cons_self)
    exact updateRaw_keeps_handles s.kind s.items l p { p with counter := some (bump c) } hp rfl rfl hu q hq
  · rw [h] at hq; exact ⟨q, hq, rfl, rfl⟩

end PasskeyVerif.Auth
