/- Putting the pieces together: `publicSuffix` over any table that decodes to a trie. -/
import PasskeyVerif.Lemmas.PslDecode
namespace PasskeyVerif.Psl
open Spec

theorem splitDots_length_le (s : Str) : (splitDots s).length ≤ s.length + 1 := by
  induction s with
  | nil => simp [splitDots]
  | cons c cs ih =>
    unfold splitDots
    split
    · simp; omega
    · split
      · rename_i l ls h; rw [h] at ih; simp at ih ⊢; omega
      · simp

theorem walkO_le (ls : List Label) : ∀ (f : Forest) (w : Bool) (j : Nat), walkO f w ls = some j → j ≤ ls.length := by
  induction ls with
  | nil => intro f w j h; simp [walkO] at h
  | cons l rest ih =>
    intro f w j h
    unfold walkO at h
    dsimp only at h
    have hcur : ∀ j, (if w = true then some 1 else none) = some j → j ≤ (l :: rest).length := by
      intro j hj; split at hj <;> cases hj; simp
    split at h
    · exact hcur j h
    · rename_i k w' ch _
      cases k with
      | exception => cases h; simp
      | normal =>
        dsimp only at h
        cases rest with
        | nil => cases h; simp
        | cons a as =>
          dsimp only at h
          split at h
          · rename_i j' hj'; cases h
            have := ih ch w' j' hj'
            simp at this ⊢; omega
          · cases h; simp
      | parentOnly =>
        dsimp only at h
        cases rest with
        | nil => exact hcur j h
        | cons a as =>
          dsimp only at h
          split at h
          · rename_i j' hj'; cases h
            have := ih ch w' j' hj'
            simp at this ⊢; omega
          · exact hcur j h

/-- an exception node at the very first label -/
theorem walkO_zero (f : Forest) (w : Bool) (ls : List Label) (h : walkO f w ls = some 0) :
    ∃ l rest w' ch, ls = l :: rest ∧ f.lookup l = some (.exception, w', ch) := by
  cases ls with
  | nil => simp [walkO] at h
  | cons l rest =>
    refine ⟨l, rest, ?_⟩
    unfold walkO at h
    dsimp only at h
    split at h
    · cases w <;> simp at h
    · rename_i k w' ch hl
      cases k with
      | exception => exact ⟨w', ch, rfl, hl⟩
      | normal =>
        dsimp only at h
        cases rest with
        | nil => cases h
        | cons a as => dsimp only at h; split at h <;> cases h
      | parentOnly =>
        dsimp only at h
        cases rest with
        | nil => cases w <;> simp at h
        | cons a as =>
          dsimp only at h
          split at h
          · cases h
          · cases w <;> simp at h

theorem forest_rule_len_pos (f : Forest) (r : Rule) (h : r ∈ f.rules) : 1 ≤ r.len := by
  have hne : r.labels ≠ [] := fun e => forest_rule_labels_ne_nil f r h e
  have : 1 ≤ r.labels.length := by
    cases hl : r.labels with
    | nil => exact absurd hl hne
    | cons a as => simp
  unfold Rule.len
  cases r.kind <;> simp <;> omega

theorem sufLen_two_pos (j : Nat) (ls : List Label) (h : ls ≠ []) : 1 ≤ sufLen (j + 1 + 1) ls := by
  cases ls with
  | nil => exact absurd rfl h
  | cons l rest => simp only [sufLen]; omega

/-- where the slice returned by `public_suffix` starts: at the last `n` labels, `n` the number of
labels the PSL algorithm gives (at least one, at most all) -/
theorem start_of_decodes (t : Table) (depth : Nat) (f : Forest)
    (hdec : decodeTable t depth = some f) (d : Str) :
    1 ≤ suffixLabels f.rules (revLabels d) ∧ suffixLabels f.rules (revLabels d) ≤ (splitDots d).length
    ∧ publicSuffixStart t d = some (d.length - sufLen (suffixLabels f.rules (revLabels d)) (revLabels d)) := by
  have hIs : IsDec t f 0 t.numTld true := ⟨depth, Nat.zero_le _, by simpa [decodeTable] using hdec⟩
  have hwalk := walk_eq_walkO t (d.length + 2) d 0 t.numTld d.length false f true hIs
    (by have := splitDots_length_le d; omega)
  have hspec := walkO_spec (revLabels d) f false (isDec_WF t f 0 t.numTld true hIs)
  simp only [wildRule, Bool.false_eq_true, if_false, List.append_nil] at hspec
  have hsuf := suffixLabels_eq f.rules (revLabels d) (forest_rule_len_pos f)
  unfold publicSuffixStart
  rw [hwalk]
  dsimp only
  rw [hsuf, ← hspec]
  have hlabs : (revLabels d).length = (splitDots d).length := by simp [revLabels]
  have hne := splitDots_ne_nil d
  have hpos : 1 ≤ (splitDots d).length := by
    cases hsp : splitDots d with
    | nil => exact absurd hsp hne
    | cons a as => simp
  cases hw : walkO f false (revLabels d) with
  | none =>
    refine ⟨Nat.le_refl _, hpos, ?_⟩
    simp only [posOf, if_true]
    rw [if_pos (by have := afterOrAll_eq d; omega)]
    rw [← posOf_one d 0]
    rfl
  | some j =>
    cases j with
    | zero =>
      -- impossible: no exception node among the TLDs
      exfalso
      obtain ⟨l, rest, w', ch, _, hl⟩ := walkO_zero f false _ hw
      rcases find_of_isDec t f 0 t.numTld true hIs l with ⟨hn, _⟩ | ⟨k, w, ch', _, _, _, _, hlk, _, _, _, _, htop⟩
      · rw [hn] at hl; cases hl
      · rw [hlk] at hl; cases hl; exact htop rfl rfl
    | succ j =>
      have hj : j + 1 ≤ (splitDots d).length := by
        have := walkO_le _ f false (j + 1) hw; omega
      refine ⟨by simp, hj, ?_⟩
      show (if (if d.length - sufLen (j + 1) (revLabels d) = d.length then afterOrAll (rfindDot d)
                else d.length - sufLen (j + 1) (revLabels d)) ≤ d.length
            then some (if d.length - sufLen (j + 1) (revLabels d) = d.length then afterOrAll (rfindDot d)
                else d.length - sufLen (j + 1) (revLabels d)) else none) = _
      have hfix : (if d.length - sufLen (j + 1) (revLabels d) = d.length then afterOrAll (rfindDot d)
                else d.length - sufLen (j + 1) (revLabels d)) = d.length - sufLen (j + 1) (revLabels d) := by
        by_cases he : d.length - sufLen (j + 1) (revLabels d) = d.length
        · rw [if_pos he]
          cases j with
          | zero => rw [← posOf_one d 0]; rfl
          | succ j =>
            have := sufLen_two_pos j (revLabels d) (revLabels_ne_nil d)
            have hz : d.length = 0 := by omega
            have hnil : d = [] := List.eq_nil_of_length_eq_zero hz
            subst hnil
            simp [afterOrAll, rfindDot]
        · rw [if_neg he]
      rw [hfix, if_pos (by omega)]

/-- **`public_suffix` on a table that decodes to a trie `f` is the PSL algorithm over `f`'s rules**,
for every byte string; in particular it never panics. -/
theorem publicSuffix_of_decodes (t : Table) (depth : Nat) (f : Forest)
    (hdec : decodeTable t depth = some f) (d : Str) :
    publicSuffix t d = some (Spec.publicSuffix f.rules d) := by
  obtain ⟨h1, h2, h3⟩ := start_of_decodes t depth f hdec d
  unfold publicSuffix Spec.publicSuffix
  rw [h3]
  simp only [Option.map_some]
  rw [drop_eq_lastLabels _ d h1 h2]

end PasskeyVerif.Psl
