/- Helper lemmas about the list combinators of Model/SerdeStruct.lean (no fuel involved). -/
import PasskeyVerif.Model.SerdeStruct
namespace PasskeyVerif.Serde
open PasskeyVerif.Json

/-- a member that is no field of the struct is skipped, wherever it stands -/
theorem memberList_unknown (sd : StructDef) (p : Field → Json → R Val) (k : String) (v : Json)
    (hk : sd.fieldFor k = none) :
    ∀ (l₁ l₂ : List (String × Json)) (seen : List (String × Val)),
      memberList sd p (l₁ ++ (k, v) :: l₂) seen = memberList sd p (l₁ ++ l₂) seen
  | [], l₂, seen => by simp only [List.nil_append, memberList, hk]
  | (k', j') :: l₁, l₂, seen => by
    simp only [List.cons_append, memberList]
    cases hf : sd.fieldFor k' with
    | none => exact memberList_unknown sd p k v hk l₁ l₂ seen
    | some f =>
      simp only
      split
      · rfl
      · cases p f j' with
        | ok val => exact memberList_unknown sd p k v hk l₁ l₂ _
        | err => rfl
        | unmodelled => rfl

/-- the value of a member matters only through what the member's parser makes of it -/
theorem memberList_congr (sd : StructDef) (p : Field → Json → R Val) (k : String) (j j' : Json)
    (h : ∀ f, sd.fieldFor k = some f → p f j = p f j') :
    ∀ (l₁ l₂ : List (String × Json)) (seen : List (String × Val)),
      memberList sd p (l₁ ++ (k, j) :: l₂) seen = memberList sd p (l₁ ++ (k, j') :: l₂) seen
  | [], l₂, seen => by
    simp only [List.nil_append, memberList]
    cases hf : sd.fieldFor k with
    | none => rfl
    | some f => simp only [h f hf]
  | (k', j'') :: l₁, l₂, seen => by
    simp only [List.cons_append, memberList]
    cases hf : sd.fieldFor k' with
    | none => exact memberList_congr sd p k j j' h l₁ l₂ seen
    | some f =>
      simp only
      split
      · rfl
      · cases p f j'' with
        | ok val => exact memberList_congr sd p k j j' h l₁ l₂ _
        | err => rfl
        | unmodelled => rfl

/-- an element that does not parse is dropped, wherever it stands -/
theorem lenientList_drop (p : Json → R Val) (j : Json) (hj : p j = .err) :
    ∀ (l₁ l₂ : List Json), lenientList p (l₁ ++ j :: l₂) = lenientList p (l₁ ++ l₂)
  | [], l₂ => by simp only [List.nil_append, lenientList, hj]
  | j' :: l₁, l₂ => by
    simp only [List.cons_append, lenientList]
    cases p j' with
    | ok v => rw [lenientList_drop p j hj l₁ l₂]
    | err => exact lenientList_drop p j hj l₁ l₂
    | unmodelled => rfl

/-- what a lenient list yields: the elements that parse, in order -/
theorem lenientList_eq (p : Json → R Val) :
    ∀ (l : List Json), (∀ j ∈ l, p j ≠ .unmodelled) →
      lenientList p l = .ok (l.filterMap (fun j => match p j with | .ok v => some v | _ => none))
  | [], _ => rfl
  | j :: l, h => by
    have ih := lenientList_eq p l (fun x hx => h x (List.mem_cons_of_mem _ hx))
    have hj := h j List.mem_cons_self
    simp only [lenientList, List.filterMap_cons]
    cases hp : p j with
    | ok v => simp only [ih, R.map]
    | err => simp only [ih]
    | unmodelled => exact absurd hp hj

/-- the elements' values matter only through what the element parser makes of them -/
theorem lenientList_congr (p : Json → R Val) (j j' : Json) (h : p j = p j') :
    ∀ (l₁ l₂ : List Json), lenientList p (l₁ ++ j :: l₂) = lenientList p (l₁ ++ j' :: l₂)
  | [], l₂ => by simp only [List.nil_append, lenientList, h]
  | x :: l₁, l₂ => by
    simp only [List.cons_append, lenientList]
    cases p x with
    | ok v => rw [lenientList_congr p j j' h l₁ l₂]
    | err => exact lenientList_congr p j j' h l₁ l₂
    | unmodelled => rfl

end PasskeyVerif.Serde
