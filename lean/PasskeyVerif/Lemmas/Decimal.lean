/- Decimal printing followed by the number reader of Model/WebauthnJson.lean is the identity on integers. -/
import PasskeyVerif.Model.WebauthnJson
namespace PasskeyVerif.WJson

theorem digitsVal_append_single (l : List Char) (c : Char) : digitsVal (l ++ [c]) = digitsVal l * 10 + (c.toNat - 48) := by
  simp [digitsVal, List.foldl_append]

theorem digitChar_facts : ∀ d : Fin 10, (Nat.digitChar d.val).toNat - 48 = d.val ∧ isDigit (Nat.digitChar d.val) = true
    ∧ Nat.digitChar d.val ≠ '-' ∧ Nat.digitChar d.val ≠ '+' := by
  decide

theorem digitsVal_toDigits : ∀ n : Nat, digitsVal (Nat.toDigits 10 n) = n := by
  intro n
  induction n using Nat.strongRecOn with
  | _ n ih =>
    rw [Nat.toDigits_eq_if (by omega)]
    split
    · rename_i h
      have := (digitChar_facts ⟨n, h⟩).1
      simpa [digitsVal] using this
    · rename_i h
      rw [digitsVal_append_single, ih (n / 10) (by omega)]
      have := (digitChar_facts ⟨n % 10, Nat.mod_lt _ (by omega)⟩).1
      simp only at this
      rw [this]; omega

theorem all_digits_toDigits : ∀ n : Nat, ∀ c ∈ Nat.toDigits 10 n, isDigit c = true ∧ c ≠ '-' ∧ c ≠ '+' := by
  intro n
  induction n using Nat.strongRecOn with
  | _ n ih =>
    rw [Nat.toDigits_eq_if (by omega)]
    split
    · rename_i h
      intro c hc
      simp only [List.mem_singleton] at hc
      subst hc
      exact (digitChar_facts ⟨n, h⟩).2
    · rename_i h
      intro c hc
      rcases List.mem_append.mp hc with hc | hc
      · exact ih (n / 10) (by omega) c hc
      · simp only [List.mem_singleton] at hc
        subst hc
        exact (digitChar_facts ⟨n % 10, Nat.mod_lt _ (by omega)⟩).2

theorem takeWhile_all {α} (p : α → Bool) (l : List α) (h : ∀ c ∈ l, p c = true) : l.takeWhile p = l := by
  induction l with
  | nil => rfl
  | cons a l ih =>
    simp only [List.takeWhile_cons, h a List.mem_cons_self, if_true]
    rw [ih (fun c hc => h c (List.mem_cons_of_mem _ hc))]

/-- a run of digits is read as the integer it spells -/
theorem parseDecimal_digits (ds : List Char) (hne : ds ≠ []) (hd : ∀ c ∈ ds, isDigit c = true ∧ c ≠ '-' ∧ c ≠ '+') (allowPlus : Bool) :
    parseDecimal ds allowPlus = .int (Int.ofNat (digitsVal ds)) ∧ parseDecimal ('-' :: ds) allowPlus = .int (-(Int.ofNat (digitsVal ds))) := by
  have htw : ds.takeWhile isDigit = ds := takeWhile_all _ _ (fun c hc => (hd c hc).1)
  have hemp : ds.isEmpty = false := by cases ds with | nil => exact absurd rfl hne | cons _ _ => rfl
  constructor
  · cases ds with
    | nil => exact absurd rfl hne
    | cons c cs =>
      have h1 := (hd c List.mem_cons_self).2.1
      have h2 := (hd c List.mem_cons_self).2.2
      unfold parseDecimal
      have hm := parseDecimal.match_1.eq_3 (motive := fun _ => Bool × List Char) (c :: cs) (fun r => (true, r))
        (fun r => if allowPlus = true then (false, r) else (false, '+' :: r)) (fun r => (false, r))
        (by intro r h; cases h; exact h1 rfl) (by intro r h; cases h; exact h2 rfl)
      rw [hm]
      simp only [htw, List.drop_length, hemp]
      first | rfl | simp
  · unfold parseDecimal
    simp only [htw, List.drop_length, hemp]
    first | rfl | simp

theorem parseDecimal_nat (n : Nat) (allowPlus : Bool) : parseDecimal (toString n).toList allowPlus = .int (Int.ofNat n) := by
  have : (toString n).toList = Nat.toDigits 10 n := Nat.toList_repr
  rw [this, (parseDecimal_digits _ Nat.toDigits_ne_nil (all_digits_toDigits n) allowPlus).1, digitsVal_toDigits]

/-- **printing an integer and reading the token back gives the integer**, for every integer of the i64 range -/
theorem ofToken_toString (v : Int) (h : i64Min ≤ v ∧ v ≤ i64Max) : ofToken (toString v) = .int v := by
  unfold ofToken
  cases v with
  | ofNat n =>
    have : toString (Int.ofNat n) = toString n := rfl
    rw [this, parseDecimal_nat]
    have hn : (Int.ofNat n).toNat ≤ u64Max := by
      have := h.2; simp only [i64Max, Int.ofNat_eq_natCast] at this
      show n ≤ 18446744073709551615
      omega
    have h0 : Int.ofNat n ≥ 0 := Int.natCast_nonneg n
    show (if Int.ofNat n ≥ 0 then (if (Int.ofNat n).toNat ≤ u64Max then Num.int (Int.ofNat n) else .unmodelled) else _) = _
    rw [if_pos h0, if_pos hn]
  | negSucc m =>
    have hs : (toString (Int.negSucc m)).toList = '-' :: Nat.toDigits 10 (m + 1) := by
      show (("-" ++ Nat.repr (m + 1) : String)).toList = _
      rw [String.toList_append, Nat.toList_repr]; rfl
    rw [hs, (parseDecimal_digits _ Nat.toDigits_ne_nil (all_digits_toDigits (m + 1)) false).2, digitsVal_toDigits]
    have hm : Int.negSucc m ≥ i64Min := h.1
    have e : -(Int.ofNat (m + 1)) = Int.negSucc m := rfl
    rw [e]
    show (if Int.negSucc m ≥ 0 then _ else (if Int.negSucc m ≥ i64Min then Num.int (Int.negSucc m) else .unmodelled)) = _
    rw [if_neg (by omega), if_pos hm]

end PasskeyVerif.WJson
