import PasskeyVerif.Model.AuthData
namespace PasskeyVerif.AuthData
open PasskeyVerif.Generated

theorem forall_uint8 (P : UInt8 → Prop) (h : ∀ i : Fin 256, P (UInt8.ofNat i.val)) : ∀ f : UInt8, P f := by
  intro f
  have := h ⟨f.toNat, f.toNat_lt⟩
  simpa using this

theorem be16_roundtrip (n : Nat) (h : n ≤ 65535) :
    ofBe16 (UInt8.ofNat (n / 256)) (UInt8.ofNat (n % 256)) = n := by
  simp [ofBe16, UInt8.toNat_ofNat']; omega

theorem be32_roundtrip (n : Nat) (h : n < 4294967296) :
    ofBe32 (UInt8.ofNat (n / 16777216)) (UInt8.ofNat (n / 65536 % 256)) (UInt8.ofNat (n / 256 % 256))
      (UInt8.ofNat (n % 256)) = n := by
  simp [ofBe32, UInt8.toNat_ofNat']; omega

theorem or_AT_has_AT : ∀ f : UInt8, (f ||| Flags.AT) &&& Flags.AT = Flags.AT := by
  apply forall_uint8; decide +kernel

theorem or_ED_has_ED : ∀ f : UInt8, (f ||| Flags.ED) &&& Flags.ED = Flags.ED := by
  apply forall_uint8; decide +kernel

theorem fromBits_or_AT : ∀ f : UInt8, fromBits f = some f → fromBits (f ||| Flags.AT) = some (f ||| Flags.AT) := by
  apply forall_uint8; decide +kernel

/-- parameters standing for third-party CBOR code -/
structure CborIface where
  skip : Bytes → Option Nat
  validKey : Bytes → Bool
  IsItem : Bytes → Prop
  /-- the reader consumes exactly one item, whatever follows it -/
  skip_item : ∀ item rest, IsItem item → skip (item ++ rest) = some item.length
  /-- no proper prefix of an item is accepted -/
  skip_prefix : ∀ item p q, IsItem item → item = p ++ q → q ≠ [] → skip p = none

/-- values for which encoding and decoding is specified -/
structure WF (I : CborIface) (a : AuthData) : Prop where
  hash : a.rpIdHash.length = 32
  counter : a.counter.getD 0 < 4294967296
  flagsOk : fromBits a.flags = some a.flags
  atIff : a.acd.isSome = true ∨ a.flags &&& Flags.AT ≠ Flags.AT
  edIff : (a.ext.isSome = true ∧ a.flags &&& Flags.ED = Flags.ED) ∨ (a.ext = none ∧ a.flags &&& Flags.ED ≠ Flags.ED)
  acdOk : ∀ c, a.acd = some c → c.aaguid.length = 16 ∧ c.credId.length ≤ 65535 ∧ I.IsItem c.key ∧ I.validKey c.key = true
  extOk : ∀ e, a.ext = some e → I.IsItem e

theorem take_append_len {α} (a b : List α) (n : Nat) (h : a.length = n) : (a ++ b).take n = a := by
  subst h; simp

theorem drop_append_len {α} (a b : List α) (n : Nat) (h : a.length = n) : (a ++ b).drop n = b := by
  subst h; simp

/-- decoding an encoded attested-credential section, whatever follows it -/
theorem acd_roundtrip (I : CborIface) (c : Acd) (rest : Bytes)
    (h1 : c.aaguid.length = 16) (h2 : c.credId.length ≤ 65535) (h3 : I.IsItem c.key) (h4 : I.validKey c.key = true) :
    Acd.fromReader I.skip I.validKey (c.aaguid ++ be16 c.credId.length ++ c.credId ++ c.key ++ rest) = .ok (c, rest) := by
  unfold Acd.fromReader
  have hl : ¬ (c.aaguid ++ be16 c.credId.length ++ c.credId ++ c.key ++ rest).length < 16 := by
    simp [h1]
  rw [if_neg hl]
  dsimp only
  have e1 : c.aaguid ++ be16 c.credId.length ++ c.credId ++ c.key ++ rest
      = c.aaguid ++ (be16 c.credId.length ++ (c.credId ++ (c.key ++ rest))) := by simp [List.append_assoc]
  rw [e1, take_append_len _ _ 16 h1, drop_append_len _ _ 16 h1]
  simp only [be16, List.cons_append, List.nil_append]
  rw [be16_roundtrip _ h2]
  have hl2 : ¬ (c.credId ++ (c.key ++ rest)).length < c.credId.length := by simp
  rw [if_neg hl2]
  rw [take_append_len _ _ _ rfl, drop_append_len _ _ _ rfl, I.skip_item c.key rest h3]
  simp only [take_append_len _ _ _ rfl, drop_append_len _ _ _ rfl, h4, if_true]

end PasskeyVerif.AuthData
