/- Noninterference lemmas: what the caller gets back does not depend on the private scalar, nor on the
PRF secrets beyond the HMAC outputs asked for (used by Props/C06). -/
import PasskeyVerif.Lemmas.AuthCancel
namespace PasskeyVerif.Auth
open PasskeyVerif.Auth.Spec
open PasskeyVerif.AuthData (Bytes AuthData)

/-- the draws with another private scalar -/
def Draws.withD (dr : Draws) (d' : Bytes) : Draws := { dr with key := { dr.key with d := d' } }
/-- the draws with other PRF secrets -/
def Draws.withSecrets (dr : Draws) (a b : Bytes) : Draws := { dr with secretUv := a, secretNoUv := b }
/-- a passkey with another private scalar -/
def Passkey.withD (p : Passkey) (d' : Bytes) : Passkey := { p with key := { p.key with d := d' } }

theorem finishMake_result (cfg : Cfg) (s : Store) (dr : Draws) (req : MakeReq) (flags : UInt8)
    (prf : Option PrfMakeOut) (st : Option HmacSecret) :
    (finishMake cfg s dr req flags prf st).result =
      (match s.info.2.1.fault? with
       | some e => .error e
       | none => .ok { authData := makeAuthData cfg dr req flags (if cfg.counterOn then some 0 else none), unsignedPrf := prf }) := by
  unfold finishMake Store.save
  dsimp only
  cases s.info.2.1.fault? <;> rfl

theorem makeAfterConsent_result_withD (cfg : Cfg) (s : Store) (dr : Draws) (req : MakeReq) (flags : UInt8) (d' : Bytes) :
    (makeAfterConsent cfg s (dr.withD d') req flags).result = (makeAfterConsent cfg s dr req flags).result := by
  unfold makeAfterConsent
  dsimp only
  split
  · rfl
  · split
    · rfl
    · split
      · rfl
      · split
        · rfl
        · have : makeExtensions cfg (dr.withD d') req.ext req.uv = makeExtensions cfg dr req.ext req.uv := rfl
          rw [this]
          split
          · rfl
          · simp only [Outcome.prepend, finishMake_result]
            rfl

theorem makeCredential_result_withD (cfg : Cfg) (u : UvCfg) (s : Store) (dr : Draws) (req : MakeReq) (d' : Bytes) :
    (makeCredential cfg u s (dr.withD d') req).result = (makeCredential cfg u s dr req).result := by
  unfold makeCredential
  split
  · rfl
  · split
    · rfl
    · simp only [Outcome.prepend]
      exact makeAfterConsent_result_withD cfg s dr req _ d'

/-- the PRF output of registration does not depend on the drawn secrets unless an evaluation is asked for -/
theorem makeExtensions_output_withSecrets (cfg : Cfg) (dr : Draws) (request : Option MakeExtIn) (uv : Bool) (a b : Bytes)
    (hno : (request.bind (·.prf)).bind (·.eval) = none) :
    (makeExtensions cfg (dr.withSecrets a b) request uv).map (·.1) = (makeExtensions cfg dr request uv).map (·.1) := by
  cases request with
  | none => rfl
  | some r =>
    obtain ⟨hs, mc, prf⟩ := r
    cases prf with
    | none =>
      cases hc : cfg.hmac <;> cases hs <;> cases mc <;> simp [makeExtensions, makeHmacSecret, Draws.withSecrets, hc, Except.map]
    | some input =>
      obtain ⟨ev, ebc⟩ := input
      simp only [Option.bind] at hno
      subst hno
      cases hc : cfg.hmac with
      | none => cases hs <;> cases mc <;> simp [makeExtensions, makeHmacSecret, Draws.withSecrets, hc, Except.map]
      | some h =>
        cases hs with
        | none => cases hm : h.onMake <;> cases mc <;> simp [makeExtensions, makeHmacSecret, Draws.withSecrets, hc, hm, Except.map]
        | some bb => cases hm : h.onMake <;> cases mc <;> cases bb <;> simp [makeExtensions, makeHmacSecret, Draws.withSecrets, hc, hm, Except.map]

/-- everything of an assertion response except which private scalar signs -/
def GetResp.pub (r : GetResp) : Bytes × AuthData × Option Bytes × Option PrfValues × Bytes × Bytes × Bytes :=
  (r.credId, r.authData, r.userHandle, r.unsignedPrf, r.signed.message, r.signed.key.x, r.signed.key.y)

theorem signPhase_result_store (cfg : Cfg) (s s' : Store) (req : GetReq) (flags : UInt8) (cred : Passkey) :
    (signPhase cfg s req flags cred).result = (signPhase cfg s' req flags cred).result := by
  unfold signPhase
  split
  · rfl
  · split <;> rfl

theorem signPhase_pub_withD (cfg : Cfg) (s : Store) (req : GetReq) (flags : UInt8) (cred : Passkey) (d' : Bytes) :
    (signPhase cfg s req flags (cred.withD d')).result.map GetResp.pub = (signPhase cfg s req flags cred).result.map GetResp.pub := by
  unfold signPhase
  have : getExtensions cfg (cred.withD d') req.ext (flags &&& PasskeyVerif.Generated.Flags.UV != 0)
      = getExtensions cfg cred req.ext (flags &&& PasskeyVerif.Generated.Flags.UV != 0) := rfl
  rw [this]
  have hc : (cred.withD d').counter = cred.counter := rfl
  rw [hc]
  split
  · rfl
  · split <;> rfl

/-- whether the store accepts an update does not depend on the private scalar -/
theorem updateRaw_withD (kind : StoreKind) (items : List Passkey) (p : Passkey) (d' : Bytes) (e : Nat) :
    updateRaw kind items (p.withD d') = .error e ↔ updateRaw kind items p = .error e := by
  cases kind with
  | memoryMap => simp [updateRaw]
  | singleSlot => simp [updateRaw]
  | reference d =>
    unfold updateRaw
    have : (p.withD d').credId = p.credId := rfl
    rw [this]
    by_cases h : items.any (fun q => q.credId == p.credId) = true
    · rw [if_pos h, if_pos h]; simp
    · rw [if_neg h, if_neg h]

/-- the caller-visible part of an assertion does not depend on the stored private scalar -/
theorem getAfterConsent_pub_withD (cfg : Cfg) (s : Store) (req : GetReq) (flags : UInt8) (cred : Passkey) (d' : Bytes) :
    (getAfterConsent cfg s req flags (cred.withD d')).result.map GetResp.pub
      = (getAfterConsent cfg s req flags cred).result.map GetResp.pub := by
  unfold getAfterConsent
  cases hc : cred.counter with
  | none =>
    have : (cred.withD d').counter = none := hc
    simp only [this]
    exact signPhase_pub_withD cfg s req flags cred d'
  | some c =>
    have : (cred.withD d').counter = some c := hc
    simp only [this]
    unfold Store.update
    cases hf : s.fault? with
    | some f => rfl
    | none =>
      simp only
      have heq : ({ cred.withD d' with counter := some (bump c) } : Passkey) = ({ cred with counter := some (bump c) } : Passkey).withD d' := rfl
      rw [heq]
      have hu := updateRaw_withD s.kind s.items { cred with counter := some (bump c) } d'
      cases h1 : updateRaw s.kind s.items { cred with counter := some (bump c) } with
      | error e =>
        rw [(hu e).mpr h1]
      | ok l =>
        cases h2 : updateRaw s.kind s.items (({ cred with counter := some (bump c) } : Passkey).withD d') with
        | error e => have := (hu e).mp h2; rw [h1] at this; cases this
        | ok l' =>
          simp only [Outcome.prepend]
          rw [signPhase_result_store cfg _ { s.tick with items := l } req flags (({ cred with counter := some (bump c) } : Passkey).withD d')]
          exact signPhase_pub_withD cfg _ req flags { cred with counter := some (bump c) } d'

end PasskeyVerif.Auth
