import PasskeyVerif.Spec.Auth
import PasskeyVerif.Lemmas.AuthData
namespace PasskeyVerif.Auth
open PasskeyVerif.Auth.Spec PasskeyVerif.Generated
open PasskeyVerif.AuthData (Bytes AuthData)

/-! ### `check_user` -/

def flagsOf (p v : Bool) : UInt8 := (if p then Flags.UP else 0) ||| (if v then Flags.UV else 0)

theorem checkUser_ok (u : UvCfg) (up uv : Bool) (c : Option Bytes) (f : UInt8) (ev : List Event)
    (h : checkUser u up uv c = (.ok f, ev)) :
    ev = [.uv c up uv] ∧ ∃ p v, u.answer = .ok (p, v) ∧ (up = true → p = true) ∧ (uv = true → v = true)
      ∧ (uv = true → u.verification = some true) ∧ f = flagsOf p v := by
  unfold checkUser at h
  split at h
  · cases h
  · rename_i hcap
    dsimp only at h
    split at h
    · cases h
    · rename_i p v hans
      split at h
      · cases h
      · split at h
        · cases h
        · rename_i h1 h2
          cases h
          refine ⟨rfl, p, v, hans, ?_, ?_, ?_, rfl⟩
          · intro hu; subst hu; simpa using h1
          · intro hu; subst hu; simpa using h2
          · intro hu; subst hu; simpa using hcap

theorem checkUser_err (u : UvCfg) (up uv : Bool) (c : Option Bytes) (e : Nat) (ev : List Event)
    (h : checkUser u up uv c = (.error e, ev)) :
    (ev = [] ∧ uv = true ∧ u.verification ≠ some true ∧ e = eUnsupportedOption)
    ∨ (ev = [.uv c up uv] ∧ (uv = true → u.verification = some true)
        ∧ (u.answer = .error e
          ∨ (∃ p v, u.answer = .ok (p, v) ∧ e = eOperationDenied ∧ ((up = true ∧ p = false) ∨ (uv = true ∧ v = false))))) := by
  unfold checkUser at h
  split at h
  · rename_i hcap
    cases h
    left
    simp only [Bool.and_eq_true, bne_iff_ne, ne_eq] at hcap
    exact ⟨rfl, hcap.1, hcap.2, rfl⟩
  · rename_i hcap
    have hc : uv = true → u.verification = some true := by
      intro hu; subst hu; simpa using hcap
    dsimp only at h
    split at h
    · rename_i e' hans
      cases h
      right; exact ⟨rfl, hc, Or.inl hans⟩
    · rename_i p v hans
      split at h
      · rename_i h1
        cases h
        right
        refine ⟨rfl, hc, Or.inr ⟨p, v, hans, rfl, Or.inl ?_⟩⟩
        simpa using h1
      · split at h
        · rename_i h1 h2
          cases h
          right
          refine ⟨rfl, hc, Or.inr ⟨p, v, hans, rfl, Or.inr ?_⟩⟩
          simpa using h2
        · cases h

theorem checkUser_unsupported (u : UvCfg) (up uv : Bool) (c : Option Bytes)
    (h : (uv && u.verification != some true) = true) : checkUser u up uv c = (.error eUnsupportedOption, []) := by
  unfold checkUser; rw [if_pos h]

theorem checkUser_answer_error (u : UvCfg) (up uv : Bool) (c : Option Bytes) (e : Nat)
    (h : (uv && u.verification != some true) = false) (ha : u.answer = .error e) :
    checkUser u up uv c = (.error e, [.uv c up uv]) := by
  unfold checkUser; rw [if_neg (by simp [h])]; simp [ha]

theorem checkUser_denied (u : UvCfg) (up uv : Bool) (c : Option Bytes) (p v : Bool)
    (h : (uv && u.verification != some true) = false) (ha : u.answer = .ok (p, v))
    (hd : ((!up || p) && (!uv || v)) = false) :
    checkUser u up uv c = (.error eOperationDenied, [.uv c up uv]) := by
  unfold checkUser; rw [if_neg (by simp [h])]
  simp only [ha]
  cases up <;> cases uv <;> cases p <;> cases v <;> simp_all

/-! ### the consent scan of `c04_effect_after_consent` -/

theorem scan_seen (up uv : Bool) (l : List EvObs) : consentScan up uv l true = true := by
  induction l with
  | nil => rfl
  | cons e rest ih => simp only [consentScan]; split <;> simp [ih]

theorem scan_no_effect (up uv : Bool) (l : List EvObs) (seen : Bool) (h : ∀ e ∈ l, isEffect e = false) :
    consentScan up uv l seen = true := by
  induction l generalizing seen with
  | nil => rfl
  | cons e rest ih =>
    simp only [consentScan, h e (List.mem_cons_self), Bool.false_eq_true, if_false]
    exact ih _ (fun x hx => h x (List.mem_cons_of_mem _ hx))


theorem checkUser_result_indep (u : UvCfg) (up uv : Bool) (c1 c2 : Option Bytes) :
    (checkUser u up uv c1).1 = (checkUser u up uv c2).1 := by
  unfold checkUser
  split
  · rfl
  · dsimp only
    split
    · rfl
    · split
      · rfl
      · split <;> rfl

theorem consentGiven_of_checkUser_ok (env : Env) (op : OpReq) (c : Option Bytes) (f : UInt8) (ev : List Event)
    (h : checkUser env.uv op.up op.uvReq c = (.ok f, ev)) : consentGiven env op = true := by
  obtain ⟨_, p, v, hans, h1, h2, _, _⟩ := checkUser_ok _ _ _ _ _ _ h
  unfold consentGiven answered
  rw [hans]
  dsimp only
  cases hup : op.up <;> cases huv : op.uvReq <;> simp_all

theorem checkUser_err_of_missing (env : Env) (op : OpReq) (c : Option Bytes) (hm : consentMissing env op = true) :
    ∃ e ev, checkUser env.uv op.up op.uvReq c = (.error e, ev) := by
  cases hc : checkUser env.uv op.up op.uvReq c with
  | mk r ev =>
    cases r with
    | error e => exact ⟨e, ev, rfl⟩
    | ok f =>
      exfalso
      have hg := consentGiven_of_checkUser_ok env op c f ev hc
      obtain ⟨_, p, v, _, _, _, hcap, _⟩ := checkUser_ok _ _ _ _ _ _ hc
      unfold consentMissing at hm
      rw [hg] at hm
      simp only [Bool.not_true, Bool.false_or, Bool.and_eq_true, bne_iff_ne, ne_eq] at hm
      exact hm.2 (hcap hm.1)

/-! ### store observations -/

theorem storeObs_tick (s : Store) : storeObs s.tick = storeObs s := rfl

theorem find_store (s : Store) (ids : Option (List Bytes)) (rp : Bytes) : (s.find ids rp).2.1 = s.tick := rfl


/-! ### phases of `make_credential` -/

theorem excludePhase_items (s : Store) (req : MakeReq) : (excludePhase s req).2.1.items = s.items := by
  unfold excludePhase
  split
  · split <;> rfl
  · rfl

theorem excludePhase_no_effect (s : Store) (req : MakeReq) : ∀ e ∈ (excludePhase s req).2.2, isEffect (evObsOf e) = false := by
  unfold excludePhase
  split
  · split
    · intro e he; cases he
    · intro e he
      simp only [List.mem_singleton] at he
      subst he; rfl
  · intro e he; cases he

theorem rkPhase_items (s : Store) (req : MakeReq) : (rkPhase s req).2.1.items = s.items := by
  unfold rkPhase; split <;> rfl

theorem rkPhase_no_effect (s : Store) (req : MakeReq) : ∀ e ∈ (rkPhase s req).2.2, isEffect (evObsOf e) = false := by
  unfold rkPhase
  split
  · intro e he
    simp only [List.mem_singleton] at he
    subst he; rfl
  · intro e he; cases he

/-- the authenticator data a successful registration returns -/
def makeAuthData (cfg : Cfg) (dr : Draws) (req : MakeReq) (flags : UInt8) (ctr : Option Nat) : AuthData :=
  ((AuthData.new req.rpId ctr).setFlags flags).setAcd ⟨cfg.aaguid, dr.credId, coseKeyBytes dr.key⟩

theorem finishMake_ok (cfg : Cfg) (s : Store) (dr : Draws) (req : MakeReq) (flags : UInt8)
    (prf : Option PrfMakeOut) (st : Option HmacSecret) (r : MakeResp)
    (h : (finishMake cfg s dr req flags prf st).result = .ok r) :
    r.authData = makeAuthData cfg dr req flags (if cfg.counterOn then some 0 else none) ∧ r.unsignedPrf = prf := by
  unfold finishMake at h
  dsimp only at h
  split at h
  · cases h
  · simp only [Except.ok.injEq] at h
    subst h
    exact ⟨rfl, rfl⟩

theorem makeAfterConsent_ok (cfg : Cfg) (s : Store) (dr : Draws) (req : MakeReq) (flags : UInt8) (r : MakeResp)
    (h : (makeAfterConsent cfg s dr req flags).result = .ok r) :
    r.authData = makeAuthData cfg dr req flags (if cfg.counterOn then some 0 else none) := by
  unfold makeAfterConsent at h
  dsimp only at h
  split at h
  · cases h
  · split at h
    · cases h
    · split at h
      · cases h
      · split at h
        · cases h
        · split at h
          · cases h
          · exact (finishMake_ok _ _ _ _ _ _ _ _ h).1

/-- byte 32 of an encoding is the flag byte -/
theorem flagByte_of_toVec (a : AuthData) (bs : Bytes) (hh : a.rpIdHash.length = 32) (h : a.toVec = some bs) :
    authDataFlags bs = (if a.acd.isSome then a.flags ||| Flags.AT else a.flags) := by
  unfold AuthData.toVec at h
  dsimp only at h
  split at h
  · cases h
  · simp only [Option.some.injEq] at h
    subst h
    unfold authDataFlags
    simp only [List.append_assoc, List.singleton_append]
    rw [List.getD_eq_getElem?_getD, List.getElem?_append_right (by omega)]
    simp [hh]

/-! ### phases of `get_assertion` -/

theorem signPhase_ok (cfg : Cfg) (s : Store) (req : GetReq) (flags : UInt8) (cred : Passkey) (r : GetResp)
    (h : (signPhase cfg s req flags cred).result = .ok r) :
    r.authData = (AuthData.new req.rpId cred.counter).setFlags flags ∧ r.credId = cred.credId
      ∧ r.userHandle = cred.userHandle ∧ r.signed.key = cred.key
      ∧ (∃ ad, r.authData.toVec = some ad ∧ r.signed.message = ad ++ req.cdh) := by
  unfold signPhase at h
  split at h
  · cases h
  · split at h
    · cases h
    · rename_i ad had
      simp only [Except.ok.injEq] at h
      subst h
      exact ⟨rfl, rfl, rfl, rfl, ad, had, rfl⟩

theorem signPhase_trace (cfg : Cfg) (s : Store) (req : GetReq) (flags : UInt8) (cred : Passkey) :
    (signPhase cfg s req flags cred).trace = [] ∧ (signPhase cfg s req flags cred).store = s := by
  unfold signPhase
  split
  · exact ⟨rfl, rfl⟩
  · split <;> exact ⟨rfl, rfl⟩

theorem getAfterConsent_ok (cfg : Cfg) (s : Store) (req : GetReq) (flags : UInt8) (cred : Passkey) (r : GetResp)
    (h : (getAfterConsent cfg s req flags cred).result = .ok r) :
    (∃ ctr, r.authData = (AuthData.new req.rpId ctr).setFlags flags) ∧ r.credId = cred.credId
      ∧ r.userHandle = cred.userHandle ∧ r.signed.key = cred.key := by
  unfold getAfterConsent at h
  split at h
  · dsimp only at h
    split at h
    · cases h
    · obtain ⟨h1, h2, h3, h4, _⟩ := signPhase_ok _ _ _ _ _ _ h
      exact ⟨⟨_, h1⟩, h2, h3, h4⟩
  · obtain ⟨h1, h2, h3, h4, _⟩ := signPhase_ok _ _ _ _ _ _ h
    exact ⟨⟨_, h1⟩, h2, h3, h4⟩

/-! ### error codes of the later phases, stores without injected faults -/

theorem chooseAlgorithm_err (cfg : Cfg) (params : List Int) (e : Nat) (h : chooseAlgorithm cfg params = .error e) :
    e = eUnsupportedAlgorithm := by
  unfold chooseAlgorithm at h
  split at h
  · cases h
  · cases h; rfl

theorem calculateHmacSecret_err (creds : HmacSecret) (salts : PrfValues) (hc : HmacCfg) (uv : Bool) (e : Nat)
    (h : calculateHmacSecret creds salts hc uv = .error e) : e = eUserVerificationBlocked := by
  unfold calculateHmacSecret at h
  dsimp only at h
  split at h
  · rename_i e' hcr
    cases h
    split at hcr
    · cases hcr
    · split at hcr
      · cases hcr
      · cases hcr; rfl
  · cases h

theorem makeExtensions_err (cfg : Cfg) (dr : Draws) (r : Option MakeExtIn) (uv : Bool) (e : Nat)
    (h : makeExtensions cfg dr r uv = .error e) : e = eUserVerificationBlocked := by
  unfold makeExtensions at h
  dsimp only at h
  split at h
  · rename_i e' hp
    cases h
    split at hp
    · cases hp
    · split at hp
      · cases hp
      · split at hp
        · cases hp
        · split at hp
          · cases hp
          · split at hp
            · split at hp
              · cases hp
              · split at hp
                · cases hp
                · rename_i hcalc
                  cases hp
                  exact calculateHmacSecret_err _ _ _ _ _ hcalc
            · cases hp
  · cases h

theorem fault_none_of_nofaults (s : Store) (h : s.faults = []) : s.fault? = none := by
  unfold Store.fault?; rw [h]; rfl

theorem finishMake_ok_of_nofaults (cfg : Cfg) (s : Store) (dr : Draws) (req : MakeReq) (flags : UInt8)
    (prf : Option PrfMakeOut) (st : Option HmacSecret) (h : s.faults = []) :
    ∃ r, (finishMake cfg s dr req flags prf st).result = .ok r := by
  unfold finishMake
  dsimp only
  have : (s.info.2.1).fault? = none := fault_none_of_nofaults _ h
  unfold Store.save
  rw [this]
  exact ⟨_, rfl⟩

theorem excludePhase_faults (s : Store) (req : MakeReq) : (excludePhase s req).2.1.faults = s.faults := by
  unfold excludePhase
  split
  · split <;> rfl
  · rfl

theorem rkPhase_faults (s : Store) (req : MakeReq) : (rkPhase s req).2.1.faults = s.faults := by
  unfold rkPhase; split <;> rfl

/-- without injected faults, the result is credential-excluded exactly when the exclude phase says so -/
theorem makeAfterConsent_excluded_iff (cfg : Cfg) (s : Store) (dr : Draws) (req : MakeReq) (flags : UInt8)
    (hnf : s.faults = []) :
    (makeAfterConsent cfg s dr req flags).result = .error eCredentialExcluded ↔ (excludePhase s req).1 = true := by
  unfold makeAfterConsent
  dsimp only
  by_cases he : (excludePhase s req).1 = true
  · simp [he]
  · simp only [he, Bool.false_eq_true, if_false, iff_false]
    split
    · rename_i e hch
      rw [chooseAlgorithm_err _ _ _ hch]; intro h; cases h
    · split
      · intro h; cases h
      · split
        · intro h; cases h
        · split
          · rename_i e hme
            rw [makeExtensions_err _ _ _ _ _ hme]; intro h; cases h
          · rename_i prfOut stored _
            obtain ⟨r, hr⟩ := finishMake_ok_of_nofaults cfg (rkPhase (excludePhase s req).2.1 req).2.1 dr req flags prfOut stored
              (by rw [rkPhase_faults, excludePhase_faults, hnf])
            simp only [Outcome.prepend, hr]
            intro h; cases h

/-- the passkey handed to the store carries the configured initial counter -/
theorem save_counter_of_makeAfterConsent (cfg : Cfg) (s : Store) (dr : Draws) (req : MakeReq) (flags : UInt8)
    (p : Passkey) (uid : Bytes) (rk up uv : Bool) (f : Option Nat)
    (h : Event.save p uid rk up uv f ∈ (makeAfterConsent cfg s dr req flags).trace) :
    p.counter = (if cfg.counterOn then some 0 else none) := by
  unfold makeAfterConsent at h
  dsimp only at h
  have hex : ∀ e ∈ (excludePhase s req).2.2, e ≠ Event.save p uid rk up uv f := by
    intro e he heq
    have := excludePhase_no_effect s req e he
    rw [heq] at this; cases this
  have hrk : ∀ e ∈ (rkPhase (excludePhase s req).2.1 req).2.2, e ≠ Event.save p uid rk up uv f := by
    intro e he heq
    have := rkPhase_no_effect (excludePhase s req).2.1 req e he
    rw [heq] at this; cases this
  have hpre : Event.save p uid rk up uv f ∉ (excludePhase s req).2.2 ++ (rkPhase (excludePhase s req).2.1 req).2.2 := by
    intro hm
    rw [List.mem_append] at hm
    rcases hm with hm | hm
    · exact hex _ hm rfl
    · exact hrk _ hm rfl
  split at h
  · exact absurd h (fun hm => hex _ hm rfl)
  · split at h
    · exact absurd h (fun hm => hex _ hm rfl)
    · split at h
      · exact absurd h hpre
      · split at h
        · exact absurd h hpre
        · split at h
          · exact absurd h hpre
          · simp only [Outcome.prepend, List.mem_append] at h
            rcases h with h | h
            · exact absurd (List.mem_append.mpr h) hpre
            · unfold finishMake at h
              dsimp only at h
              have hsv : ∀ st : Store, ∀ pk : Passkey, (st.save pk req.userId req.rk req.up req.uv).2.2 = Event.save p uid rk up uv f →
                  pk = p := by
                intro st pk hh
                unfold Store.save at hh
                split at hh <;> (simp only [Event.save.injEq] at hh; exact hh.1)
              split at h <;>
              · simp only [List.mem_cons, List.not_mem_nil, or_false] at h
                rcases h with h | h
                · unfold Store.info at h; cases h
                · have := hsv _ _ h.symm
                  rw [← this]; rfl

theorem find_event (s : Store) (ids : Option (List Bytes)) (rp : Bytes) :
    ∃ r, (s.find ids rp).2.2 = Event.find ids rp r := ⟨_, rfl⟩

theorem getD_append_len {α} (l1 l2 : List α) (n j : Nat) (d : α) (h : l1.length = n) :
    (l1 ++ l2).getD (n + j) d = l2.getD j d := by
  subst h
  rw [List.getD_eq_getElem?_getD, List.getD_eq_getElem?_getD, List.getElem?_append_right (by omega)]
  simp

theorem up_bit_of_flags (p v : Bool) (extra : UInt8) (h : extra &&& (Flags.UP ||| Flags.UV) = 0) :
    (((Flags.DEFAULT ||| flagsOf p v) ||| extra) &&& AuthData.Spec.bitUP != 0) = p
    ∧ (((Flags.DEFAULT ||| flagsOf p v) ||| extra) &&& AuthData.Spec.bitUV != 0) = v := by
  revert h
  revert extra
  cases p <;> cases v <;> (apply AuthData.forall_uint8; decide +kernel)

end PasskeyVerif.Auth
