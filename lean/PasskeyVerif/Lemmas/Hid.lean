import PasskeyVerif.Spec.Hid
namespace PasskeyVerif.Hid
open Spec

/-! ### small facts -/

theorem Chan.bytes_length (c : Chan) : c.bytes.length = 4 := rfl

theorem u16be_length (n : Nat) : (u16be n).length = 2 := rfl

theorem u16_roundtrip (n : Nat) (h : n < 65536) :
    u16ofBe (UInt8.ofNat (n / 256)) (UInt8.ofNat (n % 256)) = n := by
  simp [u16ofBe, UInt8.toNat_ofNat']
  omega

theorem cmd_desc (c : Command) : c.encode &&& descBit = descBit := by
  cases c <;> decide

theorem cmd_roundtrip (c : Command) : Command.ofByte (c.encode &&& ~~~descBit) = some c := by
  cases c <;> decide

theorem seq_not_desc : ∀ i : Fin 128, (UInt8.ofNat i.val) &&& descBit ≠ descBit := by decide

theorem seq_toNat (i : Nat) (h : i < 128) : (UInt8.ofNat i).toNat = i := by
  simp [UInt8.toNat_ofNat']; omega

/-! ### writing into the re-used buffer -/

theorem zeroFrom_length (buf : Bytes) (n : Nat) (h : n ≤ buf.length) : (zeroFrom buf n).length = buf.length := by
  simp [zeroFrom, List.length_take]; omega

theorem zeroFrom_drop (buf : Bytes) (n : Nat) (h : n ≤ buf.length) :
    (zeroFrom buf n).drop n = List.replicate (buf.length - n) 0 := by
  unfold zeroFrom
  rw [List.drop_left']
  simp [List.length_take]; omega

theorem writeAt_zero (buf hdr : Bytes) (h : hdr.length ≤ buf.length) :
    writeAt buf 0 hdr = some (hdr ++ buf.drop hdr.length) := by
  simp [writeAt, h]

theorem writeAt_after (hdr tail data : Bytes) (h : data.length ≤ tail.length) :
    writeAt (hdr ++ tail) hdr.length data = some (hdr ++ data ++ tail.drop data.length) := by
  unfold writeAt
  have : hdr.length + data.length ≤ (hdr ++ tail).length := by simp; omega
  rw [if_pos this]
  congr 1
  rw [List.take_left' rfl, List.drop_append]
  simp


/-- what `encode` leaves in a 64-byte buffer whose tail (after header and data) is already right:
either the data fills the packet or the tail was zeroed. -/
theorem encode_init (ch : Chan) (cmd : Command) (plen : Nat) (data buf : Bytes)
    (hb : buf.length = 64) (hd : data.length ≤ 57) (hp : plen ≤ 65535)
    (ht : buf.drop (7 + data.length) = List.replicate (57 - data.length) 0) :
    (PacketHeader.initialization ⟨ch, cmd, plen⟩).encode data buf
      = some (ch.bytes ++ [cmd.encode] ++ u16be plen ++ data ++ List.replicate (57 - data.length) 0) := by
  have hlen : (ch.bytes ++ [cmd.encode] ++ u16be plen).length = 7 := rfl
  unfold PacketHeader.encode
  simp only [show ¬ plen > 65535 by omega, if_false]
  rw [writeAt_zero _ _ (by rw [hlen, hb]; omega)]
  dsimp only
  have c1 : initMax = 57 := rfl
  have c2 : initHdr = 7 := rfl
  have h1 : ¬ ((if data.length < initMax then data.length else initMax) + initHdr - initHdr ≠ data.length) := by
    split <;> omega
  rw [if_neg h1, hlen, c2]
  have := writeAt_after (ch.bytes ++ [cmd.encode] ++ u16be plen) (buf.drop 7) data
    (by simp [List.length_drop, hb]; omega)
  rw [hlen] at this
  rw [this, List.drop_drop, ht]

theorem encode_cont (ch : Chan) (seq : UInt8) (data buf : Bytes)
    (hb : buf.length = 64) (hd : data.length ≤ 59)
    (ht : buf.drop (5 + data.length) = List.replicate (59 - data.length) 0) :
    (PacketHeader.continuation ⟨ch, seq⟩).encode data buf
      = some (ch.bytes ++ [seq] ++ data ++ List.replicate (59 - data.length) 0) := by
  have hlen : (ch.bytes ++ [seq]).length = 5 := rfl
  unfold PacketHeader.encode
  simp only
  rw [writeAt_zero _ _ (by rw [hlen, hb]; omega)]
  dsimp only
  have c1 : contMax = 59 := rfl
  have c2 : contHdr = 5 := rfl
  have h1 : ¬ ((if data.length < contMax then data.length else contMax) + contHdr - contHdr ≠ data.length) := by
    split <;> omega
  rw [if_neg h1, hlen, c2]
  have := writeAt_after (ch.bytes ++ [seq]) (buf.drop 5) data
    (by simp [List.length_drop, hb]; omega)
  rw [hlen] at this
  rw [this, List.drop_drop, ht]


theorem chunks_nil (n : Nat) : chunks n [] = [] := by
  rw [chunks]; simp

theorem chunks_cons (n : Nat) (l : Bytes) (hl : l ≠ []) (hn : n ≠ 0) :
    chunks n l = l.take n :: chunks n (l.drop n) := by
  rw [chunks]; simp [hl, hn]

theorem specCont_nil (ch : Chan) (s : Nat) : Spec.contPackets ch s [] = [] := by
  rw [Spec.contPackets]; simp

theorem specCont_cons (ch : Chan) (s : Nat) (rest : Bytes) (h : rest ≠ []) :
    Spec.contPackets ch s rest
      = Spec.contPacket ch s (rest.take contData) :: Spec.contPackets ch (s + 1) (rest.drop contData) := by
  rw [Spec.contPackets]; simp [h]

theorem contPacket_length (ch : Chan) (s : Nat) (c : Bytes) (h : c.length ≤ 59) :
    (Spec.contPacket ch s c).length = 64 := by
  simp [Spec.contPacket, Spec.pad, Spec.packetSize, Chan.bytes]; omega

theorem sendLoop_conts (ch : Chan) (rest : Bytes) : ∀ (s : Nat) (buf : Bytes) (last : Nat),
    buf.length = 64 → s + (chunks contMax rest).length = last →
    sendLoop last (s + 1) buf (contPackets ch s (chunks contMax rest)) = some (Spec.contPackets ch s rest) := by
  induction h : rest.length using Nat.strongRecOn generalizing rest with
  | _ n ih =>
    intro s buf last hb hl
    by_cases hr : rest = []
    · subst hr; simp [chunks_nil, contPackets, sendLoop, specCont_nil]
    · have hpos : 0 < rest.length := List.length_pos_iff.mpr hr
      have c59 : contMax = 59 := rfl
      rw [chunks_cons _ _ hr (by decide)] at hl ⊢
      rw [specCont_cons _ _ _ hr]
      simp only [contPackets, sendLoop]
      have hclen : (rest.take contMax).length ≤ 59 := by simp [List.length_take, c59]; omega
      have henc : ∀ b : Bytes, b.length = 64 →
          b.drop (5 + (rest.take contMax).length) = List.replicate (59 - (rest.take contMax).length) 0 →
          (PacketHeader.continuation ⟨ch, UInt8.ofNat s⟩).encode (rest.take contMax) b
            = some (Spec.contPacket ch s (rest.take contData)) := by
        intro b hb' ht
        rw [encode_cont ch _ _ b hb' hclen ht]
        simp [Spec.contPacket, Spec.pad, Spec.packetSize, Chan.bytes, Spec.contData, c59]
      have hrec := ih (rest.drop contMax).length (by simp [List.length_drop, c59]; omega)
        (rest.drop contMax) rfl (s + 1)
      by_cases hlast : s + 1 = last
      · -- last packet: the tail is zeroed first
        have hdnil : chunks contMax (rest.drop contMax) = [] := by
          simp only [List.length_cons] at hl
          have : (chunks contMax (rest.drop contMax)).length = 0 := by omega
          exact List.length_eq_zero_iff.mp this
        rw [if_pos hlast]
        have hz : (PacketHeader.continuation ⟨ch, UInt8.ofNat s⟩).len = 5 := rfl
        rw [henc _ (by rw [zeroFrom_length _ _ (by rw [hz, hb]; omega)]; exact hb)
              (by rw [hz, zeroFrom_drop _ _ (by rw [hb]; omega), hb]; congr 1; omega)]
        have hdrop : rest.drop contMax = [] := by
          apply Classical.byContradiction
          intro hne
          rw [chunks_cons _ _ hne (by decide)] at hdnil
          exact List.cons_ne_nil _ _ hdnil
        simp only [Spec.contData, ← c59, hdrop, chunks_nil, contPackets, sendLoop, specCont_nil]
      · rw [if_neg hlast]
        -- not last: the chunk is full
        have hfull : (rest.take contMax).length = 59 := by
          simp only [List.length_cons] at hl
          have hne : chunks contMax (rest.drop contMax) ≠ [] := by
            intro e; rw [e] at hl; simp at hl; omega
          have : rest.drop contMax ≠ [] := by
            intro e; rw [e, chunks_nil] at hne; exact hne rfl
          have : 0 < (rest.drop contMax).length := List.length_pos_iff.mpr this
          simp [List.length_drop, c59] at this
          simp [List.length_take, c59]; omega
        rw [henc buf hb (by rw [hfull, List.drop_of_length_le (by omega)]; rfl)]
        have hl' : s + 1 + (chunks contMax (rest.drop contMax)).length = last := by
          simp only [List.length_cons] at hl; omega
        have := hrec (Spec.contPacket ch s (rest.take contData)) last
          (contPacket_length _ _ _ (by simpa [Spec.contData, c59] using hclen)) hl'
        simp only [Spec.contData, ← c59] at this ⊢
        rw [this]


theorem new_some (ch : Chan) (cmd : Command) (data : Bytes) (m : Msg) (h : Msg.new ch cmd data = some m) :
    m = { channel := ch, command := cmd, sequence := 0, payloadLen := data.length, payload := data }
    ∧ data.length ≤ 7608 := by
  unfold Msg.new at h
  have c57 : initMax = 57 := rfl
  have c59 : contMax = 59 := rfl
  split at h
  · cases h
  · dsimp only at h
    split at h
    · cases h
    · rename_i h1 h2
      refine ⟨(Option.some.inj h).symm, ?_⟩
      rw [c57, c59] at h2
      omega

theorem new_accepts (ch : Chan) (cmd : Command) (data : Bytes) (h : data.length ≤ 7608) :
    Msg.new ch cmd data
      = some { channel := ch, command := cmd, sequence := 0, payloadLen := data.length, payload := data } := by
  unfold Msg.new
  have c57 : initMax = 57 := rfl
  have c59 : contMax = 59 := rfl
  rw [if_neg (by omega), if_neg (by rw [c57, c59]; omega)]

theorem new_refuses (ch : Chan) (cmd : Command) (data : Bytes) (h : data.length > 7608) :
    Msg.new ch cmd data = none := by
  unfold Msg.new
  have c57 : initMax = 57 := rfl
  have c59 : contMax = 59 := rfl
  by_cases h1 : data.length > 65535
  · rw [if_pos h1]
  · rw [if_neg h1, if_pos (by rw [c57, c59]; omega)]

theorem initPacket_length (ch : Chan) (cmd : Command) (data : Bytes) :
    (Spec.initPacket ch cmd data).length = 64 := by
  simp [Spec.initPacket, Spec.pad, Spec.packetSize, Chan.bytes, Spec.initData, List.length_take]; omega

theorem send_eq_spec (ch : Chan) (cmd : Command) (data : Bytes) (m : Msg)
    (h : Msg.new ch cmd data = some m) : m.send = some (Spec.packets ch cmd data) := by
  obtain ⟨rfl, hlen⟩ := new_some ch cmd data m h
  have c57 : initMax = 57 := rfl
  have c59 : contMax = 59 := rfl
  unfold Msg.send Msg.toPackets Spec.packets
  dsimp only
  by_cases hs : data.length ≤ initMax
  · rw [if_pos hs]
    simp only [List.length_cons, List.length_nil, sendLoop, if_true]
    rw [c57] at hs
    have hz : (PacketHeader.initialization ⟨ch, cmd, data.length⟩).len = 7 := rfl
    have hbl : (List.replicate maxPacket (0:UInt8)).length = 64 := by simp [maxPacket]
    rw [encode_init ch cmd data.length data _
          (by rw [zeroFrom_length _ _ (by rw [hz, hbl]; omega)]; exact hbl) hs (by omega)
          (by rw [hz, zeroFrom_drop _ _ (by rw [hbl]; omega), hbl]; congr 1; omega)]
    have hd : data.drop Spec.initData = [] := List.drop_of_length_le (by simpa [Spec.initData] using hs)
    rw [hd, specCont_nil]
    simp [Spec.initPacket, Spec.pad, Spec.packetSize, Chan.bytes, Spec.initData, u16be, Command.encode, descBit,
      List.take_of_length_le hs]
  · rw [if_neg hs]
    rw [c57] at hs
    have hne : data.drop initMax ≠ [] := by
      intro e
      have := congrArg List.length e
      simp [List.length_drop, c57] at this; omega
    have hcl : (chunks contMax (data.drop initMax)).length ≠ 0 := by
      rw [chunks_cons _ _ hne (by decide)]; simp
    simp only [List.length_cons, sendLoop]
    have : ¬ (0 = (contPackets ch 0 (chunks contMax (data.drop initMax))).length + 1 - 1) := by
      have : (contPackets ch 0 (chunks contMax (data.drop initMax))).length
          = (chunks contMax (data.drop initMax)).length := by
        generalize chunks contMax (data.drop initMax) = cs
        generalize 0 = k
        induction cs generalizing k with
        | nil => rfl
        | cons c cs ih => simp [contPackets, ih]
      omega
    rw [if_neg this]
    have hbl : (List.replicate maxPacket (0:UInt8)).length = 64 := by simp [maxPacket]
    have htl : (data.take initMax).length = 57 := by simp [List.length_take, c57]; omega
    rw [encode_init ch cmd data.length (data.take initMax) _ hbl (by omega) (by omega)
          (by rw [htl, List.drop_of_length_le (by rw [hbl]; omega)]; rfl)]
    have hpk : ch.bytes ++ [cmd.encode] ++ u16be data.length ++ data.take initMax
          ++ List.replicate (57 - (data.take initMax).length) 0 = Spec.initPacket ch cmd data := by
      simp [Spec.initPacket, Spec.pad, Spec.packetSize, Chan.bytes, Spec.initData, u16be, Command.encode, descBit,
        c57]
    rw [hpk]
    have hcount : (contPackets ch 0 (chunks contMax (data.drop initMax))).length
          = (chunks contMax (data.drop initMax)).length := by
      generalize chunks contMax (data.drop initMax) = cs
      generalize 0 = k
      induction cs generalizing k with
      | nil => rfl
      | cons c cs ih => simp [contPackets, ih]
    have := sendLoop_conts ch (data.drop initMax) 0 (Spec.initPacket ch cmd data)
      ((chunks contMax (data.drop initMax)).length) (initPacket_length _ _ _) (by omega)
    simp only [Nat.zero_add] at this
    rw [hcount]
    simp only [Nat.add_sub_cancel, Spec.initData, ← c57]
    rw [this]


/-! ### receiving -/

theorem initPacket_cons (ch : Chan) (cmd : Command) (data : Bytes) :
    Spec.initPacket ch cmd data = ch.b0 :: ch.b1 :: ch.b2 :: ch.b3 :: cmd.encode ::
      UInt8.ofNat (data.length / 256) :: UInt8.ofNat (data.length % 256) ::
      (data.take 57 ++ List.replicate (57 - (data.take 57).length) 0) := by
  simp [Spec.initPacket, Spec.pad, Spec.packetSize, Chan.bytes, Spec.initData, Command.encode, descBit]

theorem contPacket_cons (ch : Chan) (s : Nat) (c : Bytes) :
    Spec.contPacket ch s c = ch.b0 :: ch.b1 :: ch.b2 :: ch.b3 :: UInt8.ofNat s ::
      (c ++ List.replicate (59 - c.length) 0) := by
  simp [Spec.contPacket, Spec.pad, Spec.packetSize, Chan.bytes]

theorem parse_init (ch : Chan) (cmd : Command) (data : Bytes) (h : data.length ≤ 65535) :
    PacketHeader.tryFrom (Spec.initPacket ch cmd data)
      = some (.initialization ⟨ch, cmd, data.length⟩, data.take 57) := by
  have hl := initPacket_length ch cmd data
  unfold PacketHeader.tryFrom
  rw [if_neg (by rw [hl]; decide)]
  rw [initPacket_cons]
  dsimp only
  rw [if_pos (cmd_desc cmd)]
  unfold InitHeader.tryFrom
  dsimp only
  rw [cmd_roundtrip, u16_roundtrip _ (by omega)]
  dsimp only
  have c57 : initMax = 57 := rfl
  by_cases hb : data.length > initMax
  · rw [if_pos hb]
    have : (data.take 57).length = 57 := by simp [List.length_take]; omega
    simp [this]
  · rw [if_neg hb]
    have ht : data.take 57 = data := List.take_of_length_le (by omega)
    rw [ht, if_pos (by simp)]
    simp

theorem parse_cont (ch : Chan) (s : Nat) (c : Bytes) (hs : s < 128) (hc : c.length ≤ 59) :
    PacketHeader.tryFrom (Spec.contPacket ch s c)
      = some (.continuation ⟨ch, UInt8.ofNat s⟩, c ++ List.replicate (59 - c.length) 0) := by
  have hl := contPacket_length ch s c hc
  unfold PacketHeader.tryFrom
  rw [if_neg (by rw [hl]; decide)]
  rw [contPacket_cons]
  dsimp only
  rw [if_neg (seq_not_desc ⟨s, hs⟩)]


theorem feed_cons (t : Table) (p : Bytes) (ps : List Bytes) :
    feed t (p :: ps) = ((feed (handlePacket t p).1 ps).1, (handlePacket t p).2 :: (feed (handlePacket t p).1 ps).2) := rfl

theorem specCont_length_pos (ch : Chan) (s : Nat) (rest : Bytes) (h : rest ≠ []) :
    0 < (Spec.contPackets ch s rest).length := by
  rw [specCont_cons _ _ _ h]; simp

/-- Feeding the continuation packets of the remaining bytes `rest` to a handler holding the partial
message `m` on channel `ch` delivers nothing until the last packet, then the completed message. -/
theorem feed_conts (ch : Chan) (rest : Bytes) : ∀ (t : Table) (m : Msg) (s : Nat),
    t ch = some m → m.channel = ch → m.sequence = s → s + (rest.length + 58) / 59 ≤ 128 →
    m.payload.length + rest.length = m.payloadLen → rest ≠ [] →
    (feed t (Spec.contPackets ch s rest)).2
        = List.replicate ((Spec.contPackets ch s rest).length - 1) none
          ++ [some { m with sequence := s + (Spec.contPackets ch s rest).length, payload := m.payload ++ rest }]
      ∧ (∀ c, c ≠ ch → (feed t (Spec.contPackets ch s rest)).1 c = t c)
      ∧ (feed t (Spec.contPackets ch s rest)).1 ch = none := by
  induction h : rest.length using Nat.strongRecOn generalizing rest with
  | _ n ih =>
    intro t m s htm hmc hms hcount hlen hr
    have hpos : 0 < rest.length := List.length_pos_iff.mpr hr
    have hs : s < 128 := by omega
    rw [specCont_cons _ _ _ hr, feed_cons]
    have htk : (rest.take Spec.contData).length ≤ 59 := by simp [List.length_take, Spec.contData]; omega
    have hparse := parse_cont ch s (rest.take Spec.contData) hs htk
    have c59 : contMax = 59 := rfl
    by_cases hshort : rest.length ≤ 59
    · -- last packet
      have htake : rest.take Spec.contData = rest := List.take_of_length_le (by simpa [Spec.contData] using hshort)
      have hdrop : rest.drop Spec.contData = [] := List.drop_of_length_le (by simpa [Spec.contData] using hshort)
      have hstep : handlePacket t (Spec.contPacket ch s (rest.take Spec.contData))
          = (t.remove ch, some { m with sequence := s + 1, payload := m.payload ++ rest }) := by
        unfold handlePacket
        rw [hparse]
        dsimp only
        rw [htm]
        dsimp only
        unfold Msg.extend
        dsimp only
        rw [if_neg (by simp [hmc]), if_pos (by rw [seq_toNat s hs, hms])]
        have hrem : m.payloadLen - m.payload.length = rest.length := by omega
        rw [hrem, if_pos (by rw [c59]; exact hshort), htake, if_pos (by simp)]
        simp [hms]
      rw [hstep, hdrop, specCont_nil]
      simp [feed, Table.remove]
      intro c hc; simp [hc]
    · -- not last
      have hfull : (rest.take Spec.contData).length = 59 := by simp [List.length_take, Spec.contData]; omega
      have hdne : rest.drop Spec.contData ≠ [] := by
        intro e; have := congrArg List.length e; simp [List.length_drop, Spec.contData] at this; omega
      let m' : Msg := { m with sequence := s + 1, payload := m.payload ++ rest.take Spec.contData }
      have hstep : handlePacket t (Spec.contPacket ch s (rest.take Spec.contData))
          = (t.insert ch m', none) := by
        unfold handlePacket
        rw [hparse]
        dsimp only
        rw [htm]
        dsimp only
        unfold Msg.extend
        dsimp only
        rw [if_neg (by simp [hmc]), if_pos (by rw [seq_toNat s hs, hms])]
        have hrem : m.payloadLen - m.payload.length = rest.length := by omega
        rw [hrem, if_neg (by rw [c59]; exact hshort)]
        simp [hfull, m', hms]
      rw [hstep]
      dsimp only
      have hrec := ih (rest.drop Spec.contData).length
        (by simp [List.length_drop, Spec.contData]; omega) (rest.drop Spec.contData) rfl
        (t.insert ch m') m' (s + 1) (by simp [Table.insert]) hmc rfl
        (by simp [List.length_drop, Spec.contData]; omega)
        (by simp [m', List.length_drop, List.length_take, Spec.contData]; omega) hdne
      obtain ⟨h1, h2, h3⟩ := hrec
      refine ⟨?_, ?_, h3⟩
      · rw [h1]
        have hp := specCont_length_pos ch (s + 1) _ hdne
        simp only [List.length_cons, Nat.add_sub_cancel]
        have : (Spec.contPackets ch (s + 1) (rest.drop Spec.contData)).length
            = ((Spec.contPackets ch (s + 1) (rest.drop Spec.contData)).length - 1) + 1 := by omega
        rw [this, List.replicate_succ]
        simp [m', List.append_assoc, List.take_append_drop]
        omega
      · intro c hc
        rw [h2 c hc]
        simp [Table.insert, hc]


/-- one whole message through the receiver -/
theorem feed_packets (ch : Chan) (cmd : Command) (data : Bytes) (hd : data.length ≤ 7608) (t : Table) :
    (feed t (Spec.packets ch cmd data)).2
        = List.replicate ((Spec.packets ch cmd data).length - 1) none
          ++ [some { channel := ch, command := cmd, sequence := (Spec.packets ch cmd data).length - 1,
                     payloadLen := data.length, payload := data }]
      ∧ (∀ c, c ≠ ch → (feed t (Spec.packets ch cmd data)).1 c = t c)
      ∧ (57 < data.length → (feed t (Spec.packets ch cmd data)).1 ch = none) := by
  unfold Spec.packets
  rw [feed_cons]
  have hparse := parse_init ch cmd data (by omega)
  by_cases hs : data.length ≤ 57
  · have hdrop : data.drop Spec.initData = [] := List.drop_of_length_le (by simpa [Spec.initData] using hs)
    have htake : data.take 57 = data := List.take_of_length_le hs
    have hstep : handlePacket t (Spec.initPacket ch cmd data)
        = (t, some { channel := ch, command := cmd, sequence := 0, payloadLen := data.length, payload := data }) := by
      unfold handlePacket
      rw [hparse, htake]
      simp [Msg.init, Msg.isComplete]
    rw [hstep, hdrop, specCont_nil]
    simp [feed]
    omega
  · have hstep : handlePacket t (Spec.initPacket ch cmd data)
        = (t.insert ch { channel := ch, command := cmd, sequence := 0, payloadLen := data.length,
                         payload := data.take 57 }, none) := by
      unfold handlePacket
      rw [hparse]
      have : (data.take 57).length = 57 := by simp [List.length_take]; omega
      simp [Msg.init, Msg.isComplete, this]
      omega
    rw [hstep]
    dsimp only
    have hdne : data.drop Spec.initData ≠ [] := by
      intro e; have := congrArg List.length e; simp [List.length_drop, Spec.initData] at this; omega
    have hrec := feed_conts ch (data.drop Spec.initData)
      (t.insert ch { channel := ch, command := cmd, sequence := 0, payloadLen := data.length, payload := data.take 57 })
      { channel := ch, command := cmd, sequence := 0, payloadLen := data.length, payload := data.take 57 } 0
      (by simp [Table.insert]) rfl rfl
      (by simp [List.length_drop, Spec.initData]; omega)
      (by simp [List.length_drop, List.length_take, Spec.initData]; omega) hdne
    obtain ⟨h1, h2, h3⟩ := hrec
    refine ⟨?_, ?_, fun _ => h3⟩
    · rw [h1]
      have hp := specCont_length_pos ch 0 _ hdne
      simp only [List.length_cons, Nat.add_sub_cancel, Nat.zero_add]
      have : (Spec.contPackets ch 0 (data.drop Spec.initData)).length
          = ((Spec.contPackets ch 0 (data.drop Spec.initData)).length - 1) + 1 := by omega
      rw [this, List.replicate_succ]
      have hta : data.take 57 ++ data.drop Spec.initData = data := by
        simp [Spec.initData, List.take_append_drop]
      simp [hta]
    · intro c hc
      rw [h2 c hc]
      simp [Table.insert, hc]

/-! ### locality -/

def PacketHeader.channel : PacketHeader → Chan
  | .initialization h => h.channel
  | .continuation h => h.channel

theorem initTryFrom_chan (ch : Chan) (data : Bytes) (h : InitHeader) (d : Bytes)
    (hp : InitHeader.tryFrom ch data = some (h, d)) : h.channel = ch := by
  unfold InitHeader.tryFrom at hp
  split at hp
  · split at hp
    · cases hp
    · dsimp only at hp
      split at hp
      · cases hp; rfl
      · split at hp
        · cases hp; rfl
        · cases hp
  · cases hp

theorem tryFrom_chan (pkt : Bytes) (h : PacketHeader) (d : Bytes)
    (hp : PacketHeader.tryFrom pkt = some (h, d)) : Spec.chanOf pkt = some h.channel := by
  unfold PacketHeader.tryFrom at hp
  split at hp
  · cases hp
  · split at hp
    · dsimp only at hp
      split at hp
      · split at hp
        · cases hp
        · rename_i hh dd heq
          cases hp
          simp [Spec.chanOf, PacketHeader.channel, initTryFrom_chan _ _ _ _ heq]
      · cases hp; rfl
    · cases hp

theorem tryFrom_none_of_chan_none (pkt : Bytes) (h : Spec.chanOf pkt = none) :
    PacketHeader.tryFrom pkt = none := by
  cases hp : PacketHeader.tryFrom pkt with
  | none => rfl
  | some hd =>
    obtain ⟨hh, d⟩ := hd
    rw [tryFrom_chan pkt hh d hp] at h
    cases h

theorem handle_none (t : Table) (pkt : Bytes) (h : Spec.chanOf pkt = none) :
    handlePacket t pkt = (t, none) := by
  unfold handlePacket
  rw [tryFrom_none_of_chan_none pkt h]

/-- a packet of channel `c` leaves every other channel's entry alone -/
theorem handle_frame (t : Table) (pkt : Bytes) (c c' : Chan) (h : Spec.chanOf pkt = some c) (hne : c' ≠ c) :
    (handlePacket t pkt).1 c' = t c' := by
  unfold handlePacket
  cases hp : PacketHeader.tryFrom pkt with
  | none => rfl
  | some hd =>
    obtain ⟨hh, d⟩ := hd
    have hc := tryFrom_chan pkt hh d hp
    rw [h] at hc
    have hc : c = hh.channel := Option.some.inj hc
    cases hh with
    | initialization ih =>
      dsimp only
      split
      · rfl
      · simp [Table.insert, PacketHeader.channel] at hc ⊢; simp [← hc, hne]
    | continuation chd =>
      dsimp only
      simp only [PacketHeader.channel] at hc
      cases t chd.channel with
      | none => rfl
      | some m =>
        dsimp only
        split <;> simp [Table.insert, Table.remove, ← hc, hne]

/-- a packet of channel `c` reads only channel `c`'s entry -/
theorem handle_dep (t1 t2 : Table) (pkt : Bytes) (c : Chan) (h : Spec.chanOf pkt = some c) (heq : t1 c = t2 c) :
    (handlePacket t1 pkt).2 = (handlePacket t2 pkt).2
      ∧ (handlePacket t1 pkt).1 c = (handlePacket t2 pkt).1 c := by
  unfold handlePacket
  cases hp : PacketHeader.tryFrom pkt with
  | none => exact ⟨rfl, heq⟩
  | some hd =>
    obtain ⟨hh, d⟩ := hd
    have hc := tryFrom_chan pkt hh d hp
    rw [h] at hc
    have hc : c = hh.channel := Option.some.inj hc
    cases hh with
    | initialization ih =>
      dsimp only
      simp only [PacketHeader.channel] at hc
      split
      · exact ⟨rfl, heq⟩
      · simp [Table.insert, ← hc]
    | continuation chd =>
      dsimp only
      simp only [PacketHeader.channel] at hc
      rw [← hc, ← heq]
      cases t1 c with
      | none => exact ⟨rfl, heq⟩
      | some m =>
        dsimp only
        split <;> simp [Table.insert, Table.remove]

/-- Locality: what the receiver returns for the packets of channel `c`, and channel `c`'s entry
afterwards, are those of running channel `c`'s sub-stream alone — whatever else is in the stream. -/
theorem feed_local (c : Chan) (pkts : List Bytes) : ∀ (t t' : Table), t c = t' c →
    Spec.outsOf c pkts (feed t pkts).2 = (feed t' (Spec.sub c pkts)).2
      ∧ (feed t pkts).1 c = (feed t' (Spec.sub c pkts)).1 c := by
  induction pkts with
  | nil => intro t t' h; exact ⟨rfl, h⟩
  | cons p ps ih =>
    intro t t' h
    rw [feed_cons]
    by_cases hc : Spec.chanOf p = some c
    · have hsub : Spec.sub c (p :: ps) = p :: Spec.sub c ps := by simp [Spec.sub, hc]
      rw [hsub, feed_cons]
      obtain ⟨d1, d2⟩ := handle_dep t t' p c hc h
      obtain ⟨i1, i2⟩ := ih (handlePacket t p).1 (handlePacket t' p).1 d2
      simp only [Spec.outsOf, hc, if_true]
      exact ⟨by rw [d1, i1], i2⟩
    · have hsub : Spec.sub c (p :: ps) = Spec.sub c ps := by simp [Spec.sub, hc]
      rw [hsub]
      have hkeep : (handlePacket t p).1 c = t c := by
        cases hq : Spec.chanOf p with
        | none => rw [handle_none t p hq]
        | some c' =>
          exact handle_frame t p c' c hq (by intro e; rw [e] at hc; exact hc hq)
      obtain ⟨i1, i2⟩ := ih (handlePacket t p).1 t' (by rw [hkeep, h])
      simp only [Spec.outsOf, hc, if_false]
      exact ⟨i1, i2⟩


/-! ### sequences of messages on one channel -/

theorem feed_append (t : Table) (a b : List Bytes) :
    feed t (a ++ b) = ((feed (feed t a).1 b).1, (feed t a).2 ++ (feed (feed t a).1 b).2) := by
  induction a generalizing t with
  | nil => rfl
  | cons p ps ih => simp only [List.cons_append, feed_cons, ih]

theorem feed_stream (c : Chan) (msgs : List (Command × Bytes)) (hm : ∀ x ∈ msgs, x.2.length ≤ 7608) :
    ∀ t : Table, (feed t (Spec.streamOf c msgs)).2.map (Option.map Spec.view) = Spec.expectedOuts c msgs := by
  induction msgs with
  | nil => intro t; rfl
  | cons x xs ih =>
    intro t
    obtain ⟨cmd, d⟩ := x
    have hd : d.length ≤ 7608 := hm (cmd, d) (List.mem_cons_self)
    have hxs : ∀ x ∈ xs, x.2.length ≤ 7608 := fun x hx => hm x (List.mem_cons_of_mem _ hx)
    simp only [Spec.streamOf, List.map_cons, List.flatten_cons]
    rw [feed_append]
    dsimp only
    obtain ⟨h1, _, _⟩ := feed_packets c cmd d hd t
    rw [List.map_append, h1]
    have := ih hxs (feed t (Spec.packets c cmd d)).1
    simp only [Spec.streamOf] at this
    rw [this]
    simp [Spec.expectedOuts, Spec.view]

/-! ### merges -/

theorem sub_of_merge (ss : List (Chan × List Bytes)) (pkts : List Bytes) (hm : Spec.IsMerge ss pkts) :
    (∀ x ∈ ss, ∀ p ∈ x.2, Spec.chanOf p = some x.1) → (ss.map (·.1)).Nodup →
    ∀ c, Spec.sub c pkts = ((ss.filter (fun x => x.1 = c)).map (·.2)).flatten := by
  induction hm with
  | done ss hall =>
    intro _ _ c
    simp only [Spec.sub, List.filter_nil]
    symm
    rw [List.flatten_eq_nil_iff]
    intro l hl
    rw [List.mem_map] at hl
    obtain ⟨x, hx, rfl⟩ := hl
    exact hall x (List.mem_filter.mp hx).1
  | step pre c0 p s post rest _ ih =>
    intro hhom hnd c
    have hhom' : ∀ x ∈ pre ++ (c0, s) :: post, ∀ q ∈ x.2, Spec.chanOf q = some x.1 := by
      intro x hx q hq
      rw [List.mem_append, List.mem_cons] at hx
      rcases hx with hx | hx | hx
      · exact hhom x (by simp [hx]) q hq
      · subst hx
        exact hhom (c0, p :: s) (by simp) q (List.mem_cons_of_mem _ hq)
      · exact hhom x (by simp [hx]) q hq
    have hnd' : ((pre ++ (c0, s) :: post).map (·.1)).Nodup := by simpa using hnd
    have hp : Spec.chanOf p = some c0 := hhom (c0, p :: s) (by simp) p (List.mem_cons_self)
    have hih := ih hhom' hnd' c
    by_cases hc : c0 = c
    · subst hc
      have hpre : pre.filter (fun x => x.1 = c0) = [] := by
        rw [List.filter_eq_nil_iff]
        intro x hx
        simp only [List.map_append, List.map_cons] at hnd
        have := (List.nodup_append.mp hnd).2.2 x.1 (List.mem_map_of_mem hx) c0 (List.mem_cons_self)
        simpa using this
      have hs : Spec.sub c0 (p :: rest) = p :: Spec.sub c0 rest := by simp [Spec.sub, hp]
      rw [hs, hih]
      simp [List.filter_append, hpre]
    · have : Spec.sub c (p :: rest) = Spec.sub c rest := by
        simp [Spec.sub, List.filter_cons, hp, hc]
      rw [this, hih]
      simp [List.filter_append, List.filter_cons, hc]

/-! ### table invariant: entries are filed under their own channel -/

def TableInv (t : Table) : Prop := ∀ c m, t c = some m → m.channel = c

theorem tableInv_empty : TableInv Table.empty := by intro c m h; cases h

theorem extend_channel (m : Msg) (h : ContHeader) (d : Bytes) : (m.extend h d).1.channel = m.channel := by
  unfold Msg.extend
  split
  · rfl
  · split
    · dsimp only
      split
      · split <;> rfl
      · rfl
    · rfl

theorem handle_inv (t : Table) (pkt : Bytes) (hi : TableInv t) :
    TableInv (handlePacket t pkt).1
      ∧ ∀ m, (handlePacket t pkt).2 = some m → Spec.chanOf pkt = some m.channel := by
  unfold handlePacket
  cases hp : PacketHeader.tryFrom pkt with
  | none => exact ⟨hi, fun m h => by cases h⟩
  | some hd =>
    obtain ⟨hh, d⟩ := hd
    have hc := tryFrom_chan pkt hh d hp
    cases hh with
    | initialization ih =>
      dsimp only
      split
      · refine ⟨hi, fun m h => ?_⟩
        cases h
        simpa [Msg.init, PacketHeader.channel] using hc
      · refine ⟨?_, fun m h => by cases h⟩
        intro c m h
        simp only [Table.insert] at h
        split at h
        · cases h; rename_i e; simp [Msg.init, e]
        · exact hi c m h
    | continuation chd =>
      dsimp only
      simp only [PacketHeader.channel] at hc
      cases htc : t chd.channel with
      | none => exact ⟨hi, fun m h => by cases h⟩
      | some m0 =>
        dsimp only
        have hm0 := hi _ _ htc
        have hext := extend_channel m0 chd d
        split
        · rename_i m' heq
          have : m' = (m0.extend chd d).1 := by rw [heq]
          refine ⟨?_, fun m h => ?_⟩
          · intro c m h
            simp only [Table.remove] at h
            split at h
            · cases h
            · exact hi c m h
          · cases h; rw [hc, this, hext, hm0]
        · rename_i m' heq
          have : m' = (m0.extend chd d).1 := by rw [heq]
          refine ⟨?_, fun m h => by cases h⟩
          intro c m h
          simp only [Table.insert] at h
          split at h
          · cases h; rename_i e; rw [this, hext, hm0, e]
          · exact hi c m h
        · rename_i m' _ heq
          have : m' = (m0.extend chd d).1 := by rw [heq]
          refine ⟨?_, fun m h => by cases h⟩
          intro c m h
          simp only [Table.insert] at h
          split at h
          · cases h; rename_i e; rw [this, hext, hm0, e]
          · exact hi c m h

/-- from a well-filed table, the messages delivered with channel `c` are exactly the ones returned
for packets of channel `c` -/
theorem delivered_by_channel (c : Chan) (pkts : List Bytes) : ∀ t, TableInv t →
    (Spec.delivered (feed t pkts).2).filter (fun m => m.channel = c)
      = Spec.delivered (Spec.outsOf c pkts (feed t pkts).2) := by
  induction pkts with
  | nil => intro t _; rfl
  | cons p ps ih =>
    intro t hi
    rw [feed_cons]
    obtain ⟨hi', hout⟩ := handle_inv t p hi
    have hrec := ih _ hi'
    simp only [Spec.outsOf]
    cases ho : (handlePacket t p).2 with
    | none =>
      by_cases hc : Spec.chanOf p = some c
      · simp only [hc, if_true, Spec.delivered, List.filterMap_cons, id] at hrec ⊢; exact hrec
      · simp only [hc, if_false, Spec.delivered, List.filterMap_cons, id] at hrec ⊢; exact hrec
    | some m =>
      have hpc := hout m ho
      by_cases hc : Spec.chanOf p = some c
      · have : m.channel = c := by rw [hpc] at hc; exact Option.some.inj hc
        simp only [hc, if_true, Spec.delivered, List.filterMap_cons, id, List.filter_cons, this,
          decide_true] at hrec ⊢
        rw [hrec]
      · have : ¬ m.channel = c := by intro e; rw [hpc, e] at hc; exact hc rfl
        simp only [hc, if_false, Spec.delivered, List.filterMap_cons, id, List.filter_cons, this,
          decide_false] at hrec ⊢
        exact hrec


theorem packets_all_64 (ch : Chan) (cmd : Command) (data : Bytes) :
    ∀ p ∈ Spec.packets ch cmd data, p.length = 64 := by
  intro p hp
  unfold Spec.packets at hp
  rw [List.mem_cons] at hp
  rcases hp with rfl | hp
  · exact initPacket_length _ _ _
  · generalize data.drop Spec.initData = rest at hp
    generalize 0 = s at hp
    induction h : rest.length using Nat.strongRecOn generalizing rest s with
    | _ n ih =>
      by_cases hr : rest = []
      · subst hr; rw [specCont_nil] at hp; cases hp
      · rw [specCont_cons _ _ _ hr, List.mem_cons] at hp
        rcases hp with rfl | hp
        · exact contPacket_length _ _ _ (by simp [List.length_take, Spec.contData]; omega)
        · have hpos : 0 < rest.length := List.length_pos_iff.mpr hr
          exact ih (rest.drop Spec.contData).length (by simp [List.length_drop, Spec.contData]; omega)
            _ _ hp rfl

theorem specCont_count (ch : Chan) (rest : Bytes) : ∀ s, (Spec.contPackets ch s rest).length = (rest.length + 58) / 59 := by
  induction h : rest.length using Nat.strongRecOn generalizing rest with
  | _ n ih =>
    intro s
    by_cases hr : rest = []
    · subst hr; rw [specCont_nil]; simp at h; subst h; rfl
    · have hpos : 0 < rest.length := List.length_pos_iff.mpr hr
      rw [specCont_cons _ _ _ hr, List.length_cons,
        ih (rest.drop Spec.contData).length (by simp [List.length_drop, Spec.contData]; omega) _ rfl]
      simp [List.length_drop, Spec.contData]; omega

theorem packets_count (ch : Chan) (cmd : Command) (data : Bytes) :
    (Spec.packets ch cmd data).length = 1 + (data.length - 57 + 58) / 59 := by
  unfold Spec.packets
  rw [List.length_cons, specCont_count]
  simp [List.length_drop, Spec.initData]; omega

/-- a continuation packet for a channel with no message in progress -/
theorem orphan_cont (t : Table) (pkt : Bytes) (b0 b1 b2 b3 s : UInt8) (rest : Bytes)
    (hp : pkt = b0 :: b1 :: b2 :: b3 :: s :: rest) (hs : s &&& descBit ≠ descBit)
    (ht : t ⟨b0, b1, b2, b3⟩ = none) : handlePacket t pkt = (t, none) := by
  subst hp
  have hparse : PacketHeader.tryFrom (b0 :: b1 :: b2 :: b3 :: s :: rest) = none
      ∨ PacketHeader.tryFrom (b0 :: b1 :: b2 :: b3 :: s :: rest)
          = some (.continuation ⟨⟨b0, b1, b2, b3⟩, s⟩, rest) := by
    unfold PacketHeader.tryFrom
    split
    · exact Or.inl rfl
    · dsimp only
      rw [if_neg hs]
      exact Or.inr rfl
  unfold handlePacket
  rcases hparse with h | h
  · rw [h]
  · rw [h]
    dsimp only
    rw [ht]

/-- the packets of a stream of channel `c` all carry channel `c` -/
theorem packets_chan (c : Chan) (cmd : Command) (d : Bytes) : ∀ p ∈ Spec.packets c cmd d, Spec.chanOf p = some c := by
  intro p hp
  unfold Spec.packets at hp
  rw [List.mem_cons] at hp
  rcases hp with rfl | hp
  · rw [initPacket_cons]; rfl
  · generalize d.drop Spec.initData = rest at hp
    generalize 0 = s at hp
    induction h : rest.length using Nat.strongRecOn generalizing rest s with
    | _ n ih =>
      by_cases hr : rest = []
      · subst hr; rw [specCont_nil] at hp; cases hp
      · rw [specCont_cons _ _ _ hr, List.mem_cons] at hp
        rcases hp with rfl | hp
        · rw [contPacket_cons]; rfl
        · have hpos : 0 < rest.length := List.length_pos_iff.mpr hr
          exact ih (rest.drop Spec.contData).length (by simp [List.length_drop, Spec.contData]; omega)
            _ _ hp rfl

theorem streamOf_chan (c : Chan) (msgs : List (Command × Bytes)) : ∀ p ∈ Spec.streamOf c msgs, Spec.chanOf p = some c := by
  intro p hp
  simp only [Spec.streamOf, List.mem_flatten, List.mem_map] at hp
  obtain ⟨l, ⟨x, _, rfl⟩, hpl⟩ := hp
  exact packets_chan c x.1 x.2 p hpl

theorem filter_single (chans : List (Chan × List (Command × Bytes))) (hnd : (chans.map (·.1)).Nodup) :
    ∀ x ∈ chans,
      (((chans.map (fun x => (x.1, Spec.streamOf x.1 x.2))).filter (fun y => y.1 = x.1)).map (·.2)).flatten
        = Spec.streamOf x.1 x.2 := by
  induction chans with
  | nil => intro x hx; cases hx
  | cons y ys ih =>
    intro x hx
    simp only [List.map_cons, List.nodup_cons] at hnd
    rw [List.mem_cons] at hx
    rcases hx with rfl | hx
    · have : (ys.map (fun z => (z.1, Spec.streamOf z.1 z.2))).filter (fun z => z.1 = x.1) = [] := by
        rw [List.filter_eq_nil_iff]
        intro z hz
        rw [List.mem_map] at hz
        obtain ⟨w, hw, rfl⟩ := hz
        simp only [decide_eq_true_eq]
        intro e
        exact hnd.1 (by rw [← e]; exact List.mem_map_of_mem hw)
      simp [List.filter_cons, this]
    · have hne : ¬ y.1 = x.1 := by
        intro e; exact hnd.1 (by rw [e]; exact List.mem_map_of_mem hx)
      simp only [List.map_cons, List.filter_cons, hne, decide_false]
      exact ih hnd.2 x hx

end PasskeyVerif.Hid
