/-
CBOR (RFC 8949, definite lengths, shortest heads): the reader of Base/Cbor.lean inverts the writer on
well-formed items, whatever follows the item.  Used to instantiate the CBOR interface of Props/C12.
-/
import PasskeyVerif.Base.Cbor
namespace PasskeyVerif.Cbor

theorem beBytes_length (w n : Nat) : (beBytes w n).length = w := by simp [beBytes]

/-- the big-endian bytes of `n` read back as `n` when `n` fits the width (widths 1, 2, 4, 8) -/
theorem ofBe_beBytes1 (n : Nat) (h : n < 256) : ofBe (beBytes 1 n) = n := by
  simp [beBytes, ofBe, List.range_succ, UInt8.toNat_ofNat']; omega

theorem ofBe_beBytes2 (n : Nat) (h : n < 65536) : ofBe (beBytes 2 n) = n := by
  simp [beBytes, ofBe, List.range_succ, UInt8.toNat_ofNat', Nat.shiftRight_eq_div_pow]; omega

theorem ofBe_beBytes4 (n : Nat) (h : n < 4294967296) : ofBe (beBytes 4 n) = n := by
  simp [beBytes, ofBe, List.range_succ, UInt8.toNat_ofNat', Nat.shiftRight_eq_div_pow]; omega

theorem ofBe_beBytes8 (n : Nat) (h : n < 18446744073709551616) : ofBe (beBytes 8 n) = n := by
  simp [beBytes, ofBe, List.range_succ, UInt8.toNat_ofNat', Nat.shiftRight_eq_div_pow]; omega

/-- additional-information value of the shortest head for argument `n` -/
def aiOf (n : Nat) : Nat :=
  if n < 24 then n else if n < 256 then 24 else if n < 65536 then 25 else if n < 4294967296 then 26 else 27

theorem byte_parts (m a : Nat) (hm : m ≤ 7) (ha : a < 32) :
    (UInt8.ofNat (m * 32 + a)).toNat / 32 = m ∧ (UInt8.ofNat (m * 32 + a)).toNat % 32 = a := by
  have : (UInt8.ofNat (m * 32 + a)).toNat = m * 32 + a := by
    rw [UInt8.toNat_ofNat']; omega
  rw [this]; omega

/-- **the head reader inverts the head writer** -/
theorem readHead_head (m n : Nat) (rest : Bytes) (hm : m ≤ 7) (hn : n < 18446744073709551616) :
    readHead (head m n ++ rest) = some (m, aiOf n, n, rest) := by
  unfold head aiOf
  dsimp only
  by_cases h1 : n < 24
  · simp only [h1, if_true, List.cons_append, List.nil_append, readHead]
    obtain ⟨e1, e2⟩ := byte_parts m n hm (by omega)
    simp only [e1, e2, h1, if_true]
  · simp only [h1, if_false]
    by_cases h2 : n < 256
    · simp only [h2, if_true, List.cons_append, readHead]
      obtain ⟨e1, e2⟩ := byte_parts m 24 hm (by omega)
      simp only [e1, e2]
      have hl := beBytes_length 1 n
      simp [hl, List.take_left' hl, List.drop_left' hl, ofBe_beBytes1 n h2]
    · simp only [h2, if_false]
      by_cases h3 : n < 65536
      · simp only [h3, if_true, List.cons_append, readHead]
        obtain ⟨e1, e2⟩ := byte_parts m 25 hm (by omega)
        simp only [e1, e2]
        have hl := beBytes_length 2 n
        simp [hl, List.take_left' hl, List.drop_left' hl, ofBe_beBytes2 n h3]
      · simp only [h3, if_false]
        by_cases h4 : n < 4294967296
        · simp only [h4, if_true, List.cons_append, readHead]
          obtain ⟨e1, e2⟩ := byte_parts m 26 hm (by omega)
          simp only [e1, e2]
          have hl := beBytes_length 4 n
          simp [hl, List.take_left' hl, List.drop_left' hl, ofBe_beBytes4 n h4]
        · simp only [h4, if_false, List.cons_append, readHead]
          obtain ⟨e1, e2⟩ := byte_parts m 27 hm (by omega)
          simp only [e1, e2]
          have hl := beBytes_length 8 n
          simp [hl, List.take_left' hl, List.drop_left' hl, ofBe_beBytes8 n hn]

def two64 : Nat := 18446744073709551616

mutual
  /-- items the writer encodes faithfully: arguments and lengths below 2^64, assigned simple values, floats of a legal width -/
  def Item.WF : Item → Bool
    | .uint n => n < two64
    | .nint n => n < two64
    | .bytes b => b.length < two64
    | .text b => b.length < two64
    | .array xs => xs.length < two64 && wfList xs
    | .map kvs => kvs.length < two64 && wfPairs kvs
    | .tag t x => t < two64 && x.WF
    | .simple v => v < 24 || (32 ≤ v && v < 256)
    | .float w bits => (w == 2 && bits < 65536) || (w == 4 && bits < 4294967296) || (w == 8 && bits < two64)
  def wfList : List Item → Bool
    | [] => true
    | x :: xs => x.WF && wfList xs
  def wfPairs : List (Item × Item) → Bool
    | [] => true
    | (k, v) :: kvs => k.WF && v.WF && wfPairs kvs
end

mutual
  /-- fuel the reader needs for an item -/
  def Item.cost : Item → Nat
    | .array xs => 1 + costList xs
    | .map kvs => 1 + costPairs kvs
    | .tag _ x => 1 + x.cost
    | _ => 1
  def costList : List Item → Nat
    | [] => 0
    | x :: xs => 1 + max x.cost (costList xs)
  def costPairs : List (Item × Item) → Nat
    | [] => 0
    | (k, v) :: kvs => 1 + max (max k.cost v.cost) (costPairs kvs)
end

theorem take_drop_append (b rest : Bytes) : (b ++ rest).take b.length = b ∧ (b ++ rest).drop b.length = rest := by simp

mutual
  /-- **the reader inverts the writer**, given enough fuel, whatever follows the item -/
  theorem decode_encode : ∀ (x : Item), x.WF = true → ∀ fuel, x.cost ≤ fuel → ∀ rest, decode fuel (encode x ++ rest) = some (x, rest)
    | .uint n, h, fuel, hf, rest => by
      simp only [Item.WF, decide_eq_true_eq] at h
      cases fuel with
      | zero => simp [Item.cost] at hf
      | succ f => simp only [encode, decode, readHead_head 0 n rest (by omega) h]
    | .nint n, h, fuel, hf, rest => by
      simp only [Item.WF, decide_eq_true_eq] at h
      cases fuel with
      | zero => simp [Item.cost] at hf
      | succ f => simp only [encode, decode, readHead_head 1 n rest (by omega) h]
    | .bytes b, h, fuel, hf, rest => by
      simp only [Item.WF, decide_eq_true_eq] at h
      cases fuel with
      | zero => simp [Item.cost] at hf
      | succ f =>
        simp only [encode, decode, List.append_assoc, readHead_head 2 b.length (b ++ rest) (by omega) h]
        simp
    | .text b, h, fuel, hf, rest => by
      simp only [Item.WF, decide_eq_true_eq] at h
      cases fuel with
      | zero => simp [Item.cost] at hf
      | succ f =>
        simp only [encode, decode, List.append_assoc, readHead_head 3 b.length (b ++ rest) (by omega) h]
        simp
    | .array xs, h, fuel, hf, rest => by
      simp only [Item.WF, Bool.and_eq_true, decide_eq_true_eq] at h
      cases fuel with
      | zero => simp [Item.cost] at hf
      | succ f =>
        simp only [Item.cost] at hf
        simp only [encode, decode, List.append_assoc, readHead_head 4 xs.length (encodeList xs ++ rest) (by omega) h.1]
        rw [decodeList_encode xs h.2 f (by omega) rest]
    | .map kvs, h, fuel, hf, rest => by
      simp only [Item.WF, Bool.and_eq_true, decide_eq_true_eq] at h
      cases fuel with
      | zero => simp [Item.cost] at hf
      | succ f =>
        simp only [Item.cost] at hf
        simp only [encode, decode, List.append_assoc, readHead_head 5 kvs.length (encodePairs kvs ++ rest) (by omega) h.1]
        rw [decodePairs_encode kvs h.2 f (by omega) rest]
    | .tag t x, h, fuel, hf, rest => by
      simp only [Item.WF, Bool.and_eq_true, decide_eq_true_eq] at h
      cases fuel with
      | zero => simp [Item.cost] at hf
      | succ f =>
        simp only [Item.cost] at hf
        simp only [encode, decode, List.append_assoc, readHead_head 6 t (encode x ++ rest) (by omega) h.1]
        rw [decode_encode x h.2 f (by omega) rest]
    | .simple v, h, fuel, hf, rest => by
      simp only [Item.WF, Bool.or_eq_true, Bool.and_eq_true, decide_eq_true_eq] at h
      cases fuel with
      | zero => simp [Item.cost] at hf
      | succ f =>
        have hv : v < two64 := by unfold two64; omega
        simp only [encode, decode, readHead_head 7 v rest (by omega) hv]
        unfold aiOf
        rcases h with h | h
        · simp [h]
        · have h1 : ¬ v < 24 := by omega
          have h2 : v < 256 := h.2
          have h3 : ¬ v < 32 := by omega
          simp [h1, h2, h3]
    | .float w bits, h, fuel, hf, rest => by
      cases fuel with
      | zero => simp [Item.cost] at hf
      | succ f =>
        simp only [Item.WF, Bool.or_eq_true, Bool.and_eq_true, beq_iff_eq, decide_eq_true_eq] at h
        rcases h with (⟨rfl, hb⟩ | ⟨rfl, hb⟩) | ⟨rfl, hb⟩
        · have hl := beBytes_length 2 bits
          have hn : ¬ (2 + rest.length < 2) := by omega
          simp [encode, decode, readHead, hl, List.take_left' hl, List.drop_left' hl, ofBe_beBytes2 bits hb, hn]
        · have hl := beBytes_length 4 bits
          have hn : ¬ (4 + rest.length < 4) := by omega
          simp [encode, decode, readHead, hl, List.take_left' hl, List.drop_left' hl, ofBe_beBytes4 bits hb, hn]
        · have hl := beBytes_length 8 bits
          have hn : ¬ (8 + rest.length < 8) := by omega
          simp [encode, decode, readHead, hl, List.take_left' hl, List.drop_left' hl, ofBe_beBytes8 bits hb, hn]
  theorem decodeList_encode : ∀ (xs : List Item), wfList xs = true → ∀ fuel, costList xs ≤ fuel → ∀ rest,
      decodeList fuel xs.length (encodeList xs ++ rest) = some (xs, rest)
    | [], _, fuel, _, rest => by simp [encodeList, decodeList]
    | x :: xs, h, fuel, hf, rest => by
      simp only [wfList, Bool.and_eq_true] at h
      simp only [costList] at hf
      cases fuel with
      | zero => omega
      | succ f =>
        simp only [encodeList, List.length_cons, decodeList, List.append_assoc]
        rw [decode_encode x h.1 f (by omega) (encodeList xs ++ rest)]
        simp only
        rw [decodeList_encode xs h.2 f (by omega) rest]
  theorem decodePairs_encode : ∀ (kvs : List (Item × Item)), wfPairs kvs = true → ∀ fuel, costPairs kvs ≤ fuel → ∀ rest,
      decodePairs fuel kvs.length (encodePairs kvs ++ rest) = some (kvs, rest)
    | [], _, fuel, _, rest => by simp [encodePairs, decodePairs]
    | (k, v) :: kvs, h, fuel, hf, rest => by
      simp only [wfPairs, Bool.and_eq_true] at h
      simp only [costPairs] at hf
      cases fuel with
      | zero => omega
      | succ f =>
        simp only [encodePairs, List.length_cons, decodePairs, List.append_assoc]
        rw [decode_encode k h.1.1 f (by omega) (encode v ++ (encodePairs kvs ++ rest))]
        simp only
        rw [decode_encode v h.1.2 f (by omega) (encodePairs kvs ++ rest)]
        simp only
        rw [decodePairs_encode kvs h.2 f (by omega) rest]
end

theorem head_length_pos (m n : Nat) : 1 ≤ (head m n).length := by
  unfold head; dsimp only; split <;> (try split) <;> (try split) <;> (try split) <;> simp

mutual
  /-- the fuel an item needs is bounded by twice its encoded length -/
  theorem cost_le : ∀ (x : Item), x.cost + 1 ≤ 2 * (encode x).length
    | .uint n => by have := head_length_pos 0 n; simp only [Item.cost, encode]; omega
    | .nint n => by have := head_length_pos 1 n; simp only [Item.cost, encode]; omega
    | .bytes b => by have := head_length_pos 2 b.length; simp only [Item.cost, encode, List.length_append]; omega
    | .text b => by have := head_length_pos 3 b.length; simp only [Item.cost, encode, List.length_append]; omega
    | .array xs => by
      have := head_length_pos 4 xs.length
      have := costList_le xs
      simp only [Item.cost, encode, List.length_append]; omega
    | .map kvs => by
      have := head_length_pos 5 kvs.length
      have := costPairs_le kvs
      simp only [Item.cost, encode, List.length_append]; omega
    | .tag t x => by
      have := head_length_pos 6 t
      have := cost_le x
      simp only [Item.cost, encode, List.length_append]; omega
    | .simple v => by have := head_length_pos 7 v; simp only [Item.cost, encode]; omega
    | .float w bits => by simp only [Item.cost, encode, List.length_cons]; omega
  theorem costList_le : ∀ (xs : List Item), costList xs ≤ 2 * (encodeList xs).length
    | [] => by simp [costList]
    | x :: xs => by
      have := cost_le x
      have := costList_le xs
      simp only [costList, encodeList, List.length_append]; omega
  theorem costPairs_le : ∀ (kvs : List (Item × Item)), costPairs kvs ≤ 2 * (encodePairs kvs).length
    | [] => by simp [costPairs]
    | (k, v) :: kvs => by
      have := cost_le k
      have := cost_le v
      have := costPairs_le kvs
      simp only [costPairs, encodePairs, List.length_append]; omega
end

/-- **`decode1` reads back exactly the item written, and leaves what follows it.** -/
theorem decode1_encode (x : Item) (h : x.WF = true) (rest : Bytes) : decode1 (encode x ++ rest) = some (x, rest) := by
  unfold decode1
  have := cost_le x
  exact decode_encode x h _ (by simp only [List.length_append]; omega) rest

/-- ... so `skip` reports the item's own length -/
theorem skip_encode (x : Item) (h : x.WF = true) (rest : Bytes) : skip (encode x ++ rest) = some (encode x).length := by
  unfold skip
  rw [decode1_encode x h rest]
  simp

/-! ### more fuel never changes an answer -/

theorem decode_mono_all : ∀ f : Nat,
    (∀ bs r, decode f bs = some r → decode (f + 1) bs = some r)
    ∧ (∀ n bs r, decodeList f n bs = some r → decodeList (f + 1) n bs = some r)
    ∧ (∀ n bs r, decodePairs f n bs = some r → decodePairs (f + 1) n bs = some r) := by
  intro f
  induction f with
  | zero =>
    refine ⟨fun bs r h => by simp [decode] at h, ?_, ?_⟩
    · intro n bs r h
      cases n with
      | zero => simpa [decodeList] using h
      | succ n => simp [decodeList] at h
    · intro n bs r h
      cases n with
      | zero => simpa [decodePairs] using h
      | succ n => simp [decodePairs] at h
  | succ f ih =>
    obtain ⟨ih1, ih2, ih3⟩ := ih
    refine ⟨?_, ?_, ?_⟩
    · intro bs r h
      rw [decode] at h ⊢
      cases hh : readHead bs with
      | none => rw [hh] at h; cases h
      | some hd =>
        obtain ⟨m, ai, n, rest⟩ := hd
        rw [hh] at h
        simp only at h ⊢
        split at h
        · exact h
        · exact h
        · exact h
        · exact h
        · cases hl : decodeList f n rest with
          | none => rw [hl] at h; cases h
          | some v => rw [hl] at h; rw [ih2 n rest v hl]; exact h
        · cases hl : decodePairs f n rest with
          | none => rw [hl] at h; cases h
          | some v => rw [hl] at h; rw [ih3 n rest v hl]; exact h
        · cases hl : decode f rest with
          | none => rw [hl] at h; cases h
          | some v => rw [hl] at h; rw [ih1 rest v hl]; exact h
        · exact h
    · intro n bs r h
      cases n with
      | zero => simpa [decodeList] using h
      | succ n =>
        rw [decodeList] at h ⊢
        cases hd : decode f bs with
        | none => rw [hd] at h; cases h
        | some v =>
          rw [hd] at h
          rw [ih1 bs v hd]
          simp only at h ⊢
          cases hl : decodeList f n v.2 with
          | none => rw [hl] at h; cases h
          | some w => rw [hl] at h; rw [ih2 n v.2 w hl]; exact h
    · intro n bs r h
      cases n with
      | zero => simpa [decodePairs] using h
      | succ n =>
        rw [decodePairs] at h ⊢
        cases hk : decode f bs with
        | none => rw [hk] at h; cases h
        | some k =>
          rw [hk] at h
          rw [ih1 bs k hk]
          simp only at h ⊢
          cases hv : decode f k.2 with
          | none => rw [hv] at h; cases h
          | some v =>
            rw [hv] at h
            rw [ih1 k.2 v hv]
            simp only at h ⊢
            cases hl : decodePairs f n v.2 with
            | none => rw [hl] at h; cases h
            | some w => rw [hl] at h; rw [ih3 n v.2 w hl]; exact h

theorem decode_mono (f g : Nat) (hfg : f ≤ g) (bs : Bytes) (r : Item × Bytes) (h : decode f bs = some r) : decode g bs = some r := by
  induction hfg with
  | refl => exact h
  | step _ ih => exact (decode_mono_all _).1 bs r ih

/-! ### no proper prefix of an encoding is accepted -/

/-- whatever fuel: if the reader accepts an encoding followed by anything, it reads back that item -/
theorem decode_encode_det (x : Item) (h : x.WF = true) (f : Nat) (rest : Bytes) (r : Item × Bytes)
    (hd : decode f (encode x ++ rest) = some r) : r = (x, rest) := by
  have h1 := decode_mono f (max f x.cost) (Nat.le_max_left _ _) _ r hd
  have h2 := decode_encode x h (max f x.cost) (Nat.le_max_right _ _) rest
  rw [h2] at h1
  exact (Option.some.inj h1).symm

/-- a head cut short is no head -/
theorem readHead_prefix (m n : Nat) (hm : m ≤ 7) (p q : Bytes) (h : head m n = p ++ q) (hq : q ≠ []) : readHead p = none := by
  cases p with
  | nil => rfl
  | cons b0 r =>
    -- the first byte survives, so its additional information is that of the head; the argument bytes do not all survive
    have hq' : 1 ≤ q.length := by cases q with | nil => exact absurd rfl hq | cons _ _ => simp
    unfold head at h
    dsimp only at h
    split at h
    · have hlen := congrArg List.length h
      simp only [List.length_cons, List.length_nil, List.length_append] at hlen; omega
    · split at h
      · have hlen := congrArg List.length h
        have hb : b0 = UInt8.ofNat (m * 32 + 24) := by
          have := congrArg List.head? h; simpa using this.symm
        simp only [List.length_cons, beBytes_length, List.length_append] at hlen
        subst hb
        simp only [readHead]
        obtain ⟨e1, e2⟩ := byte_parts m 24 hm (by omega)
        simp only [e1, e2]
        have : r.length < 1 := by omega
        simp [this]
      · split at h
        · have hlen := congrArg List.length h
          have hb : b0 = UInt8.ofNat (m * 32 + 25) := by
            have := congrArg List.head? h; simpa using this.symm
          simp only [List.length_cons, beBytes_length, List.length_append] at hlen
          subst hb
          simp only [readHead]
          obtain ⟨e1, e2⟩ := byte_parts m 25 hm (by omega)
          simp only [e1, e2]
          have : r.length < 2 := by omega
          simp [this]
        · split at h
          · have hlen := congrArg List.length h
            have hb : b0 = UInt8.ofNat (m * 32 + 26) := by
              have := congrArg List.head? h; simpa using this.symm
            simp only [List.length_cons, beBytes_length, List.length_append] at hlen
            subst hb
            simp only [readHead]
            obtain ⟨e1, e2⟩ := byte_parts m 26 hm (by omega)
            simp only [e1, e2]
            have : r.length < 4 := by omega
            simp [this]
          · have hlen := congrArg List.length h
            have hb : b0 = UInt8.ofNat (m * 32 + 27) := by
              have := congrArg List.head? h; simpa using this.symm
            simp only [List.length_cons, beBytes_length, List.length_append] at hlen
            subst hb
            simp only [readHead]
            obtain ⟨e1, e2⟩ := byte_parts m 27 hm (by omega)
            simp only [e1, e2]
            have : r.length < 8 := by omega
            simp [this]

/-- where a cut through `a ++ b` falls: inside `a` (properly), or at / after its end -/
theorem cut_cases (a b p q : Bytes) (h : a ++ b = p ++ q) :
    (∃ a', a' ≠ [] ∧ a = p ++ a' ∧ q = a' ++ b) ∨ (∃ p', p = a ++ p' ∧ b = p' ++ q) := by
  rcases List.append_eq_append_iff.mp h with ⟨a', h1, h2⟩ | ⟨c', h1, h2⟩
  · exact Or.inr ⟨a', h1, h2⟩
  · cases c' with
    | nil =>
      simp only [List.append_nil] at h1 h2
      exact Or.inr ⟨[], by rw [h1]; simp, by rw [h2]; simp⟩
    | cons c cs => exact Or.inl ⟨c :: cs, by simp, h1, h2⟩

/-- a head followed by `p'`: the reader sees the head and `p'` -/
theorem readHead_head' (m n : Nat) (p' : Bytes) (hm : m ≤ 7) (hn : n < two64) : readHead (head m n ++ p') = some (m, aiOf n, n, p') :=
  readHead_head m n p' hm hn

mutual
  /-- **no proper prefix of an item's encoding is accepted**, with any fuel -/
  theorem decode_prefix : ∀ (x : Item), x.WF = true → ∀ p q, encode x = p ++ q → q ≠ [] → ∀ fuel, decode fuel p = none
    | .uint n, h, p, q, he, hq, fuel => by
      cases fuel with
      | zero => rfl
      | succ f => simp only [encode] at he; simp only [decode, readHead_prefix 0 n (by omega) p q he hq]
    | .nint n, h, p, q, he, hq, fuel => by
      cases fuel with
      | zero => rfl
      | succ f => simp only [encode] at he; simp only [decode, readHead_prefix 1 n (by omega) p q he hq]
    | .simple v, h, p, q, he, hq, fuel => by
      cases fuel with
      | zero => rfl
      | succ f => simp only [encode] at he; simp only [decode, readHead_prefix 7 v (by omega) p q he hq]
    | .float w bits, h, p, q, he, hq, fuel => by
      cases fuel with
      | zero => rfl
      | succ f =>
        simp only [encode] at he
        cases p with
        | nil => simp [decode, readHead]
        | cons b0 r =>
          have hlen := congrArg List.length he
          have hq' : 1 ≤ q.length := by cases q with | nil => exact absurd rfl hq | cons _ _ => simp
          have hb : b0 = UInt8.ofNat (7 * 32 + (if w = 2 then 25 else if w = 4 then 26 else 27)) := by
            have := congrArg List.head? he; simpa using this.symm
          simp only [List.length_cons, beBytes_length, List.length_append] at hlen
          simp only [Item.WF, Bool.or_eq_true, Bool.and_eq_true, beq_iff_eq, decide_eq_true_eq] at h
          subst hb
          rcases h with (⟨rfl, _⟩ | ⟨rfl, _⟩) | ⟨rfl, _⟩
          · have : r.length < 2 := by omega
            simp [decode, readHead, this]
          · have : r.length < 4 := by omega
            simp [decode, readHead, this]
          · have : r.length < 8 := by omega
            simp [decode, readHead, this]
    | .bytes b, h, p, q, he, hq, fuel => by
      cases fuel with
      | zero => rfl
      | succ f =>
        simp only [Item.WF, decide_eq_true_eq] at h
        simp only [encode] at he
        rcases cut_cases _ _ p q he with ⟨a', ha', h1, _⟩ | ⟨p', h1, h2⟩
        · simp only [decode, readHead_prefix 2 b.length (by omega) p a' h1 ha']
        · subst h1
          have hl : p'.length < b.length := by
            have := congrArg List.length h2
            have hq' : 1 ≤ q.length := by cases q with | nil => exact absurd rfl hq | cons _ _ => simp
            simp only [List.length_append] at this; omega
          simp only [decode, readHead_head 2 b.length p' (by omega) h, hl, if_true]
    | .text b, h, p, q, he, hq, fuel => by
      cases fuel with
      | zero => rfl
      | succ f =>
        simp only [Item.WF, decide_eq_true_eq] at h
        simp only [encode] at he
        rcases cut_cases _ _ p q he with ⟨a', ha', h1, _⟩ | ⟨p', h1, h2⟩
        · simp only [decode, readHead_prefix 3 b.length (by omega) p a' h1 ha']
        · subst h1
          have hl : p'.length < b.length := by
            have := congrArg List.length h2
            have hq' : 1 ≤ q.length := by cases q with | nil => exact absurd rfl hq | cons _ _ => simp
            simp only [List.length_append] at this; omega
          simp only [decode, readHead_head 3 b.length p' (by omega) h, hl, if_true]
    | .array xs, h, p, q, he, hq, fuel => by
      cases fuel with
      | zero => rfl
      | succ f =>
        simp only [Item.WF, Bool.and_eq_true, decide_eq_true_eq] at h
        simp only [encode] at he
        rcases cut_cases _ _ p q he with ⟨a', ha', h1, _⟩ | ⟨p', h1, h2⟩
        · simp only [decode, readHead_prefix 4 xs.length (by omega) p a' h1 ha']
        · subst h1
          simp only [decode, readHead_head 4 xs.length p' (by omega) h.1, decodeList_prefix xs h.2 p' q h2 hq f]
    | .map kvs, h, p, q, he, hq, fuel => by
      cases fuel with
      | zero => rfl
      | succ f =>
        simp only [Item.WF, Bool.and_eq_true, decide_eq_true_eq] at h
        simp only [encode] at he
        rcases cut_cases _ _ p q he with ⟨a', ha', h1, _⟩ | ⟨p', h1, h2⟩
        · simp only [decode, readHead_prefix 5 kvs.length (by omega) p a' h1 ha']
        · subst h1
          simp only [decode, readHead_head 5 kvs.length p' (by omega) h.1, decodePairs_prefix kvs h.2 p' q h2 hq f]
    | .tag t x, h, p, q, he, hq, fuel => by
      cases fuel with
      | zero => rfl
      | succ f =>
        simp only [Item.WF, Bool.and_eq_true, decide_eq_true_eq] at h
        simp only [encode] at he
        rcases cut_cases _ _ p q he with ⟨a', ha', h1, _⟩ | ⟨p', h1, h2⟩
        · simp only [decode, readHead_prefix 6 t (by omega) p a' h1 ha']
        · subst h1
          simp only [decode, readHead_head 6 t p' (by omega) h.1, decode_prefix x h.2 p' q h2 hq f]
  theorem decodeList_prefix : ∀ (xs : List Item), wfList xs = true → ∀ p q, encodeList xs = p ++ q → q ≠ [] → ∀ fuel,
      decodeList fuel xs.length p = none
    | [], _, p, q, he, hq, fuel => by
      simp only [encodeList] at he
      have : q = [] := by
        have := congrArg List.length he
        simp only [List.length_nil, List.length_append] at this
        exact List.length_eq_zero_iff.mp (by omega)
      exact absurd this hq
    | x :: xs, h, p, q, he, hq, fuel => by
      simp only [wfList, Bool.and_eq_true] at h
      simp only [encodeList] at he
      cases fuel with
      | zero => rfl
      | succ f =>
        simp only [List.length_cons, decodeList]
        rcases cut_cases _ _ p q he with ⟨a', ha', h1, _⟩ | ⟨p', h1, h2⟩
        · rw [decode_prefix x h.1 p a' h1 ha' f]
        · subst h1
          cases hd : decode f (encode x ++ p') with
          | none => rfl
          | some r =>
            have := decode_encode_det x h.1 f p' r hd
            subst this
            simp only [decodeList_prefix xs h.2 p' q h2 hq f]
  theorem decodePairs_prefix : ∀ (kvs : List (Item × Item)), wfPairs kvs = true → ∀ p q, encodePairs kvs = p ++ q → q ≠ [] → ∀ fuel,
      decodePairs fuel kvs.length p = none
    | [], _, p, q, he, hq, fuel => by
      simp only [encodePairs] at he
      have : q = [] := by
        have := congrArg List.length he
        simp only [List.length_nil, List.length_append] at this
        exact List.length_eq_zero_iff.mp (by omega)
      exact absurd this hq
    | (k, v) :: kvs, h, p, q, he, hq, fuel => by
      simp only [wfPairs, Bool.and_eq_true] at h
      simp only [encodePairs, List.append_assoc] at he
      cases fuel with
      | zero => rfl
      | succ f =>
        simp only [List.length_cons, decodePairs]
        rcases cut_cases _ _ p q he with ⟨a', ha', h1, _⟩ | ⟨p', h1, h2⟩
        · rw [decode_prefix k h.1.1 p a' h1 ha' f]
        · subst h1
          cases hd : decode f (encode k ++ p') with
          | none => rfl
          | some r =>
            have := decode_encode_det k h.1.1 f p' r hd
            subst this
            simp only
            rcases cut_cases _ _ p' q h2 with ⟨a'', ha'', h3, _⟩ | ⟨p'', h3, h4⟩
            · rw [decode_prefix v h.1.2 p' a'' h3 ha'' f]
            · subst h3
              cases hd2 : decode f (encode v ++ p'') with
              | none => rfl
              | some r2 =>
                have := decode_encode_det v h.1.2 f p'' r2 hd2
                subst this
                simp only [decodePairs_prefix kvs h.2 p'' q h4 hq f]
end

/-- **`skip` accepts no proper prefix of an item** -/
theorem skip_prefix (x : Item) (h : x.WF = true) (p q : Bytes) (he : encode x = p ++ q) (hq : q ≠ []) : skip p = none := by
  unfold skip decode1
  rw [decode_prefix x h p q he hq]
  rfl

end PasskeyVerif.Cbor
