/- Helper lemmas for Props/C12: flag arithmetic, decided over all 256 bytes. -/
import PasskeyVerif.Lemmas.AuthData
namespace PasskeyVerif.C12
open PasskeyVerif.AuthData PasskeyVerif.Generated

theorem flag_calc_ff : ∀ u : UInt8, u &&& ~~~(Flags.UP ||| Flags.UV ||| Flags.BE ||| Flags.BS) = 0 →
    ((Flags.DEFAULT ||| u) &&& Flags.AT ≠ Flags.AT) ∧ ((Flags.DEFAULT ||| u) &&& Flags.ED ≠ Flags.ED)
      ∧ fromBits (Flags.DEFAULT ||| u) = some (Flags.DEFAULT ||| u) := by
  apply forall_uint8; decide +kernel
theorem flag_calc_ft : ∀ u : UInt8, u &&& ~~~(Flags.UP ||| Flags.UV ||| Flags.BE ||| Flags.BS) = 0 →
    ((Flags.DEFAULT ||| u ||| Flags.ED) &&& Flags.AT ≠ Flags.AT) ∧ ((Flags.DEFAULT ||| u ||| Flags.ED) &&& Flags.ED = Flags.ED)
      ∧ fromBits (Flags.DEFAULT ||| u ||| Flags.ED) = some (Flags.DEFAULT ||| u ||| Flags.ED) := by
  apply forall_uint8; decide +kernel
theorem flag_calc_tf : ∀ u : UInt8, u &&& ~~~(Flags.UP ||| Flags.UV ||| Flags.BE ||| Flags.BS) = 0 →
    ((Flags.DEFAULT ||| u ||| Flags.AT ||| Flags.AT) &&& Flags.AT = Flags.AT)
      ∧ ((Flags.DEFAULT ||| u ||| Flags.AT ||| Flags.AT) &&& Flags.ED ≠ Flags.ED)
      ∧ fromBits (Flags.DEFAULT ||| u ||| Flags.AT ||| Flags.AT) = some (Flags.DEFAULT ||| u ||| Flags.AT ||| Flags.AT) := by
  apply forall_uint8; decide +kernel
theorem flag_calc_tt : ∀ u : UInt8, u &&& ~~~(Flags.UP ||| Flags.UV ||| Flags.BE ||| Flags.BS) = 0 →
    ((Flags.DEFAULT ||| u ||| Flags.AT ||| Flags.ED ||| Flags.AT) &&& Flags.AT = Flags.AT)
      ∧ ((Flags.DEFAULT ||| u ||| Flags.AT ||| Flags.ED ||| Flags.AT) &&& Flags.ED = Flags.ED)
      ∧ fromBits (Flags.DEFAULT ||| u ||| Flags.AT ||| Flags.ED ||| Flags.AT)
          = some (Flags.DEFAULT ||| u ||| Flags.AT ||| Flags.ED ||| Flags.AT) := by
  apply forall_uint8; decide +kernel

theorem reserved_rejected : ∀ fb : UInt8, fb &&& 34 ≠ 0 → fromBits fb = none := by
  apply forall_uint8; decide +kernel

end PasskeyVerif.C12
