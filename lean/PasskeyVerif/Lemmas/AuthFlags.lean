/- Helper lemmas for Props/C04: the UP / UV bits of the flag byte of a response. -/
import PasskeyVerif.Lemmas.Auth
namespace PasskeyVerif.C04
open PasskeyVerif.Auth PasskeyVerif.Auth.Spec PasskeyVerif.Generated
open PasskeyVerif.AuthData (Bytes AuthData)

theorem make_flag_bits (p v : Bool) :
    ((((Flags.DEFAULT ||| flagsOf p v) ||| Flags.AT) ||| Flags.AT) &&& AuthData.Spec.bitUP != 0) = p
    ∧ ((((Flags.DEFAULT ||| flagsOf p v) ||| Flags.AT) ||| Flags.AT) &&& AuthData.Spec.bitUV != 0) = v := by
  cases p <;> cases v <;> decide

theorem get_flag_bits (p v : Bool) :
    (((Flags.DEFAULT ||| flagsOf p v)) &&& AuthData.Spec.bitUP != 0) = p
    ∧ (((Flags.DEFAULT ||| flagsOf p v)) &&& AuthData.Spec.bitUV != 0) = v := by
  cases p <;> cases v <;> decide

end PasskeyVerif.C04
