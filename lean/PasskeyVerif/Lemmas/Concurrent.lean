/- Lemmas about the interleaving model (Props/C19): progress measure, monotonicity of the set of stored ids. -/
import PasskeyVerif.Lemmas.AuthCancel
import PasskeyVerif.Model.Concurrent
namespace PasskeyVerif.Conc
open PasskeyVerif.Auth PasskeyVerif.Auth.Spec
open PasskeyVerif.AuthData (Bytes AuthData)

/-- calls a thread may still make -/
def rank : Thread → Nat
  | .getFind _ _ => 3
  | .getUv _ _ _ => 2
  | .getUpdate _ _ _ => 1
  | .mkUv _ _ _ => 5
  | .mkExclude _ _ _ => 4
  | .mkRkInfo _ _ _ => 3
  | .mkInfo _ _ _ _ _ => 2
  | .mkSave _ _ _ _ _ => 1
  | .doneGet _ => 0
  | .doneMake _ => 0

theorem rank_zero_iff_done (t : Thread) : rank t = 0 ↔ t.done = true := by cases t <;> simp [rank, Thread.done]

theorem rank_mkAfterRk (cfg : Cfg) (req : MakeReq) (dr : Draws) (flags : UInt8) : rank (mkAfterRk cfg req dr flags) ≤ 2 := by
  unfold mkAfterRk
  split
  · simp [rank]
  · split <;> simp [rank]

theorem rank_mkAfterExclude (cfg : Cfg) (req : MakeReq) (dr : Draws) (flags : UInt8) : rank (mkAfterExclude cfg req dr flags) ≤ 3 := by
  unfold mkAfterExclude
  split
  · simp [rank]
  · split
    · simp [rank]
    · have := rank_mkAfterRk cfg req dr flags; omega

/-- every call makes progress: no call of one ceremony waits for another ceremony -/
theorem step_rank (cfg : Cfg) (s : Store) (t : Thread) (h : rank t > 0) : rank (step cfg s t).2 < rank t := by
  cases t with
  | getFind req u =>
    simp only [step]
    split
    · simp [rank]
    · split
      · simp [rank]
      · split <;> simp [rank]
  | getUv req u maybe =>
    simp only [step]
    split
    · simp [rank]
    · split
      · simp [rank]
      · split <;> simp [rank]
  | getUpdate req flags cred => simp [step, rank]
  | mkUv req u dr =>
    simp only [step]
    split
    · simp [rank]
    · split
      · simp [rank]
      · have := rank_mkAfterExclude cfg req dr ‹UInt8›; show rank (mkAfterExclude cfg req dr _) < 5; omega
  | mkExclude req dr flags =>
    simp only [step]
    split
    · simp [rank]
    · have := rank_mkAfterExclude cfg req dr flags; show rank (mkAfterExclude cfg req dr flags) < 4; omega
  | mkRkInfo req dr flags =>
    simp only [step]
    split
    · simp [rank]
    · have := rank_mkAfterRk cfg req dr flags; show rank (mkAfterRk cfg req dr flags) < 3; omega
  | mkInfo req dr flags prfOut stored => simp [step, rank]
  | mkSave req dr flags prfOut pk =>
    simp only [step]
    split <;> simp [rank]
  | doneGet r => simp [rank] at h
  | doneMake r => simp [rank] at h

theorem step_done (cfg : Cfg) (s : Store) (t : Thread) (h : t.done = true) : step cfg s t = (s, t) := by
  cases t <;> simp [Thread.done] at h <;> rfl

theorem getAfterConsent_kind (cfg : Cfg) (s : Store) (req : GetReq) (flags : UInt8) (cred : Passkey) :
    (getAfterConsent cfg s req flags cred).store.kind = s.kind := by
  unfold getAfterConsent
  cases hc : cred.counter with
  | none => simp only; rw [(signPhase_trace _ _ _ _ _).2]
  | some c =>
    simp only
    unfold Store.update
    cases hf : s.fault? with
    | some f => rfl
    | none =>
      simp only
      cases hu : updateRaw s.kind s.items { cred with counter := some (bump c) } with
      | error e => rfl
      | ok l => simp only [Outcome.prepend]; rw [(signPhase_trace _ _ _ _ _).2]; rfl

/-! ### schedules -/

theorem runSched_length (cfg : Cfg) (s : Store) (ts : List Thread) (sched : List Nat) :
    (runSched cfg s ts sched).2.length = ts.length := by
  induction sched generalizing s ts with
  | nil => rfl
  | cons j rest ih =>
    unfold runSched
    cases h : ts[j]? with
    | none => exact ih s ts
    | some t => simp only; rw [ih]; simp

/-- after a schedule, thread `i` has at most `rank − (number of times it was scheduled)` calls left -/
theorem runSched_rank (cfg : Cfg) (s : Store) (ts : List Thread) (sched : List Nat) (i : Nat) (t : Thread)
    (h : ts[i]? = some t) :
    ∃ t', (runSched cfg s ts sched).2[i]? = some t' ∧ rank t' ≤ rank t - sched.count i := by
  induction sched generalizing s ts t with
  | nil => exact ⟨t, h, by simp⟩
  | cons j rest ih =>
    unfold runSched
    cases hj : ts[j]? with
    | none =>
      simp only
      have hne : j ≠ i := by intro e; rw [e, h] at hj; cases hj
      obtain ⟨t', h1, h2⟩ := ih s ts t h
      exact ⟨t', h1, by rw [List.count_cons_of_ne hne]; exact h2⟩
    | some tj =>
      simp only
      by_cases hji : j = i
      · subst hji
        rw [h] at hj; cases hj
        have hlt : j < ts.length := by
          rcases List.getElem?_eq_some_iff.mp h with ⟨hl, _⟩; exact hl
        have hset : (ts.set j (step cfg s t).2)[j]? = some (step cfg s t).2 := by simp [hlt]
        obtain ⟨t', h1, h2⟩ := ih (step cfg s t).1 (ts.set j (step cfg s t).2) (step cfg s t).2 hset
        refine ⟨t', h1, ?_⟩
        rw [List.count_cons_self]
        by_cases hr : rank t > 0
        · have := step_rank cfg s t hr; omega
        · have hz : rank t = 0 := by omega
          have hd := (rank_zero_iff_done t).mp hz
          have hst : (step cfg s t).2 = t := by rw [step_done cfg s t hd]
          rw [hst] at h2
          omega
      · have hset : (ts.set j (step cfg s tj).2)[i]? = some t := by
          rw [List.getElem?_set_ne hji]; exact h
        obtain ⟨t', h1, h2⟩ := ih (step cfg s tj).1 (ts.set j (step cfg s tj).2) t hset
        exact ⟨t', h1, by rw [List.count_cons_of_ne hji]; exact h2⟩

/-! ### the set of stored credential ids only grows (map-like stores) -/

def present (id : Bytes) (items : List Passkey) : Bool := items.any (fun q => q.credId == id)

theorem present_saveRaw (kind : StoreKind) (items : List Passkey) (p : Passkey) (id : Bytes) (hk : kind ≠ .singleSlot)
    (h : present id items = true) : present id (saveRaw kind items p) = true := by
  unfold present at *
  have key : (items.filter (fun q => q.credId != p.credId) ++ [p]).any (fun q => q.credId == id) = true := by
    rw [List.any_eq_true] at h ⊢
    obtain ⟨q, hq, hid⟩ := h
    by_cases he : q.credId = p.credId
    · exact ⟨p, by simp, by rw [← he]; exact hid⟩
    · exact ⟨q, by simp [hq, he], hid⟩
  cases kind with
  | memoryMap => exact key
  | singleSlot => exact absurd rfl hk
  | reference d => exact key

theorem present_saveRaw_self (kind : StoreKind) (items : List Passkey) (p : Passkey) : present p.credId (saveRaw kind items p) = true := by
  unfold present
  cases kind <;> simp [saveRaw]

theorem present_updateRaw (kind : StoreKind) (items l : List Passkey) (p : Passkey) (id : Bytes) (hk : kind ≠ .singleSlot)
    (hu : updateRaw kind items p = .ok l) (h : present id items = true) : present id l = true := by
  cases kind with
  | memoryMap =>
    have : l = saveRaw .memoryMap items p := by
      have : updateRaw .memoryMap items p = .ok (saveRaw .memoryMap items p) := rfl
      rw [this] at hu; cases hu; rfl
    rw [this]; exact present_saveRaw .memoryMap items p id (by simp) h
  | singleSlot => exact absurd rfl hk
  | reference d =>
    have hdef : updateRaw (.reference d) items p =
        (if items.any (fun q => q.credId == p.credId) then .ok (items.map (fun q => if q.credId == p.credId then p else q))
         else .error eNoCredentials) := rfl
    rw [hdef] at hu
    split at hu
    · simp only [Except.ok.injEq] at hu
      rw [← hu]
      unfold present at *
      rw [List.any_eq_true] at h ⊢
      obtain ⟨q, hq, hid⟩ := h
      by_cases he : (q.credId == p.credId) = true
      · exact ⟨p, List.mem_map.mpr ⟨q, hq, by simp [he]⟩, by rw [← (beq_iff_eq.mp he)]; exact hid⟩
      · exact ⟨q, List.mem_map.mpr ⟨q, hq, by simp [he]⟩, hid⟩
    · cases hu

theorem step_kind (cfg : Cfg) (s : Store) (t : Thread) : (step cfg s t).1.kind = s.kind := by
  cases t with
  | getFind req u => simp only [step]; split <;> (try split) <;> (try split) <;> rfl
  | getUv req u maybe => simp only [step]; split <;> (try split) <;> (try split) <;> rfl
  | getUpdate req flags cred => exact getAfterConsent_kind cfg s req flags cred
  | mkUv req u dr => simp only [step]; split <;> (try split) <;> rfl
  | mkExclude req dr flags => simp only [step]; split <;> exact excludePhase_kind s req
  | mkRkInfo req dr flags => simp only [step]; split <;> exact rkPhase_kind s req
  | mkInfo req dr flags prfOut stored => rfl
  | mkSave req dr flags prfOut pk => simp only [step]; split <;> exact save_kind _ _ _ _ _ _
  | doneGet r => rfl
  | doneMake r => rfl

/-- no call of any ceremony removes a stored credential id -/
theorem step_present (cfg : Cfg) (s : Store) (t : Thread) (id : Bytes) (hk : s.kind ≠ .singleSlot)
    (h : present id s.items = true) : present id (step cfg s t).1.items = true := by
  cases t with
  | getFind req u => simp only [step]; split <;> (try split) <;> (try split) <;> exact h
  | getUv req u maybe => simp only [step]; split <;> (try split) <;> (try split) <;> exact h
  | getUpdate req flags cred =>
    simp only [step]
    rcases getAfterConsent_effects cfg s req flags cred _ rfl with h1 | ⟨c, l, _, _, hu, hl⟩ | ⟨c, f, _, _, h3, _⟩
    · rw [h1.2.1]; exact h
    · rw [hl]; exact present_updateRaw s.kind s.items l _ id hk hu h
    · rw [h3]; exact h
  | mkUv req u dr => simp only [step]; split <;> (try split) <;> exact h
  | mkExclude req dr flags => simp only [step]; split <;> (rw [excludePhase_items]; exact h)
  | mkRkInfo req dr flags => simp only [step]; split <;> (rw [rkPhase_items]; exact h)
  | mkInfo req dr flags prfOut stored => exact h
  | mkSave req dr flags prfOut pk =>
    simp only [step]
    unfold Store.save
    cases hf : s.fault? with
    | some e => exact h
    | none => exact present_saveRaw s.kind s.items pk id hk h
  | doneGet r => exact h
  | doneMake r => exact h

/-! ### registrations: the invariant of a schedule -/

/-- the credentials of finished registrations are in the store, and a registration about to save holds the
passkey with the drawn id -/
def Inv (s : Store) (ts : List Thread) : Prop :=
  ∀ t ∈ ts, (∀ r, t = .doneMake (.ok r) → ∃ a, r.authData.acd = some a ∧ present a.credId s.items = true)
    ∧ (∀ req dr flags prf pk, t = .mkSave req dr flags prf pk → pk.credId = dr.credId)

/-- ceremonies that have not started yet satisfy the invariant -/
theorem inv_of_started (s : Store) (ts : List Thread)
    (h : ∀ t ∈ ts, (∃ req u, t = startGet req u) ∨ (∃ req u dr, t = startMake req u dr)) : Inv s ts := by
  intro t ht
  rcases h t ht with ⟨req, u, rfl⟩ | ⟨req, u, dr, rfl⟩
  · exact ⟨fun r hr => (by cases hr), fun _ _ _ _ _ hr => (by cases hr)⟩
  · unfold startMake
    split
    · exact ⟨fun r hr => (by cases hr), fun _ _ _ _ _ hr => (by cases hr)⟩
    · split
      · exact ⟨fun r hr => (by cases hr), fun _ _ _ _ _ hr => (by cases hr)⟩
      · exact ⟨fun r hr => (by cases hr), fun _ _ _ _ _ hr => (by cases hr)⟩

theorem mkAfterRk_shape (cfg : Cfg) (req : MakeReq) (dr : Draws) (flags : UInt8) :
    (∀ r, mkAfterRk cfg req dr flags ≠ .doneMake (.ok r)) ∧ (∀ a b c d e, mkAfterRk cfg req dr flags ≠ .mkSave a b c d e) := by
  unfold mkAfterRk
  split
  · exact ⟨fun r h => (by cases h), fun _ _ _ _ _ h => (by cases h)⟩
  · split <;> exact ⟨fun r h => (by cases h), fun _ _ _ _ _ h => (by cases h)⟩

theorem mkAfterExclude_shape (cfg : Cfg) (req : MakeReq) (dr : Draws) (flags : UInt8) :
    (∀ r, mkAfterExclude cfg req dr flags ≠ .doneMake (.ok r)) ∧ (∀ a b c d e, mkAfterExclude cfg req dr flags ≠ .mkSave a b c d e) := by
  unfold mkAfterExclude
  split
  · exact ⟨fun r h => (by cases h), fun _ _ _ _ _ h => (by cases h)⟩
  · split
    · exact ⟨fun r h => (by cases h), fun _ _ _ _ _ h => (by cases h)⟩
    · exact mkAfterRk_shape cfg req dr flags

/-- what one call can turn a thread into, as far as the invariant is concerned -/
theorem step_inv_self (cfg : Cfg) (s : Store) (t : Thread)
    (hsave : ∀ req dr flags prf pk, t = .mkSave req dr flags prf pk → pk.credId = dr.credId)
    (hdone : ∀ r, t = .doneMake (.ok r) → ∃ a, r.authData.acd = some a ∧ present a.credId s.items = true) :
    (∀ r, (step cfg s t).2 = .doneMake (.ok r) → ∃ a, r.authData.acd = some a ∧ present a.credId (step cfg s t).1.items = true)
    ∧ (∀ req dr flags prf pk, (step cfg s t).2 = .mkSave req dr flags prf pk → pk.credId = dr.credId) := by
  cases t with
  | getFind req u =>
    simp only [step]
    split
    · exact ⟨fun r h => (by cases h), fun _ _ _ _ _ h => (by cases h)⟩
    · split
      · exact ⟨fun r h => (by cases h), fun _ _ _ _ _ h => (by cases h)⟩
      · split <;> exact ⟨fun r h => (by cases h), fun _ _ _ _ _ h => (by cases h)⟩
  | getUv req u maybe =>
    simp only [step]
    split
    · exact ⟨fun r h => (by cases h), fun _ _ _ _ _ h => (by cases h)⟩
    · split
      · exact ⟨fun r h => (by cases h), fun _ _ _ _ _ h => (by cases h)⟩
      · split <;> exact ⟨fun r h => (by cases h), fun _ _ _ _ _ h => (by cases h)⟩
  | getUpdate req flags cred => exact ⟨fun r h => (by cases h), fun _ _ _ _ _ h => (by cases h)⟩
  | mkUv req u dr =>
    simp only [step]
    split
    · exact ⟨fun r h => (by cases h), fun _ _ _ _ _ h => (by cases h)⟩
    · split
      · exact ⟨fun r h => (by cases h), fun _ _ _ _ _ h => (by cases h)⟩
      · exact ⟨fun r h => absurd h ((mkAfterExclude_shape cfg req dr _).1 r), fun a b c d e h => absurd h ((mkAfterExclude_shape cfg req dr _).2 a b c d e)⟩
  | mkExclude req dr flags =>
    simp only [step]
    split
    · exact ⟨fun r h => (by cases h), fun _ _ _ _ _ h => (by cases h)⟩
    · exact ⟨fun r h => absurd h ((mkAfterExclude_shape cfg req dr flags).1 r), fun a b c d e h => absurd h ((mkAfterExclude_shape cfg req dr flags).2 a b c d e)⟩
  | mkRkInfo req dr flags =>
    simp only [step]
    split
    · exact ⟨fun r h => (by cases h), fun _ _ _ _ _ h => (by cases h)⟩
    · exact ⟨fun r h => absurd h ((mkAfterRk_shape cfg req dr flags).1 r), fun a b c d e h => absurd h ((mkAfterRk_shape cfg req dr flags).2 a b c d e)⟩
  | mkInfo req dr flags prfOut stored =>
    refine ⟨fun r h => (by cases h), ?_⟩
    intro req' dr' flags' prf' pk' h
    simp only [step, Thread.mkSave.injEq] at h
    obtain ⟨_, h2, _, _, h5⟩ := h
    rw [← h5, ← h2]; rfl
  | mkSave req dr flags prfOut pk =>
    have hid := hsave req dr flags prfOut pk rfl
    simp only [step]
    unfold Store.save
    cases hf : s.fault? with
    | some e => exact ⟨fun r h => (by cases h), fun _ _ _ _ _ h => (by cases h)⟩
    | none =>
      refine ⟨?_, fun _ _ _ _ _ h => (by cases h)⟩
      intro r h
      simp only [Thread.doneMake.injEq, Except.ok.injEq] at h
      refine ⟨⟨cfg.aaguid, dr.credId, coseKeyBytes dr.key⟩, by rw [← h]; rfl, ?_⟩
      show present dr.credId (saveRaw s.kind s.items pk) = true
      rw [← hid]; exact present_saveRaw_self s.kind s.items pk
  | doneGet r => exact ⟨fun r h => (by cases h), fun _ _ _ _ _ h => (by cases h)⟩
  | doneMake r =>
    refine ⟨?_, fun _ _ _ _ _ h => (by cases h)⟩
    intro r' h
    exact hdone r' h

/-- the invariant is kept by every call of every ceremony (map-like stores) -/
theorem step_inv (cfg : Cfg) (s : Store) (ts : List Thread) (j : Nat) (tj : Thread) (hk : s.kind ≠ .singleSlot)
    (hj : ts[j]? = some tj) (hinv : Inv s ts) : Inv (step cfg s tj).1 (ts.set j (step cfg s tj).2) := by
  intro t ht
  rcases List.mem_or_eq_of_mem_set ht with hmem | heq
  · obtain ⟨h1, h2⟩ := hinv t hmem
    refine ⟨fun r hr => ?_, h2⟩
    obtain ⟨a, ha, hp⟩ := h1 r hr
    exact ⟨a, ha, step_present cfg s tj a.credId hk hp⟩
  · have htj : tj ∈ ts := List.mem_of_getElem? hj
    obtain ⟨h1, h2⟩ := hinv tj htj
    rw [heq]
    exact step_inv_self cfg s tj h2 h1

theorem runSched_inv (cfg : Cfg) (s : Store) (ts : List Thread) (sched : List Nat) (hk : s.kind ≠ .singleSlot)
    (hinv : Inv s ts) : Inv (runSched cfg s ts sched).1 (runSched cfg s ts sched).2 := by
  induction sched generalizing s ts with
  | nil => exact hinv
  | cons j rest ih =>
    unfold runSched
    cases hj : ts[j]? with
    | none => exact ih s ts hk hinv
    | some tj =>
      simp only
      exact ih _ _ (by rw [step_kind]; exact hk) (step_inv cfg s ts j tj hk hj hinv)

end PasskeyVerif.Conc
