#!/usr/bin/env python3
"""Translator for C13: regenerates lean/PasskeyVerif/Generated/Ctap.lean from
  passkey-types/src/ctap2/error.rs            (repr_enum! tables and the range matches of the newtype errors)
  passkey-types/src/ctap2/{make_credential,get_assertion,get_info}.rs, extensions/hmac_secret.rs
                                              (serde_workaround! structs: field, integer key, default, skip_serializing_if, deserialize_with)
Tolerant source reading: comments stripped, whitespace normalised, attributes parsed as token lists."""
import hashlib, os, re, sys

REPO = os.environ.get("VERIF_REPO", "/repo")
OUT = os.path.join(os.path.dirname(os.path.abspath(__file__)), "..", "lean", "PasskeyVerif", "Generated")


class TranslatorError(Exception):
    pass


def strip_comments(src):
    src = re.sub(r"/\*.*?\*/", "", src, flags=re.S)
    return re.sub(r"//[^\n]*", "", src)


def num(s):
    return int(s.strip().replace("_", ""), 0)


def balanced(src, start):
    """src[start] is '{'; return index after the matching '}'"""
    depth = 0
    for i in range(start, len(src)):
        if src[i] == "{":
            depth += 1
        elif src[i] == "}":
            depth -= 1
            if depth == 0:
                return i + 1
    raise TranslatorError("unbalanced braces")


def parse_repr_enums(src):
    out = {}
    for m in re.finditer(r"repr_enum!\s*\{", src):
        end = balanced(src, m.end() - 1)
        body = src[m.end():end - 1]
        h = re.search(r"([A-Za-z0-9_]+)\s*:\s*u8\s*\{", body)
        if not h:
            continue
        inner_end = balanced(body, h.end() - 1)
        inner = re.sub(r"#\[[^\]]*\]", "", body[h.end():inner_end - 1])
        variants = []
        for vm in re.finditer(r"([A-Za-z0-9_]+)\s*:\s*(0x[0-9a-fA-F_]+|\d+)\s*,", inner):
            variants.append((vm.group(1), num(vm.group(2))))
        out[h.group(1)] = variants
    return out


def parse_ranges(src, name):
    m = re.search(r"impl\s+TryFrom<u8>\s+for\s+%s\s*\{" % name, src)
    if not m:
        raise TranslatorError("TryFrom<u8> for %s not found" % name)
    body = src[m.end():balanced(src, m.end() - 1)]
    mm = re.search(r"match\s+value\s*\{(.*?)=>\s*Ok", body, re.S)
    if not mm:
        raise TranslatorError("range match of %s not found" % name)
    ranges = []
    for part in mm.group(1).split("|"):
        part = part.strip()
        if not part:
            continue
        r = re.fullmatch(r"(0x[0-9a-fA-F_]+|\d+)\s*\.\.=\s*(0x[0-9a-fA-F_]+|\d+)", part)
        if r:
            ranges.append((num(r.group(1)), num(r.group(2))))
        elif re.fullmatch(r"0x[0-9a-fA-F_]+|\d+", part):
            ranges.append((num(part), num(part)))
        else:
            raise TranslatorError("range pattern of %s not understood: %r" % (name, part))
    return ranges


def parse_cascade(src, name):
    """order in which `TryFrom<u8> for <name>` tries the error types"""
    m = re.search(r"impl\s+TryFrom<u8>\s+for\s+%s\s*\{" % name, src)
    if not m:
        raise TranslatorError("TryFrom<u8> for %s not found" % name)
    body = src[m.end():balanced(src, m.end() - 1)]
    return re.findall(r"([A-Za-z0-9_]+)::try_from", body)


def parse_workaround_structs(src):
    out = {}
    for m in re.finditer(r"serde_workaround!\s*\{", src):
        end = balanced(src, m.end() - 1)
        body = src[m.end():end - 1]
        h = re.search(r"pub\s+struct\s+([A-Za-z0-9_]+)\s*\{", body)
        if not h:
            raise TranslatorError("struct header not found in serde_workaround!")
        inner = body[h.end():balanced(body, h.end() - 1) - 1]
        fields = []
        pos = 0
        for fm in re.finditer(r"#\[\s*serde\s*\((.*?)\)\s*\]\s*(?:pub(?:\([a-z]+\))?\s+)?([a-z_0-9]+)\s*:", inner, re.S):
            attr = re.sub(r"\s+", " ", fm.group(1)).strip().rstrip(",")
            toks = [t.strip() for t in attr.split(",") if t.strip()]
            key = None; default = False; skip = None; dewith = None
            for t in toks:
                if re.fullmatch(r"rename\s*=\s*(0x[0-9a-fA-F_]+|\d+)", t):
                    key = num(t.split("=")[1])
                elif t == "default":
                    default = True
                elif t.startswith("skip_serializing_if"):
                    skip = t.split("=")[1].strip()
                elif t.startswith("deserialize_with"):
                    dewith = t.split("=")[1].strip()
                else:
                    raise TranslatorError("serde attribute not understood: %r" % t)
            if key is None:
                raise TranslatorError("field %s has no integer rename" % fm.group(2))
            fields.append({"name": fm.group(2), "key": key, "default": default, "skip": skip, "dewith": dewith})
        if not fields:
            raise TranslatorError("no fields in struct %s" % h.group(1))
        out[h.group(1)] = fields
    return out


def lean_str(s):
    return '"' + s.replace("\\", "\\\\").replace('"', '\\"') + '"'


def main():
    base = os.path.join(REPO, "passkey-types", "src", "ctap2")
    digests = {}

    def read(rel):
        p = os.path.join(base, rel)
        data = open(p, "rb").read()
        digests[rel] = hashlib.sha256(data).hexdigest()
        return strip_comments(data.decode("utf-8"))

    err = read("error.rs")
    enums = parse_repr_enums(err)
    for need in ["U2FError", "Ctap2Error"]:
        if need not in enums:
            raise TranslatorError("repr_enum %s not found" % need)
    ranges = {n: parse_ranges(err, n) for n in ["UnknownSpecError", "ExtensionError", "VendorError"]}
    cascade2 = parse_cascade(err, "Ctap2Code")
    m = re.search(r"impl\s+From<u8>\s+for\s+StatusCode\s*\{", err)
    if not m:
        raise TranslatorError("From<u8> for StatusCode not found")
    top = re.findall(r"([A-Za-z0-9_]+)::try_from", err[m.end():balanced(err, m.end() - 1)])

    structs = {}
    for rel, prefix in [("make_credential.rs", "makeCredential"), ("get_assertion.rs", "getAssertion"),
                        ("get_info.rs", "getInfo"), (os.path.join("extensions", "hmac_secret.rs"), "hmacSecret")]:
        for name, fields in parse_workaround_structs(read(rel)).items():
            structs[prefix + name] = fields

    L = ["/- GENERATED by translate/ctap.py from passkey-types/src/ctap2/*.rs — do not edit. -/",
         "namespace PasskeyVerif.Generated.Ctap", "",
         "structure Field where", "  name : String", "  key : Nat", "  hasDefault : Bool", "  skipIfNone : Bool",
         "  deserializeWith : Bool", "  deriving DecidableEq, Repr", ""]
    for name in sorted(structs):
        items = []
        for f in structs[name]:
            if f["skip"] not in (None, "Option::is_none"):
                raise TranslatorError("skip_serializing_if predicate not modelled: %s" % f["skip"])
            items.append("  ⟨%s, %d, %s, %s, %s⟩" % (lean_str(f["name"]), f["key"], str(f["default"]).lower(),
                                                  str(f["skip"] is not None).lower(), str(f["dewith"] is not None).lower()))
        L.append("def %s : List Field := [\n%s]" % (name, ",\n".join(items)))
        L.append("")
    for n in ["Ctap2Error", "U2FError"]:
        L.append("def %s : List (String × Nat) := [\n%s]" % (n[0].lower() + n[1:], ",\n".join("  (%s, %d)" % (lean_str(a), b) for a, b in enums[n])))
        L.append("")
    for n in ["UnknownSpecError", "ExtensionError", "VendorError"]:
        L.append("def %sRanges : List (Nat × Nat) := [%s]" % (n[0].lower() + n[1:], ", ".join("(%d, %d)" % r for r in ranges[n])))
    L.append("/-- order in which `Ctap2Code::try_from` tries the error types -/")
    L.append("def ctap2Cascade : List String := [%s]" % ", ".join(lean_str(x) for x in cascade2))
    L.append("/-- order in which `StatusCode::from(u8)` tries the code families -/")
    L.append("def statusCascade : List String := [%s]" % ", ".join(lean_str(x) for x in top))
    codes = {"Ctap2Error": 0, "ExtensionError": 1, "VendorError": 2, "UnknownSpecError": 3, "Ctap2Code": 10, "U2FError": 11}
    for x in cascade2 + top:
        if x not in codes:
            raise TranslatorError("unknown error family in a conversion cascade: %s" % x)
    L.append("/-- the same cascades as family codes (0 Ctap2Error, 1 ExtensionError, 2 VendorError, 3 UnknownSpecError; 10 Ctap2Code, 11 U2FError) -/")
    L.append("def ctap2CascadeCodes : List Nat := [%s]" % ", ".join(str(codes[x]) for x in cascade2))
    L.append("def statusCascadeCodes : List Nat := [%s]" % ", ".join(str(codes[x]) for x in top))
    L.append("end PasskeyVerif.Generated.Ctap")
    content = "\n".join(L) + "\n"
    out = os.path.join(OUT, "Ctap.lean")
    changed = not (os.path.exists(out) and open(out).read() == content)
    if changed:
        os.makedirs(OUT, exist_ok=True)
        open(out, "w").write(content)
    return {"sha256": digests, "structs": {k: len(v) for k, v in structs.items()}, "ctap2_errors": len(enums["Ctap2Error"]),
            "u2f_errors": len(enums["U2FError"]), "regenerated": changed}


if __name__ == "__main__":
    try:
        print(main())
    except TranslatorError as e:
        print("translator error:", e, file=sys.stderr)
        sys.exit(3)
