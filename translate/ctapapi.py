#!/usr/bin/env python3
"""Translator for C18: regenerates lean/PasskeyVerif/Generated/CtapApi.lean from
  passkey-authenticator/src/ctap2.rs                      (trait Ctap2Api and its impl for Authenticator)
  passkey-authenticator/src/authenticator/get_info.rs, make_credential.rs, get_assertion.rs
                                                          (receiver and impl bounds of the inherent methods)."""
import hashlib, os, re, sys

REPO = os.environ.get("VERIF_REPO", "/repo")
OUT = os.path.join(os.path.dirname(os.path.abspath(__file__)), "..", "lean", "PasskeyVerif", "Generated")


class TranslatorError(Exception):
    pass


def strip_comments(src):
    src = re.sub(r"/\*.*?\*/", "", src, flags=re.S)
    return re.sub(r"//[^\n]*", "", src)


def block_after(src, start):
    """text of the brace block starting at the first '{' at or after `start`"""
    i = src.index("{", start)
    depth, j = 0, i
    while j < len(src):
        if src[j] == "{":
            depth += 1
        elif src[j] == "}":
            depth -= 1
            if depth == 0:
                return src[i + 1:j], j + 1
        j += 1
    raise TranslatorError("unbalanced braces")


def recv_of(params):
    p = params.strip()
    if re.match(r"&\s*mut\s+self\b", p):
        return "mutRef"
    if re.match(r"&\s*self\b", p):
        return "ref"
    if re.match(r"(mut\s+)?self\b", p):
        return "value"
    raise TranslatorError("receiver not understood: %r" % p[:40])


def param_names(params):
    names = []
    for part in re.split(r",(?![^<>()]*[>)])", params):
        part = part.strip()
        if not part or "self" in part.split(":")[0]:
            continue
        names.append(part.split(":")[0].strip())
    return names


def main():
    p_api = os.path.join(REPO, "passkey-authenticator", "src", "ctap2.rs")
    api = strip_comments(open(p_api).read())
    m = re.search(r"pub\s+trait\s+Ctap2Api\b[^{]*", api)
    if not m:
        raise TranslatorError("trait Ctap2Api not found")
    tbody, _ = block_after(api, m.end() - 1)
    trait_methods = {}
    for name, params in re.findall(r"async\s+fn\s+(\w+)\s*\(([^)]*)\)", tbody):
        trait_methods[name] = (recv_of(params), param_names(params))
    m = re.search(r"impl\s*<[^>]*>\s*Ctap2Api\s+for\s+Authenticator\s*<[^>]*>\s*(where(.*?))?\{", api, re.S)
    if not m:
        raise TranslatorError("impl Ctap2Api for Authenticator not found")
    where = m.group(2) or ""
    impl_item_bound = bool(re.search(r"UserValidationMethod\s*<\s*PasskeyItem\s*=", where))
    ibody, _ = block_after(api, m.end() - 1)
    fwd = []
    pos = 0
    for mm in re.finditer(r"async\s+fn\s+(\w+)\s*\(([^)]*)\)[^{]*", ibody):
        name, params = mm.group(1), mm.group(2)
        body, _ = block_after(ibody, mm.end() - 1)
        body = " ".join(body.split())
        recv = recv_of(params)
        names = param_names(params)
        c = re.fullmatch(r"self\s*\.\s*(\w+)\s*\(([^()]*)\)\s*\.\s*await", body)
        if c:
            form, callee, args = "method", c.group(1), [a.strip() for a in c.group(2).split(",") if a.strip()]
        else:
            c = re.fullmatch(r"(?:Authenticator|Self|Authenticator\s*::\s*<[^>]*>)\s*::\s*(\w+)\s*\(\s*self\s*(?:,\s*([^()]*))?\)\s*\.\s*await", body)
            if not c:
                raise TranslatorError("body of Ctap2Api::%s is not a single forwarding call: %r" % (name, body[:120]))
            form, callee, args = "path", c.group(1), [a.strip() for a in (c.group(2) or "").split(",") if a.strip()]
        if name not in trait_methods:
            raise TranslatorError("impl method %s is not in the trait" % name)
        if trait_methods[name][0] != recv:
            raise TranslatorError("receiver of %s differs between trait and impl" % name)
        fwd.append({"name": name, "traitRecv": recv, "form": form, "callee": callee, "argsForwarded": args == names})
    if sorted(f["name"] for f in fwd) != sorted(trait_methods):
        raise TranslatorError("impl does not define exactly the trait's methods")
    files = {"get_info": "get_info.rs", "make_credential": "make_credential.rs", "get_assertion": "get_assertion.rs"}
    hashes = {"ctap2.rs": hashlib.sha256(open(p_api, "rb").read()).hexdigest()}
    for f in fwd:
        fn = files.get(f["callee"])
        if not fn:
            f["inherentRecv"], f["needsItemBound"] = "none", False
            continue
        path = os.path.join(REPO, "passkey-authenticator", "src", "authenticator", fn)
        src = strip_comments(open(path).read())
        hashes[fn] = hashlib.sha256(open(path, "rb").read()).hexdigest()
        mm = re.search(r"pub\s+async\s+fn\s+%s\s*\(([^)]*)\)" % re.escape(f["callee"]), src)
        if not mm:
            raise TranslatorError("inherent method %s not found in %s" % (f["callee"], fn))
        f["inherentRecv"] = recv_of(mm.group(1))
        head = src[:mm.start()]
        im = list(re.finditer(r"impl\s*<[^{]*?Authenticator\s*<[^>]*>\s*(where[^{]*)?\{", head, re.S))
        if not im:
            raise TranslatorError("impl block of %s not found" % f["callee"])
        f["needsItemBound"] = bool(re.search(r"UserValidationMethod\s*<\s*PasskeyItem\s*=", im[-1].group(0)))
    L = ["/- GENERATED by translate/ctapapi.py from passkey-authenticator/src/ctap2.rs and authenticator/{get_info,make_credential,get_assertion}.rs — do not edit. -/",
         "namespace PasskeyVerif.Generated.CtapApi",
         "inductive Recv where | ref | mutRef | value | none",
         "  deriving DecidableEq, Repr",
         "inductive CallForm where | method | path",
         "  deriving DecidableEq, Repr",
         "/-- one method of `impl Ctap2Api for Authenticator`: its receiver, how its body calls, what it calls, whether it passes",
         "its parameters on unchanged, the receiver of the inherent method of that name and whether that method's impl block",
         "demands `UserValidationMethod<PasskeyItem = ..>` -/",
         "structure Fwd where",
         "  name : String",
         "  traitRecv : Recv",
         "  form : CallForm",
         "  callee : String",
         "  argsForwarded : Bool",
         "  inherentRecv : Recv",
         "  needsItemBound : Bool",
         "  deriving DecidableEq, Repr",
         "/-- the impl's where clause has `U: UserValidationMethod<PasskeyItem = <S as CredentialStore>::PasskeyItem>` -/",
         "def implHasItemBound : Bool := %s" % ("true" if impl_item_bound else "false"),
         "def forwards : List Fwd := ["]
    rows = []
    for f in fwd:
        rows.append('  ⟨"%s", .%s, .%s, "%s", %s, .%s, %s⟩' % (f["name"], f["traitRecv"], f["form"], f["callee"], "true" if f["argsForwarded"] else "false",
                                                             f["inherentRecv"], "true" if f["needsItemBound"] else "false"))
    L.append(",\n".join(rows) + "]")
    L.append("end PasskeyVerif.Generated.CtapApi")
    content = "\n".join(L) + "\n"
    out = os.path.join(OUT, "CtapApi.lean")
    changed = not (os.path.exists(out) and open(out).read() == content)
    if changed:
        os.makedirs(OUT, exist_ok=True)
        open(out, "w").write(content)
    return {"sources": hashes, "forwards": fwd, "impl_item_bound": impl_item_bound, "regenerated": changed}


if __name__ == "__main__":
    try:
        print(main())
    except TranslatorError as e:
        print("translator error:", e, file=sys.stderr)
        sys.exit(3)
