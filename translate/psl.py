#!/usr/bin/env python3
"""Translator for C10/C01: regenerates
  lean/PasskeyVerif/Generated/PslTable.lean  from /repo/public-suffix/src/tld_list.rs
  lean/PasskeyVerif/Generated/PslRules.lean  from /repo/public-suffix/public_suffix_list.dat
Tables are emitted as lists of packed little-endian Nat literals of 2048 bytes each (byte i of TEXT =
(TEXT[i / 2048] >>> (8 * (i % 2048))) &&& 255; NODES/CHILDREN hold 512 u32 words per chunk). Rules are emitted in canonical order (pre-order of the label tree, labels
compared bytewise, a node's own rule before its wildcard rule) as one packed byte blob:
  per rule: kind(0 normal,1 exception,2 wildcard) nlabels (len bytes)*   -- labels TLD first, IDN labels punycoded.
Files are only rewritten when their content changes (so lake's cache stays valid)."""
import hashlib, os, re, sys

REPO = os.environ.get("VERIF_REPO", "/repo")
OUT = os.path.join(os.path.dirname(os.path.abspath(__file__)), "..", "lean", "PasskeyVerif", "Generated")

CONSTS = ["NODES_BITS_CHILDREN", "NODES_BITS_ICANN", "NODES_BITS_TEXT_OFFSET", "NODES_BITS_TEXT_LENGTH",
          "CHILDREN_BITS_WILDCARD", "CHILDREN_BITS_NODE_TYPE", "CHILDREN_BITS_HI", "CHILDREN_BITS_LO",
          "NODE_TYPE_NORMAL", "NODE_TYPE_EXCEPTION", "NUM_TLD"]


class TranslatorError(Exception):
    pass


def strip_rust_comments(src):
    # the generated file has no string containing "//" except possibly TEXT; cut TEXT out first
    return re.sub(r"//[^\n]*", "", src)


def parse_table(path):
    src = open(path, encoding="utf-8").read()
    m = re.search(r'const\s+TEXT\s*:\s*&\s*\'static\s+str\s*=\s*"((?:[^"\\]|\\.|\\\n)*)"\s*;', src, re.S)
    if not m:
        raise TranslatorError("TEXT literal not found in %s" % path)
    raw = m.group(1)
    # Rust string continuation: backslash-newline skips the newline and following whitespace
    text = re.sub(r"\\\n\s*", "", raw)
    if "\\" in text:
        raise TranslatorError("unexpected escape in TEXT")
    rest = strip_rust_comments(src[:m.start()] + src[m.end():])
    consts = {}
    for c in CONSTS:
        mm = re.search(r"const\s+%s\s*:\s*u32\s*=\s*([0-9a-fA-Fx_]+)\s*;" % c, rest)
        if not mm:
            raise TranslatorError("constant %s not found" % c)
        consts[c] = int(mm.group(1).replace("_", ""), 0)
    arrays = {}
    for a in ["NODES", "CHILDREN"]:
        mm = re.search(r"const\s+%s\s*:\s*&\s*'static\s*\[\s*u32\s*\]\s*=\s*&\s*\[(.*?)\]\s*;" % a, rest, re.S)
        if not mm:
            raise TranslatorError("array %s not found" % a)
        items = [x.strip() for x in mm.group(1).split(",") if x.strip()]
        arrays[a] = [int(x.replace("_", ""), 0) for x in items]
        if any(v < 0 or v >= 2 ** 32 for v in arrays[a]):
            raise TranslatorError("array %s has a non-u32 entry" % a)
    return consts, text.encode("utf-8"), arrays["NODES"], arrays["CHILDREN"]


def punycode_label(l):
    if all(ord(ch) < 128 for ch in l):
        return l.encode("ascii")
    return b"xn--" + l.encode("punycode")


def parse_rules(path):
    """PSL file format: a line is read up to the first whitespace; empty lines and // comments are skipped."""
    rules = set()
    n_lines = 0
    for line in open(path, encoding="utf-8"):
        line = line.strip()
        if not line or line.startswith("//"):
            continue
        tok = line.split()[0]
        n_lines += 1
        kind = 0
        if tok.startswith("!"):
            kind, tok = 1, tok[1:]
        elif tok.startswith("*."):
            kind, tok = 2, tok[2:]
        labels = tok.split(".")
        if any(l == "" or "*" in l or "!" in l for l in labels):
            raise TranslatorError("rule not in the modelled fragment (wildcard only left-most, no empty label): %r" % line)
        labs = tuple(punycode_label(l) for l in reversed(labels))
        if any(len(l) > 63 for l in labs) or len(labs) > 255:
            raise TranslatorError("label too long: %r" % line)
        rules.add((labs, kind))
    return rules, n_lines


def canonical(rules):
    """pre-order of the label tree; children sorted bytewise; own rule (normal/exception) before wildcard."""
    tree = {}
    for labs, kind in rules:
        node = tree
        for l in labs:
            node = node.setdefault(l, {})
        node.setdefault(None, set()).add(kind)
    out = []

    def go(node, path):
        kinds = node.get(None, set())
        for k in (0, 1):
            if k in kinds:
                out.append((path, k))
        if 2 in kinds:
            out.append((path, 2))
        for l in sorted(k for k in node if k is not None):
            go(node[l], path + (l,))
    go(tree, ())
    return out


def blob_of_rules(rs):
    b = bytearray()
    for labs, kind in rs:
        b.append(kind)
        b.append(len(labs))
        for l in labs:
            b.append(len(l))
            b.extend(l)
    return bytes(b)


CHUNK = 2048  # bytes per packed literal (one huge literal takes the Lean parser most of a minute)


def pack(bs):
    return int.from_bytes(bs, "little") if bs else 0


def chunks_lit(bs):
    cs = [bs[i:i + CHUNK] for i in range(0, len(bs), CHUNK)] or [b""]
    return "[" + ",\n  ".join(hex(pack(c)) for c in cs) + "]"


def table_rules(consts, text, nodes, children):
    """decode the packed table into its rule set (same reading as Lemmas/PslDecode.lean), for the search
    for a failing input when the kernel obligation `table = rule list` no longer checks"""
    m = lambda b: (1 << b) - 1
    out = set()

    def node(i):
        x = nodes[i]
        length = x & m(consts["NODES_BITS_TEXT_LENGTH"])
        x >>= consts["NODES_BITS_TEXT_LENGTH"]
        off = x & m(consts["NODES_BITS_TEXT_OFFSET"])
        x >>= consts["NODES_BITS_TEXT_OFFSET"]
        x >>= consts["NODES_BITS_ICANN"]
        c = children[x & m(consts["NODES_BITS_CHILDREN"])]
        lo = c & m(consts["CHILDREN_BITS_LO"]); c >>= consts["CHILDREN_BITS_LO"]
        hi = c & m(consts["CHILDREN_BITS_HI"]); c >>= consts["CHILDREN_BITS_HI"]
        ty = c & m(consts["CHILDREN_BITS_NODE_TYPE"]); c >>= consts["CHILDREN_BITS_NODE_TYPE"]
        wild = (c & m(consts["CHILDREN_BITS_WILDCARD"])) != 0
        return text[off:off + length], lo, hi, ty, wild

    def go(lo, hi, path, depth):
        if depth > 12:
            return
        for i in range(lo, min(hi, len(nodes))):
            label, clo, chi, ty, wild = node(i)
            p = path + (label,)
            if ty == consts["NODE_TYPE_NORMAL"]:
                out.add((p, 0))
            elif ty == consts["NODE_TYPE_EXCEPTION"]:
                out.add((p, 1))
            if wild:
                out.add((p, 2))
            go(clo, chi, p, depth + 1)
    try:
        go(0, consts["NUM_TLD"], (), 0)
    except Exception:
        pass
    return out


def write_if_changed(path, content):
    if os.path.exists(path) and open(path).read() == content:
        return False
    os.makedirs(os.path.dirname(path), exist_ok=True)
    with open(path, "w") as f:
        f.write(content)
    return True


def main():
    tpath = os.path.join(REPO, "public-suffix", "src", "tld_list.rs")
    dpath = os.path.join(REPO, "public-suffix", "public_suffix_list.dat")
    consts, text, nodes, children = parse_table(tpath)
    nodes_b = b"".join(v.to_bytes(4, "little") for v in nodes)
    children_b = b"".join(v.to_bytes(4, "little") for v in children)
    L = []
    L.append("/- GENERATED by translate/psl.py from public-suffix/src/tld_list.rs — do not edit. -/")
    L.append("namespace PasskeyVerif.Generated.PslTable")
    for c in CONSTS:
        name = "".join(w.capitalize() for w in c.lower().split("_"))
        name = name[0].lower() + name[1:]
        L.append("def %s : Nat := %d" % (name, consts[c]))
    L.append("def textLen : Nat := %d" % len(text))
    L.append("def nodesLen : Nat := %d" % len(nodes))
    L.append("def childrenLen : Nat := %d" % len(children))
    L.append("/-- bytes per packed chunk -/")
    L.append("def chunkBytes : Nat := %d" % CHUNK)
    L.append("def TEXT : List Nat := %s" % chunks_lit(text))
    L.append("def NODES : List Nat := %s" % chunks_lit(nodes_b))
    L.append("def CHILDREN : List Nat := %s" % chunks_lit(children_b))
    L.append("end PasskeyVerif.Generated.PslTable")
    c1 = write_if_changed(os.path.join(OUT, "PslTable.lean"), "\n".join(L) + "\n")

    rules, n_lines = parse_rules(dpath)
    rs = canonical(rules)
    blob = blob_of_rules(rs)
    R = []
    R.append("/- GENERATED by translate/psl.py from public-suffix/public_suffix_list.dat — do not edit. -/")
    R.append("namespace PasskeyVerif.Generated.PslRules")
    R.append("def rulesCount : Nat := %d" % len(rs))
    R.append("def blobLen : Nat := %d" % len(blob))
    R.append("def chunkBytes : Nat := %d" % CHUNK)
    R.append("def BLOB : List Nat := %s" % chunks_lit(blob))
    R.append("end PasskeyVerif.Generated.PslRules")
    c2 = write_if_changed(os.path.join(OUT, "PslRules.lean"), "\n".join(R) + "\n")
    # candidates for the failing-input search: rules on which the table and the .dat file differ
    trules = table_rules(consts, text, nodes, children)
    diff = sorted(trules.symmetric_difference(rules))[:200]
    focus = [b".".join(reversed(labs)).decode("latin-1") for labs, _ in diff]
    os.makedirs(os.path.join(os.path.dirname(os.path.abspath(__file__)), "..", "work"), exist_ok=True)
    with open(os.path.join(os.path.dirname(os.path.abspath(__file__)), "..", "work", "psl_focus.txt"), "w") as f:
        for n in focus:
            f.write(n.encode("latin-1").hex() + "\n")
    info = {
        "table_vs_dat_rule_differences": len(trules.symmetric_difference(rules)),
        "tld_list.rs_sha256": hashlib.sha256(open(tpath, "rb").read()).hexdigest(),
        "public_suffix_list.dat_sha256": hashlib.sha256(open(dpath, "rb").read()).hexdigest(),
        "nodes": len(nodes), "children": len(children), "text_bytes": len(text),
        "rule_lines": n_lines, "distinct_rules": len(rs),
        "exception_rules": sum(1 for r in rs if r[1] == 1), "wildcard_rules": sum(1 for r in rs if r[1] == 2),
        "idn_rules": sum(1 for r in rs if any(l.startswith(b"xn--") for l in r[0])),
        "regenerated": {"PslTable.lean": c1, "PslRules.lean": c2},
    }
    return info


if __name__ == "__main__":
    import json
    try:
        print(json.dumps(main()))
    except TranslatorError as e:
        print("translator error:", e, file=sys.stderr)
        sys.exit(3)
