#!/usr/bin/env python3
"""Translator for C06: regenerates lean/PasskeyVerif/Generated/Secrets.lean from
  passkey-types/src/passkey.rs            (impl Debug for Passkey: rendered fields; derive lists of the secret-holding structs)
  passkey-authenticator/src/lib.rs        (CoseKeyPair::from_secret_key: which builder makes which half, Self { .. } order)
  passkey-authenticator/src/authenticator/make_credential.rs
                                          (destructuring of CoseKeyPair, the key put into the Passkey, the key attested)."""
import hashlib, os, re, sys

REPO = os.environ.get("VERIF_REPO", "/repo")
OUT = os.path.join(os.path.dirname(os.path.abspath(__file__)), "..", "lean", "PasskeyVerif", "Generated")


class TranslatorError(Exception):
    pass


def strip_comments(src):
    src = re.sub(r"/\*.*?\*/", "", src, flags=re.S)
    return re.sub(r"//[^\n]*", "", src)


def lean_str(s):
    return '"' + s.replace("\\", "\\\\").replace('"', '\\"') + '"'


def derives_of(src, name):
    """(unconditional derives, conditional derives) of `pub struct <name>`"""
    m = re.search(r"((?:\s*#\[[^\]]*\]\s*)*)pub\s+struct\s+%s\b" % re.escape(name), src)
    if not m:
        raise TranslatorError("struct %s not found" % name)
    un, cond = [], []
    for attr in re.findall(r"#\[([^\]]*)\]", m.group(1)):
        attr = attr.strip()
        if attr.startswith("derive("):
            un += [x.strip() for x in attr[len("derive("):-1].split(",") if x.strip()]
        elif attr.startswith("cfg_attr("):
            for d in re.findall(r"derive\(([^)]*)\)", attr):
                cond += [x.strip() for x in d.split(",") if x.strip()]
    return un, cond


def main():
    p_passkey = os.path.join(REPO, "passkey-types", "src", "passkey.rs")
    p_lib = os.path.join(REPO, "passkey-authenticator", "src", "lib.rs")
    p_make = os.path.join(REPO, "passkey-authenticator", "src", "authenticator", "make_credential.rs")
    src = strip_comments(open(p_passkey).read())
    # --- Debug rendering of a stored passkey
    m = re.search(r"impl\s+(?:std::fmt::|fmt::)?Debug\s+for\s+Passkey\s*\{(.*?)\n\}", src, re.S)
    debug_fields = []
    manual_debug = bool(m)
    if m:
        body = m.group(1)
        if "debug_struct" not in body:
            raise TranslatorError("impl Debug for Passkey is not a debug_struct chain")
        # `let Self { key, counter: c, .. } = self;`: local names for fields of self
        locals_ = {}
        for dm in re.finditer(r"let\s+(?:Self|Passkey)\s*\{([^}]*)\}\s*=\s*\*?\s*&?\s*self\s*;", body):
            for part in [x.strip() for x in dm.group(1).split(",") if x.strip() and x.strip() != ".."]:
                part = re.sub(r"^(?:ref\s+)?(?:mut\s+)?", "", part)
                if ":" in part:
                    f, v = [y.strip() for y in part.split(":", 1)]
                    v = re.sub(r"^(?:ref\s+)?(?:mut\s+)?", "", v)
                else:
                    f, v = part, part
                locals_[v] = f

        def norm(e):
            e = re.sub(r"\s+", "", e).lstrip("&")
            head = re.match(r"[A-Za-z_][A-Za-z0-9_]*", e)
            if head and head.group(0) in locals_:
                e = "self." + locals_[head.group(0)] + e[head.end():]
            return e
        debug_fields = [(a, norm(b)) for a, b in re.findall(r"\.field\(\s*\"([^\"]*)\"\s*,\s*([^)]*?)\s*\)", body)]
        if body.count(".field(") != len(debug_fields):
            raise TranslatorError("a .field(..) call of impl Debug for Passkey was not understood")
        if ".finish_non_exhaustive" not in body and ".finish()" not in body and not re.search(r"\.finish\s*\(\s*\)", body):
            raise TranslatorError("debug_struct chain without finish")
    structs = {}
    for name in ["Passkey", "CredentialExtensions", "StoredHmacSecret"]:
        structs[name] = derives_of(src, name)
    # --- the two halves of the key pair
    lib = strip_comments(open(p_lib).read())
    m = re.search(r"fn\s+from_secret_key\s*\([^)]*\)\s*->\s*Self\s*\{(.*?)\n    \}", lib, re.S)
    if not m:
        raise TranslatorError("CoseKeyPair::from_secret_key not found")
    body = m.group(1)
    builders = {}
    for var, ctor in re.findall(r"let\s+(\w+)\s*=\s*CoseKeyBuilder::(\w+)\s*\(", body):
        builders[var] = ctor
    ret = re.search(r"Self\s*\{\s*([^}]*)\}", body)
    if not ret:
        raise TranslatorError("from_secret_key does not end in Self { .. }")
    halves = []
    for part in [x.strip() for x in ret.group(1).split(",") if x.strip()]:
        if ":" in part:
            f, v = [y.strip() for y in part.split(":", 1)]
        else:
            f, v = part, part
        if v not in builders:
            raise TranslatorError("field %s of CoseKeyPair is not built by a CoseKeyBuilder call (%s)" % (f, v))
        halves.append((f, builders[v]))
    mk = strip_comments(open(p_make).read())
    m = re.search(r"let\s+CoseKeyPair\s*\{([^}]*)\}\s*=\s*CoseKeyPair::from_secret_key", mk)
    if not m:
        raise TranslatorError("destructuring of CoseKeyPair not found in make_credential.rs")
    binds = {}
    for part in [x.strip() for x in m.group(1).split(",") if x.strip()]:
        if ":" in part:
            f, v = [y.strip() for y in part.split(":", 1)]
        else:
            f, v = part, part
        binds[v] = f                       # local variable -> field of CoseKeyPair
    m = re.search(r"Passkey\s*\{(.*?)\n        \}", mk, re.S)
    if not m:
        raise TranslatorError("Passkey literal not found in make_credential.rs")
    k = re.search(r"\bkey\s*:\s*([\w.]+)\s*,", m.group(1))
    if not k:
        raise TranslatorError("key: field of the Passkey literal not understood")
    stored_var = k.group(1)
    m = re.search(r"AttestedCredentialData::new\s*\(", mk)
    if not m:
        raise TranslatorError("AttestedCredentialData::new call not found")
    depth, i, cur, args = 1, m.end(), "", []
    while i < len(mk) and depth > 0:
        c = mk[i]
        if c in "([{":
            depth += 1
        elif c in ")]}":
            depth -= 1
            if depth == 0:
                break
        if c == "," and depth == 1:
            args.append(cur.strip()); cur = ""
        else:
            cur += c
        i += 1
    if cur.strip():
        args.append(cur.strip())
    if len(args) != 3:
        raise TranslatorError("AttestedCredentialData::new does not have three arguments: %r" % args)
    attested_var = args[2]
    hd = dict(halves)

    def builder_of(var):
        if var not in binds:
            return "?" + var
        return hd.get(binds[var], "?" + binds[var])

    L = ["/- GENERATED by translate/secrets.py from passkey-types/src/passkey.rs, passkey-authenticator/src/lib.rs and",
         "   passkey-authenticator/src/authenticator/make_credential.rs — do not edit. -/",
         "namespace PasskeyVerif.Generated.Secrets",
         "/-- `impl Debug for Passkey` is written by hand -/",
         "def passkeyDebugManual : Bool := %s" % ("true" if manual_debug else "false"),
         "/-- the fields it renders: (label, expression) -/",
         "def passkeyDebugFields : List (String × String) := [%s]" % ", ".join("(%s, %s)" % (lean_str(a), lean_str(b)) for a, b in debug_fields),
         "/-- derive lists: (struct, unconditional derives, derives under cfg_attr) -/",
         "def derives : List (String × List String × List String) := [%s]" % ", ".join(
             "(%s, [%s], [%s])" % (lean_str(n), ", ".join(lean_str(x) for x in structs[n][0]), ", ".join(lean_str(x) for x in structs[n][1])) for n in structs),
         "/-- the CoseKeyBuilder constructor behind the key stored in the new Passkey -/",
         "def storedKeyBuilder : String := %s" % lean_str(builder_of(stored_var)),
         "/-- the CoseKeyBuilder constructor behind the key placed in the attested credential data -/",
         "def attestedKeyBuilder : String := %s" % lean_str(builder_of(attested_var)),
         "end PasskeyVerif.Generated.Secrets"]
    content = "\n".join(L) + "\n"
    out = os.path.join(OUT, "Secrets.lean")
    changed = not (os.path.exists(out) and open(out).read() == content)
    if changed:
        os.makedirs(OUT, exist_ok=True)
        open(out, "w").write(content)
    return {"passkey.rs_sha256": hashlib.sha256(open(p_passkey, "rb").read()).hexdigest(), "debug_fields": debug_fields,
            "derives": {n: structs[n] for n in structs}, "stored": builder_of(stored_var), "attested": builder_of(attested_var), "regenerated": changed}


if __name__ == "__main__":
    try:
        print(main())
    except TranslatorError as e:
        print("translator error:", e, file=sys.stderr)
        sys.exit(3)
