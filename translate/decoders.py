#!/usr/bin/env python3
"""Translator for C15: regenerates lean/PasskeyVerif/Generated/Decoders.lean from the decoders' sources:
  - every `Vec::with_capacity(<expr>)` in passkey-types/src/utils/{bytes,serde}.rs whose argument mentions
    `size_hint`: the cap applied to the declared length (`.min(N)`), or none
  - how `PossiblyUnknown` gets its Deserialize impl (derived untagged = buffered, or hand-written)
  - in passkey-types/src/u2f/{commands,register,authenticate}.rs and passkey-authenticator/src/lib.rs
    (public_key_der_from_cose_key): indexing expressions `x[a..b]`, `x[i]`, `split_at(`, `from_slice(` on input data,
    and `unreachable!` — the constructs that can panic on untrusted input."""
import hashlib, os, re, sys

REPO = os.environ.get("VERIF_REPO", "/repo")
OUT = os.path.join(os.path.dirname(os.path.abspath(__file__)), "..", "lean", "PasskeyVerif", "Generated")


class TranslatorError(Exception):
    pass


def strip_comments(src):
    src = re.sub(r"/\*.*?\*/", "", src, flags=re.S)
    return re.sub(r"//[^\n]*", "", src)


def strip_tests(src):
    i = src.find("#[cfg(test)]")
    return src if i < 0 else src[:i]


def lean_str(s):
    return '"' + s.replace("\\", "\\\\").replace('"', '\\"') + '"'


def main():
    hashes = {}
    caps = []
    unfollowed = 0
    for fn in ["bytes.rs", "serde.rs"]:
        path = os.path.join(REPO, "passkey-types", "src", "utils", fn)
        raw = open(path, "rb").read()
        hashes[fn] = hashlib.sha256(raw).hexdigest()
        src = strip_tests(strip_comments(raw.decode()))
        consts = {m.group(1): int(m.group(2).replace("_", "")) for m in re.finditer(r"\bconst\s+([A-Z_][A-Z0-9_]*)\s*:\s*[a-z0-9]+\s*=\s*([0-9][0-9_]*)\s*;", src)}
        followed = 0     # mentions of size_hint that end up in a reservation this translator has judged
        for m in re.finditer(r"\b(with_capacity|reserve|reserve_exact)\s*\(", src):
            depth, i = 1, m.end()
            while depth > 0 and i < len(src):
                depth += src[i] == "("
                depth -= src[i] == ")"
                i += 1
            arg = " ".join(src[m.end():i - 1].split())
            # the enclosing function's text before the call: local bindings that carry the declared length
            fstart = max(src.rfind("fn ", 0, m.start()), 0)
            before = src[fstart:m.start()]
            tainted, inits = set(), {}
            for lm in re.finditer(r"\blet\s+(?:mut\s+)?([a-z_][a-z0-9_]*)\s*(?::[^=;]+)?=\s*([^;]*);", before):
                inits[lm.group(1)] = lm.group(2)
            for _ in range(3):
                for name, init in inits.items():
                    if "size_hint" in init or any(re.search(r"\b%s\b" % t, init) for t in tainted):
                        tainted.add(name)
            fed = "size_hint" in arg or any(re.search(r"\b%s\b" % t, arg) for t in tainted)
            if not fed:
                # independent of the declared length: literals, constants, lengths of data already held
                if re.fullmatch(r"[A-Za-z0-9_ .+*()]*", arg) and not re.search(r"\b(?!len\b)[a-z_][a-z0-9_]*\s*\(", arg):
                    continue
            followed += arg.count("size_hint") + sum(inits[t].count("size_hint") for t in tainted if re.search(r"\b%s\b" % t, arg))
            # the argument with the locals that carry the declared length written out (a cap may sit in their initialiser)
            expanded = arg
            for _ in range(3):
                for t in tainted:
                    expanded = re.sub(r"\b%s\b" % t, "(" + " ".join(inits[t].split()) + ")", expanded)
            while expanded.startswith("(") and expanded.endswith(")") and expanded.count("(") == expanded.count(")"):
                inner = expanded[1:-1]
                depth, ok = 0, True
                for ch in inner:
                    depth += ch == "("
                    depth -= ch == ")"
                    if depth < 0:
                        ok = False
                        break
                if not ok:
                    break
                expanded = inner.strip()
            c = re.search(r"\.min\(\s*([A-Za-z0-9_]+)\s*\)\s*$", expanded) or re.search(r"^(?:[a-z:]*::)?min\(.*,\s*([A-Za-z0-9_]+)\s*\)$", expanded)
            cap = None
            if c:
                tok = c.group(1)
                if re.fullmatch(r"[0-9][0-9_]*", tok):
                    cap = int(tok.replace("_", ""))
                elif tok in consts:
                    cap = consts[tok]
            caps.append((fn, arg, cap))
        unfollowed += max(src.count("size_hint") - followed, 0)
    path = os.path.join(REPO, "passkey-types", "src", "utils", "serde.rs")
    src = strip_tests(strip_comments(open(path).read()))
    m = re.search(r"((?:\s*#\[[^\]]*\]\s*)*)enum\s+PossiblyUnknown\b", src)
    if not m:
        raise TranslatorError("enum PossiblyUnknown not found")
    attrs = m.group(1)
    derived = bool(re.search(r"derive\([^)]*\bDeserialize\b", attrs))
    untagged = bool(re.search(r"serde\([^)]*\buntagged\b", attrs))
    manual = bool(re.search(r"impl\s*<[^>]*>\s*Deserialize\s*<[^>]*>\s*for\s+PossiblyUnknown", src))
    panicky = []
    files = [("passkey-types/src/u2f/commands.rs", None), ("passkey-types/src/u2f/register.rs", None), ("passkey-types/src/u2f/authenticate.rs", None),
             ("passkey-authenticator/src/lib.rs", "public_key_der_from_cose_key")]
    for rel, func in files:
        path = os.path.join(REPO, rel)
        raw = open(path, "rb").read()
        hashes[rel] = hashlib.sha256(raw).hexdigest()
        src = strip_tests(strip_comments(raw.decode()))
        if func:
            mm = re.search(r"fn\s+%s\b" % func, src)
            if not mm:
                raise TranslatorError("%s not found in %s" % (func, rel))
            i = src.index("{", mm.end())
            depth, j = 0, i
            while j < len(src):
                depth += src[j] == "{"
                depth -= src[j] == "}"
                j += 1
                if depth == 0:
                    break
            guard = bool(re.search(r"\.len\(\)\s*!=\s*32", src[i:j]))
            body = src[i:j]
            for k in re.finditer(r"GenericArray::from_slice\(", body):
                if not guard:
                    panicky.append((rel, "GenericArray::from_slice without a length check"))
            continue
        # only functions that parse input: try_from / from(u8) bodies
        for mm in re.finditer(r"fn\s+(try_from|from)\s*\(([^)]*)\)[^{]*\{", src):
            params = mm.group(2)
            if "&[u8]" not in params and "u8" not in params:
                continue
            i = mm.end() - 1
            depth, j = 0, i
            while j < len(src):
                depth += src[j] == "{"
                depth -= src[j] == "}"
                j += 1
                if depth == 0:
                    break
            body = src[i:j]
            for k in re.finditer(r"\b(\w+)\s*\[([^\]\n]*)\]", body):
                name, idx = k.group(1), k.group(2).strip()
                if name in ("u8", "let", "mut", "in", "return") or idx == "" or re.fullmatch(r"u8;\s*\d+", idx):
                    continue
                # `value[0]`, `[1]`, `[2]` after an explicit length check of at least 7 are fine in commands.rs
                if rel.endswith("commands.rs") and re.fullmatch(r"[0-6]|3\.\.data_start", idx) and re.search(r"value\.len\(\)\s*<\s*REQUEST_HEADER_LEN\s*\+\s*1", body):
                    continue
                panicky.append((rel, "index %s[%s]" % (name, idx)))
            for k in re.finditer(r"\.split_at\(", body):
                panicky.append((rel, "split_at"))
            if mm.group(1) == "try_from" and "unreachable!" in body:
                panicky.append((rel, "unreachable! in a parser"))
        if rel.endswith("commands.rs"):
            if not re.search(r"matches!\(\s*p1\s*,\s*0x03\s*\|\s*0x07\s*\|\s*0x08\s*\)", src):
                panicky.append((rel, "P1 converted without a check against the specification's control bytes"))
    L = ["/- GENERATED by translate/decoders.py from passkey-types/src/utils/{bytes,serde}.rs, passkey-types/src/u2f/*.rs and",
         "   passkey-authenticator/src/lib.rs — do not edit. -/",
         "namespace PasskeyVerif.Generated.Decoders",
         "/-- mentions of `size_hint` in those files that do not end up in one of the reservations below -/",
         "def unfollowedSizeHints : Nat := %d" % unfollowed,
         "/-- capacity reserved from a declared sequence length: (file, argument, cap) -/",
         "def reservations : List (String × String × Option Nat) := [%s]" % ", ".join(
             "(%s, %s, %s)" % (lean_str(f), lean_str(a), ("some %d" % c) if c is not None else "none") for f, a, c in caps),
         "/-- `PossiblyUnknown` derives an untagged Deserialize (the element is buffered, input errors propagate) -/",
         "def possiblyUnknownBuffered : Bool := %s" % ("true" if (derived and untagged and not manual) else "false"),
         "/-- constructs in the U2F parsers and the COSE-key converter that can panic on untrusted input -/",
         "def panicSites : List (String × String) := [%s]" % ", ".join("(%s, %s)" % (lean_str(a), lean_str(b)) for a, b in panicky),
         "end PasskeyVerif.Generated.Decoders"]
    content = "\n".join(L) + "\n"
    out = os.path.join(OUT, "Decoders.lean")
    changed = not (os.path.exists(out) and open(out).read() == content)
    if changed:
        os.makedirs(OUT, exist_ok=True)
        open(out, "w").write(content)
    return {"sources": hashes, "reservations": caps, "unfollowedSizeHints": unfollowed, "possiblyUnknownBuffered": derived and untagged and not manual, "panicSites": panicky, "regenerated": changed}


if __name__ == "__main__":
    try:
        print(main())
    except TranslatorError as e:
        print("translator error:", e, file=sys.stderr)
        sys.exit(3)
