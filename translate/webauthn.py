#!/usr/bin/env python3
"""Translator for C14: regenerates lean/PasskeyVerif/Generated/WebauthnSchema.lean from the serde attributes of the
WebAuthn option types in passkey-types/src/webauthn/{assertion,attestation,common}.rs and
webauthn/extensions/{mod,pseudo_random_function}.rs:

  per struct reachable from CredentialRequestOptions / CredentialCreationOptions: its members in declaration order
  with the JSON name (rename_all / rename), aliases, type, `default`, and the `deserialize_with` / `with` helper;
  per enum: the JSON names of its variants (rename_all / rename / alias) and the `#[default]` variant.

Fails closed: an attribute, type or container shape it does not know is an error, not a guess."""
import hashlib, os, re, sys

REPO = os.environ.get("VERIF_REPO", "/repo")
OUT = os.path.join(os.path.dirname(os.path.abspath(__file__)), "..", "lean", "PasskeyVerif", "Generated")
FILES = ["webauthn.rs", "webauthn/assertion.rs", "webauthn/attestation.rs", "webauthn/common.rs", "webauthn/extensions/mod.rs",
         "webauthn/extensions/pseudo_random_function.rs", "webauthn/extensions/credential_properties.rs"]
ROOTS = ["CredentialRequestOptions", "CredentialCreationOptions"]
# the credentials the client emits: the one generic struct, instantiated with each response type
GENERIC_ROOTS = [("PublicKeyCredential", "AuthenticatorAttestationResponse"), ("PublicKeyCredential", "AuthenticatorAssertionResponse")]


class TranslatorError(Exception):
    pass


def strip_comments(src):
    src = re.sub(r"/\*.*?\*/", "", src, flags=re.S)
    return re.sub(r"//[^\n]*", "", src)


def strip_tests(src):
    i = src.find("#[cfg(test)]")
    return src if i < 0 else src[:i]


def lean_str(s):
    return '"' + s.replace("\\", "\\\\").replace('"', '\\"') + '"'


def split_top(s, sep=","):
    out, depth, cur, instr = [], 0, "", False
    for ch in s:
        if ch == '"':
            instr = not instr
        if not instr:
            if ch in "([<{":
                depth += 1
            elif ch in ")]>}":
                depth -= 1
            elif ch == sep and depth == 0:
                out.append(cur.strip())
                cur = ""
                continue
        cur += ch
    if cur.strip():
        out.append(cur.strip())
    return out


def attrs_of(block):
    """#[...] attributes in front of an item: list of (name, inner text)"""
    out = []
    i = 0
    while True:
        m = re.compile(r"\s*#\[").match(block, i)
        if not m:
            break
        j, depth = m.end(), 1
        while depth:
            depth += block[j] == "["
            depth -= block[j] == "]"
            j += 1
        inner = block[m.end():j - 1].strip()
        mm = re.match(r"(\w+)\s*(?:\((.*)\))?\s*$", inner, re.S)
        if not mm:
            raise TranslatorError("attribute not understood: %r" % inner)
        out.append((mm.group(1), (mm.group(2) or "").strip()))
        i = j
    return out, block[i:]


def serde_args(attrs):
    args = {}
    for name, inner in attrs:
        if name != "serde":
            continue
        for a in split_top(inner):
            m = re.match(r'(\w+)\s*(?:=\s*"(.*)")?\s*$', a, re.S)
            if not m:
                raise TranslatorError("serde argument not understood: %r" % a)
            if m.group(1) == "alias":
                args.setdefault("alias", []).append(m.group(2))
            else:
                args[m.group(1)] = m.group(2) if m.group(2) is not None else True
    return args


def camel(s):
    p = s.split("_")
    return p[0] + "".join(x[:1].upper() + x[1:] for x in p[1:])


def words(variant):
    return [w.lower() for w in re.findall(r"[A-Z][a-z0-9]*", variant)]


def rename(name, rule, is_variant):
    if rule is None:
        return name
    if is_variant:
        w = words(name)
        if rule == "lowercase":
            return name.lower()
        if rule == "kebab-case":
            return "-".join(w)
        if rule == "camelCase":
            return w[0] + "".join(x.capitalize() for x in w[1:])
        if rule == "snake_case":
            return "_".join(w)
    else:
        if rule == "camelCase":
            return camel(name)
        if rule == "lowercase":
            return name.lower()
    raise TranslatorError("rename_all rule not understood: %r" % rule)


KNOWN_FIELD_ARGS = {"default", "skip_serializing_if", "deserialize_with", "alias", "rename", "with", "serialize_with"}
KNOWN_CONTAINER_ARGS = {"rename_all"}
KNOWN_VARIANT_ARGS = {"alias", "rename"}
WRAPS = {"maybe_stringified": ".maybeStringified", "ignore_unknown": ".ignoreUnknown", "ignore_unknown_opt_vec": ".ignoreUnknownOptVec",
         "ignore_unknown_vec": ".ignoreUnknownVec", "i64_to_iana": ".i64ToIana"}


def ty_of(t, structs, enums):
    t = t.replace(" ", "")
    m = re.match(r"Option<(.*)>$", t)
    if m:
        return "(.opt %s)" % ty_of(m.group(1), structs, enums)
    m = re.match(r"Vec<(.*)>$", t)
    if m:
        return "(.vec %s)" % ty_of(m.group(1), structs, enums)
    m = re.match(r"HashMap<String,(.*)>$", t)
    if m:
        return "(.mapStr %s)" % ty_of(m.group(1), structs, enums)
    if t == "Bytes":
        return ".bytes"
    if t == "String":
        return ".str"
    if t == "bool":
        return ".bool"
    if t == "u32":
        return ".u32"
    if t == "i64":
        return ".i64"
    if t == "iana::Algorithm":
        return ".alg"
    if t in structs:
        return "(.struct %s)" % lean_str(t)
    if t in enums:
        return "(.enum %s)" % lean_str(t)
    raise TranslatorError("type not understood: %r" % t)


def referenced(t):
    return re.findall(r"[A-Za-z_][A-Za-z0-9_:]*", t)


def main():
    hashes, structs, enums = {}, {}, {}
    for rel in FILES:
        path = os.path.join(REPO, "passkey-types", "src", rel)
        raw = open(path, "rb").read()
        hashes[rel] = hashlib.sha256(raw).hexdigest()
        src = strip_tests(strip_comments(raw.decode()))
        for m in re.finditer(r"((?:\s*#\[(?:[^\[\]]|\[[^\]]*\])*\])*)\s*pub\s+(struct|enum)\s+(\w+)\s*(<[^>{]*>)?\s*(?:where[^{]*)?\{", src):
            kind, name, generics = m.group(2), m.group(3), m.group(4)
            i, depth = m.end(), 1
            while depth:
                depth += src[i] == "{"
                depth -= src[i] == "}"
                i += 1
            body = src[m.end():i - 1]
            cattrs, _ = attrs_of(m.group(1))
            (structs if kind == "struct" else enums)[name] = (cattrs, body, generics, rel)
    # the generic credential struct, once per response type (its one type parameter substituted)
    for gname, arg in GENERIC_ROOTS:
        if gname not in structs or arg not in structs:
            raise TranslatorError("generic root %s<%s> not found" % (gname, arg))
        cattrs, body, generics, rel = structs[gname]
        gm = re.match(r"<\s*(\w+)\s*(?::[^>]*)?>$", generics or "")
        if not gm:
            raise TranslatorError("generic parameters of %s not understood: %r" % (gname, generics))
        param = gm.group(1)
        inst = "%s<%s>" % (gname, arg)
        structs[inst] = (cattrs, re.sub(r"\b%s\b" % param, arg, body), None, rel)
    # reachable set: the closure of each root in turn (the option structs keep their places when roots are added)
    seen = []
    for root in list(ROOTS) + ["%s<%s>" % g for g in GENERIC_ROOTS]:
        todo = [root]
        while todo:
            n = todo.pop(0)
            if n in seen:
                continue
            if n not in structs and n not in enums:
                continue
            seen.append(n)
            if n in structs:
                for w in referenced(structs[n][1]):
                    if (w in structs or w in enums) and w not in seen:
                        todo.append(w)
    for r in ROOTS:
        if r not in structs:
            raise TranslatorError("root struct %s not found" % r)
    struct_lines, enum_lines = [], []
    for n in seen:
        if n in structs:
            cattrs, body, generics, rel = structs[n]
            if generics:
                raise TranslatorError("generic struct %s reachable from the options: not understood" % n)
            derives = " ".join(inner for name, inner in cattrs if name == "derive")
            if "Deserialize" not in derives or "Serialize" not in derives.replace("Deserialize", ""):
                raise TranslatorError("struct %s does not derive both Serialize and Deserialize" % n)
            cargs = serde_args(cattrs)
            for k in cargs:
                if k not in KNOWN_CONTAINER_ARGS:
                    raise TranslatorError("container attribute %s on %s not understood" % (k, n))
            fields = []
            for item in split_top(body):
                fattrs, rest = attrs_of(item)
                mm = re.match(r"\s*pub\s+(\w+)\s*:\s*(.+?)\s*$", rest, re.S)
                if not mm:
                    raise TranslatorError("member of %s not understood: %r" % (n, rest))
                fname, ftype = mm.group(1), " ".join(mm.group(2).split())
                a = serde_args(fattrs)
                for k in a:
                    if k not in KNOWN_FIELD_ARGS:
                        raise TranslatorError("member attribute %s on %s.%s not understood" % (k, n, fname))
                json = a.get("rename") or rename(fname, cargs.get("rename_all"), False)
                helper = a.get("deserialize_with") or a.get("with")
                if helper is not None and helper not in WRAPS:
                    raise TranslatorError("deserialize helper %s on %s.%s not understood" % (helper, n, fname))
                wrap = WRAPS[helper] if helper else ".plain"
                skip = a.get("skip_serializing_if")
                if skip not in (None, "Option::is_none"):
                    raise TranslatorError("skip_serializing_if = %r on %s.%s not understood" % (skip, n, fname))
                if a.get("serialize_with"):
                    raise TranslatorError("serialize_with on %s.%s not understood" % (n, fname))
                fields.append("    ⟨%s, %s, [%s], %s, %s, %s, %s⟩" % (lean_str(fname), lean_str(json), ", ".join(lean_str(x) for x in a.get("alias", [])),
                                                                  ty_of(ftype, structs, enums), "true" if a.get("default") else "false", wrap, "true" if skip else "false"))
            has_default = "Default" in derives
            struct_lines.append("  ⟨%s, %s, [\n%s]⟩" % (lean_str(n), "true" if has_default else "false", ",\n".join(fields)))
        else:
            cattrs, body, generics, rel = enums[n]
            derives = " ".join(inner for name, inner in cattrs if name == "derive")
            if "Deserialize" not in derives or "Serialize" not in derives.replace("Deserialize", ""):
                raise TranslatorError("enum %s does not derive both Serialize and Deserialize" % n)
            cargs = serde_args(cattrs)
            for k in cargs:
                if k not in KNOWN_CONTAINER_ARGS:
                    raise TranslatorError("container attribute %s on %s not understood" % (k, n))
            variants, default = [], None
            for item in split_top(body):
                vattrs, rest = attrs_of(item)
                mm = re.match(r"\s*(\w+)\s*$", rest)
                if not mm:
                    raise TranslatorError("variant of %s not understood (only unit variants are): %r" % (n, rest))
                v = mm.group(1)
                a = serde_args(vattrs)
                for k in a:
                    if k not in KNOWN_VARIANT_ARGS:
                        raise TranslatorError("variant attribute %s on %s::%s not understood" % (k, n, v))
                json = a.get("rename") or rename(v, cargs.get("rename_all"), True)
                if any(name == "default" for name, _ in vattrs):
                    default = json
                variants.append("(%s, [%s])" % (lean_str(json), ", ".join(lean_str(x) for x in a.get("alias", []))))
            enum_lines.append("  ⟨%s, [%s], %s⟩" % (lean_str(n), ", ".join(variants), "some " + lean_str(default) if default else "none"))
    os.makedirs(OUT, exist_ok=True)
    with open(os.path.join(OUT, "WebauthnSchema.lean"), "w") as f:
        f.write("/- GENERATED by translate/webauthn.py from passkey-types/src/webauthn — do not edit.\n")
        for k in sorted(hashes):
            f.write("   %s sha256 %s\n" % (k, hashes[k]))
        f.write("-/\nimport PasskeyVerif.Model.SerdeTypes\nnamespace PasskeyVerif.Generated.Webauthn\nopen PasskeyVerif.Serde\n\n")
        f.write("/-- the structs reachable from CredentialRequestOptions / CredentialCreationOptions and from the emitted credentials: name, derives Default,\nmembers (rust name, JSON name, aliases, type, `default`, deserialize helper, skipped when None) in declaration order;\nthe last two structs are the emitted credential `PublicKeyCredential<R>` with R each of the two response types -/\n")
        f.write("def structs : List StructDef := [\n%s]\n\n" % ",\n".join(struct_lines))
        f.write("/-- the enumerations among their members: JSON names of the variants (with aliases) and the `#[default]` one -/\n")
        f.write("def enums : List EnumDef := [\n%s]\n\n" % ",\n".join(enum_lines))
        f.write("def schema : Schema := ⟨structs, enums⟩\n\nend PasskeyVerif.Generated.Webauthn\n")
    return {"structs": len(struct_lines), "enums": len(enum_lines), "sources": hashes}


if __name__ == "__main__":
    try:
        print(main())
    except TranslatorError as e:
        print("TRANSLATOR-ERROR:", e)
        sys.exit(3)
