"""Constant integer expressions of Rust source, evaluated the way the compiler would: literals in any base with digit
separators and type suffixes, named constants (plain, `Self::X`, `Type::X`), `+ - * / % << >> | & ^ !`, parentheses,
`as <int type>` casts (ignored), `.bits()` (ignored).  Anything else raises ValueError: the translators fail closed."""
import re

_TOKEN = re.compile(r"\s*(?:(0x[0-9a-fA-F_]+|0b[01_]+|0o[0-7_]+|\d[\d_]*)(?:[ui](?:8|16|32|64|128|size))?|([A-Za-z_][A-Za-z0-9_]*(?:::[A-Za-z_][A-Za-z0-9_]*)*)|(<<|>>|[-+*/%|&^!()~]))")
_PREC = {"|": 1, "^": 2, "&": 3, "<<": 4, ">>": 4, "+": 5, "-": 5, "*": 6, "/": 6, "%": 6}


def tokens(expr):
    expr = re.sub(r"\.bits\(\)", "", expr)
    expr = re.sub(r"\bas\s+[ui](?:8|16|32|64|128|size)\b", "", expr)
    out, i = [], 0
    expr = expr.strip()
    while i < len(expr):
        m = _TOKEN.match(expr, i)
        if not m or m.end() == i:
            raise ValueError("constant expression not understood: %r" % expr)
        if m.group(1) is not None:
            out.append(("n", int(m.group(1).replace("_", ""), 0)))
        elif m.group(2) is not None:
            out.append(("id", m.group(2)))
        else:
            out.append(("op", m.group(3)))
        i = m.end()
        while i < len(expr) and expr[i].isspace():
            i += 1
    return out


def evaluate(expr, lookup):
    """`lookup(name)` returns the value of a named constant or raises ValueError."""
    toks = tokens(expr)
    pos = [0]

    def peek():
        return toks[pos[0]] if pos[0] < len(toks) else (None, None)

    def atom():
        k, v = peek()
        pos[0] += 1
        if k == "n":
            return v
        if k == "id":
            return lookup(v)
        if k == "op" and v == "(":
            r = binary(0)
            if peek() != ("op", ")"):
                raise ValueError("unbalanced parenthesis in %r" % expr)
            pos[0] += 1
            return r
        if k == "op" and v == "-":
            return -atom()
        if k == "op" and v in ("!", "~"):
            raise ValueError("bitwise not needs a width: %r" % expr)
        raise ValueError("constant expression not understood: %r" % expr)

    def binary(minp):
        left = atom()
        while True:
            k, v = peek()
            if k != "op" or v not in _PREC or _PREC[v] < minp:
                return left
            pos[0] += 1
            right = binary(_PREC[v] + 1)
            if v == "|": left |= right
            elif v == "^": left ^= right
            elif v == "&": left &= right
            elif v == "<<": left <<= right
            elif v == ">>": left >>= right
            elif v == "+": left += right
            elif v == "-": left -= right
            elif v == "*": left *= right
            elif v == "/":
                if right == 0: raise ValueError("division by zero in %r" % expr)
                left //= right
            else:
                if right == 0: raise ValueError("division by zero in %r" % expr)
                left %= right

    r = binary(0)
    if pos[0] != len(toks):
        raise ValueError("constant expression not understood: %r" % expr)
    return r


def block_after(src, start):
    i = src.index("{", start)
    depth, j = 0, i
    while True:
        depth += src[j] == "{"
        depth -= src[j] == "}"
        j += 1
        if depth == 0:
            return src[i + 1:j - 1]


class Consts:
    """All `const NAME: T = expr;` of a source text: module level as NAME, inside `impl T { .. }` as T::NAME
    (and Self::NAME while evaluating that block's own constants)."""

    def __init__(self, src):
        self.exprs = {}
        impl_spans = []
        for m in re.finditer(r"\bimpl(?:\s*<[^>]*>)?\s+([A-Za-z_][A-Za-z0-9_]*)\s*(?:<[^>{]*>)?\s*\{", src):
            body_start = src.index("{", m.start())
            body = block_after(src, m.start())
            impl_spans.append((body_start, body_start + len(body) + 2))
            for c in re.finditer(r"\bconst\s+([A-Za-z_][A-Za-z0-9_]*)\s*:\s*[^=;]+=\s*([^;]+);", body):
                self.exprs[m.group(1) + "::" + c.group(1)] = (c.group(2), m.group(1))
        for c in re.finditer(r"\bconst\s+([A-Za-z_][A-Za-z0-9_]*)\s*:\s*[^=;]+=\s*([^;]+);", src):
            if any(a <= c.start() < b for a, b in impl_spans):
                continue
            self.exprs.setdefault(c.group(1), (c.group(2), None))

    def value(self, name, scope=None, depth=0):
        if depth > 20:
            raise ValueError("constant %s refers to itself" % name)
        if name.startswith("Self::") and scope:
            name = scope + name[4:]
        if name not in self.exprs:
            raise ValueError("constant %s not found" % name)
        expr, sc = self.exprs[name]
        return evaluate(expr, lambda n: self.value(n, sc, depth + 1))

    def eval(self, expr, scope=None):
        return evaluate(expr, lambda n: self.value(n, scope))
