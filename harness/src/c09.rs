//! C09: PRF at CTAP level (salts as given) and through the client (hashed and pre-hashed inputs), over all
//! hmac-secret configurations, verified / unverified ceremonies, default and per-credential inputs,
//! several credentials per store with and without secrets, and the malformed request shapes.
use crate::au::*;
use crate::cl::*;
use crate::util::Ctx;

const HMS: [Hm; 5] = [Hm::None, Hm::UvOnly, Hm::NoUv, Hm::UvOnlyMc, Hm::NoUvMc];

fn salt(ctx: &mut Ctx) -> [u8; 32] { let v = ctx.rng.bytes(32); let mut a = [0u8; 32]; a.copy_from_slice(&v); a }
fn prfv(ctx: &mut Ctx) -> PrfV { PrfV { first: salt(ctx), second: if ctx.rng.bool() { Some(salt(ctx)) } else { None } } }

/// unverified but consenting user / verified user, with uv asked or not
fn uv_modes(ctx: &mut Ctx) -> (bool, UvState) {
    match ctx.rng.below(4) {
        0 => (true, UvState::ok()),                                                   // asked and verified
        1 => (false, UvState { answer: Ok((true, false)), ..UvState::ok() }),         // not asked, not verified
        2 => (false, UvState::ok()),                                                  // not asked, verified anyway
        _ => (true, UvState { answer: Ok((true, false)), ..UvState::ok() }),          // asked, refused: the ceremony fails
    }
}

fn preload(ctx: &mut Ctx, rp: &str, n: usize) -> Vec<passkey_types::Passkey> {
    (0..n).map(|j| {
        let hs = match ctx.rng.below(3) { 0 => None, 1 => Some((ctx.rng.bytes(32), None)), _ => { let a = ctx.rng.bytes(32); let b = ctx.rng.bytes(32); Some((a, Some(b))) } };
        let b = ctx.rng.next() as u8;
        make_passkey(ctx, vec![0xC9, j as u8, b, 1, 2, 3, 4, 5, 6, 7, 8, 9, 10, 11, 12, 13], rp, Some(vec![j as u8]), None, hs)
    }).collect()
}

fn client_vals(ctx: &mut Ctx, prehashed: bool) -> CPrfV {
    let lens: &[usize] = if prehashed { &[32, 32, 32, 32, 0, 31, 33, 64] } else { &[0, 1, 5, 32, 33, 100, 243, 244, 300, 1000] };
    let n = *ctx.rng.pick(lens);
    let first = ctx.rng.bytes(n);
    let second = if ctx.rng.bool() { let m = *ctx.rng.pick(lens); Some(ctx.rng.bytes(m)) } else { None };
    CPrfV { first, second }
}

pub fn gen(ctx: &mut Ctx) {
    let rp = "example.com";
    let url = "https://www.example.com";
    let n = if ctx.thorough { 600 } else { 60 };
    // ---- CTAP level
    for i in 0..n {
        let hm = HMS[i % 5];
        let kind = [Kind::RefFull, Kind::Map, Kind::RefForced][i % 3];
        let npre = ctx.rng.below(4) as usize;
        let pre = preload(ctx, rp, npre);
        let ids: Vec<Vec<u8>> = pre.iter().map(|p| p.credential_id.to_vec()).collect();
        let w = World { kind, counter_on: ctx.rng.bool(), id_len: 16, hm, preload: pre };
        let mut steps = vec![];
        for _ in 0..ctx.rng.range(2, 6) {
            let (uv, st) = uv_modes(ctx);
            if ctx.rng.below(3) == 0 || ids.is_empty() {
                let mut m = simple_make(ctx, rp); m.uv = uv;
                m.ext = match ctx.rng.below(6) {
                    0 => None,
                    1 => Some((Some(true), false, None)),
                    2 => Some((Some(false), false, Some(PrfI { eval: Some(prfv(ctx)), by_cred: None }))),
                    3 => Some((None, ctx.rng.bool(), Some(PrfI { eval: None, by_cred: None }))),
                    _ => Some((None, false, Some(PrfI { eval: Some(prfv(ctx)), by_cred: None }))),
                };
                let mut s = step(Op::Make(m)); s.uv = st; steps.push(s);
            } else {
                let mut g = simple_get(ctx, rp); g.uv = uv;
                let target = ctx.rng.pick(&ids).clone();
                g.allow = if kind == Kind::Map || ctx.rng.bool() { Some(vec![target.clone()]) } else { None };
                let by_cred = match ctx.rng.below(4) {
                    0 => None,
                    1 => Some(vec![(target.clone(), prfv(ctx))]),                                        // the used credential is listed
                    2 => Some(vec![(ctx.rng.bytes(16), prfv(ctx)), (target.clone(), prfv(ctx))]),        // among others
                    _ => Some(vec![(ctx.rng.bytes(16), prfv(ctx))]),                                     // only another one
                };
                let eval = if ctx.rng.below(4) == 0 { None } else { Some(prfv(ctx)) };
                g.ext = match ctx.rng.below(5) { 0 => None, 1 => Some((true, None)), _ => Some((false, Some(PrfI { eval, by_cred }))) };
                let mut s = step(Op::Get(g)); s.uv = st; steps.push(s);
            }
        }
        run_case(ctx, "C09", &w, &steps);
        ctx.stat("c09.ctap_cases");
    }
    // ---- through the client: corpus of per-credential shapes on a credential with both secrets
    for hm in [Hm::NoUv, Hm::UvOnly, Hm::NoUvMc] {
        for prehashed in [false, true] {
            let v = |ctx: &mut Ctx| if prehashed { CPrfV { first: ctx.rng.bytes(32), second: Some(ctx.rng.bytes(32)) } } else { CPrfV { first: ctx.rng.bytes(7), second: None } };
            let shapes: Vec<Vec<(String, CPrfV)>> = vec![
                vec![("@0".into(), v(ctx))],                                   // the used credential listed
                vec![("@1".into(), v(ctx)), ("@0".into(), v(ctx))],            // both registered credentials listed
                vec![("@1".into(), v(ctx))],                                   // only the other one: default inputs apply
                vec![("@0".into(), v(ctx)), ("".into(), v(ctx))],              // a good key and an empty one
                vec![("@0".into(), v(ctx)), (passkey_types::encoding::base64url(&[9u8; 16]), v(ctx))],   // a good key and an unlisted one
                vec![("@0".into(), v(ctx)), ("***".into(), v(ctx))],           // a good key and an undecodable one
                vec![("@0".into(), CPrfV { first: ctx.rng.bytes(31), second: None })],   // wrong length if pre-hashed
            ];
            for sh in shapes {
                let w = World { kind: Kind::RefFull, counter_on: false, id_len: 16, hm, preload: vec![] };
                let mk_reg = |ctx: &mut Ctx| { let mut r = simple_reg(ctx, url, Some(rp)); r.ext = Some(CExt { cred_props: None, prf: Some(CPrfI { eval: None, by_cred: None }), prf_hashed: None }); r };
                let (r0, r1) = (mk_reg(ctx), mk_reg(ctx));
                let mut a = simple_auth(ctx, url, Some(rp));
                a.allow_refs = vec![0, 1];
                let inp = Some(CPrfI { eval: Some(v(ctx)), by_cred: Some(sh) });
                a.ext = Some(CExt { cred_props: None, prf: if prehashed { None } else { inp.clone() }, prf_hashed: if prehashed { inp } else { None } });
                let mut a2 = a.clone(); a2.uv = UvR::Discouraged;
                let mut s2 = cstep(COp::Auth(a2)); s2.uv = UvState { answer: Ok((true, false)), ..UvState::ok() };
                run_ccase(ctx, "C09", &w, &[cstep(COp::Reg(r0)), cstep(COp::Reg(r1)), cstep(COp::Auth(a)), s2]);
                ctx.stat("c09.client_corpus");
            }
        }
    }
    // ---- an empty per-credential key is malformed even when the allow list holds a descriptor with an empty id
    for prehashed in [false, true] {
        let w = World { kind: Kind::RefFull, counter_on: false, id_len: 16, hm: Hm::NoUv, preload: vec![] };
        let v = |ctx: &mut Ctx| if prehashed { CPrfV { first: ctx.rng.bytes(32), second: None } } else { CPrfV { first: ctx.rng.bytes(7), second: None } };
        let mut r = simple_reg(ctx, url, Some(rp)); r.ext = Some(CExt { cred_props: None, prf: Some(CPrfI { eval: None, by_cred: None }), prf_hashed: None });
        let mut a = simple_auth(ctx, url, Some(rp)); a.allow = Some(vec![vec![]]); a.allow_refs = vec![0];
        let inp = Some(CPrfI { eval: None, by_cred: Some(vec![("@0".into(), v(ctx)), ("".into(), v(ctx))]) });
        a.ext = Some(CExt { cred_props: None, prf: if prehashed { None } else { inp.clone() }, prf_hashed: if prehashed { inp } else { None } });
        let mut b = a.clone(); b.ext = Some(CExt { cred_props: None, prf: Some(CPrfI { eval: None, by_cred: Some(vec![("".into(), v(ctx))]) }), prf_hashed: None });
        run_ccase(ctx, "C09", &w, &[cstep(COp::Reg(r)), cstep(COp::Auth(a)), cstep(COp::Auth(b))]);
        ctx.stat("c09.client_corpus.empty_key_with_empty_id_descriptor");
    }
    // ---- inputs of every length are inputs: empty first / second input (hashed path), long inputs, at registration and authentication
    for hm in [Hm::NoUvMc, Hm::NoUv] {
        for (first, second) in [(vec![], None), (vec![1u8, 2, 3], Some(vec![])), (vec![], Some(vec![])), (vec![], Some(vec![9u8; 40])),
                                (ctx.rng.bytes(243), Some(ctx.rng.bytes(244))), (ctx.rng.bytes(244), None), (ctx.rng.bytes(5000), Some(ctx.rng.bytes(257)))] {
            let w = World { kind: Kind::RefFull, counter_on: false, id_len: 16, hm, preload: vec![] };
            let vals = CPrfV { first: first.clone(), second: second.clone() };
            let mut r = simple_reg(ctx, url, Some(rp));
            r.ext = Some(CExt { cred_props: None, prf: Some(CPrfI { eval: Some(vals.clone()), by_cred: None }), prf_hashed: None });
            let mut a = simple_auth(ctx, url, Some(rp)); a.allow_last = true;
            a.ext = Some(CExt { cred_props: None, prf: Some(CPrfI { eval: Some(vals.clone()), by_cred: None }), prf_hashed: None });
            let mut a2 = simple_auth(ctx, url, Some(rp)); a2.allow_refs = vec![0];
            a2.ext = Some(CExt { cred_props: None, prf: Some(CPrfI { eval: None, by_cred: Some(vec![("@0".into(), vals)]) }), prf_hashed: None });
            run_ccase(ctx, "C09", &w, &[cstep(COp::Reg(r)), cstep(COp::Auth(a)), cstep(COp::Auth(a2))]);
            ctx.stat("c09.client_corpus.empty_inputs");
        }
    }
    for i in 0..n {
        let hm = HMS[i % 5];
        let kind = [Kind::RefFull, Kind::RefForced, Kind::Map][i % 3];
        let w = World { kind, counter_on: false, id_len: 16, hm, preload: vec![] };
        let mut steps = vec![];
        let mut regs = 0usize;
        for _ in 0..ctx.rng.range(2, 7) {
            let uvr = *ctx.rng.pick(&[UvR::Preferred, UvR::Discouraged, UvR::Required]);
            let st = if ctx.rng.below(3) == 0 { UvState { answer: Ok((true, false)), ..UvState::ok() } } else { UvState::ok() };
            let prehashed = ctx.rng.bool();
            if regs == 0 || ctx.rng.below(3) == 0 {
                let mut r = simple_reg(ctx, url, Some(rp));
                r.sel = Some(Sel { rk: Some(Rk::Preferred), rrk: false, uv: uvr });
                let inp = match ctx.rng.below(6) {
                    0 => None,
                    1 => Some(CPrfI { eval: None, by_cred: None }),
                    2 => Some(CPrfI { eval: Some(client_vals(ctx, prehashed)), by_cred: Some(vec![("AAAA".to_string(), client_vals(ctx, prehashed))]) }),   // malformed at registration
                    _ => Some(CPrfI { eval: Some(client_vals(ctx, prehashed)), by_cred: None }),
                };
                let both = ctx.rng.below(6) == 0;
                r.ext = Some(CExt { cred_props: if ctx.rng.bool() { Some(true) } else { None },
                    prf: if !prehashed || both { inp.clone() } else { None },
                    prf_hashed: if prehashed || both { if both { Some(CPrfI { eval: Some(client_vals(ctx, true)), by_cred: None }) } else { inp.clone() } } else { None } });
                let mut s = cstep(COp::Reg(r)); s.uv = st; steps.push(s);
                regs += 1;
            } else {
                let mut a = simple_auth(ctx, url, Some(rp));
                a.uv = uvr;
                let with_allow = kind == Kind::Map || ctx.rng.below(3) != 0;
                if with_allow { a.allow_refs = vec![ctx.rng.below(8) as usize]; if ctx.rng.below(4) == 0 { a.allow_refs.push(ctx.rng.below(8) as usize); } }
                // per-credential keys: @k = base64url of the k-th registered id, resolved by the runner
                let by_cred = match ctx.rng.below(10) {
                    0 | 1 => None,
                    // the key of a listed credential with white space around it: not base64url, a syntax error
                    8 => Some(vec![(format!(" @{}", a.allow_refs.first().copied().unwrap_or(0)), client_vals(ctx, prehashed))]),
                    9 => Some(vec![(format!("@{}{}", a.allow_refs.first().copied().unwrap_or(0), *ctx.rng.pick(&["\n", " ", "\t", "="])), client_vals(ctx, prehashed))]),
                    2 => Some(vec![(format!("@{}", a.allow_refs.first().copied().unwrap_or(0)), client_vals(ctx, prehashed))]),
                    3 => Some(vec![(format!("@{}", ctx.rng.below(8)), client_vals(ctx, prehashed)), (format!("@{}", a.allow_refs.first().copied().unwrap_or(0)), client_vals(ctx, prehashed))]),
                    4 => Some(vec![("".to_string(), client_vals(ctx, prehashed))]),                       // empty key
                    5 => Some(vec![("!!not base64!!".to_string(), client_vals(ctx, prehashed))]),          // undecodable key
                    6 => Some(vec![(passkey_types::encoding::base64url(&ctx.rng.bytes(16)), client_vals(ctx, prehashed))]), // unlisted key
                    _ => Some(vec![]),
                };
                let eval = if ctx.rng.below(4) == 0 { None } else { Some(client_vals(ctx, prehashed)) };
                let inp = if ctx.rng.below(6) == 0 { None } else { Some(CPrfI { eval, by_cred }) };
                let both = ctx.rng.below(8) == 0;
                // `prf` present without any input still takes precedence over `prfAlreadyHashed`
                let inp = if both && ctx.rng.below(3) == 0 { ctx.stat("c09.client.empty_prf_beside_prehashed"); Some(CPrfI { eval: None, by_cred: if ctx.rng.bool() { None } else { Some(vec![]) } }) } else { inp };
                a.ext = Some(CExt { cred_props: None,
                    prf: if !prehashed || both { inp.clone() } else { None },
                    prf_hashed: if prehashed || both { if both { Some(CPrfI { eval: Some(client_vals(ctx, true)), by_cred: None }) } else { inp.clone() } } else { None } });
                let mut s = cstep(COp::Auth(a)); s.uv = st; steps.push(s);
            }
        }
        run_ccase(ctx, "C09", &w, &steps);
        ctx.stat("c09.client_cases");
    }
}
