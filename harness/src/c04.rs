//! C04: the finite product of operation x options x capabilities x user-validation outcome x pinAuth x
//! store content, enumerated completely against the real authenticator.
use crate::au::*;
use crate::util::Ctx;

/// beyond the product of the statement: several matching credentials, so that "the credential shown is
/// the one that signs" is exercised with a choice to get wrong
fn several_matches(ctx: &mut Ctx) {
    for kind in [Kind::RefFull, Kind::Map, Kind::RefForced] {
        for n in [2usize, 3] {
            for order in 0..n {
                for (up, uv) in [(true, true), (true, false), (false, true)] {
                    let ids: Vec<Vec<u8>> = (0..n).map(|j| vec![0xC4, j as u8, order as u8]).collect();
                    let preload: Vec<_> = ids.iter().enumerate().map(|(j, id)| make_passkey(ctx, id.clone(), "example.com", Some(vec![j as u8]), Some(10 * j as u32), None)).collect();
                    let w = World { kind, counter_on: true, id_len: 16, hm: Hm::None, preload };
                    let mut allow = ids.clone(); allow.rotate_left(order);
                    let mut g = simple_get(ctx, "example.com"); g.up = up; g.uv = uv;
                    g.allow = if kind == Kind::Map || order > 0 { Some(allow) } else { None };
                    run_case(ctx, "C04", &w, &[step(Op::Get(g))]);
                    ctx.stat("c04.several_matches");
                }
            }
        }
    }
}

/// the same product seen from the WebAuthn caller: `Client::register` / `Client::authenticate` turn
/// `userVerification` into the uv option (passkey-client/src/lib.rs)
fn through_the_client(ctx: &mut Ctx) {
    use crate::cl::*;
    let answers: [Result<(bool, bool), u8>; 6] = [Ok((false, false)), Ok((true, false)), Ok((false, true)), Ok((true, true)), Err(0x27), Err(0x2F)];
    let site = "https://www.example.com";
    for is_reg in [true, false] {
        for uvr in [UvR::Required, UvR::Preferred, UvR::Discouraged] {
            for verification in [None, Some(false), Some(true)] {
                for presence_enabled in [false, true] {
                    for answer in answers {
                        for present in [false, true] {
                            let kind = if present && !is_reg { Kind::RefFull } else { [Kind::RefFull, Kind::Map][ctx.rng.below(2) as usize] };
                            // registrations name one and the same credential in their exclude list; it is held (preloaded) or not
                            let held_id = vec![0xC4, 0xC4, 1, 2, 3, 4, 5, 6];
                            let preload = if is_reg && present { vec![make_passkey(ctx, held_id.clone(), "example.com", Some(vec![1]), None, None)] } else { vec![] };
                            let w = World { kind, counter_on: true, id_len: 16, hm: Hm::None, preload };
                            let uvs = UvState { presence_enabled, verification, answer };
                            let mut steps = vec![];
                            if present && !is_reg { steps.push(cstep(COp::Reg(simple_reg(ctx, site, Some("example.com"))))); }
                            if is_reg {
                                let mut r = simple_reg(ctx, site, Some("example.com"));
                                r.sel = Some(Sel { rk: None, rrk: false, uv: uvr });
                                r.exclude = Some(vec![held_id.clone()]);
                                steps.push(CStep { op: COp::Reg(r), uv: uvs, faults: vec![] });
                            } else {
                                let mut a = simple_auth(ctx, site, Some("example.com")); a.uv = uvr;
                                if present { a.allow_last = ctx.rng.bool(); }
                                steps.push(CStep { op: COp::Auth(a), uv: uvs, faults: vec![] });
                            }
                            run_ccase(ctx, "C04", &w, &steps);
                            ctx.stat("c04.client_rows");
                        }
                    }
                }
            }
        }
    }
}

pub fn gen(ctx: &mut Ctx) {
    several_matches(ctx);
    through_the_client(ctx);
    let answers: [Result<(bool, bool), u8>; 7] = [Ok((false, false)), Ok((true, false)), Ok((false, true)), Ok((true, true)), Err(0x27), Err(0x2F), Err(0x3B)];
    let verifs = [None, Some(false), Some(true)];
    let mut row = 0u32;
    for is_make in [true, false] {
        for opts in 0..8u8 {
            let (rk, up, uv) = (opts & 1 != 0, opts & 2 != 0, opts & 4 != 0);
            for verification in verifs {
                for presence_enabled in [false, true] {
                    for answer in answers {
                        for pin in [false, true] {
                            row += 1;
                            for present in [false, true] {
                                // store kind: the contract store, and (one row in three) a shipped store
                                let kind = match row % 3 { 0 => Kind::Map, 1 => Kind::RefFull, _ => Kind::RefFull };
                                let cred_id = vec![0xC0, (row >> 8) as u8, row as u8, 1];
                                let preload = if present { vec![make_passkey(ctx, cred_id.clone(), "example.com", Some(vec![7, 7]), Some(5), None)] } else { vec![] };
                                let w = World { kind, counter_on: true, id_len: 16, hm: Hm::None, preload };
                                let uvs = UvState { presence_enabled, verification, answer };
                                let op = if is_make {
                                    let mut m = simple_make(ctx, "example.com");
                                    m.rk = rk; m.up = up; m.uv = uv; m.pin = pin;
                                    m.exclude = Some(vec![cred_id.clone()]);
                                    Op::Make(m)
                                } else {
                                    let mut g = simple_get(ctx, "example.com");
                                    g.rk = rk; g.up = up; g.uv = uv; g.pin = pin;
                                    g.allow = Some(vec![cred_id.clone()]);
                                    Op::Get(g)
                                };
                                run_case_tw(ctx, "C04", &w, &[Step { op, uv: uvs, faults: vec![], cancel_after: None, hold_polls: 0, hold_shared: false }], &format!("r{}", row));
                                ctx.stat("c04.rows");
                            }
                        }
                    }
                }
            }
        }
    }
}
