//! Correspondence harness: runs the real crates of /repo in-process on generated inputs and prints
//! one line per operation: `op<TAB>observation`. The Lean driver replays the ops through the model.
mod util;
mod c16;
mod c10;
mod env;
mod c01;
mod c12;
mod c13;
mod au;
mod c04;
mod c05;
mod c08;
mod cl;
mod c11;
mod c02;
mod c03;
mod c09;
mod c07;
mod c06;
mod c17;
mod c18;
mod c19;
mod c15;
mod c14;

use util::Ctx;

/// largest single allocation request since it was last reset (C15)
pub static ALLOC_MAX: std::sync::atomic::AtomicUsize = std::sync::atomic::AtomicUsize::new(0);
/// bytes currently allocated, and their peak since it was last reset (C15)
pub static ALLOC_LIVE: std::sync::atomic::AtomicUsize = std::sync::atomic::AtomicUsize::new(0);
pub static ALLOC_PEAK: std::sync::atomic::AtomicUsize = std::sync::atomic::AtomicUsize::new(0);
fn note(add: usize) { use std::sync::atomic::Ordering::Relaxed; ALLOC_MAX.fetch_max(add, Relaxed); let live = ALLOC_LIVE.fetch_add(add, Relaxed) + add; ALLOC_PEAK.fetch_max(live, Relaxed); }
struct Tracking;
unsafe impl std::alloc::GlobalAlloc for Tracking {
    unsafe fn alloc(&self, l: std::alloc::Layout) -> *mut u8 { note(l.size()); std::alloc::System.alloc(l) }
    unsafe fn dealloc(&self, p: *mut u8, l: std::alloc::Layout) { ALLOC_LIVE.fetch_sub(l.size(), std::sync::atomic::Ordering::Relaxed); std::alloc::System.dealloc(p, l) }
    unsafe fn realloc(&self, p: *mut u8, l: std::alloc::Layout, n: usize) -> *mut u8 { ALLOC_LIVE.fetch_sub(l.size(), std::sync::atomic::Ordering::Relaxed); note(n); std::alloc::System.realloc(p, l, n) }
    unsafe fn alloc_zeroed(&self, l: std::alloc::Layout) -> *mut u8 { note(l.size()); std::alloc::System.alloc_zeroed(l) }
}
#[global_allocator]
static GLOBAL: Tracking = Tracking;

fn main() {
    let args: Vec<String> = std::env::args().collect();
    if args.len() < 3 {
        eprintln!("usage: verif-harness gen <prop> [--tier quick|thorough] [--seed N] [--stats path]");
        std::process::exit(2);
    }
    let mut tier = "quick".to_string();
    let mut seed: u64 = 1;
    let mut stats: Option<String> = None;
    let mut i = 3;
    while i < args.len() {
        match args[i].as_str() {
            "--tier" => { tier = args[i + 1].clone(); i += 2; }
            "--seed" => { seed = args[i + 1].parse().unwrap_or(1); i += 2; }
            "--stats" => { stats = Some(args[i + 1].clone()); i += 2; }
            _ => { i += 1; }
        }
    }
    // panics inside cases are caught and reported as the observation `panic`
    if std::env::var_os("VERIF_PANIC_VERBOSE").is_none() { std::panic::set_hook(Box::new(|_| {})); }
    let mut ctx = Ctx::new(seed, tier == "thorough");
    match (args[1].as_str(), args[2].as_str()) {
        ("gen", "C16") => c16::gen(&mut ctx),
        ("gen", "C10") => c10::gen(&mut ctx),
        ("gen", "C01") => c01::gen(&mut ctx),
        ("gen", "C12") => c12::gen(&mut ctx),
        ("gen", "C13") => c13::gen(&mut ctx),
        ("gen", "C04") => c04::gen(&mut ctx),
        ("gen", "C05") => c05::gen(&mut ctx),
        ("gen", "C08") => c08::gen(&mut ctx),
        ("gen", "C08dbg") => c08::boundary(&mut ctx),
        ("gen", "C11") => c11::gen(&mut ctx),
        ("gen", "C02") => c02::gen(&mut ctx),
        ("gen", "C03") => c03::gen(&mut ctx),
        ("gen", "C09") => c09::gen(&mut ctx),
        ("gen", "C07") => c07::gen(&mut ctx),
        ("gen", "C06") => c06::gen(&mut ctx),
        ("gen", "C17") => c17::gen(&mut ctx),
        ("gen", "C18") => c18::gen(&mut ctx, seed),
        ("gen", "C19") => c19::gen(&mut ctx),
        ("gen", "C15") => c15::gen(&mut ctx),
        ("gen", "C14") => c14::gen(&mut ctx),
        ("c15worker", name) => { c15::worker(name); return; }
        ("c18case", idx) => { let i: usize = idx.parse().unwrap_or(0); c18::run_one(&mut ctx, i); }
        _ => { eprintln!("unknown command"); std::process::exit(2); }
    }
    ctx.finish(stats.as_deref());
}
