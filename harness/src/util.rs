use std::collections::BTreeMap;
use std::io::Write;

/// splitmix64: every random choice of a run derives from the one seed
pub struct Rng(pub u64);
impl Rng {
    pub fn next(&mut self) -> u64 {
        self.0 = self.0.wrapping_add(0x9E3779B97F4A7C15);
        let mut z = self.0;
        z = (z ^ (z >> 30)).wrapping_mul(0xBF58476D1CE4E5B9);
        z = (z ^ (z >> 27)).wrapping_mul(0x94D049BB133111EB);
        z ^ (z >> 31)
    }
    pub fn below(&mut self, n: u64) -> u64 { if n == 0 { 0 } else { self.next() % n } }
    pub fn range(&mut self, lo: u64, hi: u64) -> u64 { lo + self.below(hi - lo + 1) }
    pub fn bool(&mut self) -> bool { self.next() & 1 == 1 }
    pub fn bytes(&mut self, n: usize) -> Vec<u8> { (0..n).map(|_| self.next() as u8).collect() }
    pub fn bytes_in(&mut self, lo: u64, hi: u64) -> Vec<u8> { let n = self.range(lo, hi) as usize; self.bytes(n) }
    pub fn pick<'a, T>(&mut self, xs: &'a [T]) -> &'a T { &xs[self.below(xs.len() as u64) as usize] }
}

pub fn hex(bs: &[u8]) -> String {
    let mut s = String::with_capacity(bs.len() * 2);
    for b in bs { s.push_str(&format!("{:02x}", b)); }
    s
}
/// "-" for the empty byte string so that fields are never empty
pub fn hexf(bs: &[u8]) -> String { if bs.is_empty() { "-".into() } else { hex(bs) } }

pub struct Ctx {
    pub rng: Rng,
    pub thorough: bool,
    out: std::io::BufWriter<std::io::Stdout>,
    pub stats: BTreeMap<String, u64>,
    pub samples: Vec<String>,
    lines: u64,
    /// flush after every line (a worker process that may be killed mid-case)
    pub flush_each: bool,
    /// write nothing (a run made only for its side records)
    pub mute: bool,
}

impl Ctx {
    pub fn new(seed: u64, thorough: bool) -> Self {
        Ctx { rng: Rng(seed ^ 0x5eed_5eed), thorough, out: std::io::BufWriter::new(std::io::stdout()),
              stats: BTreeMap::new(), samples: vec![], lines: 0, flush_each: false, mute: false }
    }
    pub fn line(&mut self, op: &str, obs: &str) {
        debug_assert!(!op.contains('\t') && !op.contains('\n') && !obs.contains('\t') && !obs.contains('\n'));
        if self.mute { return; }
        let obs = if obs.is_empty() { "-" } else { obs };
        writeln!(self.out, "{}\t{}", op, obs).unwrap();
        if self.flush_each { self.out.flush().unwrap(); }
        self.lines += 1;
        if self.samples.len() < 5 && op.len() < 300 && obs.len() < 300 {
            self.samples.push(format!("{} => {}", op, obs));
        }
    }
    pub fn stat(&mut self, key: &str) { *self.stats.entry(key.to_string()).or_insert(0) += 1; }
    pub fn stat_n(&mut self, key: &str, n: u64) { *self.stats.entry(key.to_string()).or_insert(0) += n; }
    pub fn finish(mut self, stats_path: Option<&str>) {
        self.out.flush().unwrap();
        if let Some(p) = stats_path {
            let mut m = serde_json::Map::new();
            m.insert("lines".into(), self.lines.into());
            let mut st = serde_json::Map::new();
            for (k, v) in &self.stats { st.insert(k.clone(), (*v).into()); }
            m.insert("distribution".into(), st.into());
            m.insert("samples".into(), self.samples.clone().into());
            std::fs::write(p, serde_json::to_string_pretty(&serde_json::Value::Object(m)).unwrap()).unwrap();
        }
    }
}

/// run a case, mapping a panic to `None`
pub fn guarded<T>(f: impl FnOnce() -> T) -> Option<T> {
    std::panic::catch_unwind(std::panic::AssertUnwindSafe(f)).ok()
}

/// the authenticator's AAGUID in every authenticator / client level case (non-zero, so that a zeroed copy is visible)
pub const AAGUID: [u8; 16] = [0xA1, 0xA2, 0xA3, 0xA4, 0xB1, 0xB2, 0xC1, 0xC2, 0xD1, 0xD2, 0xE1, 0xE2, 0xE3, 0xE4, 0xE5, 0xE6];
