//! C11: the complete product capability(3) x residentKey(4) x requireResidentKey(2) x credProps(3) through the
//! real client, each followed by an assertion; and CTAP-level rk(2) x capability(3) directly on the authenticator.
use crate::au::*;
use crate::cl::*;
use crate::util::Ctx;

pub fn gen(ctx: &mut Ctx) {
    let url = "https://www.example.com";
    // every capability bare and behind every lock wrapper (a wrapper must report its inner store's capability)
    for kind in [Kind::RefFull, Kind::RefNonDisc, Kind::RefForced, Kind::Map, Kind::Slot,
                 Kind::RefArcMutex, Kind::RefArcRwLock, Kind::RefMutex, Kind::RefRwLock, Kind::RefNonDiscArcMutex, Kind::RefNonDiscArcRwLock, Kind::RefNonDiscMutex, Kind::RefNonDiscRwLock,
                 Kind::RefForcedArcMutex, Kind::RefForcedRwLock, Kind::MapArcMutex, Kind::SlotRwLock] {
        for rk in [None, Some(Rk::Discouraged), Some(Rk::Preferred), Some(Rk::Required)] {
            for rrk in [false, true] {
                for cp in [None, Some(false), Some(true)] {
                    // a third of the rows on an authenticator with the PRF extension, asking for it beside credProps
                    let with_prf = (rrk as usize + cp.is_some() as usize + rk.map(|k| k as usize).unwrap_or(3)) % 3 == 0;
                    let w = World { kind, counter_on: false, id_len: 16, hm: if with_prf { Hm::NoUvMc } else { Hm::None }, preload: vec![] };
                    let mut r = simple_reg(ctx, url, Some("example.com"));
                    r.sel = Some(Sel { rk, rrk, uv: UvR::Preferred });
                    r.ext = if with_prf { Some(CExt { cred_props: cp, prf: Some(CPrfI { eval: Some(CPrfV { first: ctx.rng.bytes(9), second: None }), by_cred: None }), prf_hashed: None }) }
                            else { cp.map(|b| CExt { cred_props: Some(b), prf: None, prf_hashed: None }) };
                    // user ids of any length, the empty one included
                    if cp == Some(true) && rrk { r.user = vec![]; }
                    let mut a = simple_auth(ctx, url, Some("example.com"));
                    // an assertion without user verification still returns what is stored
                    if !rrk { a.uv = UvR::Discouraged; }
                    // the assertion names no credential: the contract store lists what is stored for the RP
                    // ... and a second assertion that names the credential just made (reaches non-discoverable ones)
                    let mut b = simple_auth(ctx, url, Some("example.com")); b.allow_last = true;
                    let mut sa = cstep(COp::Auth(a)); if !rrk { sa.uv = UvState { answer: Ok((true, false)), ..UvState::ok() }; }
                    run_ccase(ctx, "C11", &w, &[cstep(COp::Reg(r)), sa, cstep(COp::Auth(b))]);
                    ctx.stat("c11.client_rows");
                }
            }
            // absent authenticatorSelection altogether
            if rk.is_none() {
                let w = World { kind, counter_on: false, id_len: 16, hm: Hm::None, preload: vec![] };
                let mut r = simple_reg(ctx, url, Some("example.com")); r.sel = None; r.ext = Some(CExt { cred_props: Some(true), prf: None, prf_hashed: None });
                let a = simple_auth(ctx, url, Some("example.com"));
                run_ccase(ctx, "C11", &w, &[cstep(COp::Reg(r)), cstep(COp::Auth(a))]);
            }
        }
        // CTAP-level rk directly on the authenticator, without and with signature counters (the counter write-back
        // re-saves the credential: what is stored must survive it), several assertions in a row
        for rk in [false, true] { for counter_on in [false, true] {
            let w = World { kind, counter_on, id_len: 16, hm: Hm::None, preload: vec![] };
            let mut m = simple_make(ctx, "example.com"); m.rk = rk;
            if counter_on && rk { m.user = vec![]; }
            let g = simple_get(ctx, "example.com");
            let mut g2 = simple_get(ctx, "example.com"); g2.allow = Some(vec![b"@last".to_vec()]); g2.uv = false;
            let mut g3 = simple_get(ctx, "example.com"); g3.uv = false; g3.up = false;
            let mut g4 = simple_get(ctx, "example.com"); g4.allow = Some(vec![b"@last".to_vec()]);
            run_case(ctx, "C11", &w, &[step(Op::Make(m)), step(Op::Get(g)), step(Op::Get(g2)), step(Op::Get(g3)), step(Op::Get(g4))]);
            ctx.stat("c11.ctap_rows"); }
        }
    }
}
