//! C17: U2F registrations and authentications over sequences (challenges, applications, key handles of 0..255
//! bytes, counters, presence flags), the encodings of the responses, and parsing of well-formed
//! extended-length request frames.
use crate::au::*;
use crate::env::*;
use crate::util::{guarded, hexf, Ctx};
use passkey_authenticator::{Authenticator, MemoryStore, U2fApi};
use passkey_types::ctap2::{Aaguid, Flags};
use passkey_types::u2f::{AuthenticationParameter, AuthenticationRequest, RegisterRequest, Request, RequestPayload, Version};
use passkey_types::Passkey;
use std::sync::{Arc, Mutex};

fn arr32(v: &[u8]) -> [u8; 32] { let mut a = [0u8; 32]; a.copy_from_slice(v); a }

#[derive(Clone)]
pub enum U { Reg { app: Vec<u8>, chal: Vec<u8>, handle: Vec<u8>, fault: Option<u8> }, Auth { app: Vec<u8>, chal: Vec<u8>, handle: Vec<u8>, counter: u32, presence: u8, param: u8, fault: Option<u8> } }

fn run<S: Inner + 'static>(ctx: &mut Ctx, prop: &str, kind: Kind, inner: S, ops: &[U]) {
    let log = new_log();
    let uvst = Arc::new(Mutex::new(UvState::ok()));
    let store = RecStore::new(inner, log.clone());
    let mut auth = Authenticator::new(Aaguid::from(crate::util::AAGUID), store, SharedUv { st: uvst, log: log.clone(), yields: false });
    ctx.line(&format!("au.reset {} {} 1 16 none", prop, kind.name()), "");
    for op in ops {
        *auth.store_mut().calls.lock().unwrap() = 0;
        *auth.store_mut().last_saved.lock().unwrap() = None;
        log.lock().unwrap().clear();
        match op {
            U::Reg { app, chal, handle, fault } => {
                auth.store_mut().faults = vec![*fault];
                let req = RegisterRequest { challenge: arr32(chal), application: arr32(app) };
                let res = guarded(|| block_on(U2fApi::register(&mut auth, req, handle)));
                let draws = auth.store().last_saved.lock().unwrap().clone().map(|p: Passkey| { let (d, x, y) = key_parts(&p); format!("{}:{}:{}", hexf(&d), hexf(&x), hexf(&y)) }).unwrap_or("N".into());
                let rs = match res { None => "panic".to_string(), Some(Err(e)) => format!("err:{:?}", e),
                    Some(Ok(r)) => { let (x, y, h, c, s) = (r.public_key.x.to_vec(), r.public_key.y.to_vec(), r.key_handle.clone(), r.attestation_certificate.clone(), r.signature.clone());
                        format!("ok:{}:{}:{}:{}:{}:{}", hexf(&x), hexf(&y), hexf(&h), hexf(&c), hexf(&s), hexf(&r.encode())) } };
                ctx.stat(&format!("u2f.reg.{}", rs.split(':').next().unwrap()));
                ctx.line(&format!("u2f.reg {} {} {} {} {}", hexf(app), hexf(chal), hexf(handle), draws, faults_pub(&[*fault])), &format!("res={} store={}", rs, snap_pub(&auth.store().inner.all())));
            }
            U::Auth { app, chal, handle, counter, presence, param, fault } => {
                auth.store_mut().faults = vec![*fault];
                let req = AuthenticationRequest { parameter: AuthenticationParameter::from(*param), challenge: arr32(chal), application: arr32(app), key_handle: handle.clone() };
                let flags = Flags::from_bits_truncate(*presence);
                let res = guarded(|| block_on(U2fApi::authenticate(&auth, req, *counter, flags)));
                let rs = match res { None => "panic".to_string(), Some(Err(e)) => format!("err:{:?}", e),
                    Some(Ok(r)) => { let (p, c, s) = (u8::from(r.user_presence), r.counter, r.signature.clone()); format!("ok:{}:{}:{}:{}", p, c, hexf(&s), hexf(&r.encode())) } };
                ctx.stat(&format!("u2f.auth.{}", rs.split(':').next().unwrap()));
                ctx.line(&format!("u2f.auth {} {} {} {} {} {} {}", hexf(app), hexf(chal), hexf(handle), counter, *presence, param, faults_pub(&[*fault])), &format!("res={} store={}", rs, snap_pub(&auth.store().inner.all())));
            }
        }
    }
    ctx.line("au.end", "");
}

pub fn run_kind_for(ctx: &mut Ctx, prop: &str, kind: Kind, ops: &[U]) {
    match kind {
        Kind::Map => run(ctx, prop, kind, MemoryStore::new(), ops),
        Kind::Slot => run(ctx, prop, kind, None::<Passkey>, ops),
        _ => run(ctx, prop, Kind::RefFull, RefStore::new(d_full_pub), ops),
    }
}
fn run_kind(ctx: &mut Ctx, kind: Kind, ops: &[U]) { run_kind_for(ctx, "C17", kind, ops) }

/// store failures on the U2F path: every family of status code as the answer to the save / the lookup
pub fn store_failures(ctx: &mut Ctx, prop: &str) {
    for kind in [Kind::RefFull, Kind::Map, Kind::Slot] {
        let mut ops = vec![];
        let app = ctx.rng.bytes(32);
        for code in [0x00u8, 0x01, 0x28, 0x2E, 0x7F, 0x30, 0xF2, 0xE5] {
            let handle = ctx.rng.bytes(16);
            ops.push(U::Reg { app: app.clone(), chal: ctx.rng.bytes(32), handle: handle.clone(), fault: Some(code) });
            // nothing was stored: the handle must not authenticate afterwards
            ops.push(U::Auth { app: app.clone(), chal: ctx.rng.bytes(32), handle: handle.clone(), counter: 1, presence: 1, param: 3, fault: None });
            ops.push(U::Reg { app: app.clone(), chal: ctx.rng.bytes(32), handle: handle.clone(), fault: None });
            ops.push(U::Auth { app: app.clone(), chal: ctx.rng.bytes(32), handle: handle.clone(), counter: 2, presence: 1, param: 3, fault: Some(code) });
            ops.push(U::Auth { app: app.clone(), chal: ctx.rng.bytes(32), handle, counter: 3, presence: 1, param: 3, fault: None });
            ctx.stat("u2f.store_failure_rounds");
        }
        run_kind_for(ctx, prop, kind, &ops);
    }
}

pub fn parse_line(ctx: &mut Ctx, frame: &[u8]) {
    let res = guarded(|| Request::try_from(frame));
    let rs = match res {
        None => "panic".to_string(),
        Some(Err(sw)) => format!("err:{}", u16::from(sw)),
        Some(Ok(r)) => match r.data {
            RequestPayload::Register(q) => format!("ok:reg:{}:{}", hexf(&q.challenge), hexf(&q.application)),
            RequestPayload::Authenticate(q) => format!("ok:auth:{}:{}:{}:{}", match q.parameter { AuthenticationParameter::CheckOnly => 7, AuthenticationParameter::EnforceUserPresence => 3, AuthenticationParameter::DontEnforceUserPresence => 8 }, hexf(&q.challenge), hexf(&q.application), hexf(&q.key_handle)),
            RequestPayload::Version => "ok:version".to_string(),
        },
    };
    ctx.stat(&format!("u2f.parse.{}", rs.split(':').take(2).collect::<Vec<_>>().join(".")));
    ctx.line(&format!("u2f.parse {}", hexf(frame)), &rs);
}

pub fn frame(ins: u8, p1: u8, data: &[u8], le: &[u8]) -> Vec<u8> {
    let mut f = vec![0u8, ins, p1, 0, 0, (data.len() >> 8) as u8, (data.len() & 0xff) as u8];
    f.extend_from_slice(data); f.extend_from_slice(le); f
}

pub fn gen(ctx: &mut Ctx) {
    let n = if ctx.thorough { 400 } else { 60 };
    // ---- ceremonies
    for i in 0..n {
        let kind = [Kind::RefFull, Kind::Map, Kind::RefFull, Kind::Slot][i % 4];
        let apps: Vec<Vec<u8>> = (0..if kind == Kind::RefFull { 2 } else { 1 }).map(|_| match ctx.rng.below(4) {
            0 => vec![0x41 + ctx.rng.below(26) as u8; 32],                       // printable ASCII: valid UTF-8 text
            1 => (0..32).map(|_| ctx.rng.below(0x7f) as u8).collect(),           // low bytes
            _ => ctx.rng.bytes(32) }).collect();
        let mut regs: Vec<(Vec<u8>, Vec<u8>)> = vec![];
        let mut ops = vec![];
        for _ in 0..ctx.rng.range(2, 8) {
            if regs.is_empty() || ctx.rng.below(3) == 0 {
                let app = ctx.rng.pick(&apps).clone();
                let hl = *ctx.rng.pick(&[0usize, 1, 16, 32, 64, 65, 128, 254, 255]);
                let handle = if ctx.rng.below(6) == 0 && !regs.is_empty() { regs[0].1.clone() } else { ctx.rng.bytes(hl) };   // re-registration of a handle now and then
                if kind == Kind::Slot { regs.clear(); }
                regs.retain(|(_, h)| *h != handle || kind == Kind::RefFull);
                regs.push((app.clone(), handle.clone()));
                ops.push(U::Reg { app, chal: ctx.rng.bytes(32), handle, fault: None });
            } else {
                let (app, handle) = match ctx.rng.below(5) {
                    0 => (ctx.rng.pick(&apps).clone(), if ctx.rng.bool() { ctx.rng.bytes(16) } else { vec![] }),   // unknown key handle (also the empty one)
                    1 if apps.len() > 1 => { let (a, h) = ctx.rng.pick(&regs).clone(); (apps.iter().find(|x| **x != a).cloned().unwrap_or_else(|| { let mut o = a.clone(); o[0] ^= 0x20; o }), h) }   // known handle, other application
                    _ => ctx.rng.pick(&regs).clone(),
                };
                let counter = *ctx.rng.pick(&[0u32, 1, 255, 256, 65536, 1 << 31, u32::MAX, 12345678]);
                ops.push(U::Auth { app, chal: ctx.rng.bytes(32), handle, counter, presence: *ctx.rng.pick(&[0x01u8, 0x00, 0x05, 0x04, 0x01, 0x1d]), param: *ctx.rng.pick(&[3u8, 7, 8]), fault: None });
            }
        }
        run_kind(ctx, kind, &ops);
        ctx.stat("c17.ceremony_cases");
    }
    // ---- the well-known constants browsers send in their dummy ("bogus") registrations - 32 x 'A' as application, 32 x 'B'
    //      as challenge - and all-zero / all-0xff parameters: a registration is a registration whatever its parameters
    for kind in [Kind::RefFull, Kind::Map, Kind::Slot] {
        for (a, c) in [(0x41u8, 0x42u8), (0x00, 0x00), (0xff, 0xff), (0x41, 0x41), (0x42, 0x41)] {
            let (app, chal, handle) = (vec![a; 32], vec![c; 32], ctx.rng.bytes(16));
            let ops = vec![U::Reg { app: app.clone(), chal: chal.clone(), handle: handle.clone(), fault: None },
                U::Auth { app: app.clone(), chal: ctx.rng.bytes(32), handle: handle.clone(), counter: 1, presence: 1, param: 3, fault: None },
                U::Auth { app, chal, handle, counter: 2, presence: 1, param: 7, fault: None }];
            run_kind(ctx, kind, &ops);
            ctx.stat("c17.well_known_parameters");
        }
    }
    store_failures(ctx, "C17");
    // ---- version and request frames
    ctx.line("u2f.reset", "");
    ctx.line("u2f.ver", &hexf(&Version.encode()));
    for _ in 0..(if ctx.thorough { 600 } else { 120 }) {
        let le: Vec<u8> = match ctx.rng.below(3) { 0 => vec![], 1 => vec![0, 0], _ => vec![1, 0] };
        match ctx.rng.below(3) {
            0 => { let d = ctx.rng.bytes(64); let f = frame(1, 0, &d, &le); parse_line(ctx, &f); }
            1 => { let hl = *ctx.rng.pick(&[0usize, 1, 16, 64, 128, 255]); let mut d = ctx.rng.bytes(64); d.push(hl as u8); d.extend(ctx.rng.bytes(hl));
                   let p1 = *ctx.rng.pick(&[3u8, 7, 8]); let f = frame(2, p1, &d, &le); parse_line(ctx, &f); }
            _ => { let f = frame(3, 0, &[], &le); parse_line(ctx, &f); }
        }
    }
    // ---- response encodings with every field filled in (the authenticator itself always leaves the certificate empty)
    for i in 0..(if ctx.thorough { 400 } else { 60 }) {
        use passkey_types::u2f::{AuthenticationResponse, PublicKey, RegisterResponse};
        let x = ctx.rng.bytes(32); let y = ctx.rng.bytes(32);
        let handle = { let n = *ctx.rng.pick(&[0usize, 1, 16, 64, 127, 128, 255]); ctx.rng.bytes(n) };
        let cert = if i % 4 == 0 { vec![] } else { ctx.rng.bytes_in(1, 300) };
        let sig = ctx.rng.bytes_in(0, 73);
        let enc = guarded(|| RegisterResponse { public_key: PublicKey { x: arr32(&x), y: arr32(&y) }, key_handle: handle.clone(), attestation_certificate: cert.clone(), signature: sig.clone() }.encode());
        ctx.line(&format!("u2f.encreg {} {} {} {} {}", hexf(&x), hexf(&y), hexf(&handle), hexf(&cert), hexf(&sig)), &enc.map(|e| hexf(&e)).unwrap_or("panic".into()));
        ctx.stat(if cert.is_empty() { "c17.encode.register.no_certificate" } else { "c17.encode.register.certificate" });
        let counter = match ctx.rng.below(4) { 0 => 0u32, 1 => u32::MAX, 2 => ctx.rng.below(256) as u32, _ => ctx.rng.below(1 << 32) as u32 };
        for presence in [0u8, 1] {
            let enc = guarded(|| AuthenticationResponse { user_presence: passkey_types::ctap2::Flags::from_bits_truncate(presence), counter, signature: sig.clone() }.encode());
            ctx.line(&format!("u2f.encauth {} {} {}", presence, counter, hexf(&sig)), &enc.map(|e| hexf(&e)).unwrap_or("panic".into()));
            ctx.stat("c17.encode.authenticate");
        }
    }
    ctx.line("u2f.end", "");
}
