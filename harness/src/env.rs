//! Shared instrumented environment: recording / fault-injecting credential store wrappers, a reference
//! store implementing the documented lookup contract, a configurable user-validation method, and a
//! tiny executor (the repository's futures need no runtime).
use async_trait::async_trait;
use passkey_authenticator::{CredentialStore, DiscoverabilitySupport, StoreInfo, UserCheck, UserValidationMethod};
use passkey_types::{
    ctap2::{
        get_assertion::Options,
        make_credential::{PublicKeyCredentialRpEntity, PublicKeyCredentialUserEntity},
        Ctap2Error, StatusCode,
    },
    webauthn::PublicKeyCredentialDescriptor,
    Passkey,
};
use std::future::Future;
use std::pin::Pin;
use std::sync::{Arc, Mutex};
use std::task::{Context, Poll, RawWaker, RawWakerVTable, Waker};

pub type Log = Arc<Mutex<Vec<String>>>;
pub fn new_log() -> Log { Arc::new(Mutex::new(vec![])) }
pub fn push(log: &Log, s: String) { log.lock().unwrap().push(s); }

/// C18 twin runs: everything the store and the user-validation mock are handed (request-derived parts only: ids
/// of credentials created during the run are random and are written as `new`), and a digest of each result
pub static DETAIL_ON: std::sync::atomic::AtomicBool = std::sync::atomic::AtomicBool::new(false);
pub static DETAIL: Mutex<Vec<String>> = Mutex::new(Vec::new());
pub static DETAIL_KNOWN_IDS: Mutex<Vec<Vec<u8>>> = Mutex::new(Vec::new());
pub fn detail(s: impl FnOnce() -> String) { if DETAIL_ON.load(std::sync::atomic::Ordering::Relaxed) { DETAIL.lock().unwrap().push(s()); } }
pub fn detail_id(id: &[u8]) -> String { if DETAIL_KNOWN_IDS.lock().unwrap().iter().any(|k| k == id) { id.iter().map(|b| format!("{:02x}", b)).collect() } else { "new".into() } }

fn noop_raw() -> RawWaker {
    fn clone(_: *const ()) -> RawWaker { noop_raw() }
    fn noop(_: *const ()) {}
    static VT: RawWakerVTable = RawWakerVTable::new(clone, noop, noop, noop);
    RawWaker::new(std::ptr::null(), &VT)
}
pub fn noop_waker() -> Waker { unsafe { Waker::from_raw(noop_raw()) } }

/// poll to completion with a no-op waker (every pending point in this harness is a deliberate yield)
pub fn block_on<F: Future>(f: F) -> F::Output {
    let mut f = Box::pin(f);
    let w = noop_waker();
    let mut cx = Context::from_waker(&w);
    let mut n = 0u64;
    loop {
        if let Poll::Ready(v) = f.as_mut().poll(&mut cx) { return v; }
        n += 1;
        if n > 1_000_000 { panic!("future never completed"); }
    }
}

/// poll at most `k` times; `None` = still pending (the caller then drops it = cancellation)
pub fn poll_n<F: Future>(f: Pin<&mut F>, k: usize) -> Option<F::Output> {
    let w = noop_waker();
    let mut cx = Context::from_waker(&w);
    let mut f = f;
    for _ in 0..k {
        if let Poll::Ready(v) = f.as_mut().poll(&mut cx) { return Some(v); }
    }
    None
}

/// a future that is pending exactly once
pub struct YieldOnce(bool);
impl Future for YieldOnce {
    type Output = ();
    fn poll(mut self: Pin<&mut Self>, cx: &mut Context<'_>) -> Poll<()> {
        if self.0 { Poll::Ready(()) } else { self.0 = true; cx.waker().wake_by_ref(); Poll::Pending }
    }
}
pub fn yield_once() -> YieldOnce { YieldOnce(false) }

pub fn hexs(b: &[u8]) -> String { crate::util::hexf(b) }

pub fn ids_str(ids: Option<&[PublicKeyCredentialDescriptor]>) -> String {
    match ids {
        None => "N".into(),
        Some(l) if l.is_empty() => "E".into(),
        Some(l) => l.iter().map(|d| hexs(&d.id)).collect::<Vec<_>>().join(","),
    }
}
pub fn opt_hex(b: Option<&[u8]>) -> String { b.map(hexs).unwrap_or("N".into()) }
pub fn opt_num(c: Option<u32>) -> String { c.map(|c| c.to_string()).unwrap_or("N".into()) }

/// The documented lookup contract: match by id list *and* RP ID; store order kept.
#[derive(Clone)]
pub struct RefStore {
    pub items: Vec<Passkey>,
    pub disc: fn() -> DiscoverabilitySupport,
    /// answer a lookup that matches nothing with an empty list instead of `NoCredentials` (the contract allows both)
    pub empty_ok: bool,
}
impl RefStore {
    pub fn new(disc: fn() -> DiscoverabilitySupport) -> Self { RefStore { items: vec![], disc, empty_ok: false } }
    pub fn new_empty_ok(disc: fn() -> DiscoverabilitySupport) -> Self { RefStore { items: vec![], disc, empty_ok: true } }
}
#[async_trait]
impl CredentialStore for RefStore {
    type PasskeyItem = Passkey;
    async fn find_credentials(&self, ids: Option<&[PublicKeyCredentialDescriptor]>, rp_id: &str) -> Result<Vec<Passkey>, StatusCode> {
        let v: Vec<Passkey> = self.items.iter()
            .filter(|p| p.rp_id == rp_id && ids.map_or(true, |l| l.iter().any(|d| d.id == p.credential_id)))
            .cloned().collect();
        if v.is_empty() && !self.empty_ok { Err(Ctap2Error::NoCredentials.into()) } else { Ok(v) }
    }
    async fn save_credential(&mut self, cred: Passkey, _u: PublicKeyCredentialUserEntity, _r: PublicKeyCredentialRpEntity, _o: Options) -> Result<(), StatusCode> {
        self.items.retain(|p| p.credential_id != cred.credential_id);
        self.items.push(cred);
        Ok(())
    }
    async fn update_credential(&mut self, cred: Passkey) -> Result<(), StatusCode> {
        for p in self.items.iter_mut() { if p.credential_id == cred.credential_id { *p = cred; return Ok(()); } }
        Err(Ctap2Error::NoCredentials.into())
    }
    async fn get_info(&self) -> StoreInfo { StoreInfo { discoverability: (self.disc)() } }
}

/// Recording, fault-injecting, optionally yielding wrapper around any store.
pub struct RecStore<S> {
    pub inner: S,
    pub log: Log,
    /// fault for the n-th store call (0-based, all four operations counted); `None` = no fault
    pub faults: Vec<Option<u8>>,
    pub calls: Arc<Mutex<usize>>,
    /// yield (return Pending once) before every call: creates a suspension point
    pub yields: bool,
    pub disc_override: Option<fn() -> DiscoverabilitySupport>,
    /// the passkey handed to the last save_credential call (also when the call was made to fail)
    pub last_saved: Arc<Mutex<Option<Passkey>>>,
}
impl<S> RecStore<S> {
    pub fn new(inner: S, log: Log) -> Self {
        RecStore { inner, log, faults: vec![], calls: Arc::new(Mutex::new(0)), yields: false, disc_override: None, last_saved: Arc::new(Mutex::new(None)) }
    }
    fn next_fault(&self) -> Option<u8> {
        let mut c = self.calls.lock().unwrap();
        let i = *c;
        *c += 1;
        self.faults.get(i).copied().flatten()
    }
}
#[async_trait]
impl<S: CredentialStore<PasskeyItem = Passkey> + Send + Sync> CredentialStore for RecStore<S> {
    type PasskeyItem = Passkey;
    async fn find_credentials(&self, ids: Option<&[PublicKeyCredentialDescriptor]>, rp_id: &str) -> Result<Vec<Passkey>, StatusCode> {
        if self.yields { yield_once().await; }
        detail(|| format!("find ids={:?} rp={:?}", ids.map(|l| l.iter().map(|d| (d.ty, detail_id(&d.id), d.transports.clone())).collect::<Vec<_>>()), rp_id));
        let head = format!("find:{}:{}", ids_str(ids), hexs(rp_id.as_bytes()));
        if let Some(e) = self.next_fault() { push(&self.log, format!("{}:err:{}", head, e)); return Err(StatusCode::from(e)); }
        let r = self.inner.find_credentials(ids, rp_id).await;
        match r {
            Ok(v) if v.is_empty() => { push(&self.log, format!("{}:err:{}", head, 0x2E)); Ok(v) }   // "nothing found", said with an empty list
            Ok(v) => { push(&self.log, format!("{}:ok:{}", head, if v.is_empty() { "E".to_string() } else { v.iter().map(|p| hexs(&p.credential_id)).collect::<Vec<_>>().join(",") })); Ok(v) }
            Err(e) => { let b = u8::from(e); push(&self.log, format!("{}:err:{}", head, b)); Err(StatusCode::from(b)) }
        }
    }
    async fn save_credential(&mut self, cred: Passkey, u: PublicKeyCredentialUserEntity, r: PublicKeyCredentialRpEntity, o: Options) -> Result<(), StatusCode> {
        if self.yields { yield_once().await; }
        let head = format!("save:{}:{}:{}:{}:{}:{}{}{}", hexs(&cred.credential_id), hexs(cred.rp_id.as_bytes()), opt_hex(cred.user_handle.as_deref().map(|v| &v[..])),
            opt_num(cred.counter), hexs(&u.id), o.rk as u8, o.up as u8, o.uv as u8);
        detail(|| format!("save rp={:?} uh={:?} ctr={:?} id_len={} hmac={} user={:?} rpent={:?} opts={:?}", cred.rp_id, cred.user_handle, cred.counter, cred.credential_id.len(),
            cred.extensions.hmac_secret.as_ref().map(|h| h.cred_without_uv.is_some()).map(|b| b.to_string()).unwrap_or("none".into()), u, r, (o.rk, o.up, o.uv)));
        *self.last_saved.lock().unwrap() = Some(cred.clone());
        if r.id != cred.rp_id { push(&self.log, format!("rp-entity-differs:{}", hexs(r.id.as_bytes()))); }
        if let Some(e) = self.next_fault() { push(&self.log, format!("{}:{}", head, e)); return Err(StatusCode::from(e)); }
        push(&self.log, format!("{}:ok", head));
        self.inner.save_credential(cred, u, r, o).await
    }
    async fn update_credential(&mut self, cred: Passkey) -> Result<(), StatusCode> {
        if self.yields { yield_once().await; }
        detail(|| format!("update id={} rp={:?} uh={:?} ctr={:?}", detail_id(&cred.credential_id), cred.rp_id, cred.user_handle, cred.counter));
        let head = format!("update:{}:{}", hexs(&cred.credential_id), opt_num(cred.counter));
        if let Some(e) = self.next_fault() { push(&self.log, format!("{}:{}", head, e)); return Err(StatusCode::from(e)); }
        match self.inner.update_credential(cred).await {
            Ok(()) => { push(&self.log, format!("{}:ok", head)); Ok(()) }
            Err(e) => { let b = u8::from(e); push(&self.log, format!("{}:{}", head, b)); Err(StatusCode::from(b)) }
        }
    }
    async fn get_info(&self) -> StoreInfo {
        if self.yields { yield_once().await; }
        { let mut c = self.calls.lock().unwrap(); *c += 1; }
        push(&self.log, "info".to_string());
        match self.disc_override { Some(f) => StoreInfo { discoverability: f() }, None => self.inner.get_info().await }
    }
}

/// configurable user validation
#[derive(Clone)]
pub struct Uv {
    pub presence_enabled: bool,
    pub verification: Option<bool>,
    /// what check_user answers: Ok((presence, verification)) or Err(code)
    pub answer: Result<(bool, bool), u8>,
    pub log: Log,
    pub yields: bool,
}
impl Uv {
    pub fn ok(log: Log) -> Self { Uv { presence_enabled: true, verification: Some(true), answer: Ok((true, true)), log, yields: false } }
}
#[async_trait]
impl UserValidationMethod for Uv {
    type PasskeyItem = Passkey;
    async fn check_user<'a>(&self, credential: Option<&'a Passkey>, presence: bool, verification: bool) -> Result<UserCheck, Ctap2Error> {
        if self.yields { yield_once().await; }
        push(&self.log, format!("uv:{}:{}:{}", credential.map(|c| hexs(&c.credential_id)).unwrap_or("N".into()), presence as u8, verification as u8));
        match self.answer {
            Ok((p, v)) => Ok(UserCheck { presence: p, verification: v }),
            Err(c) => Err(Ctap2Error::try_from(c).unwrap_or(Ctap2Error::OperationDenied)),
        }
    }
    fn is_presence_enabled(&self) -> bool { self.presence_enabled }
    fn is_verification_enabled(&self) -> Option<bool> { self.verification }
}
