//! C07: every store call of a ceremony made to fail (singly and in pairs, several status codes) and the
//! ceremony dropped after each possible number of resumptions, across requests with and without
//! extensions, counters and exclude / allow lists.
use crate::au::*;
use crate::util::Ctx;

// every family of status code, and 0x00 (`Ctap2Error::Ok` / `U2FError::Success` returned as an error)
const CODES: [u8; 7] = [0x01, 0x28, 0x2E, 0x7F, 0x30, 0xF2, 0x00];

fn make_variants(ctx: &mut Ctx, rp: &str, other: &[u8]) -> Vec<MakeOp> {
    let mut v = vec![];
    for excl in [false, true] { for rk in [false, true] { for ext in [false, true] {
        let mut m = simple_make(ctx, rp);
        if excl { m.exclude = Some(vec![other.to_vec(), vec![1, 2, 3]]); }
        m.rk = rk;
        if ext { m.ext = Some((None, false, Some(PrfI { eval: Some(PrfV { first: [3u8; 32], second: None }), by_cred: None }))); }
        v.push(m);
    } } }
    v
}

pub fn gen(ctx: &mut Ctx) {
    let rp = "example.com";
    let kinds = [Kind::RefFull, Kind::Map, Kind::Slot, Kind::RefArcMutex];
    let mut case_no = 0usize;
    // ---- registrations
    for (ki, kind) in kinds.iter().enumerate() {
        let slot = matches!(kind, Kind::Slot);
        for counter_on in [false, true] {
            let hm = if counter_on { Hm::NoUvMc } else { Hm::None };
            let pre_id = vec![0xD7, 1, 2, 3, 4, 5, 6, 7, 8, 9, 10, 11, 12, 13, 14, 15];
            let variants = make_variants(ctx, rp, &pre_id);
            for (vi, m) in variants.iter().enumerate() {
                // the quick tier takes a slice of the product, the thorough tier all of it
                if !ctx.thorough && (vi + ki + counter_on as usize) % 3 != 0 { continue; }
                let preload = |ctx: &mut Ctx| if slot { vec![] } else { vec![make_passkey(ctx, pre_id.clone(), "other.example", Some(vec![7]), Some(5), None)] };
                // single faults at every call index with every code
                for idx in 0..4usize { for code in CODES {
                    if !ctx.thorough && (idx + code as usize + vi) % 2 != 0 { continue; }
                    let mut f = vec![None; 4]; f[idx] = Some(code);
                    let mut s = step(Op::Make(m.clone())); s.faults = f;
                    let p = preload(ctx);
                    let w = World { kind: *kind, counter_on, id_len: 16, hm, preload: p };
                    let after = step(Op::Make(simple_make(ctx, rp)));     // the store still works afterwards
                    run_case(ctx, "C07", &w, &[s, after]); case_no += 1;
                    ctx.stat("c07.make.single_fault");
                } }
                // pairs
                for (a, b) in [(0usize, 1usize), (0, 2), (1, 2), (1, 3), (2, 3)] {
                    let mut f = vec![None; 4]; f[a] = Some(CODES[(a + vi) % 7]); f[b] = Some(CODES[(b + vi + 1) % 7]);
                    let mut s = step(Op::Make(m.clone())); s.faults = f;
                    let p = preload(ctx);
                    let w = World { kind: *kind, counter_on, id_len: 16, hm, preload: p };
                    run_case(ctx, "C07", &w, &[s]); case_no += 1;
                    ctx.stat("c07.make.double_fault");
                }
                // cancellation after each possible number of resumptions (beyond the last one the ceremony completes)
                for k in 0..8usize {
                    let mut s = step(Op::Make(m.clone())); s.cancel_after = Some(k);
                    if k % 3 == 2 { s.uv.answer = Ok((true, false)); }
                    let p = preload(ctx);
                    let w = World { kind: *kind, counter_on, id_len: 16, hm, preload: p };
                    let after = step(Op::Make(simple_make(ctx, rp)));
                    run_case(ctx, "C07", &w, &[s, after]); case_no += 1;
                    ctx.stat("c07.make.cancel");
                }
            }
        }
    }
    // ---- authentications
    for kind in kinds {
        for ctr in [None, Some(0u32), Some(41), Some(u32::MAX - 1), Some(u32::MAX)] {
            for with_allow in [true, false] { for ext in [0u8, 1, 2] {
                if kind == Kind::Map && !with_allow { continue; }
                if !ctx.thorough && (ext as usize + with_allow as usize + ctr.unwrap_or(1) as usize) % 2 != 0 { continue; }
                let id = vec![0xD8, 1, 2, 3, 4, 5, 6, 7, 8, 9, 10, 11, 12, 13, 14, 15];
                // ext 1: the credential has secrets; ext 2: PRF asked of a credential without secrets (fails after the counter step)
                let hs = if ext == 1 { Some((vec![1u8; 32], Some(vec![2u8; 32]))) } else { None };
                let mk = |ctx: &mut Ctx| make_passkey(ctx, id.clone(), rp, Some(vec![9]), ctr, hs.clone());
                let hm = if ext == 0 { Hm::None } else { Hm::NoUv };
                let get = |ctx: &mut Ctx| { let mut g = simple_get(ctx, rp); if with_allow { g.allow = Some(vec![id.clone()]); }
                    if ext != 0 { g.ext = Some((false, Some(PrfI { eval: Some(PrfV { first: [5u8; 32], second: None }), by_cred: None }))); } g };
                for idx in 0..2usize { for code in CODES {
                    let mut f = vec![None; 2]; f[idx] = Some(code);
                    let mut s = step(Op::Get(get(ctx))); s.faults = f;
                    let after = step(Op::Get(get(ctx)));
                    let p = mk(ctx);
                    let w = World { kind, counter_on: true, id_len: 16, hm, preload: vec![p] };
                    run_case(ctx, "C07", &w, &[s, after]); case_no += 1;
                    ctx.stat("c07.get.single_fault");
                } }
                { let mut s = step(Op::Get(get(ctx))); s.faults = vec![Some(0x7F), Some(0x01)];
                  let p = mk(ctx);
                  let w = World { kind, counter_on: true, id_len: 16, hm, preload: vec![p] };
                  run_case(ctx, "C07", &w, &[s]); case_no += 1; ctx.stat("c07.get.double_fault"); }
                for k in 0..6usize {
                    let mut s = step(Op::Get(get(ctx))); s.cancel_after = Some(k);
                    let after = step(Op::Get(get(ctx)));
                    let p = mk(ctx);
                    let w = World { kind, counter_on: true, id_len: 16, hm, preload: vec![p] };
                    run_case(ctx, "C07", &w, &[s, after]); case_no += 1;
                    ctx.stat("c07.get.cancel");
                }
            } }
        }
    }
    // ---- ceremonies that fail late: a PRF evaluation at creation that the configuration cannot serve without
    //      verification (fails after everything else succeeded), with and without faults / cancellation
    for kind in kinds {
        for k in 0..9usize {
            let mut m = simple_make(ctx, rp); m.uv = false;
            m.ext = Some((None, false, Some(PrfI { eval: Some(PrfV { first: [6u8; 32], second: None }), by_cred: None })));
            let mut s = step(Op::Make(m)); s.uv.answer = Ok((true, false));
            if k > 0 { s.cancel_after = Some(k - 1); }
            let w = World { kind, counter_on: true, id_len: 16, hm: Hm::UvOnlyMc, preload: vec![] };
            let after = step(Op::Make(simple_make(ctx, rp)));
            run_case(ctx, "C07", &w, &[s, after]); case_no += 1;
            ctx.stat("c07.make.late_failure");
        }
    }
    // ---- authentications without a presence test (up = false), with faults and cancellation
    for kind in kinds {
        for ctr in [Some(0u32), Some(41)] {
            let id = vec![0xD9, 1, 2, 3, 4, 5, 6, 7, 8, 9, 10, 11, 12, 13, 14, 15];
            for variant in 0..10usize {
                let mut g = simple_get(ctx, rp); g.allow = Some(vec![id.clone()]); g.up = false; g.uv = variant % 2 == 0;
                let mut s = step(Op::Get(g));
                match variant { 2 | 3 => s.faults = vec![None, Some(0x7F)], 4 | 5 => s.faults = vec![Some(0x28)], 6..=9 => s.cancel_after = Some(variant - 6), _ => {} }
                let mut g2 = simple_get(ctx, rp); g2.allow = Some(vec![id.clone()]); g2.up = false; g2.uv = false;
                let p = make_passkey(ctx, id.clone(), rp, Some(vec![9]), ctr, None);
                let w = World { kind, counter_on: true, id_len: 16, hm: Hm::None, preload: vec![p] };
                run_case(ctx, "C07", &w, &[s, step(Op::Get(g2))]); case_no += 1;
                ctx.stat("c07.get.silent");
            }
        }
    }
    // ---- through the client: whatever the caller is told went wrong, the store is as the statement says
    {
        use crate::cl::*;
        let site = "https://www.example.com";
        for kind in [Kind::RefFull, Kind::Map, Kind::Slot] {
            for variant in 0..6usize {
                let w = World { kind, counter_on: true, id_len: 16, hm: Hm::None, preload: vec![] };
                // a selection member with every attachment preference (the challenge's first byte picks it)
                let with_sel = |ctx: &mut Ctx| { let mut r = simple_reg(ctx, site, Some("example.com")); r.sel = Some(Sel { rk: None, rrk: false, uv: UvR::Preferred }); r };
                let mut steps = vec![cstep(COp::Reg(with_sel(ctx))), cstep(COp::Reg(with_sel(ctx))), cstep(COp::Reg(with_sel(ctx)))];
                let mut r = simple_reg(ctx, site, Some("example.com"));
                let mut a = simple_auth(ctx, site, Some("example.com")); a.allow_last = true;
                let (mut sr, mut sa) = (cstep(COp::Reg(r.clone())), cstep(COp::Auth(a.clone())));
                match variant {
                    0 => {}
                    1 => { sr.faults = vec![None, Some(0x28)]; sa.faults = vec![None, None, Some(0x28)]; }       // the save / the counter write-back refused
                    2 => { sr.uv.answer = Ok((true, false)); sa.uv.answer = Err(0x2F); }
                    3 => { r.algs = vec![-257]; sr = cstep(COp::Reg(r.clone())); a.allow = Some(vec![vec![9, 9]]); a.allow_last = false; sa = cstep(COp::Auth(a.clone())); }
                    4 => { sr.faults = vec![Some(0x7F)]; sa.faults = vec![None, Some(0x7F)]; }
                    _ => { sr.uv.answer = Err(0x27); sa.uv.answer = Ok((false, true)); }
                }
                steps.push(sr); steps.push(sa);
                steps.push(cstep(COp::Auth({ let mut b = simple_auth(ctx, site, Some("example.com")); b.allow_refs = vec![0]; b })));
                run_ccase(ctx, "C07", &w, &steps); case_no += 1;
                ctx.stat("c07.client_rows");
            }
        }
    }
    // ---- a shared store whose lock another user holds while the ceremony writes: the write waits, it is not skipped
    for kind in [Kind::RefArcRwLock, Kind::MapArcRwLock, Kind::SlotArcRwLock, Kind::RefArcMutex, Kind::MapArcMutex] {
        for (shared, polls) in [(true, 1usize), (true, 3), (false, 2)] {
            let id = vec![0xDA, 1, 2, 3, 4, 5, 6, 7, 8, 9, 10, 11, 12, 13, 14, polls as u8];
            let p = make_passkey(ctx, id.clone(), rp, Some(vec![9]), Some(0), None);
            let w = World { kind, counter_on: true, id_len: 16, hm: Hm::None, preload: vec![p] };
            let mut g = simple_get(ctx, rp); g.allow = Some(vec![id.clone()]);
            let mut s1 = step(Op::Get(g)); s1.hold_polls = polls; s1.hold_shared = shared;
            let mut s2 = step(Op::Make(simple_make(ctx, rp))); s2.hold_polls = polls; s2.hold_shared = shared;
            let mut g3 = simple_get(ctx, rp); g3.allow = Some(vec![id.clone()]);
            run_case(ctx, "C07", &w, &[s1, s2, step(Op::Get(g3))]); case_no += 1;
            ctx.stat("c07.store_locked_by_another_user");
        }
    }
    // ---- the U2F registration path saves through the same store: its refusal is an error there too
    crate::c17::store_failures(ctx, "C07");
    ctx.stat_n("c07.cases", case_no as u64);
}
